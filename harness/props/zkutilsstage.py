"""C09 (and C17, C18) add-on stage: the functions that perform the ZooKeeper writes - treadmill/zkutils.py (_payload,
create, put, update, get_with_metadata, get_default, ensure_exists, ensure_deleted) and scheduler/zkbackend.py
(ZkBackend, ZkReadonlyBackend).

Model Store/ZkUtils.v, proofs Store/ZkUtilsP.v, theorems Props/C09Zk.v (prefix C09Z_), translator section `zkutils`
(harness/tables_zkutils.py).

What runs: the REAL zkutils / ZkBackend functions on the REAL treadmill.zkutils.ZkClient (a kazoo.client.KazooClient:
its create(makepath=True) / ensure_path / argument checks are the real kazoo code) whose `_call` - the method that
queues a request for the connection - is replaced by an in-process ZooKeeper SERVER fake written here (the c17/c18
fakes replace the whole client, have no set / no ephemeral flag / no versions and ignore makepath=False, so they were
not reused).  The server fake follows ZooKeeper's PrepRequestProcessor: create = parent missing -> NoNode, sequence
suffix "%010d" % parent.cversion, existing -> NodeExists, ephemeral parent -> NoChildrenForEphemerals, parent.cversion
+= 1; setData bumps version; delete = NoNode / NotEmpty, parent.cversion += 1; children in creation order.
"""
import json
import logging
import random
import threading
import time

from .. import core
from .. import gallina as G

PID = 'C09'
PROPS = 'C09Zk'
SECTIONS = ('zkutils',)
MODEL_VOS = ['Store/ZkUtils', 'Store/ZkUtilsRun', 'Gen/Tables', 'Base/Flat']
PREAMBLE = ('From Coq Require Import ZArith List.\nImport ListNotations.\n'
            'From TM Require Import Store.ZkUtils Store.ZkUtilsRun.\nOpen Scope Z_scope.\n')
RUN_FN = 'run_case'
IN_TYPE = 'list path * list op'
ANCHORS = ['lib/python/treadmill/zkutils.py', 'lib/python/treadmill/scheduler/zkbackend.py']
ENGINE = 'E-zkutils'

NAMES = ['a', 'b', 'c', 'placement']
PAYLOADS = [
    ['none'], ['none'],
    ['bytes', ''], ['bytes', ' \n x: 1 \n\n'], ['bytes', '\tabc  '], ['bytes', '{"k": 2}'], ['bytes', '\n'],
    ['bytes', 'abc'], ['bytes', '\x00\xff\x80 raw'],
    ['str', 'abc'], ['str', ' padded \n'], ['str', ''], ['str', 'café'],
    ['obj', {'b': 1, 'a': [1, 2]}], ['obj', {}], ['obj', [3, 'x']], ['obj', 7], ['obj', {'k': 2}],
    ['obj', {'identity': 0, 'expires': None, 'name': '', 'traits': [], 'k': 2}],      # a record with falsy fields
]
ACLS = [None, None, [], ['srv'], ['del']]
_SENTINEL = {'__default__': 1}

_IMPL = None


def impl():
    global _IMPL
    if _IMPL is None:
        import sys
        if core.PYLIB not in sys.path:
            sys.path.insert(0, core.PYLIB)
        import kazoo.exceptions as kx
        from kazoo.handlers.utils import AsyncResult
        from kazoo.protocol import serialization as ser
        from kazoo.protocol.states import ZnodeStat
        from treadmill import zkutils
        from treadmill.scheduler import zkbackend, backend
        _IMPL = dict(kx=kx, AsyncResult=AsyncResult, ser=ser, ZnodeStat=ZnodeStat, zkutils=zkutils,
                     zkbackend=zkbackend, backend=backend, Client=_make_client(zkutils, kx, ser, ZnodeStat, AsyncResult))
    return _IMPL


# ------------------------------------------------------------------ the ZooKeeper server fake under the real client
class _SyncQueue(object):
    def put(self, fn):
        fn()


class _SyncHandler(object):
    """kazoo handler whose callbacks run at once, in the calling thread (no connection, no threads)"""
    name = 'sync'
    running = True
    _running = True
    timeout_exception = Exception

    def __init__(self):
        self.completion_queue = _SyncQueue()
        self.callback_queue = _SyncQueue()

    @staticmethod
    def sleep_func(_s):
        return None

    def start(self):
        pass

    def stop(self):
        pass

    def event_object(self):
        return threading.Event()

    def lock_object(self):
        return threading.Lock()

    def rlock_object(self):
        return threading.RLock()

    def async_result(self):
        return impl()['AsyncResult'](self, threading.Condition, Exception)

    def dispatch_callback(self, cb):
        cb.func(*cb.args)


def _parent(path):
    par = path.rsplit('/', 1)[0]
    return par or '/'


def _make_client(zkutils, kx, ser, ZnodeStat, AsyncResult):
    class Client(zkutils.ZkClient):
        def __init__(self):
            super(Client, self).__init__(hosts='127.0.0.1:1', handler=_SyncHandler())
            self.nodes = {'/': dict(data=b'', eph=False, ver=0, cver=0, acl=[31])}
            self.requests = 0

        def _call(self, request, async_object):
            self.requests += 1
            try:
                async_object.set(self._serve(request))
            except kx.ZookeeperError as e:
                async_object.set_exception(e)
            return True

        def _stat(self, path):
            n = self.nodes[path]
            return ZnodeStat(0, 0, 0, 0, n['ver'], n['cver'], 0, 1 if n['eph'] else 0, len(n['data']),
                             len(self._children(path)), 0)

        def _children(self, path):
            pre = path.rstrip('/') + '/'
            return [p[len(pre):] for p in self.nodes if p != '/' and p.startswith(pre) and '/' not in p[len(pre):]]

        def _serve(self, rq):
            if isinstance(rq, (ser.Create, ser.Create2)):
                path, seq, eph = rq.path, bool(rq.flags & 2), bool(rq.flags & 1)
                par = _parent(path)
                if par not in self.nodes:
                    raise kx.NoNodeError()
                pn = self.nodes[par]
                if seq:
                    path = '%s%010d' % (path, pn['cver'])
                if path in self.nodes:
                    raise kx.NodeExistsError()
                if pn['eph']:
                    raise kx.NoChildrenForEphemeralsError()
                assert isinstance(rq.data, bytes)
                self.nodes[path] = dict(data=rq.data, eph=eph, ver=0, cver=0, acl=[a.perms for a in rq.acl])
                pn['cver'] += 1
                return (path, self._stat(path)) if isinstance(rq, ser.Create2) else path
            path = rq.path
            if path not in self.nodes:
                if isinstance(rq, ser.Exists):
                    return None       # kazoo.protocol.connection: NoNode of an Exists request is the value None
                raise kx.NoNodeError()
            n = self.nodes[path]
            if isinstance(rq, ser.Exists):
                return self._stat(path)
            if isinstance(rq, ser.GetData):
                return n['data'], self._stat(path)
            if isinstance(rq, ser.SetData):
                assert isinstance(rq.data, bytes)
                n['data'] = rq.data
                n['ver'] += 1
                return self._stat(path)
            if isinstance(rq, ser.SetACL):
                n['acl'] = [a.perms for a in rq.acls]
                return self._stat(path)
            if isinstance(rq, (ser.GetChildren, ser.GetChildren2)):
                ch = self._children(path)
                return (ch, self._stat(path)) if isinstance(rq, ser.GetChildren2) else ch
            if isinstance(rq, ser.Delete):
                if path == '/':
                    raise kx.BadArgumentsError()
                if self._children(path):
                    raise kx.NotEmptyError()
                del self.nodes[path]
                self.nodes[_parent(path)]['cver'] += 1
                return True
            raise AssertionError('request not served by the fake: %r' % (rq,))

        def snapshot(self):
            return {p: (n['data'], n['eph'], n['ver'], n['cver'], tuple(n['acl'])) for p, n in self.nodes.items()
                    if p != '/'}
    return Client


# ------------------------------------------------------------------ cases
def _path(rng):
    depth = rng.choice([1, 2, 2, 2, 3, 3, 3, 4])
    segs = []
    for k in range(depth):
        segs.append(rng.choice(['a', 'a', 'a', 'b', 'b', 'c'] + (['placement', 'placement'] if k == 0 else [])))
    return '/' + '/'.join(segs)


def _payload_d(rng):
    return rng.choice(PAYLOADS)


def gen_case(rng, i):
    ops = []
    for _k in range(rng.randint(4, 11)):
        x = rng.random()
        p = _path(rng)
        if rng.random() < 0.06:
            # one backend object coming back to a path it has already written / removed (what a long-lived master does:
            # an instance moves away from a server and back): anything the object remembers about a path shows here
            q = '/placement/%s/%s' % (rng.choice('ab'), rng.choice('ab')) if rng.random() < 0.6 else p
            d1, d2 = _payload_d(rng), _payload_d(rng)
            ops.extend(rng.choice([
                [['bk_put', q, d1], ['bk_delete', q], ['bk_put', q, d2], ['bk_delete', q], ['bk_exists', q]],
                [['bk_delete', q], ['bk_put', q, d1], ['bk_get', q], ['bk_delete', q], ['bk_list', _parent(q) if _parent(q) != '/' else q]],
                [['bk_put', q, d1], ['bk_get', q], ['bk_put', q, d2], ['bk_get', q]],
                [['bk_ensure', q], ['bk_delete', q], ['bk_ensure', q], ['bk_exists', q]],
            ]))
            continue
        if ops and rng.random() < 0.35:          # come back to a path already used (or its parent / a child)
            q = rng.choice(ops)[1]
            y = rng.random()
            p = q if y < 0.6 else (_parent(q) if y < 0.8 and _parent(q) != '/' else q + '/' + rng.choice('ab'))
            if p.count('/') > 4:
                p = q
        flag = lambda pr=0.5: rng.random() < pr   # noqa: E731
        if rng.random() < 0.05:
            # a hand-made node whose name is the one the next sequence create under this parent will pick
            ops.append(['raw', '%s%010d' % (p, rng.choice([1, 1, 0, 2])), '', None, False, False, True])
            ops.append(rng.choice([['put', p, _payload_d(rng), None, True, True, False, flag()],
                                   ['ensure_exists', p, None, True, _payload_d(rng)],
                                   ['create', p, _payload_d(rng), None, True, True, False]]))
            continue
        if x < 0.10:
            raw_p = p
            if flag(0.4):                          # a hand-made name of the form a sequence create would produce
                raw_p = '%s%010d' % (p, rng.choice([0, 0, 1, 2]))
            ops.append(['raw', raw_p, rng.choice(['', 'x', ' y\n']), rng.choice(ACLS), flag(0.5), flag(0.15), flag(0.5)])
        elif x < 0.22:
            ops.append(['create', p, _payload_d(rng), rng.choice(ACLS), flag(0.2), flag(0.7), flag(0.25)])
        elif x < 0.42:
            ops.append(['put', p, _payload_d(rng), rng.choice(ACLS), flag(0.15), flag(0.7), flag(0.2), flag(0.5)])
        elif x < 0.50:
            ops.append(['update', p, _payload_d(rng), flag(0.5)])
        elif x < 0.55:
            ops.append(['get', p])
        elif x < 0.58:
            ops.append(['get_default', p])
        elif x < 0.66:
            ops.append(['ensure_exists', p, rng.choice(ACLS), flag(0.15), _payload_d(rng)])
        elif x < 0.76:
            ops.append(['ensure_deleted', p, flag(0.7)])
        elif x < 0.82:
            ops.append(['bk_put', p, _payload_d(rng)])
        elif x < 0.85:
            ops.append(['bk_ensure', p])
        elif x < 0.89:
            ops.append(['bk_delete', p])
        elif x < 0.92:
            ops.append(['bk_update', p, _payload_d(rng), flag(0.5)])
        elif x < 0.97:
            ops.append([rng.choice(['bk_get', 'bk_get_default', 'bk_list', 'bk_exists']), p])
        else:
            k = rng.choice(['ro_put', 'ro_ensure', 'ro_delete', 'ro_update'])
            ops.append([k, p] + ([_payload_d(rng)] if k in ('ro_put', 'ro_update') else [])
                       + ([flag(0.5)] if k == 'ro_update' else []))
    return {'ops': ops}


def py_value(d):
    if d[0] == 'none':
        return None
    if d[0] == 'bytes':
        return d[1].encode('latin-1')
    return d[1]


def ref_payload(d):
    """the statement's _payload: None -> b''; bytes verbatim; text utf-8; anything else canonical json"""
    if d[0] == 'none':
        return b''
    if d[0] == 'bytes':
        return d[1].encode('latin-1')
    if d[0] == 'str':
        return d[1].encode('utf-8')
    return json.dumps(d[1], sort_keys=True, separators=(', ', ': ')).encode('utf-8')


def _acl_objs(client, a):
    if a is None:
        return None
    return [client.make_servers_acl() if x == 'srv' else client.make_servers_del_acl() for x in a]


_EXC = None


def _exc_code(e):
    m = impl()
    kx = m['kx']
    table = [(kx.NoNodeError, 1), (kx.NodeExistsError, 2), (kx.NotEmptyError, 3),
             (kx.NoChildrenForEphemeralsError, 4), (kx.BadArgumentsError, 5), (m['backend'].ObjectNotFoundError, 6)]
    for cls, code in table:
        if type(e) is cls:
            return code
    return None


def impl_run(case):
    """-> {'steps': [{'res': flat result, 'tree': snapshot, 'acl': backend acl or None, 'decoded': ...}], 'probes'}"""
    m = impl()
    zu = m['zkutils']
    c = m['Client']()
    bk = m['zkbackend'].ZkBackend(c)
    ro = m['zkbackend'].ZkReadonlyBackend(c)
    steps = []
    for op in case['ops']:
        k, p = op[0], op[1]
        before = c.snapshot()
        st = {'before': before, 'acl': None, 'decoded': None, 'exc': None}
        if k in ('bk_put', 'bk_ensure'):
            a = bk._acl(p)
            st['acl'] = None if a is None else [x.perms for x in a]
        try:
            if k == 'raw':
                r = c.create(p, op[2].encode('latin-1'), acl=_acl_objs(c, op[3]), ephemeral=op[4], sequence=op[5],
                             makepath=op[6])
            elif k == 'create':
                r = zu.create(c, p, py_value(op[2]), acl=_acl_objs(c, op[3]), sequence=op[4], default_acl=op[5],
                              ephemeral=op[6])
            elif k == 'put':
                r = zu.put(c, p, py_value(op[2]), acl=_acl_objs(c, op[3]), sequence=op[4], default_acl=op[5],
                           ephemeral=op[6], check_content=op[7])
            elif k == 'update':
                r = zu.update(c, p, py_value(op[2]), check_content=op[3])
            elif k == 'get':
                dec, stat = zu.get_with_metadata(c, p, strict=False)
                st['decoded'] = json.dumps(dec, sort_keys=True, default=repr)
                if zu.get(c, p, strict=False) != dec:
                    st['decoded'] = 'get != get_with_metadata'
                r = ('data', before[p][0], stat.version)
            elif k == 'get_default':
                dec = zu.get_default(c, p, strict=False, default=_SENTINEL)
                r = ('default',) if dec is _SENTINEL else ('data', before[p][0], before[p][2])
            elif k == 'ensure_exists':
                r = zu.ensure_exists(c, p, acl=_acl_objs(c, op[2]), sequence=op[3], data=py_value(op[4]))
            elif k == 'ensure_deleted':
                r = zu.ensure_deleted(c, p, recursive=op[2])
            elif k == 'bk_put':
                r = bk.put(p, py_value(op[2]))
            elif k == 'bk_ensure':
                r = bk.ensure_exists(p)
            elif k == 'bk_delete':
                r = bk.delete(p)
            elif k == 'bk_update':
                r = bk.update(p, py_value(op[2]), op[3])
            elif k == 'bk_get':
                dec = bk.get(p)
                st['decoded'] = json.dumps(dec, sort_keys=True, default=repr)
                if ro.get_with_metadata(p)[0] != dec or ro.get(p) != dec:
                    st['decoded'] = 'backend get != get_with_metadata (%r)' % (ro.get_with_metadata(p)[0],)
                r = ('data', before[p][0], before[p][2])
            elif k == 'bk_get_default':
                dec = bk.get_default(p, default=_SENTINEL)
                if dec is not _SENTINEL:
                    st['decoded'] = json.dumps(dec, sort_keys=True, default=repr)
                r = ('default',) if dec is _SENTINEL else ('data', before[p][0], before[p][2])
            elif k == 'bk_list':
                r = ('list', list(bk.list(p)))
            elif k == 'bk_exists':
                r = ('bool', bk.exists(p) is not None)
            elif k == 'ro_put':
                r = ro.put(p, py_value(op[2]))
            elif k == 'ro_ensure':
                r = ro.ensure_exists(p)
            elif k == 'ro_delete':
                r = ro.delete(p)
            elif k == 'ro_update':
                r = ro.update(p, py_value(op[2]), op[3])
            else:
                raise AssertionError('unknown op %r' % (k,))
            st['res'] = _flat_res(r)
        except Exception as e:   # noqa
            code = _exc_code(e)
            if code is None and k in ('get', 'get_default', 'bk_get', 'bk_get_default') and p in before \
                    and type(e).__module__.split('.')[0] in ('yaml', 'json'):
                # the decoder (json, then yaml; strict) rejected the stored bytes: the codec is not modelled, the
                # read itself succeeded
                st['res'] = _flat_res(('data', before[p][0], before[p][2]))
                st['exc'] = 'decode: %s' % type(e).__name__
            elif code is None:
                # an exception the model has no tag for (e.g. yaml error of a strict get): reported, never equal
                st['res'] = [7, 50]
                st['exc'] = '%s: %s' % (type(e).__name__, str(e)[:120])
            else:
                st['res'] = [7, code]
                st['exc'] = type(e).__name__
        st['after'] = c.snapshot()
        steps.append(st)
    probes = set()
    for op, st in zip(case['ops'], steps):
        probes.add(op[1])
        probes.update(st['after'])
    probes.discard('/')
    return {'steps': steps, 'probes': sorted(probes)}


def _segs(path):
    return [s for s in path.split('/')[1:]] if path != '/' else []


def _fseg(bs):
    return [len(bs)] + list(bs)


def _fpath(path):
    out = [len(_segs(path))]
    for s in _segs(path):
        out += _fseg(s.encode('latin-1'))
    return out


def _flat_res(r):
    if r is None:
        return [0]
    if isinstance(r, str):
        return [2] + _fpath(r)
    if r[0] == 'data':
        return [3, r[2]] + _fseg(r[1])
    if r[0] == 'default':
        return [6]
    if r[0] == 'list':
        out = [5, len(r[1])]
        for s in r[1]:
            out += _fseg(s.encode('latin-1'))
        return out
    if r[0] == 'bool':
        return [4, 1 if r[1] else 0]
    raise AssertionError('result %r' % (r,))


def expected(case, obs):
    out = []
    for st in obs['steps']:
        out += st['res']
        out.append(len(st['after']))
        for q in obs['probes']:
            n = st['after'].get(q)
            if n is None:
                out.append(0)
            else:
                out += [1, 1 if n[1] else 0, n[2], n[3]] + _fseg(n[4]) + _fseg(n[0])
    return out


# ------------------------------------------------------------------ Gallina terms
def _t_path(path):
    return G.lst([G.zlist(list(s.encode('latin-1'))) for s in _segs(path)])


def _t_val(d):
    if d[0] == 'none':
        return 'PNone'
    if d[0] == 'bytes':
        return '(PBytes %s)' % G.zlist(list(d[1].encode('latin-1')))
    return '(POther %s)' % G.zlist(list(ref_payload(d)))


_ACL_CODE = {'srv': 31, 'del': 8}


def _t_acl(a):
    return 'None' if a is None else '(Some %s)' % G.zlist([_ACL_CODE[x] for x in a])


def _t_acl_perms(a):
    return 'None' if a is None else '(Some %s)' % G.zlist(a)


def _t_op(op, st):
    k, p = op[0], _t_path(op[1])
    b = G.b
    if k == 'raw':
        return '(ORaw %s %s %s %s %s %s)' % (p, G.zlist(list(op[2].encode('latin-1'))), _t_acl(op[3]), b(op[4]),
                                             b(op[5]), b(op[6]))
    if k == 'create':
        return '(OCreate %s %s %s %s %s %s)' % (p, _t_val(op[2]), _t_acl(op[3]), b(op[4]), b(op[5]), b(op[6]))
    if k == 'put':
        return '(OPut %s %s %s %s %s %s %s)' % (p, _t_val(op[2]), _t_acl(op[3]), b(op[4]), b(op[5]), b(op[6]), b(op[7]))
    if k == 'update':
        return '(OUpdate %s %s %s)' % (p, _t_val(op[2]), b(op[3]))
    if k == 'get':
        return '(OGet %s)' % p
    if k == 'get_default':
        return '(OGetDefault %s)' % p
    if k == 'ensure_exists':
        return '(OEnsureExists %s %s %s %s)' % (p, _t_acl(op[2]), b(op[3]), _t_val(op[4]))
    if k == 'ensure_deleted':
        return '(OEnsureDeleted %s %s)' % (p, b(op[2]))
    if k == 'bk_put':
        return '(OBkPut %s %s %s)' % (p, _t_val(op[2]), _t_acl_perms(st['acl']))
    if k == 'bk_ensure':
        return '(OBkEnsure %s %s)' % (p, _t_acl_perms(st['acl']))
    if k == 'bk_delete':
        return '(OBkDelete %s)' % p
    if k == 'bk_update':
        return '(OBkUpdate %s %s %s)' % (p, _t_val(op[2]), b(op[3]))
    if k in ('bk_get', 'bk_get_default', 'bk_list', 'bk_exists'):
        return '(%s %s)' % ({'bk_get': 'OBkGet', 'bk_get_default': 'OBkGetDefault', 'bk_list': 'OBkList',
                             'bk_exists': 'OBkExists'}[k], p)
    if k == 'ro_put':
        return '(ORoPut %s %s)' % (p, _t_val(op[2]))
    if k == 'ro_ensure':
        return '(ORoEnsure %s)' % p
    if k == 'ro_delete':
        return '(ORoDelete %s)' % p
    if k == 'ro_update':
        return '(ORoUpdate %s %s %s)' % (p, _t_val(op[2]), b(op[3]))
    raise AssertionError(k)


def case_term(case, obs):
    return '(%s, %s)' % (G.lst([_t_path(q) for q in obs['probes']]),
                         G.lst([_t_op(op, st) for op, st in zip(case['ops'], obs['steps'])]))


# ------------------------------------------------------------------ the oracle: statements (a), (c), (f), (g)
def _below(p, q):
    return q == p or q.startswith(p + '/')


def _ancestors(p):
    out = []
    while _parent(p) != '/':
        p = _parent(p)
        out.append(p)
    return out


def _same_but_cver(x, y):
    return x is not None and y is not None and (x[0], x[1], x[2], x[4]) == (y[0], y[1], y[2], y[4])


def oracle(case, obs):
    hits = []
    m = impl()
    zu = m['zkutils']
    # (g) _payload of bytes is the identity, of None is empty
    for d in PAYLOADS:
        if d[0] in ('none', 'bytes'):
            got = zu._payload(py_value(d))
            if type(got) is not bytes or got != ref_payload(d):
                hits.append(('zk-payload-bytes-changed', '_payload(%r) = %r' % (py_value(d), got)))
                break
    for i, (op, st) in enumerate(zip(case['ops'], obs['steps'])):
        k, p = op[0], op[1]
        bef, aft = st['before'], st['after']
        ok = st['res'][0] != 7
        if st['res'] == [7, 50]:
            hits.append(('zk-unexpected-exception', 'step %d %s %s: %s' % (i, k, p, st['exc'])))
        if k in ('put', 'bk_put', 'create') and not (k != 'bk_put' and op[4]):     # not a sequence create
            d = op[2]
            if k == 'create' and p in bef:
                # (c) create of an existing node: NodeExistsError, tree unchanged, whatever the payload
                if st['res'] != [7, 2]:
                    hits.append(('zk-create-existing-no-error',
                                 'step %d: create(%s) of an existing node returned %r' % (i, p, st['res'])))
                if aft != bef:
                    hits.append(('zk-create-existing-changed-tree', 'step %d: create(%s)' % (i, p)))
                continue
            if not ok:
                continue
            # (a) / (c): the node holds the payload; the others are unchanged; exactly the missing ancestors are new
            if p not in aft or aft[p][0] != ref_payload(d):
                hits.append(('zk-put-get-differs' if k != 'create' else 'zk-create-wrong-node',
                             'step %d: %s(%s, %r) stored %r, the payload is %r'
                             % (i, k, p, py_value(d), aft.get(p, (None,))[0], ref_payload(d))))
            if k == 'create' and (p not in aft or aft[p][1] != bool(op[6]) or aft[p][2] != 0):
                hits.append(('zk-create-wrong-node', 'step %d: create(%s) ephemeral flag / version' % (i, p)))
            for q in set(bef) | set(aft):
                if q == p:
                    continue
                if q in bef and not _same_but_cver(bef[q], aft.get(q)):
                    hits.append(('zk-put-touched-other-node', 'step %d: %s(%s) changed %s' % (i, k, p, q)))
                if q not in bef and (q not in _ancestors(p) or aft[q][0] != b'' or aft[q][1]):
                    hits.append(('zk-put-created-other-node', 'step %d: %s(%s) created %s' % (i, k, p, q)))
            for q in _ancestors(p):
                if q not in aft:
                    hits.append(('zk-put-missing-ancestor', 'step %d: %s(%s) without %s' % (i, k, p, q)))
        if k in ('ensure_deleted', 'bk_delete'):
            recursive = True if k == 'bk_delete' else op[2]
            if p not in bef and (not ok or aft != bef):
                hits.append(('zk-ensure-deleted-absent', 'step %d: ensure_deleted(%s) of an absent node: %r'
                             % (i, p, st['res'])))
            if ok and (recursive or not any(_below(p, q) and q != p for q in bef)):
                left = [q for q in aft if _below(p, q)]
                if left:
                    hits.append(('zk-ensure-deleted-leftover', 'step %d: ensure_deleted(%s) left %r' % (i, p, left)))
                for q in bef:
                    if not _below(p, q) and not _same_but_cver(bef[q], aft.get(q)):
                        hits.append(('zk-ensure-deleted-touched-other', 'step %d: ensure_deleted(%s) changed %s'
                                     % (i, p, q)))
                if [q for q in aft if q not in bef]:
                    hits.append(('zk-ensure-deleted-touched-other', 'step %d: ensure_deleted(%s) created nodes' % (i, p)))
            if not ok and recursive:
                hits.append(('zk-ensure-deleted-raised', 'step %d: ensure_deleted(%s, recursive) raised %s'
                             % (i, p, st['exc'])))
        if k in ('get', 'bk_get', 'bk_get_default') and ok and p in bef and st['decoded'] is not None:
            # (a) read side: a dict written by put comes back as that dict
            raw = bef[p][0]
            for d in PAYLOADS:
                if d[0] == 'obj' and ref_payload(d) == raw and st['decoded'] != json.dumps(d[1], sort_keys=True):
                    hits.append(('zk-put-get-differs', 'step %d: get(%s) = %s for stored %r' % (i, p, st['decoded'], raw)))
                    break
    seen = set()
    out = []
    for s, w in hits:
        if s not in seen:
            seen.add(s)
            out.append((s, w))
    return out


# ------------------------------------------------------------------ the stage
def _quiet():
    lg = logging.getLogger('treadmill')
    state = (lg.disabled,)
    lg.disabled = True
    return lg, state


def _distribution(cases, obs):
    d = {'op_kinds': {}, 'outcomes': {}, 'depth': {}, 'payload_kind': {}, 'flags': {}, 'events': {}}

    def inc(t, k):
        d[t][k] = d[t].get(k, 0) + 1
    names = {0: 'None', 2: 'path', 3: 'data', 4: 'bool', 5: 'list', 6: 'default'}
    exn = {1: 'NoNodeError', 2: 'NodeExistsError', 3: 'NotEmptyError', 4: 'NoChildrenForEphemeralsError',
           5: 'BadArgumentsError', 6: 'ObjectNotFoundError', 50: 'other'}
    for c, o in zip(cases, obs):
        for op, st in zip(c['ops'], o['steps']):
            k, p = op[0], op[1]
            inc('op_kinds', k)
            inc('depth', str(p.count('/')))
            inc('outcomes', '%s:%s' % (k, exn[st['res'][1]] if st['res'][0] == 7 else names[st['res'][0]]))
            for a in op[2:]:
                if isinstance(a, list) and a and a[0] in ('none', 'bytes', 'str', 'obj'):
                    inc('payload_kind', a[0])
            bef, aft = st['before'], st['after']
            if k in ('put', 'create', 'ensure_exists', 'bk_put', 'bk_ensure', 'raw'):
                inc('events', 'target_exists' if p in bef else 'target_missing')
                if _parent(p) != '/' and _parent(p) not in bef:
                    inc('events', 'parent_missing')
                if len(aft) - len(bef) > 1:
                    inc('events', 'ancestors_created')
            if k == 'put' and op[7] and p in bef:
                inc('events', 'check_content_same' if aft == bef else 'check_content_differs')
            if k in ('put', 'create', 'ensure_exists', 'raw') and op[{'put': 4, 'create': 4, 'ensure_exists': 3,
                                                                       'raw': 5}[k]]:
                inc('flags', 'sequence')
                if st['res'] == [7, 2] or (k == 'put' and st['res'][0] in (0, 2) and len(aft) == len(bef)
                                           and p in bef and aft != bef):
                    inc('events', 'sequence_name_collision')
            if k in ('ensure_deleted', 'bk_delete'):
                sub = [q for q in bef if _below(p, q)]
                inc('events', 'delete_absent' if p not in bef else
                    ('delete_subtree' if len(sub) > 1 else 'delete_leaf'))
            if any(n[1] for n in aft.values()):
                inc('events', 'tree_has_ephemeral')
    return d


def stage(r, seed, tier, n=None):
    t0 = time.time()
    rng = random.Random(seed + 9091)
    n = n or (800 if tier == 'quick' else 12000)
    lg, state = _quiet()
    try:
        return _stage(r, seed, tier, rng, n, t0)
    except Exception as exc:   # never lose the verdict
        import traceback
        r.broken_obligation('correspondence', 'C09 zkutils stage failed: %s: %s' % (type(exc).__name__, str(exc)[:300]),
                            traceback.format_exc())
        return {'zkutils_stage': {'error': '%s: %s' % (type(exc).__name__, str(exc)[:300])}, 'zkutils_obligations': 0}
    finally:
        lg.disabled = state[0]


def _stage(r, seed, tier, rng, n, t0):
    with core.build_lock():
        terr = core.regen_tables()
        for sec, msg in terr:
            if sec in SECTIONS:
                r.broken_obligation('tables', 'translator section %s' % sec, msg)
        okm, logm = core.make(MODEL_VOS)
        proof = core.compile_props(PROPS)
    if not proof['ok']:
        r.broken_obligation('proof', proof['failed'] or 'Props/%s.v' % PROPS, proof['log'])
    elif not proof['axioms_ok']:
        r.broken_obligation('proof', 'Props/%s.v Print Assumptions: %s' % (PROPS, ', '.join(proof['axioms'])))
    cases = [gen_case(rng, i) for i in range(n)]
    obs, pairs = [], []
    nviol = [0]

    def consider(c, o):
        for sig, what in oracle(c, o):
            nviol[0] += 1
            r.violation(sig, what, {'engine': ENGINE, 'case': c}, {'impl_observed': _brief(o)})
    harness_errors = []
    for c in cases:
        try:
            o = impl_run(c)
            consider(c, o)
            pairs.append((case_term(c, o), G.zlist(expected(c, o))))
        except Exception as exc:
            import traceback
            harness_errors.append('%s: %s' % (type(exc).__name__, str(exc)[:200]))
            if len(harness_errors) == 1:
                r.broken_obligation('correspondence', 'C09 zkutils stage could not drive the implementation (%s)'
                                    % harness_errors[0], traceback.format_exc())
            o = {'harness_error': harness_errors[-1]}
            pairs.append(None)
        obs.append(o)
    live = [(i, p) for i, p in enumerate(pairs) if p is not None]
    mism, err = [], None
    with core.build_lock():
        core.regen_tables()
        okm2, logm2 = core.make(MODEL_VOS)
        if not (okm and okm2):
            err = 'model does not build: ' + (logm2 if not okm2 else logm)[-1200:]
        elif live:
            mm, err = core.run_mismatches(PREAMBLE, RUN_FN, [p for _i, p in live], IN_TYPE, shard=100, timeout=600,
                                          tag='cases_zkutils')
            mism = [live[j][0] for j in mm]
            if mism:
                smallest = min(mism, key=lambda i: len(json.dumps(cases[i], default=str)))
                mo, _e = core.model_output(PREAMBLE, RUN_FN, pairs[smallest][0])
                r.broken_obligation('correspondence',
                                    'C09 zkutils: model vs implementation: %d of %d op sequences differ'
                                    % (len(mism), len(live)),
                                    json.dumps({'case': cases[smallest], 'impl_observed': _brief(obs[smallest]),
                                                'impl_flat': expected(cases[smallest], obs[smallest]),
                                                'model_flat': mo}, default=str))
    if err:
        r.broken_obligation('correspondence', 'C09 zkutils: the model could not be evaluated', err)
    searched = 0
    mine_broken = (not proof['ok']) or (not proof['axioms_ok']) or err or mism or harness_errors \
        or any(sec in SECTIONS for sec, _m in terr)
    if mine_broken and not nviol[0]:
        rng2 = random.Random(seed + 9092)
        t_end = time.time() + (10 if tier == 'quick' else 300)
        for _k in range(6000 if tier == 'quick' else 200000):
            searched += 1
            c = gen_case(rng2, searched)
            try:
                consider(c, impl_run(c))
            except Exception:   # noqa
                continue
            if nviol[0] > 20 or time.time() > t_end:
                break
    okobs = [(c, o) for c, o in zip(cases, obs) if 'harness_error' not in o]
    cov = {
        'cases': len(cases), 'ops': sum(len(c['ops']) for c in cases), 'correspondence_cases': len(live),
        'correspondence_mismatches': len(mism), 'oracle_violations': nviol[0], 'extra_search_cases': searched,
        'harness_errors': len(harness_errors),
        'distribution': _distribution([c for c, _o in okobs], [o for _c, o in okobs]),
        'theorems': proof['theorems'], 'proof_ok': bool(proof['ok'] and proof['axioms_ok']),
        'print_assumptions': ('all closed under the global context (%d)' % proof['closed_count']
                              if not proof['axioms'] else 'axioms: ' + ', '.join(proof['axioms'])),
        'checker_cmd': proof['cmd'], 'table_sections': list(SECTIONS),
        'source_sha256': core.source_hashes(ANCHORS), 'wall_s': round(time.time() - t0, 2),
        'rule': 'seeded (random.Random(seed+9091)): 4-11 calls per sequence from the empty tree; paths of depth 1-4 '
                '(12/38/38/12 %) over the segments a (50%) b c and, first segment only, placement; 35% of the calls '
                'come back to an earlier path, its parent or a child; calls: zkclient.create (10%, half ephemeral, '
                '40% with a hand-made name of sequence form, half without makepath; 5% of the positions are a hand-made '
                '"<path>%010d" followed by a sequence put / ensure_exists / create of <path>), zkutils create 12 / put 20 / '
                'update 8 / get_with_metadata+get 5 / get_default 3 / ensure_exists 8 / ensure_deleted 10 (70% '
                'recursive), ZkBackend put 6 / ensure_exists 3 / delete 4 / update 3 / get, get_default, list, exists 5, '
                'ZkReadonlyBackend writers 3; payloads None, bytes (empty, leading+trailing blanks and newlines, NUL / '
                'non-ascii bytes, json text), str (incl. non-ascii), dict / list / int; acl None / [] / servers / '
                'servers-delete; sequence 15-20%, ephemeral 20-25%, default_acl 70%, check_content 50%',
    }
    return {'zkutils_stage': cov, 'zkutils_obligations': len(proof['theorems'])}


def _brief(o):
    if 'steps' not in o:
        return o
    return [{'res': st['res'], 'exc': st['exc'], 'nodes_after': sorted(st['after'])} for st in o['steps']]


TRUSTED = [
    'Props/C09Zk.v: Coq 8.16.1 kernel; vm_compute for C09Z_tables_ok and the Examples; Print Assumptions closed',
    'translator harness/tables_zkutils.py: bodies of zkutils._payload/create/put/update/get/get_with_metadata/'
    'get_default/ensure_exists/ensure_deleted and of the ZkReadonlyBackend/ZkBackend methods pinned by AST template; '
    'the retry table (which exception of which primitive is caught and what follows) extracted from the try '
    'statements; fail-closed',
    'hand-written model Store/ZkUtils.v, tied by differential execution of the real functions on the real '
    'treadmill.zkutils.ZkClient / kazoo.client.KazooClient with KazooClient._call served by an in-process ZooKeeper '
    'server fake (harness/props/zkutilsstage.py): one session, sequential requests, no watches, no connection loss',
    'the server fake follows ZooKeeper PrepRequestProcessor for create / setData / delete / setACL / getChildren '
    '(error order, sequence suffix = parent cversion, cversion bumps); ACLs are stored, never enforced',
    'the text encoder of _payload (str.encode, json.dumps(sort_keys=True).encode) and the decoder of get '
    '(json / yaml) are not modelled: the model is given the encoded bytes; the read side is checked by the oracle '
    'on dicts only',
]
ASSUMPTIONS = [
    'a single client: between the NodeExistsError of create and the following get / set of put / ensure_exists no '
    'other session deletes the node (otherwise NoNodeError propagates out of put)',
    'ZkBackend._acl(path) is an input of the model (what the real method returned is passed to the model)',
]


def replay_case(case):
    c = case['case'] if isinstance(case, dict) and case.get('engine') == ENGINE else case
    lg, state = _quiet()
    try:
        v = oracle(c, impl_run(c))
    finally:
        lg.disabled = state[0]
    return v[0] if v else None
