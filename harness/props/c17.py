"""C17: PresenceResourceService (services/presence_service.py) as several clients (sessions) against one
in-memory ZooKeeper fake vs Node/Presence.v.

Each client runs the REAL on_create_request / on_delete_request in its own thread; control passes by baton so
that a thread yields before every fake-ZooKeeper call; the seed chooses the interleaving, the requests
(successive containers of the same instance on two hosts, clean-up of old containers) and session expiries.

Second stage (harness/props/c17ep.py, Node/EpPresence.v): the hostname comparison of presence.EndpointPresence.unregister_*
and the placement check of trace.app.zk._unschedule, on operation lists of several hosts, compared with the model after
every operation and judged by an oracle of its own."""
import json
import random
import sys
import threading

from .. import core, gallina as G

PID = 'C17'
ANCHORS = ['lib/python/treadmill/services/presence_service.py', 'lib/python/treadmill/presence.py',
           'lib/python/treadmill/zkutils.py', 'lib/python/treadmill/trace/app/zk.py']
PREAMBLE = ('From Coq Require Import ZArith List.\nImport ListNotations.\n'
            'From TM Require Import Node.Presence.\nOpen Scope Z_scope.\n')
RUN_FN = 'run_case'
IN_TYPE = 'state * list action'
HOSTS = ['nodea', 'nodeb', 'nodec']
OPCODE = {'create': 1, 'get': 2, 'set': 3, 'exists': 4, 'children': 5, 'delete': 6}

_IMPL = None


def impl():
    global _IMPL
    if _IMPL is None:
        sys.path.insert(0, core.PYLIB)
        import logging
        logging.disable(logging.CRITICAL)
        import kazoo.exceptions
        from kazoo.protocol.states import ZnodeStat
        from treadmill import utils, zknamespace as z, appcfg
        from treadmill.services import presence_service

        def _no_exit(code):
            raise RuntimeError('sys_exit(%s)' % code)
        utils.sys_exit = _no_exit          # exit_on_unhandled must not kill the harness

        class Svc(presence_service.PresenceResourceService):
            """the real service; only the ZooKeeper handle, the host name and retry_request come from the harness"""

            def __init__(self, zk, hostname):
                super().__init__()
                self.hostname = hostname
                self._zk = zk
                zk.svc = self

            zkclient = property(lambda self: self._zk)

            def retry_request(self, rsrc_id):
                self._zk.note_retry(rsrc_id)
        _IMPL = {'kz': kazoo.exceptions, 'Stat': ZnodeStat, 'z': z, 'appcfg': appcfg, 'Svc': Svc}
    return _IMPL


# ------------------------------------------------------------------ shared in-memory ZooKeeper + per-session client
class Server:
    def __init__(self):
        self.nodes = {}          # path -> [data bytes, owner session (0 = not ephemeral)]   (creation order)
        self.watches = {}        # path -> [(client, func)]
        self.oplog = []
        self.timeline = []       # harness-side history: requests issued, calls observed, completions, expiries
        self.firing = False

    def fire_deleted(self, path):
        class _Ev:
            type = 'DELETED'
        lst = self.watches.pop(path, [])
        self.firing = True
        try:
            for cl, func in lst:
                if cl.alive:
                    func(None, None, _Ev())
        finally:
            self.firing = False

    def expire(self, sid):
        gone = [p for p, (_d, o) in self.nodes.items() if o == sid]
        for p in gone:
            del self.nodes[p]
        for p in list(self.watches):
            self.watches[p] = [(c, f) for c, f in self.watches[p] if c.sid != sid]
        for p in gone:
            self.fire_deleted(p)


class _Expired(Exception):
    pass


class Client:
    """kazoo-client look-alike bound to one session; every call is a yield point"""

    def __init__(self, server, idx, sid):
        self.server, self.idx, self.sid = server, idx, sid
        self.alive = True
        self.svc = None
        self.retries = []
        self.req = None              # (kind, rid) being processed
        self.result = None
        self.last = None
        self.go = threading.Semaphore(0)
        self.parked = threading.Semaphore(0)
        self.thread = None
        self.busy = False
        self.outcome = None

    # ---- baton
    def begin(self, fn):
        self.busy = True
        self.outcome = None
        self.thread = threading.Thread(target=self._run, args=(fn,), daemon=True)
        self.thread.start()
        self._wait()
        self._reap()

    def _run(self, fn):
        try:
            from treadmill import logcontext
            logcontext.LOCAL_.ctx = []      # the thread-local list exists only in the importing thread
            fn()
            self.outcome = 'done'
        except _Expired:
            self.outcome = 'expired'
        except Exception as e:          # pylint: disable=broad-except
            self.outcome = 'error:%s' % type(e).__name__
        finally:
            self.busy = False
            self.parked.release()

    def _reap(self):
        if not self.busy and self.thread is not None:
            self.thread.join()
            self.thread = None
            if self.req is not None:
                self.server.timeline.append(['done', self.idx, self.sid, self.req[0], self.req[1], self.outcome,
                                             isinstance(self.result, dict)])
            self.req = None
            self.result = None

    def _yield(self):
        if threading.current_thread() is not self.thread:
            # a ZooKeeper call made outside the request thread (from a watch callback fired by another client's step):
            # it runs to completion where it is fired - there is no baton to hand back, waiting for one would hang
            return
        self.parked.release()
        self.go.acquire()
        if not self.alive:
            raise _Expired()

    def _wait(self):
        if not self.parked.acquire(timeout=60):
            raise RuntimeError('client thread %d did not yield' % self.idx)

    def step(self):
        self.go.release()
        self._wait()
        self._reap()

    def kill(self):
        self.alive = False
        if self.busy:
            self.go.release()
            self._wait()
            self._reap()

    # ---- bookkeeping
    def _log(self, op, path, ok, data=None, ephemeral=None):
        node = self.server.nodes.get(path)
        app = None
        reg = None
        if self.req is not None:
            app = impl()['appcfg'].app_name(self.req[1])
            reg = self.svc.presence.get(app, {}).get(path)
        e = {'client': self.idx, 'sid': self.sid, 'op': op, 'path': path, 'ok': ok, 'data': data,
             'owner_before': node[1] if node else None, 'ephemeral': ephemeral,
             'node_data': node[0].decode() if node else None,
             'req': list(self.req) if self.req else None, 'reg': reg, 'retry': False}
        self.server.timeline.append(['call', len(self.server.oplog)])
        self.server.oplog.append(e)
        self.last = e
        return e

    def note_retry(self, rid):
        self.retries.append(rid)
        if not self.server.firing and self.last is not None:
            self.last['retry'] = True

    # ---- kazoo API used by the code under test
    @property
    def client_id(self):
        return (self.sid, b'')

    def make_servers_acl(self):
        return None

    def make_default_acl(self, acl):
        return acl

    def _stat(self, path):
        data, owner = self.server.nodes[path]
        return impl()['Stat'](0, 0, 0, 0, 0, 0, 0, owner, len(data), 0, 0)

    def create(self, path, value=b'', acl=None, ephemeral=False, sequence=False, makepath=False):
        self._yield()
        assert not sequence and isinstance(value, bytes)
        if path in self.server.nodes:
            self._log('create', path, False, value, ephemeral)
            raise impl()['kz'].NodeExistsError(path)
        self._log('create', path, True, value, ephemeral)
        self.server.nodes[path] = [value, self.sid if ephemeral else 0]
        return path

    def get(self, path, watch=None):
        self._yield()
        if path not in self.server.nodes:
            self._log('get', path, False)
            raise impl()['kz'].NoNodeError(path)
        self._log('get', path, True)
        return self.server.nodes[path][0], self._stat(path)

    def exists(self, path, watch=None):
        self._yield()
        ok = path in self.server.nodes
        self._log('exists', path, ok)
        return self._stat(path) if ok else None

    def set(self, path, value, version=-1):
        self._yield()
        if path not in self.server.nodes:
            self._log('set', path, False, value)
            raise impl()['kz'].NoNodeError(path)
        self._log('set', path, True, value)
        self.server.nodes[path][0] = value
        return self._stat(path)

    def get_children(self, path, watch=None):
        self._yield()
        if path not in self.server.nodes:
            self._log('children', path, False)
            raise impl()['kz'].NoNodeError(path)
        self._log('children', path, True)
        pre = path + '/'
        return [p[len(pre):] for p in self.server.nodes if p.startswith(pre) and '/' not in p[len(pre):]]

    def delete(self, path, version=-1, recursive=False):
        self._yield()
        if path not in self.server.nodes:
            self._log('delete', path, False)
            raise impl()['kz'].NoNodeError(path)
        self._log('delete', path, True)
        del self.server.nodes[path]
        self.server.fire_deleted(path)

    def DataWatch(self, path):
        """kazoo.recipe.watchers.DataWatch: get(watch); NoNode -> exists(watch); callback(data, stat, None);
        keeps watching while the callback returns True. Later DELETED events call the callback directly."""
        def register(func):
            try:
                data, stat = self.get(path)
            except impl()['kz'].NoNodeError:
                stat = self.exists(path)
                if stat is not None:                       # node re-appeared: kazoo re-reads asynchronously and watches
                    self.server.watches.setdefault(path, []).append((self, func))
                    return func
                data = None
            if func(data, stat, None) is not False:
                self.server.watches.setdefault(path, []).append((self, func))
            return func
        return register


# ------------------------------------------------------------------ cases
def gen_case(rng, i):
    napps = 1 if rng.random() < 0.75 else 2
    return {'seed': rng.randint(0, 2 ** 31), 'steps': rng.randint(12, 60), 'nclients': 2 if rng.random() < 0.85 else 3,
            'napps': napps, 'p_expire': rng.choice([0.0, 0.02, 0.05, 0.1]), 'stale': rng.random() < 0.35,
            'identity': rng.random() < 0.5, 'same_port': rng.random() < 0.4}


class World:
    """names, paths and payloads of a case, shared by the driver, the oracle and the term emitter"""

    def __init__(self, case):
        im = impl()
        self.z = im['z']
        self.apps = ['proid.web#%010d' % (12 + k) for k in range(case['napps'])]
        self.paths = []
        self.datas = [b'']

    def pcode(self, path):
        if path not in self.paths:
            self.paths.append(path)
        return self.paths.index(path) + 1

    def dcode(self, data):
        if data not in self.datas:
            self.datas.append(data)
        return self.datas.index(data)

    def acode(self, app):
        return self.apps.index(app) + 1

    @staticmethod
    def rid_code(rid):
        return int(rid.rsplit('-', 1)[1])

    def items(self, host, app, data):
        """(path, payload bytes) that on_create_request registers, in order"""
        z = self.z
        out = [(z.path.running(app), host.encode())]
        for ep in data.get('endpoints', []):
            out.append((z.path.endpoint(app, ep.get('proto', 'tcp'), ep.get('name', str(ep['port']))),
                        ('%s:%s' % (host, ep['real_port'])).encode()))
        if data.get('identity_group'):
            out.append((z.path.identity_group(data['identity_group'], str(data['identity'])),
                        json.dumps({'host': host, 'app': app}, sort_keys=True).encode()))
        return out


def _rid(app, n):
    return '%s-%04d' % (app.replace('#', '-'), n)


def drive(case):
    """run the implementation; returns (effective actions, world, server, clients, initial description)"""
    im = impl()
    rng = random.Random(case['seed'])
    w = World(case)
    srv = Server()
    for d in ('/running', '/endpoints', '/endpoints/proid', '/identity-groups', '/identity-groups/proid.ig'):
        srv.nodes[d] = [b'', 0]
    ncl = case['nclients']
    clients = []
    next_sid = [101]

    def new_client(idx):
        c = Client(srv, idx, next_sid[0])
        next_sid[0] += 1
        im['Svc'](c, HOSTS[idx])
        return c
    for idx in range(ncl):
        clients.append(new_client(idx))
    counter = [0]
    active = [dict() for _ in range(ncl)]       # rid -> rsrc_data of create requests not yet deleted
    seen = [list() for _ in range(ncl)]         # every rid ever requested on the client

    def new_data(app):
        eps = []
        for name, port in (('http', 8000), ('ssh', 22)):
            if rng.random() < 0.6:
                eps.append({'name': name, 'port': port, 'proto': 'tcp',
                            'real_port': 5000 if case['same_port'] else 5000 + rng.randint(0, 2)})
        d = {'endpoints': eps}
        if case['identity'] and rng.random() < 0.6:
            d['identity_group'] = 'proid.ig'
            d['identity'] = rng.randint(0, 1) + 2 * w.apps.index(app)     # an identity is held by one instance
        return d
    # initial (possibly stale) state: nodes owned by some session and entries in the services' local maps
    init = {'nodes': [], 'pmaps': [[] for _ in range(ncl)]}
    if case['stale']:
        for app in w.apps:
            full = {'endpoints': [{'name': 'http', 'port': 8000, 'proto': 'tcp', 'real_port': 5000}],
                    'identity_group': 'proid.ig', 'identity': 2 * w.apps.index(app)}
            for idx in range(ncl):
                for path, payload in w.items(HOSTS[idx], app, full):
                    r = rng.random()
                    if r < 0.3 and path not in srv.nodes:
                        owner = clients[rng.randrange(ncl)].sid
                        if rng.random() < 0.2:
                            payload = b'stale'
                        srv.nodes[path] = [payload, owner]
                        init['nodes'].append([path, payload.decode(), owner])
                    if rng.random() < 0.3:
                        rid = _rid(app, 900 + rng.randint(0, 1))
                        if path not in clients[idx].svc.presence[app]:
                            clients[idx].svc.presence[app][path] = rid
                            init['pmaps'][idx].append([app, path, rid])
                            if rid not in seen[idx]:
                                seen[idx].append(rid)
    actions = []

    def do_req(idx, kind, rid, data):
        c = clients[idx]
        c.req = (kind, rid)
        svc = c.svc
        app = im['appcfg'].app_name(rid)
        items = [[p_, d_.decode()] for p_, d_ in w.items(HOSTS[idx], app, data)] if kind == 'create' else []
        srv.timeline.append(['req', idx, c.sid, kind, rid, app, items])

        def _create():
            c.result = svc.on_create_request(rid, data)
        if kind == 'create':
            active[idx][rid] = data
            if rid not in seen[idx]:
                seen[idx].append(rid)
            c.begin(_create)
        else:
            active[idx].pop(rid, None)
            c.begin(lambda: svc.on_delete_request(rid))
        actions.append(['req', idx, kind, rid, data])
    for _ in range(case['steps']):
        idx = rng.randrange(ncl)
        c = clients[idx]
        if not c.alive:
            if rng.random() < 0.5:
                clients[idx] = new_client(idx)
                active[idx], seen[idx] = {}, []
                actions.append(['restart', idx])
            continue
        if rng.random() < case['p_expire']:
            c.kill()
            srv.expire(c.sid)
            srv.timeline.append(['expire', idx, c.sid])
            actions.append(['expire', idx])
            continue
        if c.busy:
            c.step()
            actions.append(['step', idx])
            continue
        retry = [r for r in c.retries if r in active[idx]]
        c.retries = []
        r = rng.random()
        if retry and r < 0.7:
            do_req(idx, 'create', retry[0], active[idx][retry[0]])
        elif r < 0.55 or not seen[idx]:
            counter[0] += 1
            app = rng.choice(w.apps)
            do_req(idx, 'create', _rid(app, counter[0]), new_data(app))
        elif r < 0.65 and active[idx]:
            rid = rng.choice(sorted(active[idx]))
            do_req(idx, 'create', rid, active[idx][rid])           # spurious re-evaluation
        else:
            do_req(idx, 'delete', rng.choice(seen[idx]), None)
    # let every busy client finish (so that no thread is left), recorded as further steps
    for idx, c in enumerate(clients):
        guard = 0
        while c.alive and c.busy and guard < 100:
            c.step()
            actions.append(['step', idx])
            guard += 1
    return actions, w, srv, clients, init


def impl_run(case):
    actions, w, srv, clients, init = drive(case)
    nodes = [[p, d.decode(), o] for p, (d, o) in srv.nodes.items() if o != 0 or p.count('/') > 2 or p.startswith('/running/')]
    nodes = [n for n in nodes if n[0] not in ('/endpoints/proid', '/identity-groups/proid.ig')]
    cl = []
    for c in clients:
        pm = sorted([app, path, rid] for app, d in c.svc.presence.items() for path, rid in d.items())
        cl.append({'sid': c.sid, 'alive': c.alive, 'idle': c.alive and not c.busy, 'pmap': pm})
    for e in srv.oplog:
        if isinstance(e['data'], bytes):
            e['data'] = e['data'].decode()
    return {'actions': actions, 'oplog': srv.oplog, 'nodes': nodes, 'clients': cl, 'init': init,
            'timeline': srv.timeline}


# ------------------------------------------------------------------ canoniser + Gallina terms
class Coder:
    def __init__(self, case, obs):
        self.w = World(case)
        w = self.w
        # fixed code tables: every path / payload that occurs, in order of first occurrence
        for p, d, _o in obs['init']['nodes']:
            w.pcode(p), w.dcode(d.encode())
        for pm in obs['init']['pmaps']:
            for _a, p, _r in pm:
                w.pcode(p)
        for a in obs['actions']:
            if a[0] == 'req' and a[2] == 'create':
                app = impl()['appcfg'].app_name(a[3])
                for p, d in w.items(HOSTS[a[1]], app, a[4]):
                    w.pcode(p), w.dcode(d)
        for e in obs['oplog']:
            w.pcode(e['path'])
            if e['data'] is not None:
                w.dcode(e['data'].encode())
        for p, d, _o in obs['nodes']:
            w.pcode(p), w.dcode(d.encode())

    def app_of(self, rid):
        return impl()['appcfg'].app_name(rid)


def expected(case, obs):
    cd = Coder(case, obs)
    w = cd.w
    out = []
    ops = list(obs['oplog'])
    k = 0
    for a in obs['actions']:
        out.append(1)
        if a[0] == 'step':
            e = ops[k]
            k += 1
            assert e['client'] == a[1]
            out += [e['client'], OPCODE[e['op']], w.pcode(e['path']),
                    w.dcode(e['data'].encode()) if e['op'] in ('create', 'set') else 0,
                    1 if e['ok'] else 0, 1 if e['retry'] else 0]
    assert k == len(ops), (k, len(ops))
    out.append(len(obs['nodes']))
    for p, d, o in obs['nodes']:
        out += [w.pcode(p), w.dcode(d.encode()), o]
    for c in obs['clients']:
        out += [c['sid'], 1 if c['alive'] else 0, 1 if c['idle'] else 0, len(c['pmap'])]
        pm = sorted([w.acode(a), w.pcode(p), World.rid_code(r)] for a, p, r in c['pmap'])
        for e in pm:
            out += e
    return out


def case_term(case, obs):
    cd = Coder(case, obs)
    w = cd.w
    nodes = G.lst(['{| n_path := %s; n_data := %s; n_owner := %s |}' % (G.z(w.pcode(p)), G.z(w.dcode(d.encode())), G.z(o))
                   for p, d, o in obs['init']['nodes']])
    cls = []
    for idx in range(case['nclients']):
        pm = G.lst(['{| pe_app := %s; pe_path := %s; pe_rid := %s |}' % (G.z(w.acode(a)), G.z(w.pcode(p)), G.z(World.rid_code(r)))
                    for a, p, r in obs['init']['pmaps'][idx]])
        cls.append('{| c_sess := %s; c_alive := true; c_pmap := %s; c_pc := PIdle |}' % (G.z(101 + idx), pm))
    st = '{| st_zk := %s; st_clients := %s; st_next := %s |}' % (nodes, G.lst(cls), G.z(101 + case['nclients']))
    acts = []
    for a in obs['actions']:
        if a[0] == 'req':
            rid, app = World.rid_code(a[3]), w.acode(cd.app_of(a[3]))
            if a[2] == 'create':
                items = G.lst([G.pair(G.z(w.pcode(p)), G.z(w.dcode(d))) for p, d in w.items(HOSTS[a[1]], cd.app_of(a[3]), a[4])])
                acts.append('AReq %s (RCreate %s %s %s)' % (G.nat(a[1]), G.z(rid), G.z(app), items))
            else:
                acts.append('AReq %s (RDelete %s %s)' % (G.nat(a[1]), G.z(rid), G.z(app)))
        elif a[0] == 'step':
            acts.append('AStep %s' % G.nat(a[1]))
        elif a[0] == 'expire':
            acts.append('AExpire %s' % G.nat(a[1]))
        else:
            acts.append('ARestart %s' % G.nat(a[1]))
    return G.pair(st, G.lst(acts))


# ------------------------------------------------------------------ oracle: the statement of C17 on the implementation's calls
def oracle(case, obs):
    out = []

    def bad(sig, what):
        if not any(s == sig for s, _ in out):
            out.append((sig, what))
    for n, e in enumerate(obs['oplog']):
        where = 'call %d: client %d (session %s) %s %s during %s' % (n, e['client'], e['sid'], e['op'], e['path'], e['req'])
        if e['op'] in ('set', 'delete') and e['ok'] and e['owner_before'] != e['sid']:
            bad('mutates-foreign-node', '%s: the node is owned by session %s' % (where, e['owner_before']))
        if e['op'] == 'create' and e['ok'] and not e['ephemeral']:
            bad('creates-non-ephemeral-node', where)
        if e['op'] == 'delete':
            if not e['req'] or e['req'][0] != 'delete':
                bad('delete-outside-delete-request', where)
            elif e['reg'] != e['req'][1]:
                bad('delete-unregistered-path', '%s: the path is registered for %s' % (where, e['reg']))
        if e['op'] == 'set' and (not e['req'] or e['req'][0] != 'create'):
            bad('set-outside-create-request', where)
    for sig, what in ghost_check(obs):
        bad(sig, what)
    return out or None


def ghost_check(obs):
    """Registration tracking that does NOT read the service's own presence map.

    From the requests the harness issues (rid, expected (path, payload) items) and the ZooKeeper calls it observes
    while each request is served, track per path which container's create request most recently (re)registered
    it: a successful create, a successful set, or a get that finds the node owned by the caller's session with
    exactly the payload of the request (the adoption branch of _safe_create).  A delete performed while serving
    on_delete_request(rid) must not hit a path whose latest registration belongs to another container; and at the
    end every path of a live, fully registered container (last registrant of the path) must exist, owned by it."""
    out = []
    oplog = obs['oplog']
    latest = {}        # path -> (sid, rid): current node at path was last (re)registered by rid
    lastreg = {}       # (sid, path) -> rid of the last registration on that session
    cur = {}           # client index -> request being served
    live = {}          # (sid, app) -> (rid, items): most recently COMPLETED create, nothing started for the app since
    for ev in obs['timeline']:
        if ev[0] == 'req':
            _t, idx, sid, kind, rid, app, items = ev
            cur[idx] = {'sid': sid, 'kind': kind, 'rid': rid, 'app': app, 'items': {p: d for p, d in items}}
            if kind == 'create' or live.get((sid, app), (None,))[0] == rid:
                live.pop((sid, app), None)
        elif ev[0] == 'call':
            e = oplog[ev[1]]
            r = cur.get(e['client'])
            path = e['path']
            if e['op'] == 'delete' and e['ok']:
                reg = latest.pop(path, None)
                if r and r['kind'] == 'delete' and reg and reg[1] != r['rid']:
                    out.append(('cleanup-of-old-container-deletes-newer-registration',
                                'call %d: client %d (session %s) serving on_delete_request(%s) deletes %s, whose latest '
                                'registration was made by the create request of %s (session %s)'
                                % (ev[1], e['client'], e['sid'], r['rid'], path, reg[1], reg[0])))
            elif r and r['kind'] == 'create' and e['ok'] and path in r['items']:
                adopted = (e['op'] == 'get' and e['owner_before'] == e['sid'] and e['node_data'] == r['items'][path])
                if e['op'] in ('create', 'set') or adopted:
                    latest[path] = (e['sid'], r['rid'])
                    lastreg[(e['sid'], path)] = r['rid']
        elif ev[0] == 'done':
            _t, idx, sid, kind, rid, outcome, is_dict = ev
            r = cur.pop(idx, None)
            if r and kind == 'create' and outcome == 'done' and is_dict:
                live[(sid, r['app'])] = (rid, r['items'])
                # first sentence of C17: a create request is acknowledged only once every node of the container has
                # been created (or adopted / updated) under the service's own session while serving THIS request
                for p in sorted(r['items']):
                    if latest.get(p) != (sid, rid):
                        out.append(('create-acknowledged-without-registration',
                                    'client %d (session %s) acknowledged the create request of %s although %s %s'
                                    % (idx, sid, rid, p,
                                       ('was last registered by %s (session %s)' % (latest[p][1], latest[p][0]))
                                       if p in latest else 'was not registered by it')))
                        break
        elif ev[0] == 'expire':
            _t, idx, sid = ev
            cur.pop(idx, None)
            for p in [p for p, v in latest.items() if v[0] == sid]:
                del latest[p]
            for k in [k for k in live if k[0] == sid]:
                del live[k]
    nodes = {p: o for p, _d, o in obs['nodes']}
    for (sid, _app), (rid, items) in sorted(live.items()):
        for p in items:
            if lastreg.get((sid, p)) == rid and nodes.get(p) != sid:
                out.append(('registered-path-missing-for-live-container',
                            'at the end %s (registered by the completed create request of %s, session %s, never deleted '
                            'or superseded) %s' % (p, rid, sid, 'is owned by %s' % nodes[p] if p in nodes else 'does not exist')))
    return out


def nontrivial(case, obs):
    """two sessions met on one path (a get saw a foreign owner) AND a node went away (successful delete or expiry)"""
    met = any(e['op'] == 'get' and e['ok'] and e['owner_before'] != e['sid'] for e in obs['oplog'])
    gone = any(e['op'] == 'delete' and e['ok'] for e in obs['oplog']) or any(a[0] == 'expire' for a in obs['actions'])
    return met and gone


def _extra(_r, cases, obs):
    d = {'zk_calls': 0, 'create_exists': 0, 'foreign_owner_seen': 0, 'updates': 0, 'deletes': 0, 'expiries': 0,
         'restarts': 0, 'retries': 0, 'watch_reads': 0, 'requests': 0, 'skipped_foreign_on_delete': 0}
    for o in obs:
        for a in o['actions']:
            d['expiries'] += a[0] == 'expire'
            d['restarts'] += a[0] == 'restart'
            d['requests'] += a[0] == 'req'
        for e in o['oplog']:
            d['zk_calls'] += 1
            d['create_exists'] += e['op'] == 'create' and not e['ok']
            d['foreign_owner_seen'] += e['op'] == 'get' and e['ok'] and e['owner_before'] != e['sid']
            d['skipped_foreign_on_delete'] += (e['op'] == 'get' and e['ok'] and e['owner_before'] != e['sid']
                                               and bool(e['req']) and e['req'][0] == 'delete')
            d['updates'] += e['op'] == 'set'
            d['deletes'] += e['op'] == 'delete'
            d['retries'] += bool(e['retry'])
            d['watch_reads'] += e['op'] == 'exists'
    return {'distribution': {k: int(v) for k, v in d.items()}}


TRUSTED = [
    'Coq 8.16.1 kernel (coqc); vm_compute only for the Examples of Props/C17.v',
    'Print Assumptions: closed under the global context for every theorem of Props/C17.v',
    'hand-written small-step model Node/Presence.v of PresenceResourceService.on_create_request/on_delete_request/'
    '_safe_create/_safe_delete/_watch (one ZooKeeper call per step, defunctionalised continuation), tied by differential '
    'execution: same requests and interleaving, compared call by call (op, path, data, result, retry) and on the final node '
    'table and presence maps',
    'ZooKeeper is modelled: atomic linearizable single-node calls, ephemeral nodes removed at session expiry, session ids never '
    'reused; the in-memory fake of harness/props/c17.py implements exactly that, with kazoo DataWatch reduced to its initial '
    'get/exists reads plus a DELETED callback',
    'the baton-passing scheduler: client threads yield before every fake-ZooKeeper call, one runs at a time',
    'paths, payloads, container ids are Z codes; payload comparison in _safe_create is equality of codes',
    'hand-written model Node/EpPresence.v of presence.EndpointPresence.register_running/unregister_running/register_endpoints/'
    'unregister_endpoints/register_identity/unregister_identity (with _create_ephemeral_with_retry) and '
    'trace.app.zk._unschedule: one operation = one call of the function; host names and node payloads are byte strings '
    '(the endpoint comparison is the text before the first colon), the JSON object of register_identity is kept parsed; tied '
    'by differential execution of the real functions on the in-memory ZooKeeper (outcome of every call and the whole node table '
    'after every operation); presence._EPHEMERAL_RETRY_INTERVAL is set to 0 and trace.app.zk._HOSTNAME is set per call inside '
    'the harness process',
]
ASSUMPTIONS = [
    'an expired session performs no further successful operation and the service process exits (zkutils.exit_on_lost -> os._exit, '
    'sproc/service.py); kazoo re-establishing a session inside a running request is NOT modelled - in that window '
    '_safe_delete\'s get/delete pair would not be atomic',
    'only presence services (and session expiry) delete presence nodes: an external delete between get and delete/set is outside '
    'the quantifier of C17',
    'requests of one service are processed one at a time (the resource service main loop); watch callbacks only call retry_request',
    'initial node table and local presence maps are arbitrary (the local map may be stale); sessions are pairwise distinct',
    'EndpointPresence / _unschedule level (C17_ep_*): a call of unregister_* (get, compare, delete) or _unschedule (exists, '
    'delete) is one step - no other operation between its ZooKeeper calls (C17_ep_check_then_act_witness shows what separating '
    'them allows); the nodes concerned have no children; payloads other than the identity object do not parse to a mapping and '
    'are valid UTF-8; host names are not empty, contain no colon (host_ok, where the theorems need it) and do not begin with {',
    'hostname ownership does not tell two containers on the same host apart (C17_ep_same_host_newer_refuted, '
    'C17_ep_port_not_compared): at this level the never-unregisters-a-newer-one clause is proved for a newer container on '
    'ANOTHER host; within /repo unregister_* is called only by presence.kill_node, which removes every node of the host',
]


def _extra_with_ep_stage(tier, seed):
    def extra(r, cases, obs):
        from . import c17ep
        cov = _extra(r, cases, obs)
        cov.update(c17ep.stage(r, seed, 250 if tier == 'quick' else 6000))
        return cov
    return extra


def run(tier, seed):
    core.standard_run(PID, tier, seed, {
        'model_vos': ['Node/Presence', 'Node/EpPresence'], 'table_sections': ['source_shape'],
        'preamble': PREAMBLE, 'run_fn': RUN_FN, 'in_type': IN_TYPE,
        'gen_case': gen_case, 'impl_run': impl_run,
        'expected': expected, 'case_term': case_term,
        'oracle': oracle, 'nontrivial': nontrivial,
        'n_quick': 300, 'n_thorough': 8000, 'search_quick': 2000, 'search_thorough': 40000,
        'corpus': 'c17.json', 'shard': 75,
        'rule': 'seeded schedules: 2 (sometimes 3) real PresenceResourceService instances, each with its own session, on one '
                'in-memory ZooKeeper; 12-60 scheduler decisions per case: start a create request for the next container of an '
                'instance (running + 0-2 endpoints + optional identity), re-evaluate / retry a pending one, delete an old '
                'container, perform ONE pending ZooKeeper call of a client, expire a session, restart a service; a third of the '
                'cases start from a stale state (nodes owned by either session, entries in the local maps); non-trivial = two '
                'sessions met on one path (a get saw a foreign owner) and a node went away (successful delete or expiry); '
                'second stage: operation lists of 2-3 hosts (one host name a prefix of another) on the real '
                'EndpointPresence.register_*/unregister_* and trace.app.zk._unschedule: an instance moving between hosts with a '
                'late clean-up of the old container (own or administrator session), a newer container on the same host, the '
                'master placing / moving / scheduling the instance with stale events on the old host, kill_node-like removal, '
                'leftover nodes (empty, another host, bare host name, extra fields, non-mapping identity), session expiry; '
                'model compared after every operation',
        'trusted': TRUSTED, 'assumptions': ASSUMPTIONS, 'anchors': ANCHORS, 'extra': _extra_with_ep_stage(tier, seed),
    })


def replay_case(case):
    if isinstance(case, dict) and case.get('engine') == 'E-eppresence':
        from . import c17ep
        return c17ep.replay(case['case'])
    obs = impl_run(case)
    v = oracle(case, obs)
    return v[0] if v else None
