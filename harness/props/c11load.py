"""C11, load_model as a run of the scheduler model from the EMPTY cell (Master/LoadModel.v, LoadModelP.v, Props/C11Load.v).

A STAGE of the C11 check (to be called from harness/props/c11.py), not a standalone check:

    u = c11load.stage(r, seed, tier)

For every `Loader.load_model()` of every E-master history (profile 'c11'; the boot, every Restart, every restart after
a handler exception) - and of a stream of directly generated stores with nested buckets, odd records and allocation
trees that E-master never writes - the content of the store the new master is about to read is translated into the
snapshot record of Master/LoadModel.v, Coq evaluates `load_model_full` (LoadApp per record + RestoreAll with the
duplicate pass) by vm_compute and its canonical dump is compared with the dump of the real `Master.cell` taken right
after load_model() returned (before init_schedule).

Translation (store -> snapshot), all of it in `snapshot_of`:
  names      one table str -> int for every string the model passes through `id` (cell, bucket, server, instance,
             affinity, identity-group, partition-label, allocation-path and level names); 'server' is 0 (the model's
             LEVEL_SERVER), everything else numbered from 1 in order of first use; affinity None is -2.  The table is
             part of the case, the Python dump uses the same table.
  dimension  3 (memory, cpu, disk); root bucket = the cell name given to Master(); its level is the string 'cell'.
  inputs     find_assignment / _is_blacklisted are re-done here with fnmatch (first matching (record, assignment) per
             instance; flag); the valid_until of a server with a presence node is read from the presence node AFTER the
             load (the loader writes back what Partition.add assigned - the reboot calendar is not modelled); `now` is
             the virtual clock, `order` the next value of scheduler._global_order.
  ctimes     milliseconds as stored (the loader compares ctime / 1000.0 of presence and placement node).
Compared: Sched/Events.v dump_cell (clock; per instance priority, server, identity, expiry, evicted, unschedule, renew,
blacklisted, rank, allocation; per server state, since, valid_until, free capacity, instances, affinity counters; per
bucket free capacity, labels, traits, counters, cursors, children; identity groups; the partitions' allocation trees)
plus LoadModel.v dump_static (demand, affinity and limits, own traits, lease, data retention, identity group,
schedule_once, global order; server parent, capacity, label, traits; bucket level and parent).
NOT compared (the scheduler model has no such field): Server.up_since / presence_id, Allocation.max_utilization, the
reboot buckets of a Partition, Application.identity_group_ref, the writes load_model makes to the store."""
import fnmatch
import json
import random
import re
import sys
import time
from fractions import Fraction

from .. import core, ecell, emaster, gallina as G
from . import loadapp as LA

PID = 'C11'
PROPS = 'C11Load'
ENGINE = 'E-master-c11load'
SECTIONS = ('loadapp', 'units_utils', 'units_resources')
MODEL_VOS = ['Master/LoadModel', 'Master/LoadModelRun', 'Master/LoadAppRun', 'Codec/UnitsRun', 'Gen/Tables',
             'Base/Flat']
PREAMBLE = ('From Coq Require Import ZArith QArith List.\nImport ListNotations.\n'
            'From TM Require Import Codec.BaseN Codec.Dec Codec.Units Codec.UnitsRun Sched.Vec Sched.Types '
            'Sched.Events Master.LoadApp Master.LoadAppRun Master.RestoreSched Master.RestoreAll Master.LoadModel '
            'Master.LoadModelRun Gen.Tables.\nOpen Scope Z_scope.\n')
PREAMBLE_P = PREAMBLE + 'From TM Require Import Sched.Reach Master.LoadModelP.\n'
RUN_FN = '(run_case loadapp_tables units_tables)'
IN_TYPE = 'lmcase'
ANCHORS = ['lib/python/treadmill/scheduler/loader.py', 'lib/python/treadmill/scheduler/__init__.py',
           'lib/python/treadmill/traits.py']
STATES = {'up': 'Up', 'down': 'Down', 'frozen': 'Frozen'}
NONE_AFF = -2


class OutOfModel(ValueError):
    """the store holds something load_model raises on, or a value the snapshot record cannot express"""


# ---------------------------------------------------------------------------------------------------------------
# names
# ---------------------------------------------------------------------------------------------------------------
class Ids(dict):
    def __init__(self):
        super().__init__()
        self['server'] = 0
        self._next = 1

    def __missing__(self, k):
        if not isinstance(k, str):
            raise OutOfModel('not a string name: %r' % (k,))
        v = self._next
        self._next += 1
        self[k] = v
        return v


class _AffIds:
    """affinity names: None (a manifest without `affinity`) is the model's none_aff"""

    def __init__(self, ids):
        self.ids = ids

    def __getitem__(self, k):
        return NONE_AFF if k is None else self.ids[k]


# ---------------------------------------------------------------------------------------------------------------
# store -> snapshot
# ---------------------------------------------------------------------------------------------------------------
def _val(d, path):
    ent = d.get(path)
    return ent[0] if ent is not None else None


def _children(d, path):
    pre = path.rstrip('/') + '/'
    n = len(pre)
    return sorted({k[n:].split('/', 1)[0] for k in d if k.startswith(pre)})


def _alloc_key(name):
    if '@' in name:
        return name[name.find('@') + 1:name.find('.')]
    return name[0:name.find('.')]


def find_assignment(allocs, name):
    """(record index, assignment index) of the first assignment whose pattern matches, the way Loader.find_assignment
    walks self.assignments[_alloc_key(name)]"""
    key = _alloc_key(name)
    for k, obj in enumerate(allocs):
        for j, asg in enumerate(obj.get('assignments', [])):
            pattern = asg['pattern'] + '[#]' + ('[0-9]' * 10)
            if _alloc_key(pattern) == key and re.compile(fnmatch.translate(pattern)).match(name):
                return [k, j]
    return None


def snapshot_of(before, after, now, order, cellname='cell'):
    """before / after: {path: (value, ctime ms)} of the store when load_model starts / has returned.
    Returns a JSON-able snapshot (the case of a replay)."""
    d = before
    snap = {'cell': cellname, 'now': int(now), 'order': int(order)}
    if now != int(now):
        raise OutOfModel('fractional clock')
    snap['traits'] = list(_val(d, '/traits') or [])
    parts = []
    for p in _children(d, '/partitions'):
        if not isinstance(_val(d, '/partitions/' + p), dict):
            raise OutOfModel('partition node without a dict')
        parts.append(p)
    snap['partitions'] = parts
    bks = []
    for b in _children(d, '/buckets'):
        data = _val(d, '/buckets/' + b)
        if not isinstance(data, dict):
            raise OutOfModel('bucket node without a dict')
        bks.append({'name': b, 'level': data.get('level'), 'parent': data.get('parent')})
    snap['buckets'] = bks
    snap['top'] = _children(d, '/cell')
    srvs = []
    for s in _children(d, '/servers'):
        rec = _val(d, '/servers/' + s)
        pres = d.get('/server.presence/' + s)
        pdata = _val(d, '/placement/' + s)
        ent = {'name': s, 'rec': rec if rec else None, 'presence': pres[1] if pres is not None else None,
               'valid_until': 0, 'state': None, 'nodes': []}
        if pdata:
            since = pdata['since']
            ent['state'] = [pdata['state'], int(since) if isinstance(since, float) and since == int(since) else since]
        if pres is not None:
            if pres[0] is not None and not isinstance(pres[0], dict):
                raise OutOfModel('presence data is not a dict')
            pa = after.get('/server.presence/' + s)
            vu = (pa[0] or {}).get('valid_until') if pa is not None else None
            if isinstance(vu, float) and vu == int(vu):
                vu = int(vu)              # time.mktime of the reboot calendar
            ent['valid_until'] = vu       # None: the loader did not get as far as set_server_valid_until
        for a in _children(d, '/placement/' + s):
            node = d['/placement/%s/%s' % (s, a)]
            if not isinstance(node[0], dict):
                raise OutOfModel('placement node without a dict')
            ent['nodes'].append({'app': a, 'identity': node[0].get('identity'), 'expires': node[0].get('expires', 0),
                                 'ctime': node[1]})
        srvs.append(ent)
    snap['servers'] = srvs
    allocs = _val(d, '/allocations') or []
    snap['allocs'] = [dict(o) for o in allocs]
    blacklist = list(_val(d, '/blackedout.apps') or [])
    apps = []
    for a in _children(d, '/scheduled'):
        man = _val(d, '/scheduled/' + a)
        ent = {'name': a, 'manifest': man if man else None, 'asg': None, 'bl': False}
        if man:
            ent['asg'] = find_assignment(allocs, a)
            base = a.split('#')[0]
            ent['bl'] = any(fnmatch.fnmatch(base, b) for b in blacklist)
        apps.append(ent)
    snap['apps'] = apps
    grps = []
    for g in _children(d, '/identity-groups'):
        data = _val(d, '/identity-groups/' + g)
        grps.append({'name': g, 'data': (['count', data['count']] if 'count' in data else ['nocount']) if data else None})
    snap['groups'] = grps
    return snap


# ---------------------------------------------------------------------------------------------------------------
# snapshot -> Gallina
# ---------------------------------------------------------------------------------------------------------------
def _s(s):
    if not isinstance(s, str):
        raise OutOfModel('not a string: %r' % (s,))
    return LA._s(s)


def _z(n):
    if type(n) is not int:
        raise OutOfModel('not an int: %r' % (n,))
    return LA._z(n)


def _oz(v):
    return 'None' if v is None else '(Some %s)' % _z(v)


def _os(v):
    return 'None' if v is None else '(Some %s)' % _s(v)


def _q(v):
    if v is None:
        return 'None'
    f = Fraction(v)
    return '(Some (%d # %d)%%Q)' % (f.numerator, f.denominator)


def snapshot_term(snap, ids):
    """the Coq term of the snapshot; registers every name the model will pass through `id` in `ids`"""
    def reg(x):
        if x is not None:
            ids[x]      # noqa - assigns
        return x
    reg(snap['cell'])
    reg('cell')
    reg('_default')
    for p in snap['partitions']:
        reg(p)
    bks = []
    for b in snap['buckets']:
        reg(b['name'])
        reg(b['level'] if b['level'] is not None else b['name'].split(':')[0])
        if b['parent']:
            reg(b['parent'])
        bks.append('(mkBE %s %s %s)' % (_s(b['name']), _os(b['level']), _os(b['parent'])))
    for t in snap['top']:
        reg(t)
    srvs = []
    for s in snap['servers']:
        reg(s['name'])
        rec = s['rec']
        if rec:
            reg(rec.get('partition') or '_default')
            if rec.get('parent'):
                reg(rec['parent'])
        try:
            rt = LA.record_term(rec)
        except ValueError as exc:
            raise OutOfModel(str(exc))
        st = 'None'
        if s['state'] is not None:
            if s['state'][0] not in STATES:
                raise OutOfModel('state %r' % (s['state'][0],))
            st = '(Some (%s, %s))' % (STATES[s['state'][0]], _z(s['state'][1]))
        if s['presence'] is not None and s['valid_until'] is None and rec and rec.get('parent') in \
                [b['name'] for b in snap['buckets']]:
            raise OutOfModel('no valid_until written back for a loaded server with a presence node')
        nodes = []
        for n in s['nodes']:
            reg(n['app'])
            nodes.append('(mkPN %s %s %s %s)' % (_s(n['app']), _oz(n['identity']), _z(n['expires']), _z(n['ctime'])))
        srvs.append('(mkSE %s %s %s %s %s %s)' % (_s(s['name']), rt, _oz(s['presence']), _z(s['valid_until'] or 0), st,
                                                 G.lst(nodes)))
    allocs = []
    for o in snap['allocs']:
        if not isinstance(o.get('partition'), str):
            raise OutOfModel('allocation without a partition label')
        reg(o['partition'])
        for part in re.split('[/:]', o['name']):
            reg(part)
        try:
            res = LA._res(o)
            traits = LA._opt(o, 'traits', LA._strs)
        except ValueError as exc:
            raise OutOfModel(str(exc))
        prios = [a['priority'] for a in o.get('assignments', [])]
        allocs.append('(mkAE %s %s %s %s %s %s %s %s)'
                      % (_s(o['partition']), _s(o['name']), res, _oz(o['rank']), _oz(o.get('rank_adjustment')),
                         _q(o.get('max_utilization')), traits, '[' + '; '.join(_z(p) for p in prios) + ']'))
    apps = []
    for a in snap['apps']:
        reg(a['name'])
        man = a['manifest']
        if man:
            if '.' in a['name']:
                reg(a['name'].split('.', 1)[0])
            reg(man.get('affinity'))
            reg(man.get('identity_group'))
            for lv in (man.get('affinity_limits') or {}):
                reg(lv)
        try:
            mt = LA.manifest_term(man)
        except ValueError as exc:
            raise OutOfModel(str(exc))
        asg = 'None' if a['asg'] is None else '(Some (%d%%nat, %d%%nat))' % tuple(a['asg'])
        apps.append('(mkAP %s %s %s %s)' % (_s(a['name']), mt, asg, G.b(a['bl'])))
    grps = []
    for g in snap['groups']:
        reg(g['name'])
        if g['data'] is None:
            dt = 'None'
        elif g['data'][0] == 'nocount':
            dt = '(Some None)'
        else:
            dt = '(Some (Some %s))' % _z(g['data'][1])
        grps.append('(mkGE %s %s)' % (_s(g['name']), dt))
    return ('(mkStore %s %s %s %s %s %s %s %s %s %s %s)'
            % (_s(snap['cell']), _z(snap['now']), _z(snap['order']), LA._strs(snap['traits']),
               LA._strs(snap['partitions']), G.lst(bks), LA._strs(snap['top']), G.lst(srvs), G.lst(allocs),
               G.lst(apps), G.lst(grps)))


def case_term(snap, ids, store_term):
    tbl = G.lst(['(%s, %s)' % (_s(k), LA._z(v)) for k, v in ids.items()])
    return '(mkLC %s %s %s)' % (tbl, LA._z(NONE_AFF), store_term)


# ---------------------------------------------------------------------------------------------------------------
# the real cell -> the same flat list
# ---------------------------------------------------------------------------------------------------------------
class _Clock:
    def __init__(self, now):
        self.now = now


def impl_flat(cell, now, ids):
    """Sched/Events.v dump_cell ++ LoadModel.v dump_static of a cell the real Master owns (harness/ecell.py Impl.dump is
    the Python twin of dump_cell; all its name maps are the one table here)."""
    s = ecell.sched()
    probe = ecell.Impl.__new__(ecell.Impl)
    probe.s = s
    probe.clock = _Clock(int(now))
    probe.cell = cell
    probe.app_ids = probe.srv_ids = probe.bkt_ids = probe.label_ids = probe.group_ids = probe.part_ids = ids
    probe.aff_ids = _AffIds(ids)
    probe.buckets = {}
    srv_names = set(cell.members())
    for n in srv_names:
        ids[n]          # noqa - so that Impl.dump tells servers from buckets among the children

    def walk(node):
        probe.buckets[ids[node.name]] = node
        for ch in node.children:
            if ch is not None and isinstance(ch, s.Bucket):
                walk(ch)
    walk(cell)
    out = probe.dump()
    inf = float('inf')
    for app in cell.apps.values():
        lim = sorted((ids[k], int(v)) for k, v in app.affinity.limits.items() if v != inf)
        out += [ids[app.name]] + ecell.dlist([int(x) for x in app.demand]) + [probe.aff_ids[app.affinity.name]]
        out += [len(lim)] + [x for kv in lim for x in kv]
        out += [int(app._traits), int(app.lease)] + ecell.dopt(app.data_retention_timeout)
        out += ecell.dopt(ids[app.identity_group] if app.identity_group is not None else None)
        out += [int(bool(app.schedule_once)), int(app.global_order)]
    for srv in sorted(cell.members().values(), key=lambda x: ids[x.name]):
        out += [ids[srv.name]] + ecell.dopt(ids[srv.parent.name] if srv.parent is not None else None)
        out += ecell.dlist([int(x) for x in srv.init_capacity])
        if len(srv.labels) != 1:
            raise OutOfModel('server with %d labels' % len(srv.labels))
        out += [ids[next(iter(srv.labels))], int(srv.traits.traits)]
    for bid in sorted(probe.buckets):
        b = probe.buckets[bid]
        out += [bid, ids[b.level]] + ecell.dopt(ids[b.parent.name] if b.parent is not None else None)
    return out


# ---------------------------------------------------------------------------------------------------------------
# observing load_model
# ---------------------------------------------------------------------------------------------------------------
class Observer:
    """wraps Loader.load_model at class level: the store before, the cell right after"""

    def __init__(self):
        self.loads = []
        self.errors = []

    def __enter__(self):
        self.mods = emaster.mods()
        ldr = self.mods[2].Loader
        self._orig = ldr.load_model
        obs = self
        sched, loader_mod = self.mods[0], self.mods[2]

        def load_model(self_):
            b = self_.backend
            if not hasattr(b, 'd'):
                return obs._orig(self_)
            before = dict(b.d)
            now = loader_mod.time.time()
            order = obs._next_order(sched)
            rec = {'before': before, 'now': now, 'order': order, 'cellname': self_.cell.name}
            try:
                rc = obs._orig(self_)
            except Exception as exc:    # noqa - load_model raised: nothing to compare (the caller sees the exception)
                rec['raised'] = '%s: %s' % (type(exc).__name__, str(exc)[:120])
                obs.loads.append(rec)
                raise
            rec['after'] = dict(b.d)
            try:
                snap = snapshot_of(before, rec['after'], now, order, self_.cell.name)
                ids = Ids()
                term = snapshot_term(snap, ids)
                flat = impl_flat(self_.cell, now, ids)
                rec.update({'snap': snap, 'ids': dict(ids), 'store_term': term, 'flat': flat,
                            'placed': sum(1 for a in self_.cell.apps.values() if a.server)})
            except OutOfModel as exc:
                rec['out_of_model'] = str(exc)[:160]
            except Exception as exc:    # noqa
                import traceback
                obs.errors.append('%s: %s\n%s' % (type(exc).__name__, str(exc)[:200], traceback.format_exc()[-1200:]))
            obs.loads.append(rec)
            return rc
        ldr.load_model = load_model
        return self

    @staticmethod
    def _next_order(sched):
        """the value scheduler._global_order() returns next, without consuming it (E-master replaces the function by a
        counter held in its World)"""
        fn = sched._global_order
        for cell in (fn.__closure__ or ()):
            w = cell.cell_contents
            if hasattr(w, 'order') and isinstance(w.order, int):
                return w.order + 1
        return None

    def __exit__(self, *a):
        self.mods[2].Loader.load_model = self._orig


def observe_history(case):
    """every load_model of an E-master history -> [(snapshot, ids, store term, impl flat)], counters"""
    with Observer() as obs:
        res = emaster.run_history(case, crash_points=False, want=())
    return obs, res


# ---------------------------------------------------------------------------------------------------------------
# directly generated stores (what E-master never writes): nested buckets, falsy / parentless records, allocation
# trees with shared prefixes and repeated names, null ranks, groups without count, stale and doubly recorded nodes
# ---------------------------------------------------------------------------------------------------------------
def gen_store(rng):
    Mem = emaster.mods()[4]
    b = Mem()
    T0 = emaster.T0

    def put(path, value):
        b.raw_put(path, value)
    for p in ('/scheduled', '/servers', '/server.presence', '/placement', '/buckets', '/cell', '/partitions',
              '/identity-groups', '/events', '/blackedout.servers', '/allocations'):
        b.ensure_exists(p)
    b.d['/allocations'] = (None, b.d['/allocations'][1])
    put('/traits', rng.choice([[], ['ssd'], ['ssd', 'gpu']]))
    parts = rng.choice([[], ['p1'], ['p1', 'p2']])
    for p in parts:
        put('/partitions/' + p, rng.choice([{}, {'reboot-schedule': None}]))
    # bucket forest: tops, then children whose names sort before or after their parents
    names = ['pod:%s' % x for x in 'abc'] + ['rack:%d' % i for i in range(1, 6)] + ['aisle:1', 'zone:9']
    rng.shuffle(names)
    nb = rng.randint(1, 7)
    chosen = names[:nb]
    ntop = rng.randint(1, max(1, nb // 2))
    tops = chosen[:ntop]
    parent = {}
    for n in chosen[ntop:]:
        cands = tops + [m for m in parent]
        parent[n] = rng.choice(cands)
    for n in chosen:
        data = {}
        if rng.random() < 0.4:
            data['level'] = rng.choice(['rack', 'pod', 'bldg'])
        if n in parent:
            data['parent'] = parent[n]
        elif rng.random() < 0.3:
            data['parent'] = rng.choice([None, ''])
        put('/buckets/' + n, data)
    for n in tops:
        put('/cell/' + n, {})
    # servers
    nsrv = rng.randint(0, 5)
    srv_names = ['srv%d' % i for i in range(1, nsrv + 1)]
    for s in srv_names:
        k = rng.random()
        if k < 0.08:
            put('/servers/' + s, rng.choice([{}, None]))
            continue
        rec = {'memory': '%dM' % rng.choice([1000, 2000, 4000]), 'cpu': '%d%%' % rng.choice([100, 200, 400]),
               'disk': '%dM' % rng.choice([1000, 3000])}
        rec['parent'] = rng.choice(chosen) if rng.random() < 0.9 else 'rack:nowhere'
        if rng.random() < 0.5:
            rec['partition'] = rng.choice(parts + ['_default', '', None, 'px'])
        if rng.random() < 0.5:
            rec['traits'] = rng.sample(['ssd', 'gpu', 'fast', 'x86'], rng.randint(0, 3))
        if rng.random() < 0.7:
            rec['up_since'] = T0 - rng.randint(0, 5000)
        put('/servers/' + s, rec)
        if rng.random() < 0.7:
            put('/server.presence/' + s, rng.choice([{}, None, {'valid_until': T0 + 86400 * 3}]))
        if rng.random() < 0.6:
            put('/placement/' + s, rng.choice([None, {'state': rng.choice(['up', 'down', 'frozen']),
                                                      'since': T0 - rng.randint(0, 900)}]))
    # allocations
    allocs = []
    for _ in range(rng.randint(0, 4)):
        o = {'name': rng.choice(['foo/x', 'foo/x', 'foo', 'bar/x:y', 'bar', 'foo/z', 't:u/v', '']),
             'partition': rng.choice(['_default'] + parts + ['py']),
             'rank': rng.choice([50, 100, 90, None])}
        for key, unit in (('memory', 'M'), ('cpu', '%'), ('disk', 'M')):
            if rng.random() < 0.8:
                o[key] = '%d%s' % (rng.choice([0, 500, 3000]), unit)
        if rng.random() < 0.6:
            o['rank_adjustment'] = rng.choice([0, 5, None])
        if rng.random() < 0.3:
            o['max_utilization'] = rng.choice([1, 2, None])
        if rng.random() < 0.5:
            o['traits'] = rng.sample(['ssd', 'gpu', 'nosuch', 'fast'], rng.randint(0, 2))
        if rng.random() < 0.8:
            o['assignments'] = [{'pattern': rng.choice(['foo.*', 'bar.*', 'foo.app', 'foo.w*', '*.app', 'baz.*']),
                                 'priority': rng.randint(0, 60)} for _ in range(rng.randint(0, 2))]
        allocs.append(o)
    if allocs or rng.random() < 0.5:
        put('/allocations', allocs)
    # identity groups
    groups = rng.sample(['g1', 'g2', 'g3'], rng.randint(0, 3))
    for g in groups:
        put('/identity-groups/' + g, rng.choice([{'count': rng.randint(0, 4)}, {'count': 3}, {}, None, {'x': 1}]))
    # instances
    napp = rng.randint(0, 7)
    app_names = []
    for i in range(1, napp + 1):
        nm = '%s.%s#%010d' % (rng.choice(['foo', 'bar', 'baz']), rng.choice(['app', 'web']), i)
        app_names.append(nm)
        if rng.random() < 0.07:
            put('/scheduled/' + nm, rng.choice([{}, None]))
            continue
        man = {'memory': '%dM' % rng.choice([300, 800, 1500]), 'cpu': '%d%%' % rng.choice([20, 100]),
               'disk': '%dM' % rng.choice([300, 800])}
        if rng.random() < 0.85:
            man['affinity'] = nm.split('#')[0]
        if rng.random() < 0.4:
            man['identity_group'] = rng.choice(['g1', 'g2', 'g3', 'g4'])
        if rng.random() < 0.15:
            man['schedule_once'] = rng.choice([True, 1, 'yes', False])
        if rng.random() < 0.3:
            man['lease'] = rng.choice(['600s', '1h', '0s'])
        if rng.random() < 0.3:
            man['data_retention_timeout'] = rng.choice(['30s', '5m'])
        if rng.random() < 0.4:
            man['priority'] = rng.choice([0, -1, 5, 50, '7'])
        if rng.random() < 0.25:
            man['traits'] = rng.sample(['ssd', 'gpu', 'nosuch'], rng.randint(0, 2))
        if rng.random() < 0.3:
            man['affinity_limits'] = rng.choice([{'server': 1}, {'rack': 1}, {'server': 2, 'pod': 1}, {'cell': 2}])
        put('/scheduled/' + nm, man)
    if rng.random() < 0.3:
        put('/blackedout.apps', rng.choice([[], ['foo.*'], ['*.web'], None]))
    # placement nodes: mostly one per instance, identities mostly distinct within a group
    used = {}
    for nm in app_names + ['foo.gone#0000000099']:
        if not srv_names or rng.random() < 0.35:
            continue
        where = [rng.choice(srv_names)]
        if rng.random() < 0.06:
            where.append(rng.choice(srv_names))
        for s in set(where):
            man = _val(b.d, '/scheduled/' + nm) or {}
            data = {'expires': T0 + rng.choice([0, 100, 5000])}
            if rng.random() < 0.1:
                del data['expires']
            g = man.get('identity_group')
            if g is not None and rng.random() < 0.92:
                pool = [i for i in range(0, 5) if (g, i) not in used] or [7]
                ident = rng.choice(pool) if rng.random() < 0.93 else rng.choice(range(0, 5))
                used[(g, ident)] = True
                data['identity'] = ident
            elif g is None and rng.random() < 0.05:
                data['identity'] = 1
            if '/placement/' + s not in b.d:
                put('/placement/' + s, None)
            put('/placement/%s/%s' % (s, nm), data)
            if rng.random() < 0.25 and ('/server.presence/' + s) in b.d:
                # the server restarted after the instance was placed: presence node younger than the placement node
                v = b.d['/server.presence/' + s][0]
                b.raw_delete('/server.presence/' + s)
                put('/server.presence/' + s, v)
    return {'store': {k: [v[0], v[1]] for k, v in b.d.items()}, 'clk': b.clk, 'now': T0 + rng.randint(0, 50),
            'order': rng.randint(0, 40)}


def observe_store(case):
    """a fresh Master on a generated store; returns the Observer (one load)"""
    sched, master_mod, loader_mod, _be, Mem, _Crash = emaster.mods()
    b = Mem({k: (v[0], v[1]) for k, v in case['store'].items()}, case['clk'])
    saved = []
    state = {'order': case['order']}

    class W:
        pass
    w = W()
    w.now = case['now']
    w.order = case['order']

    def order():
        w.order += 1
        return w.order
    for mod in (sched, master_mod, loader_mod):
        saved.append((mod, 'time', mod.time))
        mod.time = emaster._FakeTime(mod.time if not isinstance(mod.time, emaster._FakeTime) else mod.time._real, w)
    saved.append((sched, '_global_order', sched._global_order))
    sched._global_order = order
    del state
    try:
        with Observer() as obs:
            m = master_mod.Master(b, 'cell')
            try:
                m.load_model()
            except Exception:   # noqa - recorded by the observer
                pass
    finally:
        for obj, name, val in reversed(saved):
            setattr(obj, name, val)
    return obs


# ---------------------------------------------------------------------------------------------------------------
# the stage
# ---------------------------------------------------------------------------------------------------------------
def _parse_lists(out, name):
    flat = out.replace('\n', ' ')
    m = re.search(r'%s\s*=\s*\[(.*)\]\s*:\s*list' % name, flat)
    if not m:
        return None
    body = m.group(1).strip()
    if not body:
        return []
    rows = []
    for part in re.findall(r'\[([^\[\]]*)\]', body):
        rows.append([int(x.replace('(', '').replace(')', '')) for x in re.findall(r'\(?-?\d+\)?', part)])
    return rows


def model_flags(terms, shard=40):
    """per case [ld_ok; store_shape_ok; wf_ops_allb (store_okb); store_wfb (readable conditions); dump through the
    operation alphabet equals the dump of load_model_full]"""
    rows = []
    for i in range(0, len(terms), shard):
        body = ('Definition fl := Eval vm_compute in (map (fun x : lmcase => flags_of loadapp_tables units_tables '
                '(id_of (lc_ids x)) (lc_none_aff x) (lc_store x)) %s).\nPrint fl.' % G.lst(terms[i:i + shard]))
        rc, txt = core.coq_eval(PREAMBLE_P, body, name='flags_c11load_%d' % i, timeout=900)
        if rc != 0:
            return None, 'case_flags: coqc rc=%s: %s' % (rc, txt[-800:])
        got = _parse_lists(txt, 'fl')
        if got is None or len(got) != len(terms[i:i + shard]):
            return None, 'case_flags: cannot parse output: %s' % txt[-400:]
        rows += got
    return rows, None


def stage(r, seed, tier, n=None, n_stores=None):
    """plays n E-master histories and n_stores generated stores; returns the coverage dict; reports broken obligations
    on r"""
    try:
        return _stage(r, seed, tier, n, n_stores)
    except Exception as exc:   # never lose the verdict: an unusable tie is a broken obligation
        import traceback
        r.broken_obligation('correspondence', 'C11 load_model stage failed: %s: %s' % (type(exc).__name__, str(exc)[:300]),
                            traceback.format_exc())
        return {'loadmodel_stage': {'error': '%s: %s' % (type(exc).__name__, str(exc)[:300])}, 'loadmodel_obligations': 0}


def _stage(r, seed, tier, n=None, n_stores=None):
    t0 = time.time()
    rng = random.Random(seed + 1111)
    n = n if n is not None else (40 if tier == 'quick' else 1500)
    n_stores = n_stores if n_stores is not None else (100 if tier == 'quick' else 4000)
    with core.build_lock():
        terr = core.regen_tables()
        for sec, msg in terr:
            if sec in SECTIONS:
                r.broken_obligation('tables', 'translator section %s' % sec, msg)
        okm, logm = core.make(MODEL_VOS)
        proof = core.compile_props(PROPS)
    if not proof['ok']:
        r.broken_obligation('proof', proof['failed'] or 'Props/%s.v' % PROPS, proof['log'])
    elif not proof['axioms_ok']:
        r.broken_obligation('proof', 'Props/%s.v Print Assumptions: %s' % (PROPS, ', '.join(proof['axioms'])))
    lg, state = LA._quiet()
    cases, meta = [], []
    stats = {'histories': 0, 'stores': 0, 'loads': 0, 'loads_raised': {}, 'out_of_model': {}, 'harness_errors': 0,
             'servers': 0, 'servers_attached': 0, 'instances': 0, 'placement_nodes': 0, 'allocation_records': 0,
             'groups': 0, 'nested_buckets': 0, 'server_state_recorded/presence': {}, 'node_kinds': {},
             'instances_with_matching_assignment': 0, 'instances_blacklisted': 0}

    def take(obs, origin):
        for e in obs.errors:
            stats['harness_errors'] += 1
            if stats['harness_errors'] == 1:
                r.broken_obligation('correspondence', 'C11 load_model stage could not translate a store', e)
        for rec in obs.loads:
            stats['loads'] += 1
            if 'raised' in rec:
                k = rec['raised'].split(':')[0]
                stats['loads_raised'][k] = stats['loads_raised'].get(k, 0) + 1
                continue
            if 'out_of_model' in rec:
                stats['out_of_model'][rec['out_of_model'][:60]] = stats['out_of_model'].get(rec['out_of_model'][:60], 0) + 1
                continue
            if 'flat' not in rec:
                continue
            sn = rec['snap']
            stats['servers'] += len(sn['servers'])
            bnames = {b['name'] for b in sn['buckets']}
            stats['servers_attached'] += sum(1 for s in sn['servers'] if s['rec'] and s['rec'].get('parent') in bnames)
            stats['instances_placed_by_the_load'] = stats.get('instances_placed_by_the_load', 0) + rec.get('placed', 0)
            stats['instances'] += len(sn['apps'])
            stats['placement_nodes'] += sum(len(s['nodes']) for s in sn['servers'])
            stats['allocation_records'] += len(sn['allocs'])
            stats['groups'] += len(sn['groups'])
            stats['nested_buckets'] += sum(1 for b in sn['buckets'] if b['parent'])
            scheduled = {a['name']: a for a in sn['apps'] if a['manifest']}
            for s in sn['servers']:
                st = s['state'][0] if s['state'] else 'none'
                key = '%s/%s' % (st, 'present' if s['presence'] is not None else 'absent')
                stats['server_state_recorded/presence'][key] = stats['server_state_recorded/presence'].get(key, 0) + 1
                for nd in s['nodes']:
                    if nd['app'] not in scheduled:
                        k = 'stale'
                    elif s['presence'] is not None and s['presence'] != 0 and s['presence'] <= nd['ctime']:
                        k = 'verbatim'
                    elif scheduled[nd['app']]['manifest'].get('schedule_once'):
                        k = 'server-restarted:schedule-once'
                    else:
                        k = 'server-restarted:put-afresh' if s['presence'] is not None else 'server-absent:put-afresh'
                    if nd['identity'] is not None:
                        k += '+identity'
                    stats['node_kinds'][k] = stats['node_kinds'].get(k, 0) + 1
            stats['instances_with_matching_assignment'] += sum(1 for a in sn['apps'] if a['asg'] is not None)
            stats['instances_blacklisted'] += sum(1 for a in sn['apps'] if a['bl'])
            ids = Ids()
            ids.update(rec['ids'])
            cases.append((case_term(sn, rec['ids'], rec['store_term']), G.zlist(rec['flat'])))
            meta.append((origin, sn, rec['flat']))
    try:
        for _ in range(n):
            case = emaster.gen_case(rng, profile='c11')
            stats['histories'] += 1
            try:
                obs, _res = observe_history(case)
            except Exception as exc:   # noqa
                import traceback
                r.broken_obligation('correspondence', 'C11 load_model stage could not drive the master: %s: %s'
                                    % (type(exc).__name__, str(exc)[:200]), traceback.format_exc())
                break
            take(obs, {'engine': ENGINE, 'kind': 'history', 'case': case})
        for _ in range(n_stores):
            sc = gen_store(rng)
            stats['stores'] += 1
            obs = observe_store(sc)
            take(obs, {'engine': ENGINE, 'kind': 'store', 'case': sc})
    finally:
        lg.disabled = state[0]
    mism, err, flags = [], None, None
    if cases:
        with core.build_lock():
            okm2, logm2 = core.make(MODEL_VOS)
            if not (okm and okm2):
                err = 'model does not build: ' + (logm2 if not okm2 else logm)[-1200:]
            else:
                mism, err = core.run_mismatches(PREAMBLE, RUN_FN, cases, IN_TYPE, shard=40, timeout=900,
                                                tag='cases_c11load')
                if not err and proof['ok']:
                    flags, err = model_flags([c[0] for c in cases])
    if err:
        r.broken_obligation('correspondence', 'C11 load_model stage: the model could not be evaluated', err)
    if mism:
        j = min(mism, key=lambda k: len(cases[k][0]))
        mo, _e = core.model_output(PREAMBLE, RUN_FN, cases[j][0])
        r.broken_obligation('correspondence',
                            'C11 load_model stage: model of load_model vs the real Master.cell: %d of %d loads differ'
                            % (len(mism), len(cases)),
                            json.dumps({'origin': meta[j][0], 'snapshot': meta[j][1], 'impl_flat': meta[j][2],
                                        'model_flat': mo}, default=str)[:12000])
    fl = {}
    if flags is not None:
        names = ['parse_ok', 'shape_ok', 'store_ok', 'store_wf', 'ops_dump_equals_full_dump']
        for i, nm in enumerate(names):
            fl[nm] = sum(1 for row in flags if row[i])
        fl['store_wf_but_not_store_ok'] = sum(1 for row in flags if row[3] and not row[2])
        fl['store_ok_but_ops_dump_differs'] = sum(1 for row in flags if row[2] and row[1] and not row[4])
        fl['ops_dump_differs_outside_store_ok'] = sum(1 for row in flags if not row[4] and not (row[2] and row[1]))
        if fl['store_wf_but_not_store_ok'] or fl['store_ok_but_ops_dump_differs']:
            r.broken_obligation('correspondence', 'C11 load_model stage: a theorem of LoadModelP.v is contradicted by '
                                'vm_compute on a generated store', json.dumps(fl))
    return {'loadmodel_stage': dict(stats, loads_compared=len(cases), loads_differ=len(mism), model_flags=fl,
                                    theorems=proof.get('theorems', []), wall_s=round(time.time() - t0, 1),
                                    source_sha256=core.source_hashes(ANCHORS)),
            'loadmodel_obligations': len(proof.get('theorems', [])) if proof.get('ok') else 0}


TRUSTED = [
    'Props/C11Load.v: Coq 8.16.1 kernel; vm_compute for the Examples; Print Assumptions closed',
    'hand-written model Master/LoadModel.v of Loader.load_model (composition of Master/LoadApp.v per record and '
    'Master/RestoreAll.v), tied by differential execution: every load_model() of E-master histories and of directly '
    'generated stores, canonical dump of the real Master.cell right after load_model() against vm_compute of the model '
    'on the translated store (cases_c11load_*.v)',
    'inputs of the model taken from the harness: fnmatch of assignment patterns and of the blacklist (re-done in '
    'harness/props/c11load.py), the valid_until Partition.add assigns (read from the presence node the loader writes '
    'back), the clock and the global-order counter',
]
ASSUMPTIONS = [
    'the store is one a master can start on: no record on which load_model raises (malformed sizes or intervals, a '
    'server record without `parent`, an instance name without a dot, node data that is not a dict); such loads are '
    'counted (loads_raised / out_of_model) and not compared',
    'bucket records: a bucket is either listed under /cell or names a listed parent (a detached sub-tree has no place in '
    'the scheduler model)',
]


def replay_case(case):
    """case = {'engine': 'E-master-c11load', 'kind': 'history' | 'store', 'case': ...}: re-runs the loads and compares
    with the model; returns (signature, what) for the first load that differs"""
    c = case
    lg, state = LA._quiet()
    try:
        if c.get('kind') == 'store':
            obs = observe_store(c['case'])
        else:
            obs, _res = observe_history(c['case'])
    finally:
        lg.disabled = state[0]
    for rec in obs.loads:
        if 'flat' not in rec:
            continue
        term = case_term(rec['snap'], rec['ids'], rec['store_term'])
        mo, e = core.model_output(PREAMBLE, RUN_FN, term)
        if mo != rec['flat']:
            return ('load-model-differs-from-its-model', 'model %s... implementation %s...' % (str(mo)[:80], str(rec['flat'])[:80]))
    return None


class _R:
    """stand-alone runs: python -m harness.props.c11load N_HISTORIES N_STORES [seed]"""

    def __init__(self):
        self.bad = []

    def broken_obligation(self, kind, name, detail=''):
        self.bad.append(('broken', kind, name, detail[-6000:]))

    def violation(self, sig, what, case, extra=None):
        self.bad.append(('violation', sig, what))


if __name__ == '__main__':
    rr = _R()
    cov = stage(rr, int(sys.argv[3]) if len(sys.argv) > 3 else 1, 'quick',
                int(sys.argv[1]) if len(sys.argv) > 1 else 30, int(sys.argv[2]) if len(sys.argv) > 2 else 50)
    print(json.dumps(cov, indent=1, sort_keys=True))
    for bad in rr.bad:
        print(bad)
