"""C14, pools sharing one directory: VipMgr.initialize() of one pool and what live owners of another pool hold.

`treadmill.warpgate.policy_server._init_networks` builds one VipMgr per network over the SAME vips directory and calls
`initialize()` then `alloc()` on each. The start-up sweep of a pool may only remove addresses of its own network
(`if vip_addr in self._cidr`): removing anything else is a release by a non-owner, and the next `alloc` of the other pool
hands the address to a second live owner. The ownership model (Node/Owners.v) has one pool; this stage plays the real
VipMgr objects of two or three pools over one real temporary directory and evaluates the statement directly.
Oracle-only."""
import os
import random
import shutil
import sys
import tempfile

from .. import core

NETS = ['10.10.0.0/29', '10.20.0.0/29', '192.168.7.0/30']


def gen_case(rng, _i):
    pools = rng.sample(NETS, rng.choice([2, 2, 3]))
    ops = []
    owners = ['o%d' % k for k in range(6)]
    for _ in range(rng.randint(4, 14)):
        c = rng.random()
        p = rng.randrange(len(pools))
        if c < 0.5:
            ops.append(['alloc', p, rng.choice(owners)])
        elif c < 0.65:
            ops.append(['free', p, rng.choice(owners)])
        elif c < 0.85:
            ops.append(['initialize', p])
        elif c < 0.93:
            ops.append(['owner_gone', rng.choice(owners)])
        else:
            ops.append(['gc', p])
    return {'pools': pools, 'ops': ops}


def run_case(case):
    if core.PYLIB not in sys.path:
        sys.path.insert(0, core.PYLIB)
    import ipaddress
    import logging
    logging.disable(logging.CRITICAL)
    from treadmill import vipfile
    root = tempfile.mkdtemp(prefix='c14init-', dir=core.scratch())
    hits = []
    try:
        vips, owners_dir = os.path.join(root, 'vips'), os.path.join(root, 'owners')
        os.makedirs(owners_dir)
        mgrs = [vipfile.VipMgr(net, vips, owners_dir) for net in case['pools']]
        nets = [ipaddress.IPv4Network(n) for n in case['pools']]
        held = {}          # ip -> owner (the harness's own record of successful allocations)
        live = set()

        def table():
            out = {}
            for name in os.listdir(vips):
                try:
                    out[name] = os.path.basename(os.readlink(os.path.join(vips, name)))
                except OSError:
                    pass
            return out
        for t, op in enumerate(case['ops']):
            k = op[0]
            try:
                if k == 'alloc':
                    owner = op[2]
                    if owner not in live:
                        open(os.path.join(owners_dir, owner), 'w').close()
                        live.add(owner)
                    ip = mgrs[op[1]].alloc(owner)
                    if ipaddress.ip_address(ip) not in nets[op[1]]:
                        hits.append(('allocated-outside-network', 'op %d: %s given to %s by the pool of %s' % (t, ip, owner, case['pools'][op[1]])))
                    if ip in held and held[ip] != owner and held[ip] in live:
                        hits.append(('address-held-by-two-live-owners', 'op %d: %s given to %s while live owner %s holds it'
                                     % (t, ip, owner, held[ip])))
                    held[ip] = owner
                elif k == 'free':
                    owner = op[2]
                    mine = [ip for ip, o in held.items() if o == owner and ipaddress.ip_address(ip) in nets[op[1]]]
                    if mine:
                        mgrs[op[1]].free(owner, mine[0])
                        del held[mine[0]]
                elif k == 'initialize':
                    before = table()
                    mgrs[op[1]].initialize()
                    after = table()
                    for ip, o in before.items():
                        if ip not in after:
                            if ipaddress.ip_address(ip) not in nets[op[1]]:
                                if o in live:
                                    hits.append(('released-by-non-owner', 'op %d: initialize() of the pool of %s removed %s held by live owner %s'
                                                 % (t, case['pools'][op[1]], ip, o)))
                                held.pop(ip, None)
                            else:
                                held.pop(ip, None)        # a pool's own start-up sweep forgets its own network
                elif k == 'owner_gone':
                    if op[1] in live:
                        os.unlink(os.path.join(owners_dir, op[1]))
                        live.discard(op[1])
                elif k == 'gc':
                    before = table()
                    mgrs[op[1]].garbage_collect()
                    after = table()
                    for ip, o in before.items():
                        if ip not in after:
                            if o in live:
                                hits.append(('collected-entry-of-live-owner', 'op %d: garbage_collect removed %s of live owner %s' % (t, ip, o)))
                            held.pop(ip, None)
            except Exception as exc:   # noqa
                if 'Unable to find a free IP' in str(exc):
                    continue
                hits.append(('operation-raised', 'op %d %r: %s: %s' % (t, op, type(exc).__name__, str(exc)[:120])))
                break
        return hits
    finally:
        shutil.rmtree(root, ignore_errors=True)


def stage(r, seed, n):
    rng = random.Random(seed + 1414)
    nviol = 0
    inits = 0
    for i in range(n):
        case = gen_case(rng, i)
        inits += sum(1 for o in case['ops'] if o[0] == 'initialize')
        seen = set()
        for sig, what in run_case(case):
            sig = 'shared-directory:' + sig
            if sig not in seen:
                seen.add(sig)
                nviol += 1
                r.violation(sig, what, {'engine': 'E-node-c14init', 'case': case})
    return {'shared_directory_stage': {'histories': n, 'initialize_ops': inits, 'violations': nviol}}


def replay_case(case):
    hits = run_case(case['case'])
    return ('shared-directory:' + hits[0][0], hits[0][1]) if hits else None
