"""C05: identities (Sched/InvIdent.v, Props/C05.v) on E-cell histories rich in identity-group events."""
from .. import core
from . import _ecell_prop as E

PID = 'C05'
PROFILE = {'identity': 0.9, 'once': 0.25, 'blacklist': 0.3, 'failure': 0.5, 'pressure': 0.7, 'raw_remove': 0.1,
           'few_shapes': 0.7, 'scenarios': 0.6, 'affinity': 0.2, 'traits': 0.5, 'renew': 0.3, 'lease': 0.4, 'partitions': 0.5}


def _master_violations(w, where):
    """The statement on the real Master after a cycle: on its cell and on the identity fields it published."""
    from .. import emaster
    out = []
    if where != 'after-cycle':
        return out
    cell = w.m.cell
    held = {}
    for name, app in cell.apps.items():
        grp = app.identity_group_ref
        if app.identity_group is None:
            continue
        if app.identity is not None:
            held.setdefault(app.identity_group, {}).setdefault(app.identity, []).append(name)
            if grp is not None and app.identity >= grp.count:
                out.append(('identity-out-of-range', '%s: %s holds identity %r of group %s whose count is %r'
                            % (where, name, app.identity, app.identity_group, grp.count)))
            if not app.server:
                out.append(('pending-holds-identity', '%s: %s is not placed and holds identity %r' % (where, name, app.identity)))
        elif app.server:
            out.append(('placed-without-identity', '%s: %s is placed on %s and holds no identity of group %s'
                        % (where, name, app.server, app.identity_group)))
    for g, ids in held.items():
        for i, names in ids.items():
            if len(names) > 1:
                out.append(('identity-held-twice', '%s: identity %r of group %s is held by %s' % (where, i, g, sorted(names))))
    # the identity field published in /placement/<server>/<instance>
    pub = {}
    for (s, a), data in emaster.placement_entries(w.b.d).items():
        if a not in cell.apps or (s, a) in w.left_behind or (s, a) in w.api_deleted or s in w.pending_deletes:
            continue
        g = cell.apps[a].identity_group
        if g is not None and isinstance(data, dict) and data.get('identity') is not None and cell.apps[a].server == s:
            pub.setdefault((g, data['identity']), []).append(a)
    for (g, i), names in pub.items():
        if len(names) > 1:
            out.append(('published-identity-twice', '%s: identity %r of group %s is published for %s' % (where, i, g, sorted(names))))
    return out


def master_stage(r, seed, n):
    """Loader/Master level: the real Master over the in-memory backend on histories rich in identity-group events
    (resized, deleted, re-created, also twice with no cycle in between; restarts forcing recorded identities back);
    oracle-only - the failing-input search for Loader.load_identity_groups / restore_placement / force_set_identity."""
    import random
    from .. import emaster
    rng = random.Random(seed + 505)
    cycles = hits_total = 0
    for _ in range(n):
        case = emaster.gen_case(rng, profile='c05')
        hits = []
        try:
            res = emaster.run_history(case, crash_points=False, want=(),
                                      cell_hook=lambda w, where, hits=hits: hits.extend(_master_violations(w, where)))
            cycles += res.get('stats', {}).get('cycles', 0) if isinstance(res, dict) else 0
        except Exception as exc:   # noqa
            r.broken_obligation('correspondence', 'C05 master stage could not drive the master: %s: %s'
                                % (type(exc).__name__, str(exc)[:200]))
            break
        seen = set()
        for sig, what in hits:
            if sig in seen:
                continue
            seen.add(sig)
            hits_total += 1
            r.violation(sig, what, {'engine': 'E-master', 'case': case})
    return {'master_stage': {'histories': n, 'master_cycles': cycles, 'violations': hits_total}}


def run(tier, seed):
    spec = E.make_spec(PID, PROFILE, 'C05 profile: most instances belong to identity groups; groups grown, shrunk to '
                       'zero, deleted and re-created between cycles; schedule-once instances, blacklisting, server '
                       'failures and capacity pressure; loader restores forcing identities; plus a Master-level stage '
                       '(E-master histories of identity-group events on the real Master, C05 oracle on its cell and on '
                       'the published identity fields after every cycle)')
    inner = spec['extra']

    def extra(r, cases, obs):
        cov = inner(r, cases, obs)
        cov.update(master_stage(r, seed, 80 if tier == 'quick' else 3000))
        return cov
    spec['extra'] = extra
    spec = E.with_master_stage(spec, PID, tier, seed)
    core.standard_run(PID, tier, seed, spec)


def replay_case(case):
    if isinstance(case, dict) and case.get('engine') == 'E-master-probe':
        return E.replay(PID, case)
    if isinstance(case, dict) and case.get('engine') == 'E-master':
        from .. import emaster
        hits = []
        emaster.run_history(case['case'], crash_points=False, want=(),
                            cell_hook=lambda w, where: hits.extend(_master_violations(w, where)))
        return hits[0] if hits else None
    return E.replay(PID, case)
