"""C05: identities (Sched/InvIdent.v, Props/C05.v) on E-cell histories rich in identity-group events."""
from .. import core
from . import _ecell_prop as E

PID = 'C05'
PROFILE = {'identity': 0.9, 'once': 0.25, 'blacklist': 0.3, 'failure': 0.5, 'pressure': 0.7, 'raw_remove': 0.1,
           'few_shapes': 0.7, 'scenarios': 0.6, 'affinity': 0.2, 'traits': 0.5, 'renew': 0.3, 'lease': 0.4, 'partitions': 0.5}


def run(tier, seed):
    spec = E.make_spec(PID, PROFILE, 'C05 profile: most instances belong to identity groups; groups grown, shrunk to '
                       'zero, deleted and re-created between cycles; schedule-once instances, blacklisting, server '
                       'failures and capacity pressure')
    core.standard_run(PID, tier, seed, spec)


def replay_case(case):
    return E.replay(PID, case)
