"""C14: VipMgr / RuleMgr / EndpointsMgr / NetworkResourceService vs Node/Owners.v.

The real classes run on real temporary directories (under core.scratch()); netdev and iptables
are replaced by recording fakes inside this process.  Every generated case is an operation
sequence; after every operation the directories the operation works on are listed and compared
with the model (cases_*.v + vm_compute), and the oracle re-states the property on the listings.
"""
import errno
import ipaddress
import logging
import os
import shutil
import sys

from .. import core, gallina as G

PID = 'C14'
ANCHORS = ['lib/python/treadmill/vipfile.py', 'lib/python/treadmill/rulefile.py',
           'lib/python/treadmill/endpoints.py', 'lib/python/treadmill/services/network_service.py']
PREAMBLE = ('From Coq Require Import ZArith List.\nImport ListNotations.\n'
            'From TM Require Import Node.Owners.\nOpen Scope Z_scope.\n')
RUN_FN = 'run_case'
IN_TYPE = 'cidr * list xop'
ENVS = ['dev', 'qa', 'uat', 'prod']
PROTOS = ['tcp', 'udp']
ENDPOINTS = ['http', 'ssh', 'nodeinfo']

VIP_OPS = ('vip_alloc', 'vip_free', 'vip_gc')
RULE_OPS = ('rule_create', 'rule_unlink', 'rule_gc')
SPEC_OPS = ('spec_create', 'spec_unlink', 'spec_unlink_all', 'spec_gc')
SVC_OPS = ('svc_create', 'svc_delete', 'svc_sync', 'svc_restart')
# a collection during which an owner appears and registers an entry (after the collector's first directory listing)
GCWITH = {'vip_gc_with': 'vips', 'rule_gc_with': 'rules', 'spec_gc_with': 'specs'}


def owner_name(i):
    return 'proid.app%d-%010d-uniq%09d' % (i, i, i)


def ip_int(s):
    return int(ipaddress.IPv4Address(s))


def ip_str(n):
    return str(ipaddress.IPv4Address(n))


# ------------------------------------------------------------------ generator
RULES = [
    {'chain': 'TM_PREROUTING_DNAT', 'kind': 'dnat', 'proto': 'tcp', 'dst_ip': '10.9.9.9', 'dst_port': 5000,
     'new_ip': '192.168.0.2', 'new_port': 8000},
    {'chain': 'TM_PREROUTING_DNAT', 'kind': 'dnat', 'proto': 'udp', 'dst_ip': '10.9.9.9', 'dst_port': 5000,
     'new_ip': '192.168.0.2', 'new_port': 8000},
    {'chain': 'TM_POSTROUTING_SNAT', 'kind': 'snat', 'proto': 'tcp', 'src_ip': '192.168.0.2', 'src_port': 8000,
     'new_ip': '10.9.9.9', 'new_port': 5000},
    {'chain': 'TM_PASSTHROUGH', 'kind': 'passthrough', 'src_ip': '4.4.4.4', 'dst_ip': '192.168.0.2'},
    {'chain': 'TM_PREROUTING_DNAT', 'kind': 'dnat', 'proto': 'tcp', 'dst_ip': '10.9.9.9', 'dst_port': 5001,
     'new_ip': '192.168.0.3', 'new_port': 8000},
    {'chain': 'TM_PREROUTING_VRING', 'kind': 'dnat', 'proto': 'tcp', 'src_ip': '192.168.0.3',
     'dst_ip': '192.168.0.2', 'dst_port': 8000, 'new_ip': '10.9.9.8', 'new_port': 5003},
]


def gen_cidr(rng, fam='managers'):
    if fam == 'service':
        plen = rng.choice([24, 27, 28, 28, 28, 29, 29, 29, 30, 30, 31])
    else:
        plen = rng.choice([28, 28, 29, 29, 29, 29, 30, 30, 30, 30, 27, 24, 31, 32])
    size = 1 << (32 - plen)
    base = (10 << 24) + rng.randrange(0, (1 << 24) // size) * size
    return [base, plen]


def gen_spec(rng, case):
    nn = len(case['names'])
    return [rng.randrange(1, nn + 1), rng.randrange(len(PROTOS)), rng.randrange(len(ENDPOINTS)),
            rng.choice([5000, 5001]), rng.choice([77, 78]), rng.choice([8000, 8001])]


def gen_managers(rng, case, nops):
    no = case['n_owners']
    base, plen = case['cidr']
    size = 1 << (32 - plen)
    ops = []
    used_ips = [base, base + 1, base + size - 1]
    used_specs = []
    for o in range(1, no + 1):
        if rng.random() < 0.6:
            ops.append(['res_up', o])
        if rng.random() < 0.6:
            ops.append(['app_up', o])
    focus = rng.choice(['vip', 'rule', 'spec', 'mix', 'mix'])
    while len(ops) < nops:
        o = rng.randrange(1, no + 1)
        x = rng.random()
        kind = focus if focus != 'mix' else rng.choice(['vip', 'rule', 'spec'])
        if x < 0.12:
            ops.append([rng.choice(['res_up', 'res_down', 'app_up', 'app_down']), o])
        elif kind == 'vip':
            y = rng.random()
            if y < 0.45:
                picked = None
                if rng.random() < 0.3:
                    picked = rng.choice([base - 1, base, base + 1, base + 2, base + size - 2, base + size - 1,
                                         base + size, rng.choice(used_ips)])
                    if picked < 0:
                        picked = base
                ops.append(['vip_alloc', o, picked])
                used_ips.append(base + rng.randrange(0, min(size, 8)))
            elif y < 0.85:
                a = rng.choice(used_ips) if rng.random() < 0.5 else base + rng.randrange(0, min(size, 8))
                ops.append(['vip_free', o, a])
            elif y < 0.93:
                ops.append(['vip_gc'])
            else:
                if rng.random() < 0.6:
                    ops.append(['res_down', o])
                picked = None if rng.random() < 0.6 else base + rng.randrange(0, min(size, 8))
                ops.append(['vip_gc_with', o, picked])
        elif kind == 'rule':
            y = rng.random()
            k = rng.randrange(1, len(RULES) + 1)
            if y < 0.45:
                ops.append(['rule_create', k, o])
            elif y < 0.85:
                ops.append(['rule_unlink', k, o])
            elif y < 0.93:
                ops.append(['rule_gc'])
            else:
                if rng.random() < 0.6:
                    ops.append(['app_down', o])
                ops.append(['rule_gc_with', k, o])
        else:
            y = rng.random()
            if used_specs and rng.random() < 0.6:
                sp = list(rng.choice(used_specs))
            else:
                sp = gen_spec(rng, case)
                used_specs.append(sp)
            owner = o if rng.random() < 0.85 else None
            if y < 0.4:
                if rng.random() < 0.25:
                    sp[0] = o if rng.random() < 0.5 else rng.randrange(1, no + 1)   # appname == an owner's basename
                    used_specs.append(list(sp))
                ops.append(['spec_create', sp, o])
            elif y < 0.65:
                ops.append(['spec_unlink', sp, owner])
            elif y < 0.88:
                ops.append(['spec_unlink_all', sp[0], rng.choice([None, sp[1]]), rng.choice([None, sp[2]]), owner])
            elif y < 0.94:
                ops.append(['spec_gc'])
            else:
                if rng.random() < 0.6:
                    ops.append(['app_down', o])
                ops.append(['spec_gc_with', sp, o])
    return ops


def gen_service(rng, case, nops):
    no = case['n_owners']
    base, plen = case['cidr']
    size = 1 << (32 - plen)
    ops = []
    # junk left by foreign owners before the service runs (each holds at most one address)
    foreign = list(range(no + 1, no + 1 + case['n_foreign']))
    for f in foreign:
        if rng.random() < 0.5:
            ops.append(['res_up', f])
        picked = None if rng.random() < 0.6 else base + rng.randrange(0, min(size, 6))
        ops.append(['vip_alloc', f, picked])
    intruder = no + case['n_foreign'] + 1
    envs = {o: rng.randrange(1, 5) for o in range(1, no + 1)}
    while len(ops) < nops:
        o = rng.randrange(1, no + 1)
        x = rng.random()
        if x < 0.30:
            if rng.random() < 0.8:
                ops.append(['res_up', o])
            ops.append(['svc_create', o, envs[o]])
            if rng.random() < 0.3:
                ops.append(['svc_create', o, envs[o]])       # repeated request
        elif x < 0.45:
            ops.append(['svc_delete', o])
            if rng.random() < 0.7:
                ops.append(['res_down', o])
        elif x < 0.55:
            ops.append([rng.choice(['res_up', 'res_down']), rng.randrange(1, no + case['n_foreign'] + 1)])
        elif x < 0.65:
            ops.append(['vip_free', intruder, base + rng.randrange(0, min(size, 8))])   # release by a non-owner
        elif x < 0.72:
            ops.append(['vip_gc'])
        elif x < 0.80:
            ops.append(['svc_sync'])
        else:
            # service restart as services/_base_service.py does it: initialize, replay live requests, synchronize
            if rng.random() < 0.4:          # host reboot: the veth pairs are gone, vips/ persists
                for q in range(1, no + 1):
                    if rng.random() < 0.7:
                        ops.append(['veth_down', q])
            ops.append(['svc_restart'])
            for q in range(1, no + 1):
                if rng.random() < 0.6:
                    if rng.random() < 0.8:
                        ops.append(['res_up', q])
                    ops.append(['svc_create', q, envs[q]])
            if rng.random() < 0.85:
                ops.append(['svc_sync'])
    return ops


def gen_case(rng, i):
    fam = 'service' if i % 5 in (1, 3) else 'managers'
    no = rng.randrange(2, 9)
    case = {'family': fam, 'cidr': gen_cidr(rng, fam), 'n_owners': no, 'n_foreign': rng.randrange(0, 3)}
    names = [owner_name(k) for k in range(1, no + case['n_foreign'] + 2)]
    names += ['proid.app%d#%010d' % (k, k) for k in range(1, 4)]
    case['names'] = names
    nops = rng.randrange(8, 41)
    case['ops'] = gen_managers(rng, case, nops) if fam == 'managers' else gen_service(rng, case, nops)
    return case


# ------------------------------------------------------------------ implementation driver
_IMPL = None


class FakeNetdev:
    """Recording stand-in for treadmill.netdev: remembers veth pairs, aliases and bridge membership."""

    def __init__(self):
        self.devs = {}
        self.bridge = []
        self.calls = []

    def _rec(self, *a):
        self.calls.append(a)

    def link_set_up(self, dev):
        self._rec('link_set_up', dev)

    def link_set_down(self, dev):
        self._rec('link_set_down', dev)

    def bridge_setfd(self, dev, v):
        self._rec('bridge_setfd', dev, v)

    def dev_conf_route_localnet_set(self, dev, v):
        self._rec('route_localnet', dev, v)

    def dev_mtu(self, _dev):
        return 1500

    def dev_speed(self, _dev):
        return 10000

    def dev_alias(self, dev):
        return self.devs[dev]

    def bridge_brif(self, _br):
        return list(self.bridge) + ['tm1']

    def link_add_veth(self, a, b):
        self._rec('link_add_veth', a, b)
        self.devs[a] = None
        self.devs[b] = None

    def link_set_mtu(self, dev, mtu):
        self._rec('link_set_mtu', dev, mtu)

    def link_set_alias(self, dev, alias):
        self.devs[dev] = alias

    def bridge_addif(self, _br, dev):
        if dev not in self.bridge:
            self.bridge.append(dev)

    def dev_state(self, dev):
        if dev not in self.devs:
            raise OSError(errno.ENOENT, 'no such device', dev)
        return 'up'

    def link_del_veth(self, dev):
        self._rec('link_del_veth', dev)
        stem = dev.rsplit('.', 1)[0]
        for d in (stem + '.0', stem + '.1'):
            self.devs.pop(d, None)
            if d in self.bridge:
                self.bridge.remove(d)


class FakeIptables:
    """Recording stand-in for treadmill.iptables as used by network_service (ip-set calls only)."""

    def __init__(self, real):
        for k in dir(real):
            if k.isupper() or k.startswith('SET_'):
                setattr(self, k, getattr(real, k))
        self.calls = []

    def create_set(self, *a, **_kw):
        self.calls.append(('create_set',) + a)

    def add_ip_set(self, *a):
        self.calls.append(('add_ip_set',) + a)

    def rm_ip_set(self, *a):
        self.calls.append(('rm_ip_set',) + a)

    def test_ip_set(self, *_a):
        return False

    def atomic_set(self, *a, **_kw):
        self.calls.append(('atomic_set', a[0], tuple(sorted(a[1]))))


def impl():
    global _IMPL
    if _IMPL is None:
        sys.path.insert(0, core.PYLIB)
        logging.disable(logging.CRITICAL)
        from treadmill import vipfile, rulefile, endpoints, firewall, iptables
        from treadmill.services import network_service
        _IMPL = {'vipfile': vipfile, 'rulefile': rulefile, 'endpoints': endpoints, 'firewall': firewall,
                 'iptables': iptables, 'network_service': network_service}
    return _IMPL


def make_rule(desc):
    fw = impl()['firewall']
    d = {k: v for k, v in desc.items() if k not in ('chain', 'kind')}
    if desc['kind'] == 'dnat':
        return fw.DNATRule(**d)
    if desc['kind'] == 'snat':
        return fw.SNATRule(**d)
    return fw.PassThroughRule(**d)


def exc_code(e):
    if isinstance(e, FileExistsError):
        return 1
    if isinstance(e, ValueError):
        return 2
    if isinstance(e, KeyError):
        return 4
    if type(e) is Exception and 'Unable to' in str(e):
        return 3
    return 9


_counter = [0]


class World:
    def __init__(self, case):
        m = impl()
        _counter[0] += 1
        self.root = os.path.join(core.scratch(), 'c14-%d-%d' % (os.getpid(), _counter[0]))
        self.svc_dir = os.path.join(self.root, 'svc')
        self.res_dir = os.path.join(self.svc_dir, 'resources')
        self.vips_dir = os.path.join(self.svc_dir, 'vips')
        self.apps_dir = os.path.join(self.root, 'apps')
        self.rules_dir = os.path.join(self.root, 'rules')
        self.ep_dir = os.path.join(self.root, 'endpoints')
        for d in (self.res_dir, self.vips_dir, self.apps_dir, self.rules_dir, self.ep_dir):
            os.makedirs(d)
        self.names = case['names']
        self.ids = {n: i + 1 for i, n in enumerate(self.names)}
        base, plen = case['cidr']
        self.cidr = '%s/%d' % (ip_str(base), plen)
        self.vips = m['vipfile'].VipMgr(self.cidr, self.vips_dir, self.res_dir)
        self.rules = m['rulefile'].RuleMgr(self.rules_dir, self.apps_dir)
        self.eps = m['endpoints'].EndpointsMgr(self.ep_dir)
        self.rule_files = [m['rulefile'].RuleMgr._filenameify(r['chain'], make_rule(r)) for r in RULES]
        assert len(set(self.rule_files)) == len(RULES)
        self.netdev = FakeNetdev()
        self.ipt = FakeIptables(m['iptables'])
        ns = m['network_service']
        ns.netdev = self.netdev
        ns.iptables = self.ipt
        cidr = self.cidr

        class Svc(ns.NetworkResourceService):
            _TM_CIDR = cidr
        self.svc_cls = Svc
        self.svc = self.new_service()

    def new_service(self):
        svc = self.svc_cls('eth0', ext_ip='10.255.0.1', ext_mtu=1500, ext_speed=10000)
        svc.initialize(self.svc_dir)
        return svc

    def close(self):
        shutil.rmtree(self.root, ignore_errors=True)

    def name(self, i):
        return self.names[i - 1]

    # -- listings (canonical: sorted integer rows)
    def _links(self, d):
        out = []
        for n in os.listdir(d):
            p = os.path.join(d, n)
            out.append((n, os.path.basename(os.readlink(p)) if os.path.islink(p) else None))
        return out

    def list_vips(self):
        return sorted([ip_int(n), self.ids.get(o, 0)] for n, o in self._links(self.vips_dir))

    def list_rules(self):
        return sorted([self.rule_files.index(n) + 1, self.ids.get(o, 0)] for n, o in self._links(self.rules_dir))

    def list_specs(self):
        rows = []
        for n, o in self._links(self.ep_dir):
            app, proto, ep, rport, pid, port = n.split('~')
            rows.append([self.ids[app], PROTOS.index(proto), ENDPOINTS.index(ep), int(rport), int(pid), int(port),
                         self.ids.get(o, 0)])
        return sorted(rows)

    def list_devs(self):
        rows = []
        for n, d in self.svc._devices.items():
            rows.append([self.ids[n], ip_int(d['ip']) if 'ip' in d else -1, 1 if 'device' in d else 0,
                         ENVS.index(d['environment']) + 1 if 'environment' in d else -1,
                         1 if d.get('stale', False) else 0])
        return sorted(rows)

    def list_veth(self):
        return sorted([self.ids[self.netdev.devs[d]]] for d in self.netdev.bridge)

    def live(self, d):
        return sorted(self.ids[n] for n in os.listdir(d) if n in self.ids)

    def snapshot(self):
        return {'vips': self.list_vips(), 'rules': self.list_rules(), 'specs': self.list_specs(),
                'devs': self.list_devs(), 'veth': self.list_veth(),
                'res': self.live(self.res_dir), 'apps': self.live(self.apps_dir)}

    # -- one operation on the real code
    def spec_args(self, sp):
        return dict(appname=self.name(sp[0]), proto=PROTOS[sp[1]], endpoint=ENDPOINTS[sp[2]],
                    real_port=sp[3], pid=sp[4], port=sp[5])

    def gc_with(self, op):
        """Run the real garbage_collect with os.listdir wrapped: right after the collector's FIRST directory listing
        (whatever directory the implementation lists first) the owner's directory is created and the owner
        registers its entry through a manager instance of its own - what a container start in another process
        does.  The listing already taken is returned unchanged."""
        m = impl()
        k = op[0]
        real_listdir = os.listdir
        state = {'fired': False}
        self.mid = None

        def newcomer():
            state['fired'] = True
            os.listdir = real_listdir
            try:
                if k == 'vip_gc_with':
                    os.makedirs(os.path.join(self.res_dir, self.name(op[1])), exist_ok=True)
                    other = m['vipfile'].VipMgr(self.cidr, self.vips_dir, self.res_dir)
                    try:
                        other.alloc(self.name(op[1]), None if op[2] is None else ip_str(op[2]))
                    except Exception:   # noqa - the newcomer's failure is its own business
                        pass
                elif k == 'rule_gc_with':
                    os.makedirs(os.path.join(self.apps_dir, self.name(op[2])), exist_ok=True)
                    r = RULES[op[1] - 1]
                    try:
                        m['rulefile'].RuleMgr(self.rules_dir, self.apps_dir).create_rule(
                            r['chain'], make_rule(r), self.name(op[2]))
                    except OSError:
                        pass
                else:
                    os.makedirs(os.path.join(self.apps_dir, self.name(op[2])), exist_ok=True)
                    try:
                        m['endpoints'].EndpointsMgr(self.ep_dir).create_spec(
                            owner=os.path.join(self.apps_dir, self.name(op[2])), **self.spec_args(op[1]))
                    except OSError:
                        pass
                self.mid = self.snapshot()
            finally:
                os.listdir = hooked

        def hooked(path='.'):
            out = real_listdir(path)
            if not state['fired']:
                newcomer()
            return out
        os.listdir = hooked
        try:
            if k == 'vip_gc_with':
                self.vips.garbage_collect()
            elif k == 'rule_gc_with':
                self.rules.garbage_collect()
            else:
                m['endpoints'].garbage_collect(self.ep_dir)
        finally:
            os.listdir = real_listdir
        if not state['fired']:      # a collector that lists nothing: the owner appears afterwards
            newcomer()
            os.listdir = real_listdir

    def apply(self, op):
        k = op[0]
        if k in ('res_up', 'app_up'):
            os.makedirs(os.path.join(self.res_dir if k == 'res_up' else self.apps_dir, self.name(op[1])),
                        exist_ok=True)
        elif k in ('res_down', 'app_down'):
            shutil.rmtree(os.path.join(self.res_dir if k == 'res_down' else self.apps_dir, self.name(op[1])),
                          ignore_errors=True)
        elif k == 'veth_down':
            veth0 = impl()['network_service']._device_from_rsrc_id(self.name(op[1]))[0]
            if veth0 in self.netdev.devs:
                self.netdev.link_del_veth(veth0)
        elif k == 'vip_alloc':
            picked = None if op[2] is None else ip_str(op[2])
            return [0, ip_int(self.vips.alloc(self.name(op[1]), picked))]
        elif k == 'vip_free':
            self.vips.free(self.name(op[1]), ip_str(op[2]))
        elif k == 'vip_gc':
            self.vips.garbage_collect()
        elif k == 'rule_create':
            r = RULES[op[1] - 1]
            self.rules.create_rule(r['chain'], make_rule(r), self.name(op[2]))
        elif k == 'rule_unlink':
            r = RULES[op[1] - 1]
            self.rules.unlink_rule(r['chain'], make_rule(r), self.name(op[2]))
        elif k == 'rule_gc':
            self.rules.garbage_collect()
        elif k == 'spec_create':
            self.eps.create_spec(owner=os.path.join(self.apps_dir, self.name(op[2])), **self.spec_args(op[1]))
        elif k == 'spec_unlink':
            owner = None if op[2] is None else os.path.join(self.apps_dir, self.name(op[2]))
            self.eps.unlink_spec(owner=owner, **self.spec_args(op[1]))
        elif k == 'spec_unlink_all':
            self.eps.unlink_all(self.name(op[1]), proto=None if op[2] is None else PROTOS[op[2]],
                                endpoint=None if op[3] is None else ENDPOINTS[op[3]],
                                owner=None if op[4] is None else self.name(op[4]))
        elif k == 'spec_gc':
            impl()['endpoints'].garbage_collect(self.ep_dir)
        elif k in GCWITH:
            self.gc_with(op)
        elif k == 'svc_create':
            rep = self.svc.on_create_request(self.name(op[1]), {'environment': ENVS[op[2] - 1]})
            return [0, ip_int(rep['vip'])]
        elif k == 'svc_delete':
            self.svc.on_delete_request(self.name(op[1]))
        elif k == 'svc_sync':
            self.svc.synchronize()
        elif k == 'svc_restart':
            self.svc = self.new_service()
        else:
            raise AssertionError('unknown op %r' % (op,))
        return [0]


def impl_run(case):
    w = World(case)
    try:
        steps = []
        before = w.snapshot()
        for op in case['ops']:
            try:
                res = w.apply(op)
                err = ''
            except Exception as e:   # noqa - mapped to a small enum
                res = [exc_code(e)]
                err = '%s: %s' % (type(e).__name__, e)
            after = w.snapshot()
            st = {'res': res, 'err': err, 'after': after}
            if op[0] in GCWITH:
                st['mid'] = w.mid       # the host right after the newcomer registered, before any entry is visited
            steps.append(st)
        return {'init': before, 'steps': steps}
    finally:
        w.close()


# ------------------------------------------------------------------ flattening (mirrors Owners.run_obs)
def dump_rows(rows):
    out = [len(rows)]
    for r in sorted(rows):
        out.extend(r)
    return out


def dump_after(op, snap):
    k = op[0]
    if k in GCWITH:
        return dump_rows(snap[GCWITH[k]])
    if k in VIP_OPS:
        return dump_rows(snap['vips'])
    if k in RULE_OPS:
        return dump_rows(snap['rules'])
    if k in SPEC_OPS:
        return dump_rows(snap['specs'])
    if k in SVC_OPS:
        return dump_rows(snap['vips']) + dump_rows(snap['devs'])
    return []


def expected(case, obs):
    out = []
    last = obs['init']
    for op, st in zip(case['ops'], obs['steps']):
        out.extend(st['res'])
        out.extend(dump_after(op, st['after']))
        last = st['after']
    out.extend(dump_rows(last['vips']) + dump_rows(last['rules']) + dump_rows(last['specs'])
               + dump_rows(last['devs']) + dump_rows(last['veth']))
    return out


# ------------------------------------------------------------------ oracle: the statement on the listings
def _tbl(rows):
    return {tuple(r[:-1]): r[-1] for r in rows}


def _removal_allowed(op, table, key, owner, before):
    """May operation `op` remove the entry key -> owner of `table`, given the state before it?"""
    k = op[0]
    if table == 'vips':
        a = key[0]
        if k == 'vip_free':
            return op[1] == owner and op[2] == a
        if k == 'vip_gc':
            return owner not in before['res']
        if k == 'svc_delete':
            return op[1] == owner and any(d[0] == owner and d[1] == a for d in before['devs'])
        if k == 'svc_sync':
            return owner not in before['res'] or any(d[0] == owner and d[1] == a and d[4] == 1
                                                     for d in before['devs'])
        return False
    if table == 'rules':
        if k == 'rule_unlink':
            return op[2] == owner and op[1] == key[0]
        if k == 'rule_gc':
            return owner not in before['apps']
        return False
    if k == 'spec_unlink':
        return tuple(op[1]) == key and op[2] in (None, owner)     # owner None: the ownerless (administrative) call
    if k == 'spec_unlink_all':
        return (op[1] == key[0] and op[2] in (None, key[1]) and op[3] in (None, key[2])
                and op[4] in (None, owner))
    if k == 'spec_gc':
        return owner not in before['apps']
    return False


def _creator(op, table):
    k = op[0]
    if table == 'vips':
        return op[1] if k in ('vip_alloc', 'svc_create') else None
    if table == 'rules':
        return op[2] if k == 'rule_create' else None
    return op[2] if k == 'spec_create' else None


def oracle(case, obs):
    base, plen = case['cidr']
    size = 1 << (32 - plen)
    out = []

    def bad(sig, what):
        if sig not in [s for s, _w in out]:
            out.append((sig, what))
    before = obs['init']
    guarded = True      # no collection ran while a non-stale device's resource directory was missing
    for n, (op, st) in enumerate(zip(case['ops'], obs['steps'])):
        after = st['after']
        k = op[0]
        where = 'op %d %r' % (n, op)
        if k in GCWITH:
            # the newcomer: only its own entry may have appeared, nothing may have gone
            table = GCWITH[k]
            mid = st.get('mid') or before
            owner = op[1] if k == 'vip_gc_with' else op[2]
            tb, tm = _tbl(before[table]), _tbl(mid[table])
            for key, o in tb.items():
                if tm.get(key) != o:
                    bad('%s-entry-removed-by-non-owner' % table, '%s: the newcomer changed %r' % (where, key))
            for key, o in tm.items():
                if key not in tb and o != owner:
                    bad('%s-entry-created-for-someone-else' % table, '%s: new entry %r -> %d' % (where, key, o))
            # from here on the step is a plain collection on the host the collector actually visited
            before = mid
            op = [{'vips': 'vip_gc', 'rules': 'rule_gc', 'specs': 'spec_gc'}[table]]
            k = op[0]
            where += ' (owner %d appeared and registered after the first directory listing)' % owner
        # schedules outside what services/_base_service.py produces (Owners.guard): a collection while a device's
        # resource directory is missing, or the owner freeing its address behind the service's back
        if k == 'vip_gc' and any(d[1] != -1 and d[0] not in before['res'] for d in before['devs']):
            guarded = False
        if k == 'svc_sync' and any(d[4] == 0 and d[0] not in before['res'] for d in before['devs']):
            guarded = False
        if k == 'vip_free' and any(d[0] == op[1] and d[1] == op[2] for d in before['devs']):
            guarded = False
        for table in ('vips', 'rules', 'specs'):
            tb, ta = _tbl(before[table]), _tbl(after[table])
            if len(ta) != len(after[table]):
                bad('%s-key-held-twice' % table, '%s: a key is listed twice' % where)
            for key, owner in tb.items():
                if key in ta and ta[key] != owner:
                    bad('%s-entry-taken-over' % table,
                        '%s: %r owned by %d is now owned by %d' % (where, key, owner, ta[key]))
                if key not in ta and not _removal_allowed(op, table, key, owner, before):
                    bad('%s-entry-removed-by-non-owner' % table,
                        '%s: removed %r held by owner %d (live=%s)' % (where, key, owner, owner in
                                                                     before['res' if table == 'vips' else 'apps']))
            for key, owner in ta.items():
                if key not in tb and _creator(op, table) != owner:
                    bad('%s-entry-created-for-someone-else' % table, '%s: new entry %r -> %d' % (where, key, owner))
            # garbage collection: exactly the entries whose owner is gone, nothing else
            if k == {'vips': 'vip_gc', 'rules': 'rule_gc', 'specs': 'spec_gc'}[table]:
                live = before['res' if table == 'vips' else 'apps']
                want = {key: o for key, o in tb.items() if o in live}
                if ta != want:
                    lost = [key for key in want if key not in ta]
                    bad('%s-gc-removed-live-entry' % table if lost else '%s-gc-left-dead-entry' % table,
                        '%s: after gc %r, required %r' % (where, sorted(ta.items()), sorted(want.items())))
            elif k in {'vips': VIP_OPS + SVC_OPS, 'rules': RULE_OPS, 'specs': SPEC_OPS}[table]:
                pass
            elif ta != tb:
                bad('%s-changed-by-unrelated-operation' % table, where)
        for a, _o in after['vips']:
            if not (base <= a < base + size):
                bad('vip-outside-network', '%s: %s not in the configured network' % (where, ip_str(a)))
        if k in ('vip_alloc', 'svc_create') and st['res'][0] == 0:
            a = st['res'][1]
            tb, ta = _tbl(before['vips']), _tbl(after['vips'])
            scanned = k == 'svc_create' or op[2] is None
            if scanned and size >= 4 and (a == base or a == base + size - 1):
                bad('vip-network-or-broadcast-address', '%s returned %s' % (where, ip_str(a)))
            if ta.get((a,)) != op[1] and (k == 'vip_alloc' or guarded):
                bad('alloc-returned-address-not-held-by-caller',
                    '%s returned %s, held by %r' % (where, ip_str(a), ta.get((a,))))
            if k == 'vip_alloc' and (a,) in tb:
                bad('alloc-returned-held-address', '%s returned %s already held by %d' % (where, ip_str(a), tb[(a,)]))
        if k == 'svc_create':
            prev = [d for d in before['devs'] if d[0] == op[1] and d[1] != -1]
            if prev and (st['res'][0] != 0 or st['res'][1] != prev[0][1]):
                bad('repeated-request-different-address',
                    '%s: device had %s, reply %r %s' % (where, ip_str(prev[0][1]), st['res'], st['err']))
        if k == 'svc_sync' and st['res'][0] == 0:
            if any(d[4] == 1 for d in after['devs']):
                bad('stale-device-not-freed', '%s: stale devices remain %r' % (where, after['devs']))
            ta = _tbl(after['vips'])
            for d in before['devs']:
                if d[4] == 1 and d[1] != -1 and ta.get((d[1],)) == d[0]:
                    bad('stale-device-not-freed', '%s: address %s of stale device %d still allocated'
                        % (where, ip_str(d[1]), d[0]))
        if guarded and case['family'] == 'service':
            ips = [d[1] for d in after['devs'] if d[1] != -1]
            if len(ips) != len(set(ips)):
                bad('two-devices-one-address', '%s: devices %r' % (where, after['devs']))
            ta = _tbl(after['vips'])
            for d in after['devs']:
                if d[1] != -1 and ta.get((d[1],)) != d[0]:
                    bad('device-address-not-held', '%s: device %d has %s, vips says %r'
                        % (where, d[0], ip_str(d[1]), ta.get((d[1],))))
        before = after
    return out or None


# ------------------------------------------------------------------ model terms
def t_optz(v):
    return G.opt(v, G.z)


def t_spec(sp):
    return ('{| sp_app := %s; sp_proto := %s; sp_ep := %s; sp_rport := %s; sp_pid := %s; sp_port := %s |}'
            % tuple(G.z(x) for x in sp))


def t_xop(op):
    k = op[0]
    if k == 'vip_gc_with':
        return 'XVipGcWith %s %s' % (G.z(op[1]), t_optz(op[2]))
    if k == 'rule_gc_with':
        return 'XRuleGcWith %s %s' % (G.z(op[1]), G.z(op[2]))
    if k == 'spec_gc_with':
        return 'XSpecGcWith %s %s' % (t_spec(op[1]), G.z(op[2]))
    return 'XBase (%s)' % t_op(op)


def t_op(op):
    k = op[0]
    if k == 'res_up':
        return 'ResUp %s' % G.z(op[1])
    if k == 'res_down':
        return 'ResDown %s' % G.z(op[1])
    if k == 'app_up':
        return 'AppUp %s' % G.z(op[1])
    if k == 'app_down':
        return 'AppDown %s' % G.z(op[1])
    if k == 'veth_down':
        return 'VethDown %s' % G.z(op[1])
    if k == 'vip_alloc':
        return 'VipAlloc %s %s' % (G.z(op[1]), t_optz(op[2]))
    if k == 'vip_free':
        return 'VipFree %s %s' % (G.z(op[1]), G.z(op[2]))
    if k == 'vip_gc':
        return 'VipGc'
    if k == 'rule_create':
        return 'RuleCreate %s %s' % (G.z(op[1]), G.z(op[2]))
    if k == 'rule_unlink':
        return 'RuleUnlink %s %s' % (G.z(op[1]), G.z(op[2]))
    if k == 'rule_gc':
        return 'RuleGc'
    if k == 'spec_create':
        return 'SpecCreate %s %s' % (t_spec(op[1]), G.z(op[2]))
    if k == 'spec_unlink':
        return 'SpecUnlink %s %s' % (t_spec(op[1]), t_optz(op[2]))
    if k == 'spec_unlink_all':
        return 'SpecUnlinkAll %s %s %s %s' % (G.z(op[1]), t_optz(op[2]), t_optz(op[3]), t_optz(op[4]))
    if k == 'spec_gc':
        return 'SpecGc'
    if k == 'svc_create':
        return 'SvcCreate %s %s' % (G.z(op[1]), G.z(op[2]))
    if k == 'svc_delete':
        return 'SvcDelete %s' % G.z(op[1])
    if k == 'svc_sync':
        return 'SvcSync'
    if k == 'svc_restart':
        return 'SvcRestart'
    raise AssertionError(op)


def case_term(case):
    base, plen = case['cidr']
    c = '{| c_base := %s; c_size := %s |}' % (G.z(base), G.z(1 << (32 - plen)))
    return G.pair(c, G.lst([t_xop(o) for o in case['ops']]))


def nontrivial(case, obs):
    """some entry outlived an attempt to remove it by a non-owner, or a collection removed something,
    or a repeated service request re-used an address"""
    before = obs['init']
    for op, st in zip(case['ops'], obs['steps']):
        k = op[0]
        after = st['after']
        if k in ('vip_free', 'rule_unlink', 'spec_unlink', 'spec_unlink_all'):
            table = {'v': 'vips', 'r': 'rules', 's': 'specs'}[k[0]]
            tb = _tbl(before[table])
            if k == 'vip_free' and tb.get((op[2],)) not in (None, op[1]):
                return True
            if k == 'rule_unlink' and tb.get((op[1],)) not in (None, op[2]):
                return True
            if k == 'spec_unlink' and op[2] is not None and tb.get(tuple(op[1])) not in (None, op[2]):
                return True
        if k in ('vip_gc', 'rule_gc', 'spec_gc', 'svc_sync') and (before['vips'], before['rules'], before['specs']) != \
                (after['vips'], after['rules'], after['specs']):
            return True
        if k in GCWITH and st.get('mid') and st['mid'][GCWITH[k]] != before[GCWITH[k]]:
            return True         # the owner that appeared during the collection did register something
        if k == 'svc_create' and any(d[0] == op[1] and d[1] != -1 for d in before['devs']):
            return True
        before = after
    return False


def _extra(_r, cases, obs):
    dist = {'family': {}, 'ops': {}, 'results': {}, 'prefix_len': {}}
    notes = {'non_owner_release_attempts': 0, 'gc_removed_entries': 0, 'spec_repeat_create_raises': 0,
             'address_exhausted': 0, 'picked_network_or_broadcast_allocated': 0, 'service_reuse': 0,
             'unguarded_collections': 0, 'collections_with_newcomer': 0, 'newcomer_registered': 0,
             'newcomer_was_dead_before': 0}
    for c, o in zip(cases, obs):
        dist['family'][c['family']] = dist['family'].get(c['family'], 0) + 1
        dist['prefix_len'][str(c['cidr'][1])] = dist['prefix_len'].get(str(c['cidr'][1]), 0) + 1
        before = o['init']
        size = 1 << (32 - c['cidr'][1])
        for op, st in zip(c['ops'], o['steps']):
            dist['ops'][op[0]] = dist['ops'].get(op[0], 0) + 1
            rk = '%s:%d' % (op[0], st['res'][0])
            if st['res'][0] != 0:
                dist['results'][rk] = dist['results'].get(rk, 0) + 1
            k = op[0]
            if k == 'vip_free' and _tbl(before['vips']).get((op[2],)) not in (None, op[1]):
                notes['non_owner_release_attempts'] += 1
            if k == 'rule_unlink' and _tbl(before['rules']).get((op[1],)) not in (None, op[2]):
                notes['non_owner_release_attempts'] += 1
            if k == 'spec_unlink' and op[2] is not None and _tbl(before['specs']).get(tuple(op[1])) not in (None, op[2]):
                notes['non_owner_release_attempts'] += 1
            if k in GCWITH:
                notes['collections_with_newcomer'] += 1
                t = GCWITH[k]
                owner = op[1] if k == 'vip_gc_with' else op[2]
                if st.get('mid') and st['mid'][t] != before[t]:
                    notes['newcomer_registered'] += 1
                if owner not in before['res' if t == 'vips' else 'apps']:
                    notes['newcomer_was_dead_before'] += 1
            if k.endswith('_gc') or k == 'svc_sync':
                n0 = len(before['vips']) + len(before['rules']) + len(before['specs'])
                n1 = len(st['after']['vips']) + len(st['after']['rules']) + len(st['after']['specs'])
                notes['gc_removed_entries'] += max(0, n0 - n1)
                if any((d[4] == 0 or (k == 'vip_gc' and d[1] != -1)) and d[0] not in before['res']
                       for d in before['devs']):
                    notes['unguarded_collections'] += 1
            if k == 'spec_create' and st['res'][0] == 1 and _tbl(before['specs']).get(tuple(op[1])) == op[2]:
                notes['spec_repeat_create_raises'] += 1
            if st['res'][0] == 3:
                notes['address_exhausted'] += 1
            if k == 'vip_alloc' and st['res'][0] == 0 and op[2] is not None and size >= 4 and \
                    st['res'][1] in (c['cidr'][0], c['cidr'][0] + size - 1):
                notes['picked_network_or_broadcast_allocated'] += 1
            if k == 'svc_create' and any(d[0] == op[1] and d[1] != -1 for d in before['devs']):
                notes['service_reuse'] += 1
            before = st['after']
    return {'distribution': dist, 'observations': notes}


TRUSTED = [
    'Coq 8.16.1 kernel (coqc); vm_compute only for the Examples of Props/C14.v and for evaluating the model on '
    'the generated cases; no native_compute',
    'Print Assumptions: closed under the global context for every theorem of Props/C14.v',
    'modelled, not verified: symlink(2) fails with EEXIST when the name exists (atomic test-and-set) - this is the '
    'definition Owners.symlink, and exclusivity under true concurrency rests on it; readlink/unlink/stat on '
    'dangling links; os.listdir order is not modelled (listings are compared sorted)',
    'hand-written model Node/Owners.v of VipMgr, RuleMgr, EndpointsMgr, endpoints.garbage_collect and '
    'NetworkResourceService.on_create_request/on_delete_request/synchronize/initialize, tied by differential '
    'execution on real temporary directories after every operation (cases_*.v + vm_compute)',
    'netdev and iptables are recording fakes inside the harness process (veth pairs, aliases, bridge membership; '
    'test_ip_set always False); keys of rule files are the file names produced by the real RuleMgr._filenameify '
    '(its injectivity is C15), names are mapped to integers by the harness',
]
ASSUMPTIONS = [
    'requests are sequential (the services are single-threaded); the readlink -> unlink window of free/unlink is '
    'not interleaved with other requests.  One concurrent shape IS covered: an owner appearing and registering an '
    'entry in the middle of a garbage collection (ops *_gc_with; the real garbage_collect runs with os.listdir '
    'wrapped so that the newcomer acts right after the collector\'s first directory listing); the model gives such a '
    'pass the effect of "appears; registers; collect" (Owners.lin), which holds for code that checks each owner '
    'when it visits the entry',
    'VipMgr.initialize / RuleMgr.initialize / EndpointsMgr.initialize (boot-time wipe of the directory) are outside '
    'the operation alphabet',
    'EndpointsMgr.unlink_spec / unlink_all called without an owner (the administrative form used by sproc '
    'nodeinfo/tickets/keytabs) remove unconditionally; "release by a non-owner" means a release that names an owner',
    'create_spec always receives an owner (POSIX callers); application names contain no glob metacharacters',
    'service-level consistency (device address = vips entry) is claimed for schedules in which no collection runs '
    'while a non-stale device has lost its resource directory (what services/_base_service.py guarantees: '
    'synchronize runs once, right after replaying the live requests); one owner holding two addresses at a service '
    'restart (listing-order dependent) is excluded from the generated cases',
]


def _svcframe():
    from . import svcframe
    return svcframe


def run(tier, seed):
    def extra(r, cases, obs):
        cov = _extra(r, cases, obs)
        from . import c14init      # several pools over one vips directory: initialize() of one and the owners of another
        cov.update(c14init.stage(r, seed, 300 if tier == 'quick' else 8000))
        import gc
        gc.collect()
        gc.freeze()                # the observations of the main stage stay out of the collections the next stages force
        try:
            from . import c14frame     # the real resource-service framework: start-up replay, inotify loop, real client
            cov.update(c14frame.stage(r, seed, 150 if tier == 'quick' else 2500))
            from . import svcframe     # the framework as a producer of service schedules: Node/SvcFrame.v, Props/C14Frame.v
            u = svcframe.stage(r, seed, tier)
        finally:
            gc.unfreeze()
        cov['extra_obligations'] = cov.get('extra_obligations', 0) + u.pop('svcframe_obligations', 0)
        cov.update(u)
        return cov
    core.standard_run(PID, tier, seed, {
        'model_vos': ['Node/Owners'], 'table_sections': ['source_shape', 'svcframe'],
        'preamble': PREAMBLE, 'run_fn': RUN_FN, 'in_type': IN_TYPE,
        'gen_case': gen_case,
        'impl_run': impl_run,
        'expected': expected,
        'case_term': lambda c, o: case_term(c),
        'oracle': oracle,
        'nontrivial': nontrivial,
        'n_quick': 240, 'n_thorough': 10000, 'search_quick': 1500, 'search_thorough': 50000,
        'corpus': 'c14.json', 'shard': 20,
        'rule': 'seeded generator (one random.Random(seed)); 3 of 5 cases drive VipMgr/RuleMgr/EndpointsMgr directly '
                '(8-40 ops by 2-8 owners on a /24../32 network, owners appearing/disappearing, releases by '
                'non-owners, repeated creates, picked addresses incl. network/broadcast/outside, collections during which '
                'an owner (mostly one that was gone) appears and registers an entry), 2 of 5 drive '
                'NetworkResourceService (create/repeat/delete/synchronize/restart with foreign junk allocations and '
                'intruder frees); non-trivial = a release by a non-owner hit a held entry, or a collection removed '
                'something, or a repeated service request found its device, or an owner registered an entry '
                'during a collection',
        'trusted': list(TRUSTED) + list(_svcframe().TRUSTED), 'assumptions': list(ASSUMPTIONS) + list(_svcframe().ASSUMPTIONS),
        'anchors': ANCHORS, 'extra': extra,
    })


def replay_case(case):
    if isinstance(case, dict) and case.get('engine') == 'E-node-svcframe':
        return _svcframe().replay_case(case)
    if isinstance(case, dict) and case.get('engine') == 'E-node-c14frame':
        from . import c14frame
        return c14frame.replay_case(case)
    if isinstance(case, dict) and case.get('engine') == 'E-node-c14init':
        from . import c14init
        return c14init.replay_case(case)
    v = oracle(case, impl_run(case))
    return v[0] if v else None
