"""Translator: regenerates coq/theories/Gen/Tables.v from /repo's current working tree.

Fail-closed: every function pattern-matches the Python AST (or the imported
module's values) and raises TranslatorError naming what it could not recognise.
The output is plain `Definition`s, no proofs.
"""
import ast
import os

from . import gallina as G

REPO = os.environ.get('VERIF_REPO', '/repo')
PY = os.path.join(REPO, 'lib', 'python')


class TranslatorError(Exception):
    pass


SRC_SEEN = set()      # every file a translator read (tools/mkshape.py records the local names of their functions)


def _src(rel):
    path = os.path.join(PY, rel)
    with open(path) as f:
        text = f.read()
    SRC_SEEN.add(rel)
    from . import tables_shape         # late: tables_shape imports this module
    return tables_shape.restore_locals(rel, text)


def _func(tree, name):
    for node in ast.walk(tree):
        if isinstance(node, ast.FunctionDef) and node.name == name:
            return node
    raise TranslatorError('function %s not found' % name)


def _body(fn):
    body = list(fn.body)
    if body and isinstance(body[0], ast.Expr) and isinstance(body[0].value, ast.Constant) \
            and isinstance(body[0].value.value, str):
        body = body[1:]
    return body


def _const_str(node, what):
    if isinstance(node, ast.Constant) and isinstance(node.value, str):
        return node.value
    raise TranslatorError('%s: expected string constant, got %s' % (what, ast.dump(node)))


# ---------------------------------------------------------------------------
# C19: dataflow of api/allocation.py
# ---------------------------------------------------------------------------
_KEYS = {'cpu': 'KCpu', 'disk': 'KDisk', 'memory': 'KMem'}
_PARSERS = {'cpu_units': 'PCpu', 'size_to_bytes': 'PSize'}


def _parser_call(node, objname, what):
    """utils.<parser>(<objname>['<key>'])  ->  (parser, key)"""
    if not (isinstance(node, ast.Call) and isinstance(node.func, ast.Attribute)
            and isinstance(node.func.value, ast.Name) and node.func.value.id == 'utils'
            and len(node.args) == 1 and not node.keywords):
        raise TranslatorError('%s: expected utils.<parser>(%s[key]), got %s' % (what, objname, ast.dump(node)))
    parser = node.func.attr
    if parser not in _PARSERS:
        raise TranslatorError('%s: unknown parser utils.%s' % (what, parser))
    arg = node.args[0]
    if not (isinstance(arg, ast.Subscript) and isinstance(arg.value, ast.Name) and arg.value.id == objname):
        raise TranslatorError('%s: expected %s[key] argument, got %s' % (what, objname, ast.dump(arg)))
    key = _const_str(arg.slice, what)
    if key not in _KEYS:
        raise TranslatorError('%s: unknown key %r' % (what, key))
    return _PARSERS[parser], _KEYS[key]


def _dict_flows(node, objname, what):
    if not isinstance(node, ast.Dict):
        raise TranslatorError('%s: expected dict literal' % what)
    flows = []
    for k, v in zip(node.keys, node.values):
        acc = _const_str(k, what)
        if acc not in _KEYS:
            raise TranslatorError('%s: unknown accumulator key %r' % (what, acc))
        parser, src = _parser_call(v, objname, what)
        flows.append((_KEYS[acc], parser, src))
    return flows


def _is_skip_old(stmt, what):
    """if alloc['_id'] == old_id: continue"""
    ok = (isinstance(stmt, ast.If) and isinstance(stmt.test, ast.Compare)
          and len(stmt.test.ops) == 1 and isinstance(stmt.test.ops[0], ast.Eq)
          and isinstance(stmt.test.left, ast.Subscript)
          and isinstance(stmt.test.left.value, ast.Name) and stmt.test.left.value.id == 'alloc'
          and isinstance(stmt.test.left.slice, ast.Constant) and stmt.test.left.slice.value == '_id'
          and isinstance(stmt.test.comparators[0], ast.Name) and stmt.test.comparators[0].id == 'old_id'
          and len(stmt.body) == 1 and isinstance(stmt.body[0], ast.Continue) and not stmt.orelse)
    if not ok:
        raise TranslatorError('%s: expected "if alloc[\'_id\'] == old_id: continue"' % what)


def _augsub(stmt, target_check, what):
    """<target>['acc'] -= utils.parser(alloc['src'])"""
    if not (isinstance(stmt, ast.AugAssign) and isinstance(stmt.op, ast.Sub)
            and isinstance(stmt.target, ast.Subscript)):
        raise TranslatorError('%s: expected "free[..] -= ..", got %s' % (what, ast.dump(stmt)))
    if not target_check(stmt.target.value):
        raise TranslatorError('%s: unexpected accumulator %s' % (what, ast.dump(stmt.target.value)))
    acc = _const_str(stmt.target.slice, what)
    if acc not in _KEYS:
        raise TranslatorError('%s: unknown accumulator key %r' % (what, acc))
    parser, src = _parser_call(stmt.value, 'alloc', what)
    return (_KEYS[acc], parser, src)


def _name_is(node, name):
    return isinstance(node, ast.Name) and node.id == name


def c19_flows():
    tree = ast.parse(_src('treadmill/api/allocation.py'))

    # _calc_free
    body = _body(_func(tree, '_calc_free'))
    if len(body) != 3:
        raise TranslatorError('_calc_free: expected [free = {...}; for alloc in allocs; return free]')
    asg, loop, ret = body
    if not (isinstance(asg, ast.Assign) and len(asg.targets) == 1 and _name_is(asg.targets[0], 'free')):
        raise TranslatorError('_calc_free: first statement is not "free = {...}"')
    free_init = _dict_flows(asg.value, 'limit', '_calc_free init')
    if not (isinstance(loop, ast.For) and _name_is(loop.target, 'alloc') and _name_is(loop.iter, 'allocs')
            and not loop.orelse):
        raise TranslatorError('_calc_free: expected "for alloc in allocs"')
    _is_skip_old(loop.body[0], '_calc_free')
    free_sub = [_augsub(s, lambda t: _name_is(t, 'free'), '_calc_free') for s in loop.body[1:]]
    if not (isinstance(ret, ast.Return) and _name_is(ret.value, 'free')):
        raise TranslatorError('_calc_free: expected "return free"')

    # _calc_free_traits
    body = _body(_func(tree, '_calc_free_traits'))
    if len(body) != 4:
        raise TranslatorError('_calc_free_traits: unexpected statement count %d' % len(body))
    asg, loop1, loop2, ret = body
    if not (isinstance(asg, ast.Assign) and _name_is(asg.targets[0], 'free')
            and isinstance(asg.value, ast.Dict) and not asg.value.keys):
        raise TranslatorError('_calc_free_traits: expected "free = {}"')
    if not (isinstance(loop1, ast.For) and _name_is(loop1.target, 'limit') and _name_is(loop1.iter, 'limits')
            and len(loop1.body) == 1 and isinstance(loop1.body[0], ast.Assign)):
        raise TranslatorError('_calc_free_traits: expected "for limit in limits: free[limit[\'trait\']] = {...}"')
    tgt = loop1.body[0].targets[0]
    if not (isinstance(tgt, ast.Subscript) and _name_is(tgt.value, 'free')
            and isinstance(tgt.slice, ast.Subscript) and _name_is(tgt.slice.value, 'limit')
            and _const_str(tgt.slice.slice, 'trait key') == 'trait'):
        raise TranslatorError('_calc_free_traits: unexpected init target')
    trait_init = _dict_flows(loop1.body[0].value, 'limit', '_calc_free_traits init')
    if not (isinstance(loop2, ast.For) and _name_is(loop2.target, 'alloc') and _name_is(loop2.iter, 'allocs')
            and len(loop2.body) == 2):
        raise TranslatorError('_calc_free_traits: expected "for alloc in allocs" with skip + trait loop')
    _is_skip_old(loop2.body[0], '_calc_free_traits')
    inner = loop2.body[1]
    ok = (isinstance(inner, ast.For) and _name_is(inner.target, 'trait')
          and isinstance(inner.iter, ast.Subscript) and _name_is(inner.iter.value, 'alloc')
          and _const_str(inner.iter.slice, 'traits key') == 'traits'
          and len(inner.body) == 1 and isinstance(inner.body[0], ast.If) and not inner.body[0].orelse)
    if not ok:
        raise TranslatorError('_calc_free_traits: expected "for trait in alloc[\'traits\']: if trait in free:"')
    test = inner.body[0].test
    if not (isinstance(test, ast.Compare) and _name_is(test.left, 'trait') and len(test.ops) == 1
            and isinstance(test.ops[0], ast.In) and _name_is(test.comparators[0], 'free')):
        raise TranslatorError('_calc_free_traits: expected "if trait in free"')

    def _trait_target(t):
        return isinstance(t, ast.Subscript) and _name_is(t.value, 'free') and _name_is(t.slice, 'trait')
    trait_sub = [_augsub(s, _trait_target, '_calc_free_traits') for s in inner.body[0].body]
    if not (isinstance(ret, ast.Return) and _name_is(ret.value, 'free')):
        raise TranslatorError('_calc_free_traits: expected "return free"')

    # _check_limit
    body = _body(_func(tree, '_check_limit'))
    check = []
    for stmt in body:
        ok = (isinstance(stmt, ast.If) and not stmt.orelse and isinstance(stmt.test, ast.Compare)
              and len(stmt.test.ops) == 1 and len(stmt.body) == 1 and isinstance(stmt.body[0], ast.Raise))
        if not ok:
            raise TranslatorError('_check_limit: expected "if parser(request[k]) > limit[k]: raise ..."')
        if not isinstance(stmt.test.ops[0], ast.Gt):
            raise TranslatorError('_check_limit: comparison operator is %s, expected Gt'
                                  % type(stmt.test.ops[0]).__name__)
        parser, src = _parser_call(stmt.test.left, 'request', '_check_limit')
        rhs = stmt.test.comparators[0]
        if not (isinstance(rhs, ast.Subscript) and _name_is(rhs.value, 'limit')):
            raise TranslatorError('_check_limit: expected limit[key] on the right-hand side')
        acc = _const_str(rhs.slice, '_check_limit')
        if acc not in _KEYS:
            raise TranslatorError('_check_limit: unknown key %r' % acc)
        exc_call = stmt.body[0].exc
        ok = (isinstance(exc_call, ast.Call) and isinstance(exc_call.func, ast.Attribute)
              and exc_call.func.attr == 'InvalidInputError')
        if not ok:
            raise TranslatorError('_check_limit: raises something other than exc.InvalidInputError')
        check.append((_KEYS[acc], parser, src))
    return {'t_free_init': free_init, 't_free_sub': free_sub, 't_trait_init': trait_init,
            't_trait_sub': trait_sub, 't_check': check}


def _emit_c19():
    flows = c19_flows()

    def fl(t):
        return '{| fl_acc := %s; fl_parser := %s; fl_src := %s |}' % t
    fields = '; '.join('%s := %s' % (k, G.lst([fl(t) for t in v])) for k, v in flows.items())
    return ('(* api/allocation.py: _calc_free, _calc_free_traits, _check_limit (AST-extracted dataflow) *)\n'
            'Definition c19_tables : tables := {| %s |}.\n' % fields)


SECTIONS = []   # (name, emitter) registered below and by later modules


def register(name, emitter):
    if name not in [n for n, _e in SECTIONS]:
        SECTIONS.append((name, emitter))


register('c19', _emit_c19)

HEADER = '''(* GENERATED by harness/tables.py from the working tree of /repo -- do not edit. *)
From Coq Require Import ZArith List String Ascii.
From TM Require Import Api.Capacity.
Import ListNotations.
Open Scope Z_scope.

'''


def generate():
    """Return (text, errors). A section that fails is emitted as a comment; errors lists (section, message)."""
    import glob
    import importlib
    for fn in sorted(glob.glob(os.path.join(os.path.dirname(os.path.abspath(__file__)), 'tables_*.py'))):
        importlib.import_module('harness.' + os.path.basename(fn)[:-3])   # registers further sections
    parts = [HEADER]
    errors = []
    for name, emitter in SECTIONS:
        try:
            parts.append(emitter())
        except TranslatorError as e:
            errors.append((name, str(e)))
            parts.append('(* section %s could not be generated: %s *)\n' % (name, str(e).replace('*)', '* )')))
        except Exception as e:   # fail closed on anything
            errors.append((name, '%s: %s' % (type(e).__name__, e)))
            parts.append('(* section %s could not be generated *)\n' % name)
        parts.append('\n')
    return ''.join(parts), errors
