"""Translator section for C16: the registration programs of
runtime/linux/_run.py:_unshare_network and runtime/linux/_finish.py:_cleanup_network
(with _cleanup_ephemeral_ports inlined), extracted from the Python AST (no import of the modules).

Fail-closed: every statement of the two functions must be recognised - either as one of the
registration statements that become part of the program, or as one of the explicitly listed
statements that do not touch rules/, endpoints/ or the ip-sets (logging, firewall plugin,
newnet.create_newnet, conntrack flush, network_client get/delete).  Anything else raises
TranslatorError naming the statement.
"""
import ast
import re
import string

from . import gallina as G
from . import tables

RUN = 'treadmill/runtime/linux/_run.py'
FINISH = 'treadmill/runtime/linux/_finish.py'
RUNTIME = 'treadmill/runtime/__init__.py'

CHAINS = {'PREROUTING_DNAT': 1, 'POSTROUTING_SNAT': 2, 'PREROUTING_PASSTHROUGH': 3, 'VRING_DNAT': 4, 'VRING_SNAT': 5}
KINDS = {'DNATRule': 1, 'SNATRule': 2, 'PassThroughRule': 3}
SETS = {'SET_VRING_CONTAINERS': 1, 'SET_INFRA_SVC': 2}
PROTOS = {'tcp': 0, 'udp': 1}
RULE_FIELDS = ['proto', 'src_ip', 'src_port', 'dst_ip', 'dst_port', 'new_ip', 'new_port']
SPEC_FIELDS = ['appname', 'proto', 'endpoint', 'real_port', 'pid', 'port']
NET_ATTRS = {'vip': 'SNetVip', 'external_ip': 'SNetExt'}
EP_ATTRS = {'name': 'SEpName', 'proto': 'SEpProto', 'port': 'SEpPort', 'real_port': 'SEpRport'}
CTX_OF_PORTS = {'tcp': 'CEphTcp', 'udp': 'CEphUdp'}

Err = tables.TranslatorError


def _dump(node):
    try:
        return ast.unparse(node)[:160]
    except Exception:   # pragma: no cover
        return ast.dump(node)[:160]


def _attr_chain(node):
    """a.b.c -> ['a', 'b', 'c'] (None when the expression is not a pure attribute chain)"""
    out = []
    while isinstance(node, ast.Attribute):
        out.append(node.attr)
        node = node.value
    if isinstance(node, ast.Name):
        out.append(node.id)
        return list(reversed(out))
    return None


class Walker:
    def __init__(self, tree, fname):
        self.tree = tree
        self.fname = fname
        self.blocks = []        # [(ctx, [(guard, action_text)])]
        self.prologue = set()   # finish: 'get', 'none-check', 'delete'

    # ---- expressions
    def src(self, node, env):
        ch = _attr_chain(node)
        if ch is not None:
            if len(ch) == 3 and ch[0] == 'app' and ch[1] == 'network' and ch[2] in NET_ATTRS:
                return NET_ATTRS[ch[2]]
            if ch == ['app', 'name']:
                return 'SApp'
            if len(ch) == 2 and env.get(ch[0]) == ('ep',) and ch[1] in EP_ATTRS:
                return EP_ATTRS[ch[1]]
            if len(ch) == 1:
                v = env.get(ch[0])
                if v == ('item',):
                    return 'SItem'
                if v and v[0] == 'src':
                    return v[1]
        if isinstance(node, ast.Subscript) and isinstance(node.value, ast.Name) \
                and env.get(node.value.id) == ('net',) and isinstance(node.slice, ast.Constant) \
                and node.slice.value in NET_ATTRS:
            return NET_ATTRS[node.slice.value]
        if isinstance(node, ast.Constant) and node.value in PROTOS:
            return '(SConst %s)' % G.z(PROTOS[node.value])
        if isinstance(node, ast.Call) and isinstance(node.func, ast.Name) and node.func.id == 'str' \
                and len(node.args) == 1 and isinstance(node.args[0], ast.Call) \
                and _attr_chain(node.args[0].func) == ['os', 'getpid']:
            return 'SPid'
        raise Err('%s: unrecognised source expression %s' % (self.fname, _dump(node)))

    def rule_ctor(self, node, env):
        """firewall.<Kind>Rule(keyword=expr, ...) -> (kind id, [7 sources])"""
        if not (isinstance(node, ast.Call) and _attr_chain(node.func) and _attr_chain(node.func)[0] == 'firewall'
                and _attr_chain(node.func)[-1] in KINDS):
            raise Err('%s: expected firewall.<Kind>Rule(...), got %s' % (self.fname, _dump(node)))
        if node.args:
            raise Err('%s: positional arguments in %s' % (self.fname, _dump(node)))
        kw = {}
        for k in node.keywords:
            if k.arg not in RULE_FIELDS or k.arg in kw:
                raise Err('%s: unexpected keyword %r in %s' % (self.fname, k.arg, _dump(node)))
            kw[k.arg] = self.src(k.value, env)
        return KINDS[_attr_chain(node.func)[-1]], [kw.get(f, 'SNone') for f in RULE_FIELDS]

    def owner_unique(self, node, env):
        return isinstance(node, ast.Name) and env.get(node.id) in (('unique',), ('owner_path',))

    def ipset_value(self, node, env):
        """'{ip},{proto}:{port}'.format(...) or a plain source -> list of sources (ip | ip, proto, port)"""
        if isinstance(node, ast.Call) and isinstance(node.func, ast.Attribute) and node.func.attr == 'format' \
                and isinstance(node.func.value, ast.Constant) and isinstance(node.func.value.value, str):
            if node.args:
                raise Err('%s: positional format arguments in %s' % (self.fname, _dump(node)))
            kw = {k.arg: self.src(k.value, env) for k in node.keywords}
            toks = []
            for lit, field, spec, conv in string.Formatter().parse(node.func.value.value):
                for piece in re.findall(r'[,:]|[^,:]+', lit or ''):
                    if piece in ',:':
                        toks.append(piece)
                    elif piece in PROTOS:
                        toks.append('(SConst %s)' % G.z(PROTOS[piece]))
                    else:
                        raise Err('%s: unexpected text %r in ip-set entry %s' % (self.fname, piece, _dump(node)))
                if field is not None:
                    if field not in kw or spec or conv:
                        raise Err('%s: unexpected format field %r in %s' % (self.fname, field, _dump(node)))
                    toks.append(kw[field])
            if len(toks) == 5 and toks[1] == ',' and toks[3] == ':' and not any(t in ',:' for t in toks[::2]):
                return [toks[0], toks[2], toks[4]]
            if len(toks) == 1 and toks[0] not in ',:':
                return toks
            raise Err('%s: ip-set entry is not "ip" or "ip,proto:port": %s' % (self.fname, _dump(node)))
        return [self.src(node, env)]

    # ---- statements
    def emit(self, st, action):
        if st['ctx'] == 'CTop':
            self.blocks.append(('CTop', [(st['guard'], action)]))     # every top-level statement is its own block
        else:
            st['block'][1].append((st['guard'], action))

    def walk(self, stmts, env, st):
        for s in stmts:
            self.stmt(s, env, st)

    def stmt(self, s, env, st):
        fn = self.fname
        # docstring / logging
        if isinstance(s, ast.Expr) and isinstance(s.value, ast.Constant):
            return
        if isinstance(s, ast.Expr) and isinstance(s.value, ast.Call):
            return self.call(s.value, env, st)
        if isinstance(s, ast.Assign) and len(s.targets) == 1 and isinstance(s.targets[0], ast.Name):
            name, v = s.targets[0].id, s.value
            if isinstance(v, ast.Call) and _attr_chain(v.func) == ['appcfg', 'app_unique_name'] \
                    and len(v.args) == 1 and isinstance(v.args[0], ast.Name) and v.args[0].id == 'app':
                env[name] = ('unique',)
                return
            if isinstance(v, ast.Call) and _attr_chain(v.func) == ['os', 'path', 'join'] and len(v.args) == 2 \
                    and _attr_chain(v.args[0]) == ['tm_env', 'apps_dir'] and isinstance(v.args[1], ast.Name) \
                    and env.get(v.args[1].id) == ('unique',):
                env[name] = ('owner_path',)
                return
            if isinstance(v, ast.Call) and _attr_chain(v.func) and _attr_chain(v.func)[0] == 'firewall':
                env[name] = ('rule',) + self.rule_ctor(v, env)
                return
            if isinstance(v, ast.SetComp) and self.is_resolve_comp(v):
                env[name] = ('ptset',)
                return
            if name == 'service_ip':
                return
            raise Err('%s: unrecognised assignment %s' % (fn, _dump(s)))
        if isinstance(s, ast.For):
            if s.orelse or st['ctx'] != 'CTop' or not isinstance(s.target, ast.Name):
                raise Err('%s: unsupported loop %s' % (fn, _dump(s)))
            ch = _attr_chain(s.iter)
            env2 = dict(env)
            if ch == ['app', 'endpoints']:
                ctx, env2[s.target.id] = 'CEndpoint', ('ep',)
            elif ch and len(ch) == 3 and ch[:2] == ['app', 'ephemeral_ports'] and ch[2] in CTX_OF_PORTS:
                ctx, env2[s.target.id] = CTX_OF_PORTS[ch[2]], ('item',)
            elif ch and len(ch) == 1 and env.get(ch[0]) == ('ptset',):
                ctx, env2[s.target.id] = 'CPass', ('item',)
            elif ch and len(ch) == 1 and env.get(ch[0], ('',))[0] == 'ports':
                ctx, env2[s.target.id] = env[ch[0]][1], ('item',)
            else:
                raise Err('%s: loop over unrecognised collection %s' % (fn, _dump(s.iter)))
            blk = (ctx, [])
            self.blocks.append(blk)
            return self.walk(s.body, env2, {'ctx': ctx, 'guard': st['guard'], 'block': blk})
        if isinstance(s, ast.If):
            t = s.test
            if _attr_chain(t) == ['app', 'vring'] and not s.orelse and st['guard'] == 'GNone':
                return self.walk(s.body, env, {'ctx': st['ctx'], 'guard': 'GVring', 'block': st['block']})
            if isinstance(t, ast.Compare) and len(t.ops) == 1 and isinstance(t.ops[0], ast.Eq) \
                    and self.is_getattr(t.left, 'endpoint', 'type') and isinstance(t.comparators[0], ast.Constant) \
                    and t.comparators[0].value == 'infra' and not s.orelse and st['guard'] == 'GNone' \
                    and env.get('endpoint') == ('ep',):
                return self.walk(s.body, env, {'ctx': st['ctx'], 'guard': 'GInfra', 'block': st['block']})
            if (self.is_getattr(t, 'app', 'passthrough') or self.is_hasattr(t, 'app', 'passthrough')) \
                    and not s.orelse and st['ctx'] == 'CTop' and st['guard'] == 'GNone':
                return self.walk(s.body, env, st)
            if _attr_chain(t) == ['app', 'shared_ip'] and not s.orelse and len(s.body) == 1 \
                    and isinstance(s.body[0], ast.Assign) and s.body[0].targets[0].id == 'service_ip':
                return
            if isinstance(t, ast.Compare) and isinstance(t.left, ast.Name) and env.get(t.left.id) == ('net',) \
                    and isinstance(t.ops[0], ast.Is) and isinstance(t.comparators[0], ast.Constant) \
                    and t.comparators[0].value is None and self.is_log_return(s.body) and not s.orelse:
                self.prologue.add('none-check')
                return
            raise Err('%s: unrecognised conditional %s' % (fn, _dump(t)))
        if isinstance(s, ast.Try):
            # app_network = network_client.get(unique_name)  /  except ResourceServiceError: return
            if len(s.body) == 1 and isinstance(s.body[0], ast.Assign) and isinstance(s.body[0].value, ast.Call) \
                    and _attr_chain(s.body[0].value.func) == ['network_client', 'get'] \
                    and len(s.handlers) == 1 and self.is_log_return(s.handlers[0].body) \
                    and len(s.body[0].value.args) == 1 and self.owner_unique(s.body[0].value.args[0], env):
                env[s.body[0].targets[0].id] = ('net',)
                self.prologue.add('get')
                return
            # firewall plugin (exception rules): swallowed on any error, touches none of the modelled state
            calls = [n for n in ast.walk(s) if isinstance(n, ast.Call)]
            if any(_attr_chain(c.func) == ['plugin_manager', 'load'] and c.args
                   and isinstance(c.args[0], ast.Constant) and c.args[0].value == 'treadmill.firewall.plugins'
                   for c in calls):
                return
            raise Err('%s: unrecognised try block %s' % (fn, _dump(s)))
        raise Err('%s: unrecognised statement %s' % (fn, _dump(s)))

    @staticmethod
    def is_getattr(t, obj, attr):
        return (isinstance(t, ast.Call) and isinstance(t.func, ast.Name) and t.func.id == 'getattr'
                and len(t.args) == 3 and isinstance(t.args[0], ast.Name) and t.args[0].id == obj
                and isinstance(t.args[1], ast.Constant) and t.args[1].value == attr
                and isinstance(t.args[2], ast.Constant) and t.args[2].value is None)

    @staticmethod
    def is_hasattr(t, obj, attr):
        return (isinstance(t, ast.Call) and isinstance(t.func, ast.Name) and t.func.id == 'hasattr'
                and len(t.args) == 2 and isinstance(t.args[0], ast.Name) and t.args[0].id == obj
                and isinstance(t.args[1], ast.Constant) and t.args[1].value == attr)

    @staticmethod
    def is_log_return(body):
        return (len(body) == 2 and isinstance(body[0], ast.Expr) and isinstance(body[0].value, ast.Call)
                and (_attr_chain(body[0].value.func) or [''])[0] == '_LOGGER'
                and isinstance(body[1], ast.Return) and body[1].value is None)

    @staticmethod
    def is_resolve_comp(v):
        return (len(v.generators) == 1 and not v.generators[0].ifs
                and _attr_chain(v.generators[0].iter) == ['app', 'passthrough']
                and isinstance(v.generators[0].target, ast.Name)
                and isinstance(v.elt, ast.Call) and _attr_chain(v.elt.func) == ['socket', 'gethostbyname']
                and len(v.elt.args) == 1 and isinstance(v.elt.args[0], ast.Name)
                and v.elt.args[0].id == v.generators[0].target.id)

    def call(self, c, env, st):
        fn = self.fname
        ch = _attr_chain(c.func)
        if ch is None:
            raise Err('%s: unrecognised call %s' % (fn, _dump(c)))
        if ch[0] == '_LOGGER':
            return
        kw = {k.arg: k.value for k in c.keywords}
        if ch in (['tm_env', 'rules', 'create_rule'], ['tm_env', 'rules', 'unlink_rule']):
            if c.args or set(kw) != {'chain', 'rule', 'owner'}:
                raise Err('%s: expected %s(chain=, rule=, owner=)' % (fn, '.'.join(ch)))
            cch = _attr_chain(kw['chain'])
            if not (cch and len(cch) == 2 and cch[0] == 'iptables' and cch[1] in CHAINS):
                raise Err('%s: unknown chain %s' % (fn, _dump(kw['chain'])))
            if isinstance(kw['rule'], ast.Name):
                r = env.get(kw['rule'].id)
                if not r or r[0] != 'rule':
                    raise Err('%s: %s is not a firewall rule' % (fn, kw['rule'].id))
                kind, fields = r[1], r[2]
            else:
                kind, fields = self.rule_ctor(kw['rule'], env)
            return self.emit(st, 'ARule %s %s %s %s %s' % (
                G.b(ch[2] == 'create_rule'), G.z(CHAINS[cch[1]]), G.z(kind), G.lst(fields),
                G.b(self.owner_unique(kw['owner'], env))))
        if ch == ['tm_env', 'endpoints', 'create_spec']:
            if c.args or set(kw) != set(SPEC_FIELDS) | {'owner'}:
                raise Err('%s: unexpected arguments of create_spec: %s' % (fn, _dump(c)))
            fields = [self.src(kw[f], env) for f in SPEC_FIELDS]
            return self.emit(st, 'ASpecCreate %s %s' % (G.lst(fields), G.b(self.owner_unique(kw['owner'], env))))
        if ch == ['tm_env', 'endpoints', 'unlink_all']:
            if len(c.args) != 1 or not set(kw) <= {'owner'}:
                raise Err('%s: unexpected arguments of unlink_all: %s' % (fn, _dump(c)))
            oc = 'owner' in kw and self.owner_unique(kw['owner'], env)
            return self.emit(st, 'ASpecUnlinkAll %s %s' % (self.src(c.args[0], env), G.b(oc)))
        if ch in (['iptables', 'add_ip_set'], ['iptables', 'rm_ip_set']):
            if len(c.args) != 2 or kw:
                raise Err('%s: unexpected arguments of %s' % (fn, '.'.join(ch)))
            sch = _attr_chain(c.args[0])
            if not (sch and len(sch) == 2 and sch[0] == 'iptables' and sch[1] in SETS):
                raise Err('%s: unknown ip-set %s' % (fn, _dump(c.args[0])))
            return self.emit(st, 'AIpset %s %s %s' % (G.b(ch[1] == 'add_ip_set'), G.z(SETS[sch[1]]),
                                                      G.lst(self.ipset_value(c.args[1], env))))
        if ch == ['network_client', 'delete'] and len(c.args) == 1 and self.owner_unique(c.args[0], env) \
                and st['ctx'] == 'CTop':
            self.prologue.add('delete')
            return
        if ch in (['newnet', 'create_newnet'], ['iptables', 'flush_cnt_conntrack_table'],
                  ['_cleanup_exception_rules']):
            return
        if ch == ['_cleanup_ephemeral_ports']:
            return self.inline(c, env, st)
        raise Err('%s: unrecognised call %s' % (fn, _dump(c)))

    def inline(self, c, env, st):
        """inline a module-level helper called with positional arguments"""
        callee = tables._func(self.tree, c.func.id)
        params = [a.arg for a in callee.args.args]
        if c.keywords or len(c.args) != len(params) or st['ctx'] != 'CTop' or st['guard'] != 'GNone':
            raise Err('%s: cannot inline %s' % (self.fname, _dump(c)))
        env2 = {}
        for p, a in zip(params, c.args):
            ch = _attr_chain(a)
            if isinstance(a, ast.Name) and a.id in env and env[a.id][0] in ('unique', 'net'):
                env2[p] = env[a.id]
            elif ch == ['tm_env']:
                continue
            elif ch and len(ch) == 3 and ch[:2] == ['app', 'ephemeral_ports'] and ch[2] in CTX_OF_PORTS:
                env2[p] = ('ports', CTX_OF_PORTS[ch[2]])
            else:
                env2[p] = ('src', self.src(a, env))
        self.walk(tables._body(callee), env2, {'ctx': 'CTop', 'guard': 'GNone', 'block': None})


def extract(rel, func):
    tree = ast.parse(tables._src(rel))
    w = Walker(tree, '%s:%s' % (rel.rsplit('/', 1)[-1], func))
    w.walk(tables._body(tables._func(tree, func)), {}, {'ctx': 'CTop', 'guard': 'GNone', 'block': None})
    return w


def programs():
    ws = extract(RUN, '_unshare_network')
    wf = extract(FINISH, '_cleanup_network')
    if wf.prologue != {'get', 'none-check', 'delete'}:
        raise Err('_cleanup_network: expected network_client.get / "is None" check / network_client.delete, found %s'
                  % sorted(wf.prologue))
    if ws.prologue:
        raise Err('_unshare_network: unexpected network_client calls')
    return ws.blocks, wf.blocks


def _prog_term(blocks):
    out = []
    for ctx, stmts in blocks:
        body = G.lst(['{| st_guard := %s; st_act := %s |}' % (g, a) for g, a in stmts])
        out.append('{| b_ctx := %s; b_body := %s |}' % (ctx, body))
    return '[' + ';\n   '.join(out) + ']'


PORT_NAMES = ('PORT_SPAN', 'PROD_PORT_LOW', 'PROD_PORT_HIGH', 'NONPROD_PORT_LOW', 'NONPROD_PORT_HIGH')


def port_ranges():
    """the port pools of runtime._allocate_sockets: runtime/__init__.py takes them from iptables.py (posix branch);
    iptables.py defines them by constant arithmetic, folded here without importing anything"""
    vals = {}
    for node in ast.parse(tables._src('treadmill/iptables.py')).body:
        if isinstance(node, ast.Assign) and len(node.targets) == 1 and isinstance(node.targets[0], ast.Name) \
                and node.targets[0].id in PORT_NAMES:
            for sub in ast.walk(node.value):
                if not isinstance(sub, (ast.BinOp, ast.Add, ast.Sub, ast.Mult, ast.Constant, ast.Name, ast.Load)):
                    raise Err('iptables.py: %s is not constant arithmetic' % node.targets[0].id)
            try:
                vals[node.targets[0].id] = int(eval(compile(ast.Expression(node.value), 'iptables.py', 'eval'),  # noqa
                                                    {'__builtins__': {}}, dict(vals)))
            except Exception as e:
                raise Err('iptables.py: cannot evaluate %s: %s' % (node.targets[0].id, e))
    taken = set()
    for node in ast.walk(ast.parse(tables._src(RUNTIME))):
        if isinstance(node, ast.If) and 'posix' in _dump(node.test):
            for a in node.body:
                if isinstance(a, ast.Assign) and isinstance(a.targets[0], ast.Name) \
                        and _attr_chain(a.value) == ['iptables', a.targets[0].id]:
                    taken.add(a.targets[0].id)
    for n in PORT_NAMES:
        if n not in vals:
            raise Err('iptables.py: constant %s not found' % n)
        if n not in taken:
            raise Err('runtime/__init__.py: %s is not taken from iptables.%s' % (n, n))
    return vals


def _emit():
    sb, fb = programs()
    pr = port_ranges()
    return ('(* runtime/linux/_run.py:_unshare_network and _finish.py:_cleanup_network (AST-extracted programs) *)\n'
            'From TM Require Import Node.NetReg.\n'
            'Definition c16_start : program :=\n  %s.\n'
            'Definition c16_finish : program :=\n  %s.\n'
            'Definition c16_prod_ports : Z * Z := (%s, %s).\n'
            'Definition c16_nonprod_ports : Z * Z := (%s, %s).\n'
            % (_prog_term(sb), _prog_term(fb), G.z(pr['PROD_PORT_LOW']), G.z(pr['PROD_PORT_HIGH']),
               G.z(pr['NONPROD_PORT_LOW']), G.z(pr['NONPROD_PORT_HIGH'])))


tables.register('c16', _emit)
