"""Translator section `ports` (Node/Ports.v, Node/PortsRun.v, Props/C16Ports.v): runtime.allocate_network_ports.

Regenerated from the source on every run, fail closed (stdlib types only, so Gen/Tables.v does not depend on a model
file; Node/PortsRun.v assembles the record `ports_tables`):

  module values (read from the imported treadmill.runtime, i.e. the globals the three functions really use, and
  checked equal to treadmill.iptables'; each name is bound in iptables.py exactly once, at module level, and in
  runtime/__init__.py only inside the one module-level `if os.name == 'posix': ... else: ...` statement, whose own
  shape is pinned by template)
    PORT_SPAN, PROD_PORT_LOW, PROD_PORT_HIGH, NONPROD_PORT_LOW, NONPROD_PORT_HIGH
  shape pinned by template (the function's AST - docstring dropped, every constant replaced by a hole - must equal
  the template's; constants without a role must have the template's value: ('uat', 'prod'), the 'tcp' default of
  ep.get('proto', 'tcp'), the 0 of .get(proto, 0) and of endpoint['port'] == 0, the index 1 of getsockname()[1],
  'tcp' / 'udp' and the socket types of the two passes, ...; the message text of the error is not compared)
    _allocate_sockets, _allocate_network_ports_proto, allocate_network_ports
  the names the templates mention (random, socket, errno, six, and the five constants) must be the module-level ones:
  `import random` / `import socket` / `import errno` / `import six` present, no rebinding, no shadowing parameter.
"""
import ast
import copy
import importlib
import sys

from . import gallina as G
from . import tables
from .tables import TranslatorError

_SRC = 'treadmill/runtime/__init__.py'
_WHERE = 'runtime/__init__.py'
_IPT = 'treadmill/iptables.py'
_HOLE = '\x00hole'
NAMES = ('PORT_SPAN', 'PROD_PORT_LOW', 'PROD_PORT_HIGH', 'NONPROD_PORT_LOW', 'NONPROD_PORT_HIGH')
_STD = ('random', 'socket', 'errno', 'six')

# --------------------------------------------------------------------------- templates (shape of the code)
_T_SOCKETS = '''
def _allocate_sockets(environment, host_ip, sock_type, count):
    if environment in ('uat', 'prod'):
        port_pool = six.moves.range(PROD_PORT_LOW, PROD_PORT_HIGH + 1)
    else:
        port_pool = six.moves.range(NONPROD_PORT_LOW, NONPROD_PORT_HIGH + 1)

    port_pool = random.sample(port_pool, PORT_SPAN)

    sockets = []

    for real_port in port_pool:
        if len(sockets) == count:
            break

        socket_ = socket.socket(socket.AF_INET, sock_type)
        try:
            socket_.bind((host_ip, real_port))
            if sock_type == socket.SOCK_STREAM:
                socket_.setsockopt(socket.SOL_SOCKET, socket.SO_REUSEADDR, 1)
                socket_.listen(0)
        except socket.error as err:
            if err.errno == errno.EADDRINUSE:
                continue
            raise

        if six.PY3:
            socket_.set_inheritable(True)

        sockets.append(socket_)
    else:
        raise exc.ContainerSetupError('{0} < {1}'.format(len(sockets), count),
                                      app_abort.AbortedReason.PORTS)

    return sockets
'''
_T_PROTO = '''
def _allocate_network_ports_proto(host_ip, manifest, proto, so_type):
    ephemeral_count = manifest['ephemeral_ports'].get(proto, 0)

    endpoints = [ep for ep in manifest['endpoints']
                 if ep.get('proto', 'tcp') == proto]
    endpoints_count = len(endpoints)

    sockets = _allocate_sockets(
        manifest['environment'],
        host_ip,
        so_type,
        endpoints_count + ephemeral_count
    )

    for idx, endpoint in enumerate(endpoints):
        sock = sockets[idx]
        endpoint['real_port'] = sock.getsockname()[1]

        if endpoint['port'] == 0:
            endpoint['port'] = endpoint['real_port']

    manifest['ephemeral_ports'][proto] = [
        sock.getsockname()[1]
        for sock in sockets[endpoints_count:]
    ]

    return sockets
'''
_T_ALL = '''
def allocate_network_ports(host_ip, manifest):
    tcp_sockets = _allocate_network_ports_proto(host_ip,
                                                manifest,
                                                'tcp',
                                                socket.SOCK_STREAM)
    udp_sockets = _allocate_network_ports_proto(host_ip,
                                                manifest,
                                                'udp',
                                                socket.SOCK_DGRAM)
    return tcp_sockets + udp_sockets
'''
# the module-level binding of the five names in runtime/__init__.py
_T_BIND = '''
if os.name == 'posix':
    from treadmill import iptables
    PORT_SPAN = iptables.PORT_SPAN
    PROD_PORT_LOW = iptables.PROD_PORT_LOW
    PROD_PORT_HIGH = iptables.PROD_PORT_HIGH
    NONPROD_PORT_LOW = iptables.NONPROD_PORT_LOW
    NONPROD_PORT_HIGH = iptables.NONPROD_PORT_HIGH
else:
    PORT_SPAN = 8192
    PROD_PORT_LOW = 32768
    PROD_PORT_HIGH = PROD_PORT_LOW + PORT_SPAN - 1
    NONPROD_PORT_LOW = PROD_PORT_LOW + PORT_SPAN
    NONPROD_PORT_HIGH = NONPROD_PORT_LOW + PORT_SPAN - 1
'''

# constants by position (source order): 'msg' = a message text, not compared; 'any' = a value the posix build never
# uses (the non-posix fallback literals); every other constant must equal the template's
_PINNED = [
    ('_allocate_sockets', _T_SOCKETS, {7: 'msg'}),
    ('_allocate_network_ports_proto', _T_PROTO, {}),
    ('allocate_network_ports', _T_ALL, {}),
]
_BIND_ROLES = {1: 'any', 2: 'any', 3: 'any', 4: 'any'}


class _Holes(ast.NodeTransformer):
    """Replace every constant by a hole, recording the values in source order."""

    def __init__(self):
        self.values = []

    def visit_Constant(self, node):
        self.values.append(node.value)
        return ast.copy_location(ast.Constant(value=_HOLE), node)


def _strip_doc(node):
    node = copy.deepcopy(node)
    if isinstance(node, ast.FunctionDef):
        if node.body and isinstance(node.body[0], ast.Expr) and isinstance(node.body[0].value, ast.Constant) \
                and isinstance(node.body[0].value.value, str):
            node.body = node.body[1:]
        if not node.body:
            raise TranslatorError('%s: %s has an empty body' % (_WHERE, node.name))
    return node


def _shape(node):
    h = _Holes()
    node = h.visit(_strip_doc(node))
    return ast.dump(node, annotate_fields=True, include_attributes=False), h.values


def _single_def(tree, name):
    """the one module-level definition of `name`: no second def/class, not decorated, not rebound by an
    assignment, an import, a `global` statement or a nested def anywhere in the module"""
    defs = [n for n in ast.walk(tree) if isinstance(n, (ast.FunctionDef, ast.AsyncFunctionDef, ast.ClassDef))
            and n.name == name]
    top = [n for n in tree.body if n in defs]
    if len(defs) != 1 or len(top) != 1 or not isinstance(top[0], ast.FunctionDef):
        raise TranslatorError('%s: expected exactly one definition of %s, at module level (found %d)'
                              % (_WHERE, name, len(defs)))
    if top[0].decorator_list:
        raise TranslatorError('%s: %s is decorated' % (_WHERE, name))
    for x in ast.walk(tree):
        if isinstance(x, ast.Name) and x.id == name and isinstance(x.ctx, (ast.Store, ast.Del)):
            raise TranslatorError('%s: %s is rebound (line %d)' % (_WHERE, name, x.lineno))
        if isinstance(x, ast.Attribute) and x.attr == name and isinstance(x.ctx, (ast.Store, ast.Del)):
            raise TranslatorError('%s: an attribute %s is assigned (line %d)' % (_WHERE, name, x.lineno))
        if isinstance(x, (ast.Import, ast.ImportFrom)):
            for a in x.names:
                if (a.asname or a.name.split('.')[0]) == name or a.name == '*':
                    raise TranslatorError('%s: %s may be rebound by an import (line %d)' % (_WHERE, name, x.lineno))
        if isinstance(x, ast.Global) and name in x.names:
            raise TranslatorError('%s: "global %s" (line %d)' % (_WHERE, name, x.lineno))
    return top[0]


def _compare(what, node, template_node, roles):
    want_shape, want_vals = _shape(template_node)
    got_shape, got_vals = _shape(node)
    if got_shape != want_shape:
        i = next((k for k, (a, b) in enumerate(zip(got_shape, want_shape)) if a != b),
                 min(len(got_shape), len(want_shape)))
        raise TranslatorError('%s %s: the code no longer has the modelled shape (near %r, expected %r)'
                              % (_WHERE, what, got_shape[max(0, i - 50):i + 70], want_shape[max(0, i - 50):i + 70]))
    if len(got_vals) != len(want_vals):
        raise TranslatorError('%s %s: constant count changed' % (_WHERE, what))
    for i, (g, w) in enumerate(zip(got_vals, want_vals)):
        role = roles.get(i)
        if role == 'msg':
            if not isinstance(g, str):
                raise TranslatorError('%s %s: the message constant #%d is %r' % (_WHERE, what, i, g))
        elif role == 'any':
            if type(g) is not type(w):
                raise TranslatorError('%s %s: constant #%d is %r (type changed)' % (_WHERE, what, i, g))
        elif type(g) is not type(w) or g != w:
            raise TranslatorError('%s %s: constant #%d is %r, the model has %r' % (_WHERE, what, i, g, w))


def _std_module(tree, name):
    """`import <name>` once at module level and no other binding of the name anywhere"""
    imps = [st for st in tree.body if isinstance(st, ast.Import)
            and any(a.name == name and a.asname is None for a in st.names)]
    if len(imps) != 1:
        raise TranslatorError('%s: expected exactly one module-level "import %s"' % (_WHERE, name))
    for x in ast.walk(tree):
        if isinstance(x, ast.Name) and x.id == name and isinstance(x.ctx, (ast.Store, ast.Del)):
            raise TranslatorError('%s: the name %s is rebound (line %d)' % (_WHERE, name, x.lineno))
        if isinstance(x, ast.Attribute) and isinstance(x.ctx, (ast.Store, ast.Del)) \
                and isinstance(x.value, ast.Name) and x.value.id == name:
            raise TranslatorError('%s: an attribute of %s is assigned (line %d)' % (_WHERE, name, x.lineno))
        if isinstance(x, ast.arg) and x.arg == name:
            raise TranslatorError('%s: the name %s is shadowed by a parameter (line %d)' % (_WHERE, name, x.lineno))
        if isinstance(x, (ast.FunctionDef, ast.AsyncFunctionDef, ast.ClassDef)) and x.name == name:
            raise TranslatorError('%s: %s is also a def/class (line %d)' % (_WHERE, name, x.lineno))
        if isinstance(x, ast.ImportFrom) and any((a.asname or a.name) == name or a.name == '*' for a in x.names):
            raise TranslatorError('%s: %s may be rebound by an import (line %d)' % (_WHERE, name, x.lineno))
        if isinstance(x, ast.Import) and x not in imps and any((a.asname or a.name.split('.')[0]) == name
                                                                for a in x.names):
            raise TranslatorError('%s: %s is imported twice (line %d)' % (_WHERE, name, x.lineno))
        if isinstance(x, ast.Global) and name in x.names:
            raise TranslatorError('%s: "global %s" (line %d)' % (_WHERE, name, x.lineno))
        if isinstance(x, ast.ExceptHandler) and x.name == name:
            raise TranslatorError('%s: %s is bound by an except clause (line %d)' % (_WHERE, name, x.lineno))


def _runtime_binding(tree):
    """the five names are bound in runtime/__init__.py by the pinned `if os.name == 'posix'` statement and nowhere
    else (no other store, parameter, def, import, global, attribute store on a module alias)"""
    want = ast.parse(_T_BIND).body[0]
    cands = [st for st in tree.body if isinstance(st, ast.If)
             and any(isinstance(x, ast.Name) and x.id in NAMES and isinstance(x.ctx, ast.Store) for x in ast.walk(st))]
    if len(cands) != 1:
        raise TranslatorError('%s: expected exactly one module-level "if os.name == \'posix\'" binding %s (found %d)'
                              % (_WHERE, ', '.join(NAMES), len(cands)))
    _compare('port constants binding', cands[0], want, _BIND_ROLES)
    inside = {id(x) for x in ast.walk(cands[0])}
    for x in ast.walk(tree):
        if id(x) in inside:
            continue
        if isinstance(x, ast.Name) and x.id in NAMES and isinstance(x.ctx, (ast.Store, ast.Del)):
            raise TranslatorError('%s: %s is rebound (line %d)' % (_WHERE, x.id, x.lineno))
        if isinstance(x, ast.arg) and x.arg in NAMES:
            raise TranslatorError('%s: %s is shadowed by a parameter (line %d)' % (_WHERE, x.arg, x.lineno))
        if isinstance(x, (ast.FunctionDef, ast.AsyncFunctionDef, ast.ClassDef)) and x.name in NAMES:
            raise TranslatorError('%s: %s is also a def/class (line %d)' % (_WHERE, x.name, x.lineno))
        if isinstance(x, (ast.Import, ast.ImportFrom)):
            for a in x.names:
                if (a.asname or a.name.split('.')[0]) in NAMES or a.name == '*':
                    raise TranslatorError('%s: a port constant may be rebound by an import (line %d)'
                                          % (_WHERE, x.lineno))
        if isinstance(x, ast.Global) and set(x.names) & set(NAMES):
            raise TranslatorError('%s: "global" on a port constant (line %d)' % (_WHERE, x.lineno))
        if isinstance(x, ast.ExceptHandler) and x.name in NAMES:
            raise TranslatorError('%s: %s is bound by an except clause (line %d)' % (_WHERE, x.name, x.lineno))
    # `os` and `iptables` as used by the statement
    n_os = [st for st in tree.body if isinstance(st, ast.Import) and any(a.name == 'os' and a.asname is None
                                                                         for a in st.names)]
    if len(n_os) != 1:
        raise TranslatorError('%s: expected exactly one module-level "import os"' % _WHERE)
    for x in ast.walk(tree):
        if isinstance(x, ast.Name) and x.id in ('os', 'iptables') and isinstance(x.ctx, (ast.Store, ast.Del)):
            raise TranslatorError('%s: the name %s is rebound (line %d)' % (_WHERE, x.id, x.lineno))
        if isinstance(x, ast.ImportFrom) and id(x) not in inside and any((a.asname or a.name) in ('os', 'iptables')
                                                                          for a in x.names):
            raise TranslatorError('%s: os / iptables imported a second time (line %d)' % (_WHERE, x.lineno))


def _iptables_binding():
    """each of the five names: exactly one binding in iptables.py, a plain module-level assignment"""
    tree = ast.parse(tables._src(_IPT))
    for name in NAMES:
        n_all = sum(1 for x in ast.walk(tree) if isinstance(x, ast.Name) and x.id == name
                    and isinstance(x.ctx, (ast.Store, ast.Del)))
        top = [st for st in tree.body if isinstance(st, ast.Assign) and len(st.targets) == 1
               and isinstance(st.targets[0], ast.Name) and st.targets[0].id == name]
        if n_all != 1 or len(top) != 1:
            raise TranslatorError('iptables.py: %s must be assigned exactly once, at module level (found %d bindings)'
                                  % (name, n_all))
        for x in ast.walk(tree):
            if isinstance(x, ast.Global) and name in x.names:
                raise TranslatorError('iptables.py: "global %s" (line %d)' % (name, x.lineno))
            if isinstance(x, (ast.Import, ast.ImportFrom)):
                for a in x.names:
                    if (a.asname or a.name.split('.')[0]) == name or a.name == '*':
                        raise TranslatorError('iptables.py: %s may be rebound by an import (line %d)' % (name, x.lineno))
            if isinstance(x, (ast.FunctionDef, ast.AsyncFunctionDef, ast.ClassDef)) and x.name == name:
                raise TranslatorError('iptables.py: %s is also a def/class (line %d)' % (name, x.lineno))


def _import(modname):
    if tables.PY not in sys.path:
        sys.path.insert(0, tables.PY)
    try:
        mod = importlib.import_module(modname)
    except Exception as e:   # fail closed
        raise TranslatorError('cannot import %s: %s: %s' % (modname, type(e).__name__, e))
    if getattr(mod, '__file__', None) is None or not mod.__file__.startswith(tables.PY):
        raise TranslatorError('%s was imported from %r, not from %s' % (modname, getattr(mod, '__file__', None),
                                                                      tables.PY))
    return mod


def ports_facts():
    tree = ast.parse(tables._src(_SRC))
    for name, template, roles in _PINNED:
        fn = _single_def(tree, name)
        _compare(name, fn, ast.parse(template).body[0], roles)
    for name in _STD:
        _std_module(tree, name)
    _runtime_binding(tree)
    _iptables_binding()
    import os
    if os.name != 'posix':
        raise TranslatorError('os.name is %r: the posix branch of the binding is the modelled one' % os.name)
    rt = _import('treadmill.runtime')
    ipt = _import('treadmill.iptables')
    f = {}
    for name in NAMES:
        v = getattr(rt, name, None)
        if type(v) is not int:
            raise TranslatorError('treadmill.runtime.%s = %r is not an int' % (name, v))
        if type(getattr(ipt, name, None)) is not int or getattr(ipt, name) != v:
            raise TranslatorError('treadmill.runtime.%s = %r differs from treadmill.iptables.%s = %r'
                                  % (name, v, name, getattr(ipt, name, None)))
        if not 0 <= v <= 10 ** 6:
            raise TranslatorError('treadmill.runtime.%s = %r is not a plausible port number / span' % (name, v))
        f[name] = v
    return f


def _emit():
    f = ports_facts()
    return (
        '(* runtime/__init__.py (values of iptables.py): the port ranges of allocate_network_ports; the shape of\n'
        '   _allocate_sockets, _allocate_network_ports_proto, allocate_network_ports pinned by AST template *)\n'
        'Definition ports_prod_low : Z := %s.\n'
        'Definition ports_prod_high : Z := %s.\n'
        'Definition ports_nonprod_low : Z := %s.\n'
        'Definition ports_nonprod_high : Z := %s.\n'
        'Definition ports_span : Z := %s.\n'
        % (G.z(f['PROD_PORT_LOW']), G.z(f['PROD_PORT_HIGH']), G.z(f['NONPROD_PORT_LOW']),
           G.z(f['NONPROD_PORT_HIGH']), G.z(f['PORT_SPAN'])))


tables.register('ports', _emit)
