"""Translator sections of the unit-spelling part of C01 (Codec/Units.v, Props/C01Units.v).

Sections (stdlib types only, so Gen/Tables.v never depends on a model file)
  units_utils      utils._SIZE_SCALE (module value, as an association list sorted by code point);
                   the constants of size_to_bytes (1024, 1000, the modifier 'B'), kilobytes ('0', // 1024),
                   megabytes (// 1024), cpu_units ('%').  The SHAPE of each of the four functions
                   is pinned: the function's AST, with every constant replaced by a hole, must be identical
                   to the AST of the template below (fail closed); constants that are not exported
                   (the -1 of size[-1] / size[:-1], the returned 0) must have the template's value.
  units_resources  scheduler/loader.py resources(data): the parsers dict (key -> utils.<parser>), the
                   default of data.get(k, 0) and the key order of the comprehension.
"""
import ast
import copy
import importlib
import sys

from . import gallina as G
from . import tables
from .tables import TranslatorError

# --------------------------------------------------------------------------- templates (shape of the code)
_TEMPLATES = {
    'cpu_units': '''
def cpu_units(value):
    norm = str(value).upper().strip()
    if norm.endswith('%'):
        return int(norm[:-1])
    else:
        return int(norm)
''',
    'size_to_bytes': '''
def size_to_bytes(size):
    if isinstance(size, six.string_types):
        size = size.upper().strip()
        unit = 1024
        if size[-1] == 'B':
            unit = 1000
            size = size[:-1]
        if size[-1] in _SIZE_SCALE:
            return int(size[:-1]) * pow(unit, _SIZE_SCALE[size[-1]])
        else:
            return int(size)
    else:
        return int(size)
''',
    'kilobytes': '''
def kilobytes(value):
    norm = str(value).upper().strip()
    if norm == '0':
        return 0

    if norm[-1] not in _SIZE_SCALE:
        _LOGGER.error('Invalid (unitless) value: %s', value)
        raise Exception('Invalid (unitless) value: ' + str(value))

    return size_to_bytes(value) // 1024
''',
    'megabytes': '''
def megabytes(value):
    return kilobytes(value) // 1024
''',
}

# which constants (by position, in source order) are exported to Coq; 'msg' = a message text, not compared;
# every other constant must equal the template's
_ROLES = {
    'cpu_units': {0: 'pct'},
    'size_to_bytes': {0: 'unit_bin', 2: 'mod', 3: 'unit_dec'},
    'kilobytes': {0: 'kb_zero', 3: 'msg', 4: 'msg', 5: 'kb_div'},
    'megabytes': {0: 'mb_div'},
}

_HOLE = '\x00hole'


class _Holes(ast.NodeTransformer):
    """Replace every constant by a hole, recording the values in source order."""

    def __init__(self):
        self.values = []

    def visit_Constant(self, node):
        self.values.append(node.value)
        return ast.copy_location(ast.Constant(value=_HOLE), node)


def _strip_doc(fn):
    fn = copy.deepcopy(fn)
    if fn.body and isinstance(fn.body[0], ast.Expr) and isinstance(fn.body[0].value, ast.Constant) \
            and isinstance(fn.body[0].value.value, str):
        fn.body = fn.body[1:]
    if not fn.body:
        raise TranslatorError('%s: empty body' % fn.name)
    return fn


def _shape(fn):
    h = _Holes()
    fn = h.visit(_strip_doc(fn))
    return ast.dump(fn, annotate_fields=True, include_attributes=False), h.values


def _single_def(tree, name, where):
    """the one module-level definition of `name` (no second def, no module-level rebinding)"""
    defs = [n for n in tree.body if isinstance(n, (ast.FunctionDef, ast.AsyncFunctionDef, ast.ClassDef))
            and n.name == name]
    if len(defs) != 1 or not isinstance(defs[0], ast.FunctionDef):
        raise TranslatorError('%s: expected exactly one module-level "def %s", found %d' % (where, name, len(defs)))
    top = [n for n in tree.body if not isinstance(n, (ast.FunctionDef, ast.AsyncFunctionDef, ast.ClassDef))]
    for n in [x for st in top for x in ast.walk(st)]:
        targets = []
        if isinstance(n, ast.Assign):
            targets = n.targets
        elif isinstance(n, (ast.AugAssign, ast.AnnAssign)):
            targets = [n.target]
        elif isinstance(n, (ast.Import, ast.ImportFrom)):
            for a in n.names:
                if (a.asname or a.name) == name or a.name == '*':
                    raise TranslatorError('%s: %s may be rebound by an import (line %d)' % (where, name, n.lineno))
        for t in targets:
            for x in ast.walk(t):
                if (isinstance(x, ast.Name) and x.id == name) or (isinstance(x, ast.Attribute) and x.attr == name):
                    raise TranslatorError('%s: %s is rebound by an assignment (line %d)' % (where, name, n.lineno))
    for n in ast.walk(tree):
        if isinstance(n, ast.Global) and name in n.names:
            raise TranslatorError('%s: "global %s" (line %d)' % (where, name, n.lineno))
    if defs[0].decorator_list:
        raise TranslatorError('%s: %s is decorated' % (where, name))
    return defs[0]


def _match(tree, name):
    """constants of utils.<name> by role, after checking that its shape is the template's"""
    fn = _single_def(tree, name, 'utils.py')
    want_shape, want_vals = _shape(ast.parse(_TEMPLATES[name]).body[0])
    got_shape, got_vals = _shape(fn)
    if got_shape != want_shape:
        # name the first differing position to make the message useful
        i = next((k for k, (a, b) in enumerate(zip(got_shape, want_shape)) if a != b), min(len(got_shape), len(want_shape)))
        raise TranslatorError('utils.%s: the code no longer has the modelled shape (near %r, expected %r)'
                              % (name, got_shape[max(0, i - 40):i + 60], want_shape[max(0, i - 40):i + 60]))
    if len(got_vals) != len(want_vals):
        raise TranslatorError('utils.%s: constant count changed' % name)
    roles = _ROLES[name]
    out = {}
    for i, (g, w) in enumerate(zip(got_vals, want_vals)):
        role = roles.get(i)
        if role == 'msg':
            continue
        if role is None:
            if type(g) is not type(w) or g != w:
                raise TranslatorError('utils.%s: constant #%d is %r, the model has %r' % (name, i, g, w))
        else:
            if type(g) is not type(w):
                raise TranslatorError('utils.%s: constant %s is %r (type changed)' % (name, role, g))
            out[role] = g
    return out


def _import(modname):
    if tables.PY not in sys.path:
        sys.path.insert(0, tables.PY)
    try:
        return importlib.import_module(modname)
    except Exception as e:   # fail closed
        raise TranslatorError('cannot import %s: %s: %s' % (modname, type(e).__name__, e))


def _scale(mod, name, minval):
    d = getattr(mod, name, None)
    if not isinstance(d, dict) or not d:
        raise TranslatorError('utils.%s is not a non-empty dict' % name)
    items = []
    for k, v in d.items():
        if not (isinstance(k, str) and len(k) == 1 and ord(k) < 128):
            raise TranslatorError('utils.%s: key %r is not one ASCII character' % (name, k))
        if not (type(v) is int and v >= minval):
            raise TranslatorError('utils.%s[%r] = %r is not an int >= %d' % (name, k, v, minval))
        if k != k.upper() or k.isspace() or k.isdigit():
            raise TranslatorError('utils.%s: key %r can never match an upper-cased, stripped suffix' % (name, k))
        items.append((ord(k), v))
    return sorted(items)


def _zz(items):
    return G.lst(['(%s, %s)' % (G.z(a), G.z(b)) for a, b in items])


def _codes(s, what):
    if not (isinstance(s, str) and all(ord(c) < 128 for c in s)):
        raise TranslatorError('%s: expected an ASCII str, got %r' % (what, s))
    return G.zlist([ord(c) for c in s])


def _posint(v, what):
    if not (type(v) is int and v > 0):
        raise TranslatorError('%s: expected a positive int, got %r' % (what, v))
    return G.z(v)


def utils_facts():
    tree = ast.parse(tables._src('treadmill/utils.py'))
    c = {}
    for name in ('cpu_units', 'size_to_bytes', 'kilobytes', 'megabytes'):
        c.update(_match(tree, name))
    for name in ('_SIZE_SCALE',):
        n = sum(1 for node in ast.walk(tree) for t in (node.targets if isinstance(node, ast.Assign) else [])
                for x in ast.walk(t) if isinstance(x, ast.Name) and x.id == name)
        if n != 1:
            raise TranslatorError('utils.%s is assigned %d times' % (name, n))
    mod = _import('treadmill.utils')
    c['size_scale'] = _scale(mod, '_SIZE_SCALE', 0)
    if not (isinstance(c['mod'], str) and len(c['mod']) == 1 and ord(c['mod']) < 128):
        raise TranslatorError('size_to_bytes: the modifier is %r, expected one ASCII character' % (c['mod'],))
    return c


def _emit_utils():
    c = utils_facts()
    return (
        '(* utils.py: _SIZE_SCALE (module value, by code point) and the constants of size_to_bytes,\n'
        '   kilobytes, megabytes, cpu_units (shape of each function pinned by AST template) *)\n'
        'Definition units_size_scale : list (Z * Z) := %s.\n'
        'Definition units_unit_bin : Z := %s.\n'
        'Definition units_unit_dec : Z := %s.\n'
        'Definition units_mod : Z := %s.\n'
        'Definition units_kb_zero : list Z := %s.\n'
        'Definition units_kb_div : Z := %s.\n'
        'Definition units_mb_div : Z := %s.\n'
        'Definition units_pct : list Z := %s.\n'
        % (_zz(c['size_scale']), _posint(c['unit_bin'], 'size_to_bytes unit'),
           _posint(c['unit_dec'], 'size_to_bytes unit after the modifier'), G.z(ord(c['mod'])),
           _codes(c['kb_zero'], 'kilobytes zero literal'), _posint(c['kb_div'], 'kilobytes divisor'),
           _posint(c['mb_div'], 'megabytes divisor'), _codes(c['pct'], 'cpu_units suffix')))


# --------------------------------------------------------------------------- loader.resources
_KEYS = {'memory': 1, 'cpu': 2, 'disk': 3}
_PARSERS = {'megabytes': 1, 'cpu_units': 2, 'kilobytes': 3, 'size_to_bytes': 4}

_RES_RETURN = "[parsers[k](data.get(k, 0)) for k in ['memory', 'cpu', 'disk']]"


def resources_facts():
    tree = ast.parse(tables._src('treadmill/scheduler/loader.py'))
    fn = _single_def(tree, 'resources', 'scheduler/loader.py')
    if [a.arg for a in fn.args.args] != ['data'] or fn.args.vararg or fn.args.kwarg or fn.args.kwonlyargs \
            or fn.args.defaults:
        raise TranslatorError('resources: expected signature resources(data)')
    body = _strip_doc(fn).body
    if len(body) != 2:
        raise TranslatorError('resources: expected [parsers = {...}; return [... for k in [...]]], got %d statements'
                              % len(body))
    asg, ret = body
    if not (isinstance(asg, ast.Assign) and len(asg.targets) == 1 and isinstance(asg.targets[0], ast.Name)
            and asg.targets[0].id == 'parsers' and isinstance(asg.value, ast.Dict)):
        raise TranslatorError('resources: first statement is not "parsers = {...}"')
    parsers = []
    for k, v in zip(asg.value.keys, asg.value.values):
        if not (isinstance(k, ast.Constant) and isinstance(k.value, str)):
            raise TranslatorError('resources: parsers key is not a string constant')
        if k.value not in _KEYS:
            raise TranslatorError('resources: unknown resource key %r' % k.value)
        if not (isinstance(v, ast.Attribute) and isinstance(v.value, ast.Name) and v.value.id == 'utils'):
            raise TranslatorError('resources: parser of %r is not utils.<function>: %s' % (k.value, ast.dump(v)))
        if v.attr not in _PARSERS:
            raise TranslatorError('resources: unknown parser utils.%s for %r' % (v.attr, k.value))
        if _KEYS[k.value] in [a for a, _b in parsers]:
            raise TranslatorError('resources: key %r listed twice' % k.value)
        parsers.append((_KEYS[k.value], _PARSERS[v.attr]))
    if not isinstance(ret, ast.Return) or ret.value is None:
        raise TranslatorError('resources: second statement is not a return')
    h = _Holes()
    got = ast.dump(h.visit(copy.deepcopy(ret.value)))
    hw = _Holes()
    want = ast.dump(hw.visit(ast.parse(_RES_RETURN, mode='eval').body))
    if got != want:
        raise TranslatorError('resources: the return expression no longer has the modelled shape: %s' % got[:300])
    default, keys = h.values[0], h.values[1:]
    if type(default) is not int:
        raise TranslatorError('resources: default of data.get is %r, expected an int' % (default,))
    order = []
    for k in keys:
        if k not in _KEYS:
            raise TranslatorError('resources: unknown key %r in the result order' % (k,))
        if _KEYS[k] not in [a for a, _b in parsers]:
            raise TranslatorError('resources: key %r has no parser (KeyError)' % (k,))
        order.append(_KEYS[k])
    # `utils` must be the treadmill.utils module
    imp = [n for n in tree.body if isinstance(n, ast.ImportFrom) and n.module == 'treadmill'
           and any(a.name == 'utils' and a.asname is None for a in n.names)]
    if len(imp) != 1:
        raise TranslatorError('scheduler/loader.py: expected exactly one "from treadmill import utils"')
    return {'parsers': sorted(parsers), 'order': order, 'default': default}


def _emit_resources():
    f = resources_facts()
    return (
        '(* scheduler/loader.py resources(data): parsers dict, key order, default (AST-extracted;\n'
        '   keys 1 memory 2 cpu 3 disk; parsers 1 megabytes 2 cpu_units 3 kilobytes 4 size_to_bytes) *)\n'
        'Definition units_res_parsers : list (Z * Z) := %s.\n'
        'Definition units_res_order : list Z := %s.\n'
        'Definition units_res_default : Z := %s.\n'
        % (_zz(f['parsers']), G.zlist(f['order']), G.z(f['default'])))


tables.register('units_utils', _emit_utils)
tables.register('units_resources', _emit_resources)
