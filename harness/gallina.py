"""Emit Gallina terms from Python values (used for generated tables and cases files)."""


def z(n):
    n = int(n)
    return '(%d)%%Z' % n if n < 0 else '%d%%Z' % n


def nat(n):
    n = int(n)
    assert 0 <= n < 5000, 'nat literal too large: %r' % n
    return '%d%%nat' % n


def b(v):
    return 'true' if v else 'false'


def lst(items):
    return '[' + '; '.join(items) + ']'


def zlist(ns):
    return lst([z(n) for n in ns])


def opt(v, f=None):
    if v is None:
        return 'None'
    return '(Some %s)' % (f(v) if f else v)


def pair(*xs):
    return '(' + ', '.join(xs) + ')'


def string(s):
    """Coq string literal; only printable ASCII plus escapes through explicit bytes is supported."""
    out = []
    for ch in s:
        o = ord(ch)
        if ch == '"':
            out.append('""')
        elif 32 <= o < 127:
            out.append(ch)
        else:
            raise ValueError('non printable character in Coq string literal: %r' % ch)
    return '"' + ''.join(out) + '"%string'


def bytes_as_zlist(s):
    if isinstance(s, str):
        s = s.encode('utf-8')
    return zlist(list(s))
