"""Translator sections for the scheduler model: constants of treadmill/scheduler/__init__.py (AST, fail-closed)."""
import ast
import sys

from . import tables, gallina as G


def _module_consts():
    tree = ast.parse(tables._src('treadmill/scheduler/__init__.py'))
    out = {}
    for node in tree.body:
        if isinstance(node, ast.Assign) and len(node.targets) == 1 and isinstance(node.targets[0], ast.Name):
            out[node.targets[0].id] = node.value
    return out


def _int_value(node, name):
    if isinstance(node, ast.Constant) and isinstance(node.value, int):
        return node.value
    if (isinstance(node, ast.Attribute) and isinstance(node.value, ast.Name) and node.value.id == 'sys'
            and node.attr == 'maxsize'):
        return sys.maxsize
    if isinstance(node, ast.BinOp) and isinstance(node.op, ast.Mult):
        return _int_value(node.left, name) * _int_value(node.right, name)
    raise tables.TranslatorError('%s: unexpected expression %s' % (name, ast.dump(node)))


def _emit():
    c = _module_consts()
    names = ['MAX_PRIORITY', 'DEFAULT_RANK', '_UNPLACED_RANK', 'DEFAULT_SERVER_UPTIME']
    out = ['(* treadmill/scheduler/__init__.py constants *)']
    for n in names:
        if n not in c:
            raise tables.TranslatorError('constant %s not found' % n)
        out.append('Definition sched_%s : Z := %s.' % (n.strip('_').lower(), G.z(_int_value(c[n], n))))
    # _MAX_UTILIZATION must be float('inf') (modelled as None)
    mu = c.get('_MAX_UTILIZATION')
    ok = (isinstance(mu, ast.Call) and isinstance(mu.func, ast.Name) and mu.func.id == 'float'
          and len(mu.args) == 1 and isinstance(mu.args[0], ast.Constant) and mu.args[0].value == 'inf')
    out.append('Definition sched_max_utilization_is_inf : bool := %s.' % G.b(ok))
    return '\n'.join(out) + '\n'


tables.register('sched_consts', _emit)
