"""Translator section `reboot` (Sched/Reboot.v, Sched/RebootRun.v, Props/C03Reboot.v): the code that computes a
server's valid_until - scheduler.Partition (reboot buckets), scheduler.RebootBucket, scheduler.reboot_dates.

Regenerated from the source on every run, fail closed (stdlib types only, so Gen/Tables.v does not depend on a
model file; Sched/RebootRun.v assembles the record `reboot_tables`):

  module values (imported; exactly one module-level assignment checked on the AST)
    DEFAULT_SERVER_UPTIME, MIN_SERVER_UPTIME, DEFAULT_MAX_APP_LEASE
  shape pinned by template (the function's AST - docstrings and _LOGGER calls dropped, every constant replaced by a
  hole - must equal the template's; constants with a role are exported, the others must have the template's value)
    Partition.__init__ (exports the default schedule's (h, m, s) and its range(7)), Partition._find_bucket,
    Partition.add, Partition.remove, Partition.tick, RebootBucket.__init__, RebootBucket.add, RebootBucket.remove,
    RebootBucket.cost, reboot_dates
  the names the templates mention (time, datetime, DEFAULT_SERVER_UPTIME, MIN_SERVER_UPTIME, RebootBucket,
  reboot_dates) must be the module-level ones: `import time` / `import datetime` present, no rebinding.
"""
import ast
import copy
import importlib
import sys

from . import gallina as G
from . import tables
from .tables import TranslatorError

_SRC = 'treadmill/scheduler/__init__.py'
_WHERE = 'scheduler/__init__.py'
_HOLE = '\x00hole'

# --------------------------------------------------------------------------- templates (shape of the code)
_T_PART_INIT = '''
def __init__(self, max_server_uptime=None, max_lease=None, threshold=None,
             label=None, reboot_schedule=None, now=None):
    self.label = label
    self.allocation = Allocation(partition=label)

    if not max_server_uptime:
        max_server_uptime = DEFAULT_SERVER_UPTIME
    if not max_lease:
        max_lease = DEFAULT_MAX_APP_LEASE
    if not threshold:
        threshold = DEFAULT_THRESHOLD

    self.max_server_uptime = max_server_uptime
    self.max_lease = max_lease
    self.threshold = threshold

    if not reboot_schedule:
        reboot_schedule = {day: (23, 59, 59) for day in range(7)}

    if not now:
        now = time.time()

    self._reboot_dates = reboot_dates(
        reboot_schedule,
        start_date=datetime.date.fromtimestamp(now)
    )
    self._reboot_buckets = []
    self._reboot_last = now

    self.tick(now)
'''
_T_FIND_BUCKET = '''
def _find_bucket(self, timestamp):
    for bucket in self._reboot_buckets:
        if bucket.timestamp == timestamp:
            return bucket

    return None
'''
_T_PART_ADD = '''
def add(self, server, timestamp=None):
    bucket = None

    if timestamp:
        bucket = self._find_bucket(timestamp)

    if (self._reboot_buckets[0].timestamp >
            server.up_since + DEFAULT_SERVER_UPTIME):
        bucket = self._reboot_buckets[0]

    if not bucket:
        bucket = min(reversed(self._reboot_buckets),
                     key=lambda b: b.cost(server))

    bucket.add(server)
'''
_T_PART_REMOVE = '''
def remove(self, server):
    for bucket in self._reboot_buckets:
        bucket.remove(server)
'''
_T_PART_TICK = '''
def tick(self, now):
    while self._reboot_last <= now + DEFAULT_SERVER_UPTIME:
        bucket = RebootBucket(next(self._reboot_dates))
        self._reboot_buckets.append(bucket)
        self._reboot_last = bucket.timestamp

    while self._reboot_buckets[0].timestamp < now:
        self._reboot_buckets.pop(0)
'''
_T_DATES = '''
def reboot_dates(schedule, start_date=None):
    schedule = {int(k): v for k, v in schedule.items()}

    date = datetime.date.today()
    if start_date:
        date = start_date

    while True:

        weekday = date.weekday()
        if weekday in schedule:
            h, m, s = schedule[weekday]
            yield time.mktime((date.year, date.month, date.day,
                               h, m, s, 0, 0, 0))

        date += datetime.timedelta(days=1)
'''
_T_BUCKET_INIT = '''
def __init__(self, timestamp):
    self.timestamp = timestamp
    self.servers = set()
'''
_T_BUCKET_ADD = '''
def add(self, server):
    self.servers.add(server)
    server.valid_until = self.timestamp
'''
_T_BUCKET_REMOVE = '''
def remove(self, server):
    try:
        self.servers.remove(server)
    except KeyError:
        pass
'''
_T_BUCKET_COST = '''
def cost(self, server):
    if self.timestamp > server.up_since + DEFAULT_SERVER_UPTIME:
        return float('inf')

    if self.timestamp < server.up_since + MIN_SERVER_UPTIME:
        return float('inf')

    return len(self.servers)
'''

# (qualified name, template, roles: constant position in source order -> exported name)
_PINNED = [
    ('Partition.__init__', _T_PART_INIT, {6: 'def_h', 7: 'def_m', 8: 'def_s', 9: 'def_days'}),
    ('Partition._find_bucket', _T_FIND_BUCKET, {}),
    ('Partition.add', _T_PART_ADD, {}),
    ('Partition.remove', _T_PART_REMOVE, {}),
    ('Partition.tick', _T_PART_TICK, {}),
    ('reboot_dates', _T_DATES, {}),
    ('RebootBucket.__init__', _T_BUCKET_INIT, {}),
    ('RebootBucket.add', _T_BUCKET_ADD, {}),
    ('RebootBucket.remove', _T_BUCKET_REMOVE, {}),
    ('RebootBucket.cost', _T_BUCKET_COST, {}),
]
# module-level names the templates rely on
_MODULE_NAMES = ('DEFAULT_SERVER_UPTIME', 'MIN_SERVER_UPTIME', 'DEFAULT_MAX_APP_LEASE', 'DEFAULT_THRESHOLD')
_STD_MODULES = ('time', 'datetime')


# --------------------------------------------------------------------------- AST helpers
def _is_log(st):
    return (isinstance(st, ast.Expr) and isinstance(st.value, ast.Call) and isinstance(st.value.func, ast.Attribute)
            and isinstance(st.value.func.value, ast.Name) and st.value.func.value.id == '_LOGGER')


class _Strip(ast.NodeTransformer):
    """drop docstrings and logging calls"""

    def _body(self, body):
        out = []
        for st in body:
            if isinstance(st, ast.Expr) and isinstance(st.value, ast.Constant) and isinstance(st.value.value, str):
                continue
            if _is_log(st):
                continue
            out.append(self.visit(st))
        return out or [ast.Pass()]

    def generic_visit(self, node):
        super().generic_visit(node)
        for field in ('body', 'orelse', 'finalbody'):
            v = getattr(node, field, None)
            if isinstance(v, list) and v and isinstance(v[0], ast.stmt):
                setattr(node, field, self._body(v))
        return node


class _Holes(ast.NodeTransformer):
    def __init__(self):
        self.values = []

    def visit_Constant(self, node):
        self.values.append(node.value)
        return ast.copy_location(ast.Constant(value=_HOLE), node)


def _shape(fn):
    h = _Holes()
    fn = h.visit(_Strip().visit(copy.deepcopy(fn)))
    return ast.dump(fn, annotate_fields=True, include_attributes=False), h.values


def _find_def(tree, qual):
    """the one definition of Class.method / function at module level (fail closed on duplicates / decorators /
    module-level rebinding)"""
    parts = qual.split('.')
    body = tree.body
    node = None
    for i, p in enumerate(parts):
        want = ast.ClassDef if i < len(parts) - 1 else ast.FunctionDef
        found = [n for n in body if isinstance(n, (ast.ClassDef, ast.FunctionDef, ast.AsyncFunctionDef))
                 and n.name == p]
        if len(found) != 1 or not isinstance(found[0], want):
            raise TranslatorError('%s: expected exactly one definition of %s, found %d' % (_WHERE, qual, len(found)))
        node = found[0]
        if node.decorator_list:
            raise TranslatorError('%s: %s is decorated' % (_WHERE, qual))
        if isinstance(node, ast.ClassDef):
            # an assignment in the class body could replace the method
            for st in node.body:
                if isinstance(st, (ast.Assign, ast.AugAssign, ast.AnnAssign)):
                    tg = st.targets if isinstance(st, ast.Assign) else [st.target]
                    for t in tg:
                        for x in ast.walk(t):
                            if isinstance(x, ast.Name) and x.id in parts[i + 1:]:
                                raise TranslatorError('%s: %s is rebound in the class body (line %d)'
                                                      % (_WHERE, qual, st.lineno))
        body = node.body
    last = parts[-1]
    for st in tree.body:
        if isinstance(st, (ast.Assign, ast.AugAssign, ast.AnnAssign)):
            tg = st.targets if isinstance(st, ast.Assign) else [st.target]
            for t in tg:
                for x in ast.walk(t):
                    if (isinstance(x, ast.Name) and x.id == parts[0]) or \
                            (isinstance(x, ast.Attribute) and x.attr == last and len(parts) > 1
                             and isinstance(x.value, ast.Name) and x.value.id == parts[0]):
                        raise TranslatorError('%s: %s is rebound at module level (line %d)' % (_WHERE, qual, st.lineno))
    return node


def _match(tree, qual, template, roles):
    fn = _find_def(tree, qual)
    want_shape, want_vals = _shape(ast.parse(template).body[0])
    got_shape, got_vals = _shape(fn)
    if got_shape != want_shape:
        i = next((k for k, (a, b) in enumerate(zip(got_shape, want_shape)) if a != b),
                 min(len(got_shape), len(want_shape)))
        raise TranslatorError('%s %s: the code no longer has the modelled shape (near %r, expected %r)'
                              % (_WHERE, qual, got_shape[max(0, i - 50):i + 70], want_shape[max(0, i - 50):i + 70]))
    if len(got_vals) != len(want_vals):
        raise TranslatorError('%s %s: constant count changed' % (_WHERE, qual))
    out = {}
    for i, (g, w) in enumerate(zip(got_vals, want_vals)):
        role = roles.get(i)
        if role is None:
            if type(g) is not type(w) or g != w:
                raise TranslatorError('%s %s: constant #%d is %r, the model has %r' % (_WHERE, qual, i, g, w))
        else:
            if type(g) is not type(w):
                raise TranslatorError('%s %s: constant %s is %r (type changed)' % (_WHERE, qual, role, g))
            out[role] = g
    return out


def _assigned_once(tree, name):
    """exactly one binding of `name` in the whole module, and it is a plain module-level assignment"""
    n_all = sum(1 for x in ast.walk(tree) if isinstance(x, ast.Name) and x.id == name
                and isinstance(x.ctx, (ast.Store, ast.Del)))
    top = [st for st in tree.body if isinstance(st, ast.Assign) and len(st.targets) == 1
           and isinstance(st.targets[0], ast.Name) and st.targets[0].id == name]
    if n_all != 1 or len(top) != 1:
        raise TranslatorError('%s: %s must be assigned exactly once, at module level (found %d bindings)'
                              % (_WHERE, name, n_all))
    for x in ast.walk(tree):
        if isinstance(x, ast.Global) and name in x.names:
            raise TranslatorError('%s: "global %s" (line %d)' % (_WHERE, name, x.lineno))
        if isinstance(x, (ast.Import, ast.ImportFrom)):
            for a in x.names:
                if (a.asname or a.name.split('.')[0]) == name or a.name == '*':
                    raise TranslatorError('%s: %s may be rebound by an import (line %d)' % (_WHERE, name, x.lineno))
        if isinstance(x, (ast.FunctionDef, ast.AsyncFunctionDef, ast.ClassDef)) and x.name == name:
            raise TranslatorError('%s: %s is also a def/class (line %d)' % (_WHERE, name, x.lineno))
        if isinstance(x, ast.arg) and x.arg == name:
            raise TranslatorError('%s: %s is shadowed by a parameter (line %d)' % (_WHERE, name, x.lineno))
    return top[0]


def _std_module(tree, name):
    """`import <name>` at module level and no other binding of the name anywhere"""
    imps = [st for st in tree.body if isinstance(st, ast.Import)
            and any(a.name == name and a.asname is None for a in st.names)]
    if len(imps) != 1:
        raise TranslatorError('%s: expected exactly one module-level "import %s"' % (_WHERE, name))
    for x in ast.walk(tree):
        if isinstance(x, ast.Name) and x.id == name and isinstance(x.ctx, (ast.Store, ast.Del)):
            raise TranslatorError('%s: the name %s is rebound (line %d)' % (_WHERE, name, x.lineno))
        if isinstance(x, ast.arg) and x.arg == name:
            raise TranslatorError('%s: the name %s is shadowed by a parameter (line %d)' % (_WHERE, name, x.lineno))
        if isinstance(x, (ast.FunctionDef, ast.AsyncFunctionDef, ast.ClassDef)) and x.name == name:
            raise TranslatorError('%s: %s is also a def/class (line %d)' % (_WHERE, name, x.lineno))
        if isinstance(x, ast.ImportFrom) and any((a.asname or a.name) == name or a.name == '*' for a in x.names):
            raise TranslatorError('%s: %s may be rebound by an import (line %d)' % (_WHERE, name, x.lineno))
        if isinstance(x, ast.Import) and x not in imps and any((a.asname or a.name.split('.')[0]) == name
                                                                for a in x.names):
            raise TranslatorError('%s: %s is imported twice (line %d)' % (_WHERE, name, x.lineno))
        if isinstance(x, ast.Global) and name in x.names:
            raise TranslatorError('%s: "global %s" (line %d)' % (_WHERE, name, x.lineno))


def _import(modname):
    if tables.PY not in sys.path:
        sys.path.insert(0, tables.PY)
    try:
        return importlib.import_module(modname)
    except Exception as e:   # fail closed
        raise TranslatorError('cannot import %s: %s: %s' % (modname, type(e).__name__, e))


def _posint(v, what):
    if type(v) is not int or v <= 0:
        raise TranslatorError('%s: expected a positive int, got %r' % (what, v))
    return v


def _natint(v, what):
    if type(v) is not int or v < 0:
        raise TranslatorError('%s: expected a non-negative int, got %r' % (what, v))
    return v


# --------------------------------------------------------------------------- facts
def reboot_facts():
    tree = ast.parse(tables._src(_SRC))
    f = {}
    for qual, template, roles in _PINNED:
        f.update(_match(tree, qual, template, roles))
    for name in _MODULE_NAMES:
        _assigned_once(tree, name)
    for name in _STD_MODULES:
        _std_module(tree, name)
    mod = _import('treadmill.scheduler')
    if getattr(mod, '__file__', None) is None or not mod.__file__.startswith(tables.PY):
        raise TranslatorError('treadmill.scheduler was imported from %r, not from %s'
                              % (getattr(mod, '__file__', None), tables.PY))
    f['uptime'] = _posint(getattr(mod, 'DEFAULT_SERVER_UPTIME', None), 'DEFAULT_SERVER_UPTIME')
    f['min'] = _natint(getattr(mod, 'MIN_SERVER_UPTIME', None), 'MIN_SERVER_UPTIME')
    f['max_lease'] = _posint(getattr(mod, 'DEFAULT_MAX_APP_LEASE', None), 'DEFAULT_MAX_APP_LEASE')
    for k in ('def_h', 'def_m', 'def_s'):
        _natint(f[k], 'Partition.__init__ default schedule (%s)' % k)
    _natint(f['def_days'], 'Partition.__init__ default schedule range')
    if f['def_days'] > 1000:
        raise TranslatorError('Partition.__init__: range(%d) in the default schedule' % f['def_days'])
    return f


def _emit():
    f = reboot_facts()
    return (
        '(* scheduler/__init__.py: DEFAULT_SERVER_UPTIME, MIN_SERVER_UPTIME, DEFAULT_MAX_APP_LEASE (module values) and\n'
        '   the default reboot schedule of Partition.__init__; Partition.__init__/_find_bucket/add/remove/tick,\n'
        '   RebootBucket.__init__/add/remove/cost and reboot_dates pinned by AST template *)\n'
        'Definition reboot_uptime : Z := %s.\n'
        'Definition reboot_min_uptime : Z := %s.\n'
        'Definition reboot_max_lease : Z := %s.\n'
        'Definition reboot_default_hms : Z * Z * Z := (%s, %s, %s).\n'
        'Definition reboot_default_days : Z := %s.\n'
        % (G.z(f['uptime']), G.z(f['min']), G.z(f['max_lease']), G.z(f['def_h']), G.z(f['def_m']), G.z(f['def_s']),
           G.z(f['def_days'])))


tables.register('reboot', _emit)
