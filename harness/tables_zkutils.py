"""Translator section `zkutils` (Store/ZkUtils.v, Store/ZkUtilsRun.v, Props/C09Zk.v).

Fail closed.  Pinned by AST template (docstrings and `_LOGGER.<level>(...)` statements dropped, everything else -
names, constants, keyword arguments, statement order - must be equal to the template's):
  treadmill/zkutils.py: _make_anonymous_acl, ZkClient.create / set_acls / make_*_acl / make_default_acl, _payload,
    create, put, update, get, get_with_metadata, get_default, ensure_exists, ensure_deleted; DEFAULT_ACL = True bound once
  treadmill/scheduler/zkbackend.py: ZkReadonlyBackend.list / get_default / get / get_with_metadata / exists / delete /
    ensure_exists / put / update, ZkBackend._acl / put / ensure_exists / delete / update; ZkBackend(ZkReadonlyBackend)
Extracted (not copied from the template): the retry structure - for every `try` of those functions, which primitive
calls stand in the try body, which exception class each handler names, and what the handler does - emitted as
`zk_retry_table : list (Z * Z * Z * Z)` (function, primitive, exception, action; codes of Store/ZkUtils.v
[retry_after]); Props/C09Zk.v compares it with the model by vm_compute (C09Z_tables_ok).
"""
import ast
import copy

from . import gallina as G
from . import tables
from .tables import TranslatorError

_ZU = 'treadmill/zkutils.py'
_BK = 'treadmill/scheduler/zkbackend.py'

TEMPLATES = {
    'zkutils._make_anonymous_acl': '''
def _make_anonymous_acl(perm):
    """Constructs anonymous (world) acl."""
    if not perm:
        perm = 'r'

    assert _is_valid_perm(perm)
    return kazoo.security.make_acl(
        'world', 'anyone',
        read='r' in perm,
        write='w' in perm,
        create='c' in perm,
        delete='d' in perm,
        admin='a' in perm
    )
''',
    'ZkClient.create': '''
def create(self, path, value=None, acl=None, ephemeral=False,
           sequence=False, makepath=False):
    """Safe wrapper around kazoo.client.create"""
    if value is None:
        value = ''
    return super().create(
        path,
        value=value,
        acl=self.make_default_acl(acl),
        ephemeral=ephemeral,
        sequence=sequence,
        makepath=makepath
    )
''',
    'ZkClient.set_acls': '''
def set_acls(self, path, acls, version=-1):
    """Safe wrapper around kazoo.client.set_acls"""
    return super().set_acls(
        path,
        self.make_default_acl(acls),
        version=version
    )
''',
    'ZkClient.make_user_acl': '''
def make_user_acl(self, user, perm):
    """Constructs an ACL based on user and permissions."""
    assert _is_valid_perm(perm)
    del user
    return _make_anonymous_acl(perm)
''',
    'ZkClient.make_host_acl': '''
def make_host_acl(self, host, perm):
    """Constructs an ACL based on user and permissions."""
    assert _is_valid_perm(perm)
    del host
    return _make_anonymous_acl(perm)
''',
    'ZkClient.make_role_acl': '''
def make_role_acl(self, role, perm):
    """Constructs a file based acl based on role.
    """
    assert _is_valid_perm(perm)
    del role
    return _make_anonymous_acl(perm)
''',
    'ZkClient.make_self_acl': '''
def make_self_acl(self, perm):
    """Constucts acl for the current user.

    If the user is root, use host principal.
    """
    assert _is_valid_perm(perm)
    if utils.is_root():
        return self.make_host_acl(sysinfo.hostname(), perm)

    user = utils.get_current_username()
    return self.make_user_acl(user, perm)
''',
    'ZkClient.make_default_acl': '''
def make_default_acl(self, acls):
    """Constructs a default Treadmill acl."""
    if not DEFAULT_ACL:
        return acls

    realacl = [
        self.make_role_acl('readers', 'r'),
        self.make_role_acl('admin', 'rwcda'),
        self.make_self_acl('rwcda'),
    ]
    if acls:
        realacl.extend(acls)
    return realacl
''',
    'ZkClient.make_servers_acl': '''
def make_servers_acl(self):
    """Make servers acl."""
    return self.make_role_acl('servers', 'rwcda')
''',
    'ZkClient.make_servers_del_acl': '''
def make_servers_del_acl(self):
    """Make acl that allow servers role to delete only."""
    return self.make_role_acl('servers', 'd')
''',
    'zkutils._payload': '''
def _payload(data):
    """Converts payload to serialized bytes.
    """
    payload = b''
    if data is not None:
        if isinstance(data, bytes):
            payload = data
        elif isinstance(data, six.string_types) and hasattr(data, 'encode'):
            payload = data.encode()
        else:
            payload = json.dumps(data, sort_keys=True).encode()
    return payload
''',
    'zkutils.create': '''
def create(zkclient, path, data=None, acl=None, sequence=False,
           default_acl=True, ephemeral=False):
    """Serialize data into Zk node, fail if node exists."""
    payload = _payload(data)
    if default_acl:
        realacl = zkclient.make_default_acl(acl)
    else:
        realacl = acl

    return zkclient.create(path, payload, makepath=True, acl=realacl,
                           sequence=sequence, ephemeral=ephemeral)
''',
    'zkutils.put': '''
def put(zkclient, path, data=None, acl=None, sequence=False, default_acl=True,
        ephemeral=False, check_content=False):
    """Serialize data into Zk node, converting data to json.

    Default acl is set to admin:all, anonymous:readonly. These acls are
    appended to any addidional acls provided in the argument.
    """
    payload = _payload(data)

    # Default acl assumes world readable data, safe to log the payload. If
    # default acl is not specified, do not log the payload as it may be
    # private.
    if default_acl:
        realacl = zkclient.make_default_acl(acl)
        _LOGGER.debug('put (default_acl=%s): %s acl=%s seq=%s', default_acl,
                      path, realacl, sequence)
    else:
        realacl = acl
        _LOGGER.debug('put %s *** acl=%s seq=%s', path, realacl, sequence)

    try:
        return zkclient.create(path, payload, makepath=True, acl=realacl,
                               sequence=sequence, ephemeral=ephemeral)
    except kazoo.client.NodeExistsError:
        # This will never happen for sequence node, so requestor knows the
        # path.
        #
        # If there is not change, return None to indicate update was not done.
        if check_content:
            current, _metadata = zkclient.get(path)
            if current == payload:
                _LOGGER.debug('%s is up to date', path)
                return None

        zkclient.set(path, payload)
        _LOGGER.debug('Setting ACL on %s to %r', path, realacl)
        zkclient.set_acls(path, realacl)
        return path
''',
    'zkutils.update': '''
def update(zkclient, path, data, check_content=False):
    """Set data into Zk node, converting data to json."""
    _LOGGER.debug('update %s', path)

    payload = _payload(data)
    if check_content:
        current, _metadata = zkclient.get(path)
        if current == payload:
            return None

    zkclient.set(path, payload)
    return path
''',
    'zkutils.get': '''
def get(zkclient, path, watcher=None, strict=True):
    """Read content of Zookeeper node and return json parsed object."""
    data, _metadata = get_with_metadata(zkclient, path, watcher=watcher,
                                        strict=strict)
    return data
''',
    'zkutils.get_with_metadata': '''
def get_with_metadata(zkclient, path, watcher=None, strict=True):
    """Read content of Zookeeper node and return json parsed object."""

    # Import yaml in the function scope, to stress that it should be decoed
    # once all legacy clients are upgraded.
    #
    # For now, this code provides backward compatibility with values stored
    # in YAML.
    from treadmill import yamlwrapper as yaml

    data, metadata = zkclient.get(path, watch=watcher)

    result = None
    if data is not None:
        try:
            result = json.loads(data.decode())
        except ValueError:
            try:
                result = yaml.load(data)
            except yaml.YAMLError:
                if strict:
                    raise
                result = data

    return result, metadata
''',
    'zkutils.get_default': '''
def get_default(zkclient, path, watcher=None, strict=True, default=None):
    """Read content of Zookeeper node, return default value if does not exist.
    """
    try:
        return get(zkclient, path, watcher=watcher, strict=strict)
    except kazoo.client.NoNodeError:
        return default
''',
    'zkutils.ensure_exists': '''
def ensure_exists(zkclient, path, acl=None, sequence=False, data=None):
    """Creates path with correct ACL if path does not exist.

    If the path does not exist, creates the path with proper acl.

    If the path already exists, does not touch the content, but makes sure the
    acl is correct.
    """
    realacl = zkclient.make_default_acl(acl)
    try:
        # new node has default empty data
        newdata = _payload(data)
        return zkclient.create(path, newdata, makepath=True, acl=realacl,
                               sequence=sequence)
    except kazoo.client.NodeExistsError:
        # if data not provided, we keep original data pristine
        if data is not None:
            newdata = _payload(data)
            zkclient.set(path, newdata)

        zkclient.set_acls(path, realacl)
        return path
''',
    'zkutils.ensure_deleted': '''
def ensure_deleted(zkclient, path, recursive=True):
    """Deletes the node if it exists."""
    try:
        _LOGGER.debug('Deleting %s', path)
        if recursive:
            for child in zkclient.get_children(path):
                ensure_deleted(zkclient, z.join_zookeeper_path(path, child))

        zkclient.delete(path)
    except kazoo.client.NoNodeError:
        _LOGGER.debug('Node %s does not exist.', path)
''',
    'ZkReadonlyBackend.list': '''
def list(self, path):
    """Return path listing."""
    try:
        return self.zkclient.get_children(path)
    except kazoo.client.NoNodeError:
        raise backend.ObjectNotFoundError()
''',
    'ZkReadonlyBackend.get_default': '''
def get_default(self, path, default=None):
    """Return stored object or default if not found."""
    return zkutils.get_default(self.zkclient, path, default=default)
''',
    'ZkReadonlyBackend.get': '''
def get(self, path):
    """Return stored object given path."""
    try:
        return zkutils.get(self.zkclient, path)
    except kazoo.client.NoNodeError:
        raise backend.ObjectNotFoundError()
''',
    'ZkReadonlyBackend.get_with_metadata': '''
def get_with_metadata(self, path):
    """Return stored object with metadata."""
    try:
        return zkutils.get_with_metadata(self.zkclient, path)
    except kazoo.client.NoNodeError:
        raise backend.ObjectNotFoundError()
''',
    'ZkReadonlyBackend.exists': '''
def exists(self, path):
    """Check if object exists."""
    try:
        return self.zkclient.exists(path)
    except kazoo.client.NoNodeError:
        raise backend.ObjectNotFoundError()
''',
    'ZkReadonlyBackend.delete': '''
def delete(self, path):
    _LOGGER.debug('delete %r', path)
''',
    'ZkReadonlyBackend.ensure_exists': '''
def ensure_exists(self, path):
    _LOGGER.debug('ensure_exists %r', path)
''',
    'ZkReadonlyBackend.put': '''
def put(self, path, value):
    _LOGGER.debug('put %r: %r', path, value)
''',
    'ZkReadonlyBackend.update': '''
def update(self, path, data, check_content=False):
    _LOGGER.debug('update %r: %r', path, data)
''',
    'ZkBackend._acl': '''
def _acl(self, path):
    """Returns ACL of the Zookeeper node."""
    if path in self.acls:
        return self.acls[path]

    if path.startswith(z.path.placement('')):
        return [self.zkclient.make_servers_acl()]

    if path.startswith(z.path.reboot('')):
        return [self.zkclient.make_servers_del_acl()]

    if path.startswith(z.path.finished('')):
        return [self.zkclient.make_servers_acl()]

    return None
''',
    'ZkBackend.put': '''
def put(self, path, value):
    """Store object at a given path."""
    return zkutils.put(self.zkclient, path, value, acl=self._acl(path))
''',
    'ZkBackend.ensure_exists': '''
def ensure_exists(self, path):
    """Ensure storage path exists."""
    return zkutils.ensure_exists(self.zkclient, path, acl=self._acl(path))
''',
    'ZkBackend.delete': '''
def delete(self, path):
    """Delete object given the path."""
    return zkutils.ensure_deleted(self.zkclient, path)
''',
    'ZkBackend.update': '''
def update(self, path, data, check_content=False):
    """Set data into ZK node."""
    try:
        zkutils.update(self.zkclient, path, data, check_content)
    except kazoo.client.NoNodeError:
        raise backend.ObjectNotFoundError()
''',
}


def _is_log(st):
    return (isinstance(st, ast.Expr) and isinstance(st.value, ast.Call) and isinstance(st.value.func, ast.Attribute)
            and isinstance(st.value.func.value, ast.Name) and st.value.func.value.id == '_LOGGER')


class _Strip(ast.NodeTransformer):
    """drop docstrings and logging statements (a block left empty gets a `pass`)"""

    def _block(self, body, first_may_be_doc):
        out = []
        for i, st in enumerate(body):
            if first_may_be_doc and i == 0 and isinstance(st, ast.Expr) and isinstance(st.value, ast.Constant) \
                    and isinstance(st.value.value, str):
                continue
            if _is_log(st):
                continue
            out.append(self.visit(st))
        return out or [ast.Pass()]

    def generic_visit(self, node):
        for field in ('body', 'orelse', 'finalbody'):
            val = getattr(node, field, None)
            if isinstance(val, list) and val and isinstance(val[0], ast.stmt):
                setattr(node, field, self._block(val, field == 'body' and isinstance(node, ast.FunctionDef)))
        if isinstance(node, ast.Try):
            node.handlers = [self.generic_visit(h) for h in node.handlers]
        return node


def _norm(fn):
    from . import tables_shape
    fn = tables_shape._alpha(fn)            # consistent renaming of a local variable is not a change of shape
    fn = _Strip().visit(copy.deepcopy(fn))
    return ast.dump(fn, annotate_fields=True, include_attributes=False)


def _find(tree, rel, qual):
    cls, _dot, name = qual.rpartition('.')
    if cls in ('', 'zkutils'):
        scope, where = tree.body, 'module'
    else:
        cs = [n for n in tree.body if isinstance(n, ast.ClassDef) and n.name == cls]
        if len(cs) != 1:
            raise TranslatorError('%s: expected exactly one class %s' % (rel, cls))
        scope, where = cs[0].body, 'class ' + cls
    fs = [n for n in scope if isinstance(n, (ast.FunctionDef, ast.AsyncFunctionDef)) and n.name == name]
    if len(fs) != 1 or not isinstance(fs[0], ast.FunctionDef) or fs[0].decorator_list:
        raise TranslatorError('%s: expected exactly one undecorated def %s in %s' % (rel, name, where))
    for x in scope:
        if isinstance(x, (ast.Assign, ast.AugAssign, ast.AnnAssign)):
            for tg in ast.walk(x):
                if isinstance(tg, ast.Name) and tg.id == name and isinstance(tg.ctx, ast.Store):
                    raise TranslatorError('%s: %s is rebound in %s' % (rel, name, where))
    return fs[0]


# primitive codes of Store/ZkUtils.v retry_after
_PRIM_ATTR = {('zkclient', 'create'): [1], ('zkclient', 'get'): [2], ('zkclient', 'set'): [3],
              ('zkclient', 'get_children'): [4], ('zkclient', 'delete'): [5],
              ('zkutils', 'update'): [2, 3], ('zkutils', 'get'): [2], ('zkutils', 'get_with_metadata'): [2]}
_PRIM_NAME = {'get': [2]}
_FN_CODE = {'zkutils.create': 1, 'zkutils.put': 2, 'zkutils.update': 3, 'zkutils.get_default': 4,
            'zkutils.ensure_exists': 5, 'zkutils.ensure_deleted': 6, 'ZkBackend.update': 7, 'ZkReadonlyBackend.get': 8,
            'ZkReadonlyBackend.get_with_metadata': 8, 'ZkReadonlyBackend.list': 9}
_EXC = {'NodeExistsError': 1, 'NoNodeError': 2}


def _prims(stmts):
    out = []
    for st in stmts:
        for x in ast.walk(st):
            if isinstance(x, ast.Call):
                f = x.func
                if isinstance(f, ast.Attribute):
                    base = f.value
                    if isinstance(base, ast.Attribute) and isinstance(base.value, ast.Name) and base.value.id == 'self':
                        base = ast.Name(id=base.attr)
                    if isinstance(base, ast.Name):
                        out += _PRIM_ATTR.get((base.id, f.attr), [])
                elif isinstance(f, ast.Name):
                    out += _PRIM_NAME.get(f.id, [])
    return sorted(set(out))


def _action(qual, h):
    """what a handler does: 1 set (+set_acls) and go on, 2 nothing (return None), 3 raise ObjectNotFoundError,
    4 return the default"""
    body = [st for st in h.body if not _is_log(st)]
    calls = [(x.func.value.id, x.func.attr) for st in body for x in ast.walk(st)
             if isinstance(x, ast.Call) and isinstance(x.func, ast.Attribute) and isinstance(x.func.value, ast.Name)]
    if not body:
        return 2
    if len(body) == 1 and isinstance(body[0], ast.Raise) and isinstance(body[0].exc, ast.Call) \
            and isinstance(body[0].exc.func, ast.Attribute) and body[0].exc.func.attr == 'ObjectNotFoundError':
        return 3
    if len(body) == 1 and isinstance(body[0], ast.Return) and isinstance(body[0].value, ast.Name) \
            and body[0].value.id == 'default':
        return 4
    if ('zkclient', 'set') in calls and ('zkclient', 'set_acls') in calls and isinstance(body[-1], ast.Return):
        return 1
    raise TranslatorError('%s: an except handler does something the model has no code for' % qual)


def _retry_rows(qual, fn):
    rows = []
    for x in ast.walk(fn):
        if isinstance(x, ast.Try):
            if x.finalbody or x.orelse:
                raise TranslatorError('%s: try with else/finally' % qual)
            prims = _prims(x.body)
            for h in x.handlers:
                t = h.type
                if not (isinstance(t, ast.Attribute) and t.attr in _EXC and isinstance(t.value, ast.Attribute)
                        and t.value.attr == 'client' and isinstance(t.value.value, ast.Name)
                        and t.value.value.id == 'kazoo'):
                    raise TranslatorError('%s: except clause is not kazoo.client.NodeExistsError / NoNodeError: %s'
                                          % (qual, ast.dump(t) if t is not None else 'bare'))
                act = _action(qual, h)
                for p in prims:
                    # an exception class a primitive cannot raise is not an entry: create raises NodeExists (NoNode is
                    # retried by makepath), the others NoNode
                    if (p == 1) != (_EXC[t.attr] == 1):
                        continue
                    rows.append((_FN_CODE[qual], p, _EXC[t.attr], act))
    return rows


def zk_facts():
    trees = {_ZU: ast.parse(tables._src(_ZU)), _BK: ast.parse(tables._src(_BK))}
    rows = []
    for qual, template in TEMPLATES.items():
        rel = _BK if qual.startswith(('ZkReadonlyBackend.', 'ZkBackend.')) else _ZU
        fn = _find(trees[rel], rel, qual)
        want = ast.parse(template).body[0]
        if _norm(fn) != _norm(want):
            a, b = _norm(fn), _norm(want)
            i = next((k for k, (x, y) in enumerate(zip(a, b)) if x != y), min(len(a), len(b)))
            raise TranslatorError('%s %s: the code no longer has the modelled shape (near %r, expected %r)'
                                  % (rel, qual, a[max(0, i - 60):i + 60], b[max(0, i - 60):i + 60]))
        if qual in _FN_CODE:
            rows += _retry_rows(qual, fn)
        elif any(isinstance(x, ast.Try) for x in ast.walk(fn)) and qual != 'zkutils.get_with_metadata' \
                and qual != 'ZkReadonlyBackend.exists':
            raise TranslatorError('%s: a try statement in a function the retry table does not cover' % qual)
    # DEFAULT_ACL = True, bound once
    zt = trees[_ZU]
    binds = [x for x in ast.walk(zt) if isinstance(x, ast.Name) and x.id == 'DEFAULT_ACL'
             and isinstance(x.ctx, (ast.Store, ast.Del))]
    top = [st for st in zt.body if isinstance(st, ast.Assign) and len(st.targets) == 1
           and isinstance(st.targets[0], ast.Name) and st.targets[0].id == 'DEFAULT_ACL'
           and isinstance(st.value, ast.Constant) and st.value.value is True]
    if len(binds) != 1 or len(top) != 1 or any(isinstance(x, ast.Global) and 'DEFAULT_ACL' in x.names
                                                for x in ast.walk(zt)):
        raise TranslatorError('zkutils.py: DEFAULT_ACL must be bound exactly once, to True, at module level')
    # ZkBackend derives from ZkReadonlyBackend (the readers are inherited) and does not override them
    bt = trees[_BK]
    zb = [n for n in bt.body if isinstance(n, ast.ClassDef) and n.name == 'ZkBackend']
    if len(zb) != 1 or len(zb[0].bases) != 1 or not (isinstance(zb[0].bases[0], ast.Name)
                                                      and zb[0].bases[0].id == 'ZkReadonlyBackend'):
        raise TranslatorError('zkbackend.py: ZkBackend is no longer class ZkBackend(ZkReadonlyBackend)')
    names = sorted(m.name for m in zb[0].body if isinstance(m, ast.FunctionDef))
    if names != sorted(['__init__', '_acl', 'put', 'ensure_exists', 'delete', 'update']):
        raise TranslatorError('zkbackend.py: ZkBackend defines %r' % (names,))
    return sorted(set(rows))


def _emit():
    rows = zk_facts()
    return ('(* zkutils.py / scheduler/zkbackend.py: bodies pinned by AST template; the retry structure of their try\n'
            '   statements as (function, primitive, exception, action) - codes of Store/ZkUtils.v retry_after *)\n'
            'Definition zk_retry_table : list (Z * Z * Z * Z) := %s.\n'
            % G.lst(['(%s, %s, %s, %s)' % tuple(G.z(v) for v in row) for row in rows]))


tables.register('zkutils', _emit)
