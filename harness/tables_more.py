"""Further sections of the generated table file (registered on import)."""
