"""Translator section for C09/C10/C11: the shape of the two publication functions of
treadmill/scheduler/master.py, read from the Python AST of the working tree (fail closed).

  Master.reschedule
     changed_placement = [... if before != after or exp_before != exp_after]   -> c10_changed_filter (1 = servers
                                                                                   compared, 2 = expiries compared)
     for ... in changed_placement: if before and before != after: backend.delete(placement(before, app))  -> phase 1
     for ... in changed_placement: ... if after: backend.put(placement(after, app), placement_data)         -> phase 2
     self._unschedule_evicted()                                                                            -> phase 3
     self._save_placement(placement)                                                                       -> phase 4
                                                                      order of these statements -> c10_reschedule_phases
  Master.init_schedule, inside `for servername, server in self.cell.members().items()`
     for app in current - correct: backend.delete(join(placement_node, app))    -> phase 1
     for app in correct - current: backend.put(join(placement_node, app), ...)  -> phase 2
                                                                      order -> c10_init_phases

Master/Publish.v takes these lists as its configuration ([cfg_of_tables]); Props/C10.v and Props/C09.v have to
re-establish `cfg_canonical c10_cfg = true` by vm_compute, so an edit that reorders the loops, merges them, drops
one, or weakens the filter breaks a proof obligation (besides the write-list correspondence).
"""
import ast

from . import tables
from . import gallina as G

_SRC = 'treadmill/scheduler/master.py'


def _err(msg):
    raise tables.TranslatorError('master.py: ' + msg)


def _backend_calls(node):
    """names of self.backend.<m>(...) calls below node, in source order, with the Call nodes."""
    out = []
    for n in ast.walk(node):
        if (isinstance(n, ast.Call) and isinstance(n.func, ast.Attribute)
                and isinstance(n.func.value, ast.Attribute) and n.func.value.attr == 'backend'
                and isinstance(n.func.value.value, ast.Name) and n.func.value.value.id == 'self'):
            out.append((n.func.attr, n))
    return out


def _guard_of(loop, call):
    """the chain of `if` tests between the loop and the call (outermost first), as ast.dump strings;
    fails if the call sits in an else branch or another compound statement."""
    def find(stmts, guards):
        for st in stmts:
            if any(c is call for c in ast.walk(st)):
                if isinstance(st, ast.If):
                    if any(c is call for b in st.body for c in ast.walk(b)):
                        return find(st.body, guards + [ast.dump(st.test)])
                    _err('a publication write sits in an else branch (line %d)' % st.lineno)
                if isinstance(st, ast.Expr):
                    return guards
                _err('a publication write sits inside an unexpected statement %s (line %d)'
                     % (type(st).__name__, st.lineno))
        _err('internal: call not found')
    return find(loop.body, [])


def _is_self_call(st, name):
    return (isinstance(st, ast.Expr) and isinstance(st.value, ast.Call)
            and isinstance(st.value.func, ast.Attribute) and st.value.func.attr == name
            and isinstance(st.value.func.value, ast.Name) and st.value.func.value.id == 'self')


def _placement_path_args(call):
    """z.path.placement(<a>, <b>) as first argument -> (a, b) names"""
    if not call.args:
        _err('backend call without arguments (line %d)' % call.lineno)
    p = call.args[0]
    if (isinstance(p, ast.Call) and isinstance(p.func, ast.Attribute) and p.func.attr == 'placement'
            and len(p.args) == 2 and all(isinstance(a, ast.Name) for a in p.args)):
        return tuple(a.id for a in p.args)
    _err('expected z.path.placement(<server>, app) as the path (line %d), got %s' % (call.lineno, ast.dump(p)))


_G_BEFORE = ast.dump(ast.parse('before and before != after', mode='eval').body)
_G_AFTER = ast.dump(ast.parse('after', mode='eval').body)


def reschedule_shape():
    tree = ast.parse(tables._src(_SRC))
    fn = tables._func(tree, 'reschedule')
    phases = []
    filt = None
    for st in tables._body(fn):
        calls = _backend_calls(st)
        if isinstance(st, ast.Assign) and len(st.targets) == 1 and isinstance(st.targets[0], ast.Name):
            name = st.targets[0].id
            if calls:
                _err('reschedule: assignment to %s contains a backend call' % name)
            if name == 'changed_placement':
                lc = st.value
                if not (isinstance(lc, ast.ListComp) and len(lc.generators) == 1
                        and isinstance(lc.generators[0].iter, ast.Name) and lc.generators[0].iter.id == 'placement'):
                    _err('reschedule: changed_placement is not a list comprehension over placement')
                tgt = lc.generators[0].target
                names = [e.id for e in tgt.elts] if isinstance(tgt, ast.Tuple) else None
                if names != ['app', 'before', 'exp_before', 'after', 'exp_after'] or \
                        ast.dump(lc.elt) != ast.dump(tgt).replace('Store()', 'Load()'):
                    _err('reschedule: changed_placement does not keep the placement tuples as they are')
                ifs = lc.generators[0].ifs
                filt = []
                if len(ifs) == 1:
                    test = ifs[0]
                    terms = test.values if (isinstance(test, ast.BoolOp) and isinstance(test.op, ast.Or)) else [test]
                    for t in terms:
                        if (isinstance(t, ast.Compare) and len(t.ops) == 1 and isinstance(t.ops[0], ast.NotEq)
                                and isinstance(t.left, ast.Name) and isinstance(t.comparators[0], ast.Name)):
                            pair = {t.left.id, t.comparators[0].id}
                            if pair == {'before', 'after'}:
                                filt.append(1)
                                continue
                            if pair == {'exp_before', 'exp_after'}:
                                filt.append(2)
                                continue
                        _err('reschedule: unrecognised term in the changed_placement filter: %s' % ast.dump(t))
                else:
                    _err('reschedule: expected exactly one filter on changed_placement, found %d' % len(ifs))
            elif name != 'placement':
                _err('reschedule: unexpected assignment to %s' % name)
            continue
        if isinstance(st, ast.Assign):
            if calls:
                _err('reschedule: attribute assignment with a backend call (line %d)' % st.lineno)
            continue
        if isinstance(st, ast.For):
            if not (isinstance(st.iter, ast.Name) and st.iter.id == 'changed_placement'):
                _err('reschedule: loop over something other than changed_placement (line %d)' % st.lineno)
            kinds = [k for k, _c in calls]
            if kinds == ['delete']:
                if _placement_path_args(calls[0][1]) != ('before', 'app'):
                    _err('reschedule: the delete loop does not delete placement(before, app)')
                if _guard_of(st, calls[0][1]) != [_G_BEFORE]:
                    _err('reschedule: the delete loop is not guarded by `before and before != after`')
                phases.append(1)
            elif kinds == ['put']:
                if _placement_path_args(calls[0][1]) != ('after', 'app'):
                    _err('reschedule: the put loop does not write placement(after, app)')
                if _guard_of(st, calls[0][1]) != [_G_AFTER]:
                    _err('reschedule: the put loop is not guarded by `after`')
                if not (len(calls[0][1].args) == 2 and isinstance(calls[0][1].args[1], ast.Name)
                        and calls[0][1].args[1].id == 'placement_data'):
                    _err('reschedule: the put loop does not write placement_data')
                phases.append(2)
            elif not kinds:
                continue
            else:
                _err('reschedule: a loop mixes backend calls %r (line %d)' % (kinds, st.lineno))
            continue
        if _is_self_call(st, '_unschedule_evicted'):
            phases.append(3)
            continue
        if _is_self_call(st, '_save_placement'):
            phases.append(4)
            continue
        if calls:
            _err('reschedule: unexpected statement with a backend call (line %d)' % st.lineno)
        if isinstance(st, ast.Expr):
            continue
        _err('reschedule: unexpected statement %s (line %d)' % (type(st).__name__, st.lineno))
    if filt is None:
        _err('reschedule: changed_placement not found')
    return phases, filt


def init_shape():
    tree = ast.parse(tables._src(_SRC))
    fn = tables._func(tree, 'init_schedule')
    outer = [st for st in tables._body(fn) if isinstance(st, ast.For)]
    if len(outer) != 1 or 'members' not in ast.dump(outer[0].iter):
        _err('init_schedule: expected exactly one loop over self.cell.members().items()')
    for st in tables._body(fn):
        if st is not outer[0] and _backend_calls(st):
            _err('init_schedule: backend call outside the per-server loop (line %d)' % st.lineno)
    phases = []
    for st in outer[0].body:
        calls = _backend_calls(st)
        kinds = [k for k, _c in calls]
        if isinstance(st, ast.For):
            it = st.iter
            if not (isinstance(it, ast.BinOp) and isinstance(it.op, ast.Sub)
                    and isinstance(it.left, ast.Name) and isinstance(it.right, ast.Name)):
                _err('init_schedule: inner loop is not over a set difference (line %d)' % st.lineno)
            diff = (it.left.id, it.right.id)
            if diff == ('current', 'correct') and kinds == ['delete']:
                phases.append(1)
            elif diff == ('correct', 'current') and kinds == ['put']:
                phases.append(2)
            else:
                _err('init_schedule: inner loop over %s - %s with backend calls %r' % (diff[0], diff[1], kinds))
            if _guard_of(st, calls[0][1]) != []:
                _err('init_schedule: a write of the inner loops is conditional')
        elif any(k in ('put', 'delete', 'update') for k in kinds):
            _err('init_schedule: write outside the two inner loops (line %d)' % st.lineno)
    return phases


def _emit():
    phases, filt = reschedule_shape()
    init_phases = init_shape()
    return ('(* scheduler/master.py: statement order of Master.reschedule / Master.init_schedule and the\n'
            '   changed_placement filter (AST-extracted; 1 = delete loop, 2 = put loop, 3 = _unschedule_evicted,\n'
            '   4 = _save_placement; filter 1 = servers compared, 2 = expiries compared) *)\n'
            'Definition c10_reschedule_phases : list Z := %s.\n'
            'Definition c10_changed_filter : list Z := %s.\n'
            'Definition c10_init_phases : list Z := %s.\n'
            % (G.zlist(phases), G.zlist(filt), G.zlist(init_phases)))


tables.register('c10', _emit)
