"""Translator section for C09/C10/C11: the shape of the two publication functions of
treadmill/scheduler/master.py, read from the Python AST of the working tree (fail closed).

  Master.reschedule
     changed_placement = [... if before != after or exp_before != exp_after]   -> c10_changed_filter (1 = servers
                                                                                   compared, 2 = expiries compared)
     for ... in changed_placement: if before and before != after: backend.delete(placement(before, app))  -> phase 1
     for ... in changed_placement: ... if after: backend.put(placement(after, app), placement_data)         -> phase 2
     self._unschedule_evicted()                                                                            -> phase 3
     self._save_placement(placement)                                                                       -> phase 4
                                                                      order of these statements -> c10_reschedule_phases
  Master.init_schedule, inside `for servername, server in self.cell.members().items()`
     for app in current - correct: backend.delete(join(placement_node, app))    -> phase 1
     for app in correct - current: backend.put(join(placement_node, app), ...)  -> phase 2
                                                                      order -> c10_init_phases
     one such loop with both inner loops (the tree before the repair) or two loops, the first deleting for ALL
     servers before the second creates (flag 1); a further inner loop
     for app in correct & current: if backend.get_default(app_node) != placement_data: backend.put(app_node, ...)
     reconciles existing nodes by content (flag 2)                    -> c10_init_flags
  Loader.check_placement_integrity (loader.py), branch `if app2server[app] != correct_placement:`
     app2server[app] = correct_placement after the delete (flag 1)    -> c10_integrity_flags

Master/Publish.v takes these lists as its configuration ([cfg_of_tables]); Props/C10.v and Props/C09.v have to
re-establish `cfg_canonical c10_cfg = true` by vm_compute, so an edit that reorders the loops, merges them, drops
one, or weakens the filter breaks a proof obligation (besides the write-list correspondence).
"""
import ast

from . import tables
from . import gallina as G

_SRC = 'treadmill/scheduler/master.py'


def _err(msg):
    raise tables.TranslatorError('master.py: ' + msg)


def _backend_calls(node):
    """names of self.backend.<m>(...) calls below node, in source order, with the Call nodes."""
    out = []
    for n in ast.walk(node):
        if (isinstance(n, ast.Call) and isinstance(n.func, ast.Attribute)
                and isinstance(n.func.value, ast.Attribute) and n.func.value.attr == 'backend'
                and isinstance(n.func.value.value, ast.Name) and n.func.value.value.id == 'self'):
            out.append((n.func.attr, n))
    return out


def _guard_of(loop, call):
    """the chain of `if` tests between the loop and the call (outermost first), as ast.dump strings;
    fails if the call sits in an else branch or another compound statement."""
    def find(stmts, guards):
        for st in stmts:
            if any(c is call for c in ast.walk(st)):
                if isinstance(st, ast.If):
                    if any(c is call for b in st.body for c in ast.walk(b)):
                        return find(st.body, guards + [ast.dump(st.test)])
                    _err('a publication write sits in an else branch (line %d)' % st.lineno)
                if isinstance(st, ast.Expr):
                    return guards
                _err('a publication write sits inside an unexpected statement %s (line %d)'
                     % (type(st).__name__, st.lineno))
        _err('internal: call not found')
    return find(loop.body, [])


def _is_self_call(st, name):
    return (isinstance(st, ast.Expr) and isinstance(st.value, ast.Call)
            and isinstance(st.value.func, ast.Attribute) and st.value.func.attr == name
            and isinstance(st.value.func.value, ast.Name) and st.value.func.value.id == 'self')


def _placement_path_args(call):
    """z.path.placement(<a>, <b>) as first argument -> (a, b) names"""
    if not call.args:
        _err('backend call without arguments (line %d)' % call.lineno)
    p = call.args[0]
    if (isinstance(p, ast.Call) and isinstance(p.func, ast.Attribute) and p.func.attr == 'placement'
            and len(p.args) == 2 and all(isinstance(a, ast.Name) for a in p.args)):
        return tuple(a.id for a in p.args)
    _err('expected z.path.placement(<server>, app) as the path (line %d), got %s' % (call.lineno, ast.dump(p)))


_G_BEFORE = ast.dump(ast.parse('before and before != after', mode='eval').body)
_G_AFTER = ast.dump(ast.parse('after', mode='eval').body)


def reschedule_shape():
    tree = ast.parse(tables._src(_SRC))
    fn = tables._func(tree, 'reschedule')
    phases = []
    filt = None
    for st in tables._body(fn):
        calls = _backend_calls(st)
        if isinstance(st, ast.Assign) and len(st.targets) == 1 and isinstance(st.targets[0], ast.Name):
            name = st.targets[0].id
            if calls:
                _err('reschedule: assignment to %s contains a backend call' % name)
            if name == 'changed_placement':
                lc = st.value
                if not (isinstance(lc, ast.ListComp) and len(lc.generators) == 1
                        and isinstance(lc.generators[0].iter, ast.Name) and lc.generators[0].iter.id == 'placement'):
                    _err('reschedule: changed_placement is not a list comprehension over placement')
                tgt = lc.generators[0].target
                names = [e.id for e in tgt.elts] if isinstance(tgt, ast.Tuple) else None
                if names != ['app', 'before', 'exp_before', 'after', 'exp_after'] or \
                        ast.dump(lc.elt) != ast.dump(tgt).replace('Store()', 'Load()'):
                    _err('reschedule: changed_placement does not keep the placement tuples as they are')
                ifs = lc.generators[0].ifs
                filt = []
                if len(ifs) == 1:
                    test = ifs[0]
                    terms = test.values if (isinstance(test, ast.BoolOp) and isinstance(test.op, ast.Or)) else [test]
                    for t in terms:
                        if (isinstance(t, ast.Compare) and len(t.ops) == 1 and isinstance(t.ops[0], ast.NotEq)
                                and isinstance(t.left, ast.Name) and isinstance(t.comparators[0], ast.Name)):
                            pair = {t.left.id, t.comparators[0].id}
                            if pair == {'before', 'after'}:
                                filt.append(1)
                                continue
                            if pair == {'exp_before', 'exp_after'}:
                                filt.append(2)
                                continue
                        _err('reschedule: unrecognised term in the changed_placement filter: %s' % ast.dump(t))
                else:
                    _err('reschedule: expected exactly one filter on changed_placement, found %d' % len(ifs))
            elif name != 'placement':
                _err('reschedule: unexpected assignment to %s' % name)
            continue
        if isinstance(st, ast.Assign):
            if calls:
                _err('reschedule: attribute assignment with a backend call (line %d)' % st.lineno)
            continue
        if isinstance(st, ast.For):
            if not (isinstance(st.iter, ast.Name) and st.iter.id == 'changed_placement'):
                _err('reschedule: loop over something other than changed_placement (line %d)' % st.lineno)
            kinds = [k for k, _c in calls]
            if kinds == ['delete']:
                if _placement_path_args(calls[0][1]) != ('before', 'app'):
                    _err('reschedule: the delete loop does not delete placement(before, app)')
                if _guard_of(st, calls[0][1]) != [_G_BEFORE]:
                    _err('reschedule: the delete loop is not guarded by `before and before != after`')
                phases.append(1)
            elif kinds == ['put']:
                if _placement_path_args(calls[0][1]) != ('after', 'app'):
                    _err('reschedule: the put loop does not write placement(after, app)')
                if _guard_of(st, calls[0][1]) != [_G_AFTER]:
                    _err('reschedule: the put loop is not guarded by `after`')
                if not (len(calls[0][1].args) == 2 and isinstance(calls[0][1].args[1], ast.Name)
                        and calls[0][1].args[1].id == 'placement_data'):
                    _err('reschedule: the put loop does not write placement_data')
                phases.append(2)
            elif not kinds:
                continue
            else:
                _err('reschedule: a loop mixes backend calls %r (line %d)' % (kinds, st.lineno))
            continue
        if _is_self_call(st, '_unschedule_evicted'):
            phases.append(3)
            continue
        if _is_self_call(st, '_save_placement'):
            phases.append(4)
            continue
        if calls:
            _err('reschedule: unexpected statement with a backend call (line %d)' % st.lineno)
        if isinstance(st, ast.Expr):
            continue
        _err('reschedule: unexpected statement %s (line %d)' % (type(st).__name__, st.lineno))
    if filt is None:
        _err('reschedule: changed_placement not found')
    return phases, filt


_G_CONTENT = ast.dump(ast.parse('self.backend.get_default(app_node) != placement_data', mode='eval').body)


def _inner_loops(outer, what):
    """inner `for app in <set expr>` loops of one per-server loop -> list of (kind, call)"""
    out = []
    for st in outer.body:
        calls = _backend_calls(st)
        kinds = [k for k, _c in calls]
        if isinstance(st, ast.For):
            it = st.iter
            if not (isinstance(it, ast.BinOp) and isinstance(it.op, (ast.Sub, ast.BitAnd))
                    and isinstance(it.left, ast.Name) and isinstance(it.right, ast.Name)):
                _err('%s: inner loop is not over a set expression of current/correct (line %d)' % (what, st.lineno))
            expr = (it.left.id, type(it.op).__name__, it.right.id)
            if expr == ('current', 'Sub', 'correct') and kinds == ['delete']:
                if _guard_of(st, calls[0][1]) != []:
                    _err('%s: the delete of a stale node is conditional' % what)
                out.append('del')
            elif expr == ('correct', 'Sub', 'current') and kinds == ['put']:
                if _guard_of(st, calls[0][1]) != []:
                    _err('%s: the creation of a missing node is conditional' % what)
                out.append('put')
            elif expr in (('correct', 'BitAnd', 'current'), ('current', 'BitAnd', 'correct')) \
                    and kinds == ['get_default', 'put']:
                if _guard_of(st, calls[1][1]) != [_G_CONTENT]:
                    _err('%s: the rewrite of an existing node is not guarded by '
                         '`self.backend.get_default(app_node) != placement_data`' % what)
                put = calls[1][1]
                if not (len(put.args) == 2 and isinstance(put.args[0], ast.Name) and put.args[0].id == 'app_node'
                        and isinstance(put.args[1], ast.Name) and put.args[1].id == 'placement_data'):
                    _err('%s: the rewrite does not put placement_data at app_node' % what)
                out.append('content')
            else:
                _err('%s: inner loop over %s %s %s with backend calls %r' % ((what,) + expr + (kinds,)))
        elif any(k in ('put', 'delete', 'update') for k in kinds):
            _err('%s: write outside the inner loops (line %d)' % (what, st.lineno))
    return out


def init_shape():
    """-> (phases, flags): phases 1 = delete stale, 2 = create missing (order of appearance);
    flags 1 = every phase is a separate loop over ALL servers, 2 = existing nodes are reconciled by content."""
    tree = ast.parse(tables._src(_SRC))
    fn = tables._func(tree, 'init_schedule')
    outer = [st for st in tables._body(fn) if isinstance(st, ast.For)]
    for st in tables._body(fn):
        if st not in outer and any(k in ('put', 'delete', 'update', 'ensure_exists') for k, _c in _backend_calls(st)):
            _err('init_schedule: backend write outside the per-server loops (line %d)' % st.lineno)
    if not outer or any('members' not in ast.dump(o.iter) for o in outer):
        _err('init_schedule: expected loops over self.cell.members().items() only')
    loops = [_inner_loops(o, 'init_schedule') for o in outer]
    flags = []
    if len(outer) == 1:
        kinds = loops[0]
    elif len(outer) == 2:
        if loops[0] != ['del']:
            _err('init_schedule: with two loops over the servers the first must only delete stale nodes, found %r'
                 % (loops[0],))
        kinds = loops[0] + loops[1]
        flags.append(1)
        ens = [k for k, _c in _backend_calls(outer[0]) if k == 'ensure_exists']
        if len(ens) != 1 or any(k == 'ensure_exists' for k, _c in _backend_calls(outer[1])):
            _err('init_schedule: ensure_exists is expected in the first loop only')
    else:
        _err('init_schedule: %d loops over the servers' % len(outer))
    if 'content' in kinds:
        if kinds[-1] != 'content' or kinds.count('content') != 1:
            _err('init_schedule: unexpected position of the content reconciliation loop: %r' % (kinds,))
        flags.append(2)
        kinds = kinds[:-1]
    phases = [{'del': 1, 'put': 2}[k] for k in kinds]
    return phases, flags


def integrity_shape():
    """-> flags: 1 = app2server[app] = correct_placement after the first-seen entry has been removed"""
    tree = ast.parse(tables._src('treadmill/scheduler/loader.py'))
    fn = tables._func(tree, 'check_placement_integrity')
    want = ast.dump(ast.parse('app2server[app] != correct_placement', mode='eval').body)
    found = [n for n in ast.walk(fn) if isinstance(n, ast.If) and ast.dump(n.test) == want]
    if len(found) != 1:
        _err('check_placement_integrity: expected exactly one `if app2server[app] != correct_placement`, found %d'
             % len(found))
    body = found[0].body
    dels = [i for i, st in enumerate(body) if [k for k, _c in _backend_calls(st)] == ['delete']]
    if len(dels) != 1:
        _err('check_placement_integrity: the repair branch does not delete exactly one node')
    upd = ast.dump(ast.parse('app2server[app] = correct_placement').body[0])
    flags = []
    for st in body[dels[0] + 1:]:
        if isinstance(st, ast.Assign):
            if ast.dump(st) == upd:
                flags = [1]
            else:
                _err('check_placement_integrity: unexpected assignment in the repair branch (line %d)' % st.lineno)
    for st in body[:dels[0]]:
        if isinstance(st, ast.Assign):
            _err('check_placement_integrity: assignment before the delete in the repair branch (line %d)' % st.lineno)
    return flags


def _emit():
    phases, filt = reschedule_shape()
    init_phases, init_flags = init_shape()
    integ_flags = integrity_shape()
    return ('(* scheduler/master.py: statement order of Master.reschedule / Master.init_schedule and the\n'
            '   changed_placement filter (AST-extracted; 1 = delete loop, 2 = put loop, 3 = _unschedule_evicted,\n'
            '   4 = _save_placement; filter 1 = servers compared, 2 = expiries compared; init flags 1 = one loop over\n'
            '   all servers per phase, 2 = existing nodes reconciled by content); scheduler/loader.py:\n'
            '   check_placement_integrity flag 1 = app2server brought up to date after a repair *)\n'
            'Definition c10_reschedule_phases : list Z := %s.\n'
            'Definition c10_changed_filter : list Z := %s.\n'
            'Definition c10_init_phases : list Z := %s.\n'
            'Definition c10_init_flags : list Z := %s.\n'
            'Definition c10_integrity_flags : list Z := %s.\n'
            % (G.zlist(phases), G.zlist(filt), G.zlist(init_phases), G.zlist(init_flags), G.zlist(integ_flags)))


tables.register('c10', _emit)
