"""Translator section `quota` of the quota part of C20 (Api/Quota.v, Props/C20Quota.v).

Section (stdlib types only, so Gen/Tables.v never depends on a model file)
  quota   api/instance.py: the module constants _TOTAL_SCHEDULED_QUOTA / _PROID_SCHEDULED_QUOTA (integer constant
          expressions, bound exactly once in the module); the nested `create` of API.__init__: its signature, its one
          decorator schema.schema({'$ref': 'app.json#/resource_id'}, ..., count={'type': 'integer', 'minimum': m,
          'maximum': M}, ...) and the SHAPE of the quota part of its body - after logging statements only, the eight
          statements of the template below (the two comparisons, their operands, their order, the proid expression
          rsrc_id[:rsrc_id.find('.')], the default of .get, the two messages, and admin.application() as the first
          thing an accepted request reaches).  The statements' AST, with every constant replaced by a hole, must be
          identical to the template's (fail closed); constants that are not exported must have the template's value.
          scheduler/masterapi.py get_scheduled_stats and scheduler/master.py _calculate_aggregate (the writer of the
          stats: the key expression and the increment) pinned the same way.
          etc/schema: app.json#/resource_id -> common.json#/app_id, whose two patterns (both require a '.') are
          pinned textually.
"""
import ast
import copy
import json
import os

from . import gallina as G
from . import tables
from .tables import TranslatorError

_API = 'treadmill/api/instance.py'
_MASTERAPI = 'treadmill/scheduler/masterapi.py'
_MASTER = 'treadmill/scheduler/master.py'
_CONSTS = ('_TOTAL_SCHEDULED_QUOTA', '_PROID_SCHEDULED_QUOTA')

# --------------------------------------------------------------------------- templates (shape of the code)
_QUOTA_PART = '''
zkclient = context.GLOBAL.zk.conn
scheduled_stats = masterapi.get_scheduled_stats(zkclient)
if not scheduled_stats:
    scheduled_stats = {}

total_apps = sum(scheduled_stats.values())
if total_apps + count > _TOTAL_SCHEDULED_QUOTA:
    raise exc.QuotaExceededError(
        'Total scheduled apps quota exceeded.')

proid_apps = scheduled_stats.get(rsrc_id[:rsrc_id.find('.')], 0)
if proid_apps + count > _PROID_SCHEDULED_QUOTA:
    raise exc.QuotaExceededError(
        'Proid scheduled apps quota exceeded.')

admin_app = context.GLOBAL.admin.application()
'''
# constants of the quota part in source order: exported role, or None = must equal the template's
_QUOTA_ROLES = {1: 'sep', 2: 'default'}

_GET_STATS = '''
def get_scheduled_stats(zkclient):
    return zkutils.get_default(zkclient, z.SCHEDULED_STATS, {})
'''

_AGGREGATE = '''
def _calculate_aggregate(self, apps):
    aggregate = collections.Counter()
    for app in apps:
        aggregate[app[:app.find('.')]] += 1
    return dict(aggregate)
'''
_AGG_ROLES = {0: 'agg_sep', 1: 'agg_inc'}

_CREATE_ARGS = ['rsrc_id', 'rsrc', 'count', 'created_by', 'debug', 'debug_services']
_CREATE_DEFAULTS = [1, None, False, None]
_RESOURCE_ID_REF = {'$ref': 'app.json#/resource_id'}
_APP_ID = {'anyOf': [
    {'type': 'string', 'maxLength': 117, 'pattern': '^[a-zA-Z0-9_-]{2,20}([.][\\w-]+)+$'},
    {'type': 'string', 'maxLength': 117, 'pattern': '^[a-zA-Z0-9_-]{2,20}@[\\w-]+([.][\\w-]+)+$'},
]}

_HOLE = '\x00hole'


class _Holes(ast.NodeTransformer):
    """Replace every constant by a hole, recording the values in source order."""

    def __init__(self):
        self.values = []

    def visit_Constant(self, node):
        self.values.append(node.value)
        return ast.copy_location(ast.Constant(value=_HOLE), node)


def _shape(nodes):
    h = _Holes()
    dumps = [ast.dump(h.visit(copy.deepcopy(n)), annotate_fields=True, include_attributes=False) for n in nodes]
    return '\n'.join(dumps), h.values


def _strip_doc(body, what):
    body = list(body)
    if body and isinstance(body[0], ast.Expr) and isinstance(body[0].value, ast.Constant) \
            and isinstance(body[0].value.value, str):
        body = body[1:]
    if not body:
        raise TranslatorError('%s: empty body' % what)
    return body


def _match(nodes, template_nodes, roles, what):
    want_shape, want_vals = _shape(template_nodes)
    got_shape, got_vals = _shape(nodes)
    if got_shape != want_shape:
        i = next((k for k, (a, b) in enumerate(zip(got_shape, want_shape)) if a != b),
                 min(len(got_shape), len(want_shape)))
        raise TranslatorError('%s: the code no longer has the modelled shape (near %r, expected %r)'
                              % (what, got_shape[max(0, i - 60):i + 80], want_shape[max(0, i - 60):i + 80]))
    if len(got_vals) != len(want_vals):
        raise TranslatorError('%s: constant count changed' % what)
    out = {}
    for i, (g, w) in enumerate(zip(got_vals, want_vals)):
        role = roles.get(i)
        if type(g) is not type(w):
            raise TranslatorError('%s: constant #%d is %r (type changed, the model has %r)' % (what, i, g, w))
        if role is None:
            if g != w:
                raise TranslatorError('%s: constant #%d is %r, the model has %r' % (what, i, g, w))
        else:
            out[role] = g
    return out


# --------------------------------------------------------------------------- module-level bindings
def _bindings(tree, name):
    """every place of the module that can bind `name` (Store/Del names, arguments, imports, global/nonlocal, defs)"""
    out = []
    for n in ast.walk(tree):
        if isinstance(n, ast.Name) and n.id == name and not isinstance(n.ctx, ast.Load):
            out.append(('assignment', n.lineno))
        elif isinstance(n, ast.arg) and n.arg == name:
            out.append(('argument', n.lineno))
        elif isinstance(n, (ast.Global, ast.Nonlocal)) and name in n.names:
            out.append(('global', n.lineno))
        elif isinstance(n, (ast.Import, ast.ImportFrom)):
            for a in n.names:
                if (a.asname or a.name.split('.')[0]) == name or a.name == '*':
                    out.append(('import', n.lineno))
        elif isinstance(n, (ast.FunctionDef, ast.AsyncFunctionDef, ast.ClassDef)) and n.name == name:
            out.append(('def', n.lineno))
        elif isinstance(n, ast.ExceptHandler) and n.name == name:
            out.append(('except', n.lineno))
    return out


def _no_reflection(tree, where):
    """names through which a module global can be rebound without an assignment statement"""
    for n in ast.walk(tree):
        if isinstance(n, ast.Name) and n.id in ('globals', 'setattr', 'exec', 'eval', 'vars', '__import__'):
            raise TranslatorError('%s: uses %s() (line %d): the bindings of the quota constants cannot be read off '
                                  'the source' % (where, n.id, n.lineno))
        if isinstance(n, ast.Attribute) and n.attr == '__dict__':
            raise TranslatorError('%s: uses __dict__ (line %d)' % (where, n.lineno))


def _int_expr(node, what):
    """integer constant expression: int literals combined with + - * // ** and unary minus"""
    if isinstance(node, ast.Constant) and type(node.value) is int:
        return node.value
    if isinstance(node, ast.UnaryOp) and isinstance(node.op, ast.USub):
        return -_int_expr(node.operand, what)
    if isinstance(node, ast.BinOp) and isinstance(node.op, (ast.Add, ast.Sub, ast.Mult, ast.FloorDiv, ast.Pow)):
        a, b = _int_expr(node.left, what), _int_expr(node.right, what)
        if isinstance(node.op, ast.Add):
            return a + b
        if isinstance(node.op, ast.Sub):
            return a - b
        if isinstance(node.op, ast.Mult):
            return a * b
        if isinstance(node.op, ast.FloorDiv):
            if b == 0:
                raise TranslatorError('%s: division by zero' % what)
            return a // b
        if not 0 <= b <= 64:
            raise TranslatorError('%s: exponent %r' % (what, b))
        return a ** b
    raise TranslatorError('%s: expected an integer constant expression, got %s' % (what, ast.dump(node)[:200]))


def _module_const(tree, name):
    found = [n for n in tree.body if isinstance(n, ast.Assign) and len(n.targets) == 1
             and isinstance(n.targets[0], ast.Name) and n.targets[0].id == name]
    if len(found) != 1:
        raise TranslatorError('api/instance.py: expected exactly one module-level "%s = ...", found %d'
                              % (name, len(found)))
    b = _bindings(tree, name)
    if b != [('assignment', found[0].lineno)]:
        raise TranslatorError('api/instance.py: %s is bound more than once: %r' % (name, b))
    return _int_expr(found[0].value, 'api/instance.py: ' + name)


def _imported_from(tree, module, name, where):
    """`name` is bound exactly once in the module, by `from <module> import name`"""
    imp = [n for n in tree.body if isinstance(n, ast.ImportFrom) and n.module == module and n.level == 0
           and any(a.name == name and a.asname is None for a in n.names)]
    if len(imp) != 1:
        raise TranslatorError('%s: expected exactly one "from %s import %s"' % (where, module, name))
    b = _bindings(tree, name)
    if b != [('import', imp[0].lineno)]:
        raise TranslatorError('%s: %s is bound more than once: %r' % (where, name, b))


# --------------------------------------------------------------------------- api/instance.py
def _literal(node, what):
    try:
        return ast.literal_eval(node)
    except Exception:   # noqa
        raise TranslatorError('%s: not a literal: %s' % (what, ast.dump(node)[:200]))


def _is_logging(stmt):
    """_LOGGER.<level>(<names and constants>): no effect on the quota decision"""
    if not (isinstance(stmt, ast.Expr) and isinstance(stmt.value, ast.Call)):
        return False
    call = stmt.value
    if not (isinstance(call.func, ast.Attribute) and isinstance(call.func.value, ast.Name)
            and call.func.value.id == '_LOGGER'
            and call.func.attr in ('debug', 'info', 'warning', 'error', 'critical')):
        return False
    return all(isinstance(a, (ast.Name, ast.Constant)) for a in call.args) and not call.keywords


def _find_create(tree):
    classes = [n for n in tree.body if isinstance(n, ast.ClassDef) and n.name == 'API']
    if len(classes) != 1:
        raise TranslatorError('api/instance.py: expected exactly one module-level class API, found %d' % len(classes))
    inits = [n for n in classes[0].body if isinstance(n, ast.FunctionDef) and n.name == '__init__']
    if len(inits) != 1:
        raise TranslatorError('api/instance.py: expected exactly one API.__init__')
    init = inits[0]
    creates = [n for n in ast.walk(tree) if isinstance(n, (ast.FunctionDef, ast.AsyncFunctionDef, ast.ClassDef))
               and n.name == 'create']
    if len(creates) != 1 or not isinstance(creates[0], ast.FunctionDef) or creates[0] not in init.body:
        raise TranslatorError('api/instance.py: expected exactly one "def create", directly in API.__init__')
    fn = creates[0]
    # self.create = create, once, after the def; `create` bound nowhere else
    if _bindings(tree, 'create') != [('def', fn.lineno)]:
        raise TranslatorError('api/instance.py: the name create is rebound: %r' % _bindings(tree, 'create'))
    sets = [n for n in ast.walk(tree) for t in (n.targets if isinstance(n, ast.Assign) else [])
            for x in ast.walk(t) if isinstance(x, ast.Attribute) and x.attr == 'create']
    ok = [n for n in init.body if isinstance(n, ast.Assign) and len(n.targets) == 1
          and isinstance(n.targets[0], ast.Attribute) and n.targets[0].attr == 'create'
          and isinstance(n.targets[0].value, ast.Name) and n.targets[0].value.id == 'self'
          and isinstance(n.value, ast.Name) and n.value.id == 'create']
    if len(sets) != 1 or len(ok) != 1:
        raise TranslatorError('api/instance.py: expected exactly one "self.create = create" in API.__init__')
    return fn


def _create_facts(tree):
    fn = _find_create(tree)
    a = fn.args
    if [x.arg for x in a.args] != _CREATE_ARGS or a.vararg or a.kwarg or a.kwonlyargs or a.posonlyargs:
        raise TranslatorError('create: expected the signature create(%s)' % ', '.join(_CREATE_ARGS))
    if [_literal(d, 'create: default') for d in a.defaults] != _CREATE_DEFAULTS:
        raise TranslatorError('create: the defaults are no longer %r' % (_CREATE_DEFAULTS,))
    for n in ast.walk(fn):
        if isinstance(n, (ast.Global, ast.Nonlocal)):
            raise TranslatorError('create: global / nonlocal statement (line %d)' % n.lineno)
    # the decorator
    if len(fn.decorator_list) != 1:
        raise TranslatorError('create: expected exactly one decorator, found %d' % len(fn.decorator_list))
    dec = fn.decorator_list[0]
    if not (isinstance(dec, ast.Call) and isinstance(dec.func, ast.Attribute) and dec.func.attr == 'schema'
            and isinstance(dec.func.value, ast.Name) and dec.func.value.id == 'schema'):
        raise TranslatorError('create: the decorator is not schema.schema(...)')
    if len(dec.args) != 2 or _literal(dec.args[0], 'create: schema of rsrc_id') != _RESOURCE_ID_REF:
        raise TranslatorError('create: the schema of rsrc_id is no longer %r' % (_RESOURCE_ID_REF,))
    kws = [k for k in dec.keywords if k.arg == 'count']
    if len(kws) != 1 or any(k.arg is None for k in dec.keywords):
        raise TranslatorError('create: expected exactly one count=... schema keyword')
    cs = _literal(kws[0].value, 'create: schema of count')
    if not (isinstance(cs, dict) and sorted(cs) == ['maximum', 'minimum', 'type'] and cs['type'] == 'integer'
            and type(cs['minimum']) is int and type(cs['maximum']) is int):
        raise TranslatorError("create: the schema of count is %r, expected {'type': 'integer', 'minimum': <int>, "
                              "'maximum': <int>}" % (cs,))
    # the body: logging only, then the quota part
    body = _strip_doc(fn.body, 'create')
    while body and _is_logging(body[0]):
        body = body[1:]
    tmpl = ast.parse(_QUOTA_PART).body
    if len(body) < len(tmpl):
        raise TranslatorError('create: the body is shorter than the quota part')
    c = _match(body[:len(tmpl)], tmpl, _QUOTA_ROLES, 'create (quota part)')
    if not (isinstance(c['sep'], str) and len(c['sep']) == 1):
        raise TranslatorError('create: the argument of find is %r, expected one character' % (c['sep'],))
    c['count_min'], c['count_max'] = cs['minimum'], cs['maximum']
    return c


def _one_def(tree, name, where, in_class=None):
    defs = [n for n in ast.walk(tree) if isinstance(n, (ast.FunctionDef, ast.AsyncFunctionDef, ast.ClassDef))
            and n.name == name]
    if len(defs) != 1 or not isinstance(defs[0], ast.FunctionDef):
        raise TranslatorError('%s: expected exactly one "def %s", found %d' % (where, name, len(defs)))
    fn = defs[0]
    if in_class is None:
        if fn not in tree.body:
            raise TranslatorError('%s: %s is not a module-level function' % (where, name))
    else:
        cls = [n for n in tree.body if isinstance(n, ast.ClassDef) and n.name == in_class]
        if len(cls) != 1 or fn not in cls[0].body:
            raise TranslatorError('%s: %s is not a method of the one class %s' % (where, name, in_class))
    if fn.decorator_list:
        raise TranslatorError('%s: %s is decorated' % (where, name))
    if _bindings(tree, name) != [('def', fn.lineno)]:
        raise TranslatorError('%s: %s is rebound: %r' % (where, name, _bindings(tree, name)))
    for n in ast.walk(tree):   # <obj>.name = ...
        for t in (n.targets if isinstance(n, ast.Assign) else []):
            for x in ast.walk(t):
                if isinstance(x, ast.Attribute) and x.attr == name:
                    raise TranslatorError('%s: attribute %s is assigned (line %d)' % (where, name, n.lineno))
    return fn


def _fn_nodes(fn):
    fn = copy.deepcopy(fn)
    fn.body = _strip_doc(fn.body, fn.name)
    return [fn]


def _schema_json(name):
    path = os.path.join(tables.PY, 'treadmill', 'etc', 'schema', name)
    try:
        with open(path) as f:
            return json.load(f)
    except Exception as e:   # noqa  fail closed
        raise TranslatorError('etc/schema/%s: %s: %s' % (name, type(e).__name__, e))


def quota_facts():
    tree = ast.parse(tables._src(_API))
    _no_reflection(tree, 'api/instance.py')
    c = {'total': _module_const(tree, _CONSTS[0]), 'proid': _module_const(tree, _CONSTS[1])}
    _imported_from(tree, 'treadmill.scheduler', 'masterapi', 'api/instance.py')
    _imported_from(tree, 'treadmill', 'exc', 'api/instance.py')
    _imported_from(tree, 'treadmill', 'context', 'api/instance.py')
    _imported_from(tree, 'treadmill', 'schema', 'api/instance.py')
    if _bindings(tree, 'sum'):
        raise TranslatorError('api/instance.py: the builtin sum is rebound: %r' % _bindings(tree, 'sum'))
    c.update(_create_facts(tree))
    if type(c['default']) is not int:
        raise TranslatorError('create: the default of scheduled_stats.get is %r, expected an int' % (c['default'],))
    # the reader of the stats
    mtree = ast.parse(tables._src(_MASTERAPI))
    fn = _one_def(mtree, 'get_scheduled_stats', 'scheduler/masterapi.py')
    _match(_fn_nodes(fn), _fn_nodes(ast.parse(_GET_STATS).body[0]), {}, 'masterapi.get_scheduled_stats')
    # the writer of the stats
    stree = ast.parse(tables._src(_MASTER))
    fn = _one_def(stree, '_calculate_aggregate', 'scheduler/master.py', in_class='Master')
    a = _match(_fn_nodes(fn), _fn_nodes(ast.parse(_AGGREGATE).body[0]), _AGG_ROLES, 'master._calculate_aggregate')
    if not (isinstance(a['agg_sep'], str) and len(a['agg_sep']) == 1):
        raise TranslatorError('_calculate_aggregate: the argument of find is %r, expected one character'
                              % (a['agg_sep'],))
    if type(a['agg_inc']) is not int:
        raise TranslatorError('_calculate_aggregate: the increment is %r, expected an int' % (a['agg_inc'],))
    imp = [n for n in stree.body if isinstance(n, ast.Import) and any(x.name == 'collections' and x.asname is None
                                                                       for x in n.names)]
    if len(imp) != 1 or _bindings(stree, 'collections') != [('import', imp[0].lineno)]:
        raise TranslatorError('scheduler/master.py: expected exactly one "import collections" and no other binding')
    c.update(a)
    # the schema of rsrc_id: both alternatives require a '.'
    app = _schema_json('app.json')
    if app.get('resource_id') != {'$ref': 'common.json#/app_id'}:
        raise TranslatorError('etc/schema/app.json: resource_id is %r' % (app.get('resource_id'),))
    common = _schema_json('common.json')
    if common.get('app_id') != _APP_ID:
        raise TranslatorError('etc/schema/common.json: app_id is %r, the model was written for %r'
                              % (common.get('app_id'), _APP_ID))
    return c


def _emit():
    c = quota_facts()
    return (
        '(* api/instance.py: _TOTAL_SCHEDULED_QUOTA, _PROID_SCHEDULED_QUOTA (module constants); the quota part of the\n'
        '   nested create (shape pinned by AST template): the argument of find, the default of .get; the schema bounds\n'
        '   of count; scheduler/master.py _calculate_aggregate: the argument of find, the increment *)\n'
        'Definition quota_total : Z := %s.\n'
        'Definition quota_proid : Z := %s.\n'
        'Definition quota_sep : Z := %s.\n'
        'Definition quota_default : Z := %s.\n'
        'Definition quota_count_min : Z := %s.\n'
        'Definition quota_count_max : Z := %s.\n'
        'Definition quota_agg_sep : Z := %s.\n'
        'Definition quota_agg_inc : Z := %s.\n'
        % (G.z(c['total']), G.z(c['proid']), G.z(ord(c['sep'])), G.z(c['default']), G.z(c['count_min']),
           G.z(c['count_max']), G.z(ord(c['agg_sep'])), G.z(c['agg_inc'])))


tables.register('quota', _emit)
