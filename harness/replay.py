"""./check replay <file>: re-execute a replay file against /repo's working tree."""
import importlib
import json


def main(path):
    with open(path) as f:
        rp = json.load(f)
    pid = rp['property']
    mod = importlib.import_module('harness.props.%s' % pid.lower())
    if rp.get('kind') == 'failing-input':
        if not hasattr(mod, 'replay_case'):
            print('property %s has no replay_case' % pid)
            return 2
        v = mod.replay_case(rp['case'])
        if v:
            print('REPRODUCED property=%s signature=%s: %s' % (pid, v[0], v[1]))
            return 1
        print('not reproduced on the current tree')
        return 0
    print('broken obligations recorded in this replay (re-run ./check %s to re-check them):' % pid)
    for b in rp.get('broken_obligations', []):
        print(' - %s: %s' % (b['kind'], b['name']))
    return 1
