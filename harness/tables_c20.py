"""Translator section for C20: the constants of sproc/appmonitor.py the model Mon/AppMon.v depends on.

Read from the Python AST of the working tree (fail closed):
  _INTERVAL, _DELAY_INTERVAL                      module constants, float(<integer expression>)
  max_value = conf['count'] * K                   in reevaluate            -> k_cap
  'available': K * count                          in _monitor_data_watch   -> k_init
  'rate': (K * count / _INTERVAL)                 in _monitor_data_watch   -> k_rate
An edit of any of these changes Gen/Tables.v; Props/C20.v then has to re-establish
`consts_canonical c20_consts = true` and `params_okb` by vm_compute.
"""
import ast

from . import tables
from . import gallina as G

_SRC = 'treadmill/sproc/appmonitor.py'


def _err(msg):
    raise tables.TranslatorError('appmonitor.py: ' + msg)


def _int_expr(node, what):
    """integer-valued constant expression: literals combined with + - * ; float literals must be integral."""
    if isinstance(node, ast.Constant) and isinstance(node.value, (int, float)) and not isinstance(node.value, bool):
        v = node.value
        if isinstance(v, float):
            if v != int(v):
                _err('%s: %r is not an integer value (the model keeps tokens on an integer lattice)' % (what, v))
            v = int(v)
        return v
    if isinstance(node, ast.BinOp) and isinstance(node.op, (ast.Mult, ast.Add, ast.Sub)):
        a, b = _int_expr(node.left, what), _int_expr(node.right, what)
        return a * b if isinstance(node.op, ast.Mult) else (a + b if isinstance(node.op, ast.Add) else a - b)
    if (isinstance(node, ast.Call) and isinstance(node.func, ast.Name) and node.func.id in ('float', 'int')
            and len(node.args) == 1 and not node.keywords):
        return _int_expr(node.args[0], what)
    _err('%s: expected an integer constant expression, got %s' % (what, ast.dump(node)))


def _module_const(tree, name):
    found = [n for n in tree.body if isinstance(n, ast.Assign) and len(n.targets) == 1
             and isinstance(n.targets[0], ast.Name) and n.targets[0].id == name]
    if len(found) != 1:
        _err('expected exactly one module-level assignment of %s, found %d' % (name, len(found)))
    return _int_expr(found[0].value, name)


def _is_name(node, name):
    return isinstance(node, ast.Name) and node.id == name


def _factor_times(node, is_operand, what):
    """K * <operand> or <operand> * K -> K"""
    if isinstance(node, ast.BinOp) and isinstance(node.op, ast.Mult):
        if is_operand(node.right):
            return _int_expr(node.left, what)
        if is_operand(node.left):
            return _int_expr(node.right, what)
    _err('%s: expected <constant> * <count>, got %s' % (what, ast.dump(node)))


def _conf_count(node):
    return (isinstance(node, ast.Subscript) and _is_name(node.value, 'conf')
            and isinstance(node.slice, ast.Constant) and node.slice.value == 'count')


def c20_constants():
    tree = ast.parse(tables._src(_SRC))
    out = {'k_interval': _module_const(tree, '_INTERVAL'), 'k_delay': _module_const(tree, '_DELAY_INTERVAL')}

    # reevaluate: max_value = conf['count'] * 2
    fn = tables._func(tree, 'reevaluate')
    caps = [n for n in ast.walk(fn) if isinstance(n, ast.Assign) and len(n.targets) == 1
            and _is_name(n.targets[0], 'max_value')]
    if len(caps) != 1:
        _err('reevaluate: expected exactly one assignment of max_value, found %d' % len(caps))
    out['k_cap'] = _factor_times(caps[0].value, _conf_count, 'reevaluate max_value')

    # _monitor_data_watch: state['monitors'][name] = {'count': count, 'available': 2.0 * count, ...}
    fn = tables._func(tree, '_monitor_data_watch')
    sets = []
    for n in ast.walk(fn):
        if not (isinstance(n, ast.Assign) and len(n.targets) == 1 and isinstance(n.targets[0], ast.Subscript)):
            continue
        t = n.targets[0]
        if (isinstance(t.value, ast.Subscript) and _is_name(t.value.value, 'state')
                and isinstance(t.value.slice, ast.Constant) and t.value.slice.value == 'monitors'):
            sets.append(n)
    if len(sets) != 1 or not isinstance(sets[0].value, ast.Dict):
        _err('_monitor_data_watch: expected exactly one "state[\'monitors\'][name] = {...}"')
    d = {}
    for k, v in zip(sets[0].value.keys, sets[0].value.values):
        d[tables._const_str(k, '_monitor_data_watch conf key')] = v
    if sorted(d) != ['available', 'count', 'last_update', 'policy', 'rate']:
        _err('_monitor_data_watch: unexpected conf keys %r' % sorted(d))
    if not _is_name(d['count'], 'count'):
        _err("_monitor_data_watch: 'count' is not the loaded count")
    if not _is_name(d['policy'], 'policy'):
        _err("_monitor_data_watch: 'policy' is not the loaded policy")
    lu = d['last_update']
    if not (isinstance(lu, ast.Call) and isinstance(lu.func, ast.Attribute) and lu.func.attr == 'time'
            and _is_name(lu.func.value, 'time') and not lu.args):
        _err("_monitor_data_watch: 'last_update' is not time.time()")
    out['k_init'] = _factor_times(d['available'], lambda x: _is_name(x, 'count'), "conf 'available'")
    rate = d['rate']
    if not (isinstance(rate, ast.BinOp) and isinstance(rate.op, ast.Div) and _is_name(rate.right, '_INTERVAL')):
        _err("_monitor_data_watch: 'rate' is not <K * count> / _INTERVAL: %s" % ast.dump(rate))
    out['k_rate'] = _factor_times(rate.left, lambda x: _is_name(x, 'count'), "conf 'rate'")
    return out


def _emit():
    c = c20_constants()
    # qualified names, no Import: nothing of Mon.AppMon is brought into the scope of later sections
    fields = '; '.join('TM.Mon.AppMon.%s := %s' % (k, G.z(c[k]))
                       for k in ('k_interval', 'k_delay', 'k_cap', 'k_init', 'k_rate'))
    return ('From TM Require Mon.AppMon.\n'
            '(* sproc/appmonitor.py: _INTERVAL, _DELAY_INTERVAL, max_value factor, initial tokens factor, rate factor *)\n'
            'Definition c20_consts : TM.Mon.AppMon.consts := {| %s |}.\n' % fields)


tables.register('c20', _emit)
