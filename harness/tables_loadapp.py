"""Translator section `loadapp` (Master/LoadApp.v, Props/C03Load.v): the Loader glue between declared records and
scheduler objects.

Extracted from the Python AST on every run, fail closed (stdlib types only, so Gen/Tables.v does not depend on a
model file; Master/LoadAppRun.v assembles the record `loadapp_tables`):

  dataflow (no template: harmless edits such as a log line do not break it, any statement that is not recognised does)
    Loader.load_app           the priority rule (key and the constant -1); for the new-instance branch one row
                              [attribute; how; key; default] per argument of scheduler.Application(...), each argument
                              resolved through its local variable to manifest.get(K[, D]) / resources(manifest) /
                              _get_data_retention(manifest) / _get_lease(manifest) / traits.encode(...)[0]; the
                              attributes assigned in the existing-instance branch (each from the SAME local as the
                              constructor argument of that name); the attributes assigned after the if; encode flags
    Loader.create_server      the same for scheduler.Server(...), the falsy-label fallback to _DEFAULT_PARTITION, the
                              write-back of the trait codes
    Application.__init__      one row [attribute; source; what] per assignment, the signature defaults
  shape pinned by template (the function's AST with every constant replaced by a hole must equal the template's;
  constants with a role are exported, the others must have the template's value)
    utils.to_seconds, loader._get_data_retention, loader._get_lease, Loader.find_default_assignment,
    Loader.find_assignment, Loader.load_server, traits.create_code, traits.encode, scheduler.Affinity.__init__,
    scheduler.TraitSet.__init__, scheduler.Node.__init__, scheduler.Server.__init__
  module values (imported; single assignment checked on the AST)
    utils._TIME_SCALE, loader._DEFAULT_PARTITION, traits.INVALID
"""
import ast
import copy
import importlib
import sys

from . import gallina as G
from . import tables
from .tables import TranslatorError

KEYS = {'memory': 1, 'cpu': 2, 'disk': 3, 'priority': 4, 'affinity': 5, 'affinity_limits': 6, 'identity_group': 7,
        'schedule_once': 8, 'data_retention_timeout': 9, 'lease': 10, 'traits': 11, 'partition': 12, 'up_since': 13,
        'parent': 14}
# attributes of scheduler.Application; a constructor parameter has the id of the attribute of the same name
APP_ATTRS = {'name': 1, 'priority': 2, 'demand': 3, 'affinity': 4, 'affinity_limits': 5, 'data_retention_timeout': 6,
             'lease': 7, 'identity_group': 8, 'identity': 9, 'traits': 10, '_traits': 10, 'schedule_once': 11,
             'blacklisted': 12, 'evicted': 13, 'unschedule': 14, 'renew': 15, 'server': 16, 'placement_expiry': 17,
             'allocation': 18, 'identity_group_ref': 19, 'global_order': 20}
SRV_ATTRS = {'name': 31, 'capacity': 32, 'up_since': 33, 'label': 34, 'traits': 35, 'valid_until': 36,
             'presence_id': 37}
F_GET, F_RESOURCES, F_RETENTION, F_LEASE, F_ENCODE, F_PRIORITY, F_ARG, F_BLACKLIST, F_LABEL = range(1, 10)
D_NOKEY, D_NONE, D_EMPTY_LIST, D_STR, D_NOW = range(5)

_HOLE = '\x00hole'


# --------------------------------------------------------------------------- AST helpers
class _Norm(ast.NodeTransformer):
    """-<int literal> becomes the constant (the parser gives UnaryOp(USub, Constant))"""

    def visit_UnaryOp(self, node):
        self.generic_visit(node)
        if isinstance(node.op, ast.USub) and isinstance(node.operand, ast.Constant) \
                and type(node.operand.value) is int:
            return ast.copy_location(ast.Constant(value=-node.operand.value), node)
        return node


def _is_log(st):
    return (isinstance(st, ast.Expr) and isinstance(st.value, ast.Call) and isinstance(st.value.func, ast.Attribute)
            and isinstance(st.value.func.value, ast.Name) and st.value.func.value.id == '_LOGGER')


class _Strip(ast.NodeTransformer):
    """drop docstrings, logging calls and comments-only differences"""

    def _body(self, body):
        out = []
        for i, st in enumerate(body):
            if isinstance(st, ast.Expr) and isinstance(st.value, ast.Constant) and isinstance(st.value.value, str):
                continue
            if _is_log(st):
                continue
            out.append(self.visit(st))
        return out or [ast.Pass()]

    def generic_visit(self, node):
        for field in ('body', 'orelse', 'finalbody'):
            v = getattr(node, field, None)
            if isinstance(v, list) and v and isinstance(v[0], ast.stmt):
                setattr(node, field, self._body(v))
        if isinstance(node, ast.Try):
            for h in node.handlers:
                h.body = self._body(h.body)
        return node


def _clean(fn):
    fn = copy.deepcopy(fn)
    fn = _Norm().visit(fn)
    fn = _Strip().visit(fn)
    return fn


class _Holes(ast.NodeTransformer):
    def __init__(self):
        self.values = []

    def visit_Constant(self, node):
        self.values.append(node.value)
        return ast.copy_location(ast.Constant(value=_HOLE), node)


def _shape(fn):
    h = _Holes()
    fn = h.visit(_clean(fn))
    return ast.dump(fn, annotate_fields=True, include_attributes=False), h.values


def _module(rel):
    return ast.parse(tables._src(rel))


def _find_def(tree, qual, where):
    """the one definition of Class.method / function at module level (fail closed on duplicates / decorators)"""
    parts = qual.split('.')
    body = tree.body
    node = None
    for i, p in enumerate(parts):
        want = ast.ClassDef if i < len(parts) - 1 else ast.FunctionDef
        found = [n for n in body if isinstance(n, (ast.ClassDef, ast.FunctionDef, ast.AsyncFunctionDef))
                 and n.name == p]
        if len(found) != 1 or not isinstance(found[0], want):
            raise TranslatorError('%s: expected exactly one definition of %s, found %d' % (where, qual, len(found)))
        node = found[0]
        if node.decorator_list:
            raise TranslatorError('%s: %s is decorated' % (where, qual))
        body = node.body
    # the name must not be rebound at module level (monkey patching inside the module)
    last = parts[-1]
    for st in tree.body:
        if isinstance(st, (ast.Assign, ast.AugAssign, ast.AnnAssign)):
            tg = st.targets if isinstance(st, ast.Assign) else [st.target]
            for t in tg:
                for x in ast.walk(t):
                    if (isinstance(x, ast.Name) and x.id == parts[0]) or \
                            (isinstance(x, ast.Attribute) and x.attr == last and len(parts) > 1):
                        raise TranslatorError('%s: %s is rebound at module level (line %d)' % (where, qual, st.lineno))
    return node


def _match(tree, qual, where, template, roles):
    fn = _find_def(tree, qual, where)
    want_shape, want_vals = _shape(ast.parse(template).body[0])
    got_shape, got_vals = _shape(fn)
    if got_shape != want_shape:
        i = next((k for k, (a, b) in enumerate(zip(got_shape, want_shape)) if a != b),
                 min(len(got_shape), len(want_shape)))
        raise TranslatorError('%s %s: the code no longer has the modelled shape (near %r, expected %r)'
                              % (where, qual, got_shape[max(0, i - 50):i + 70], want_shape[max(0, i - 50):i + 70]))
    out = {}
    for i, (g, w) in enumerate(zip(got_vals, want_vals)):
        role = roles.get(i)
        if role == 'msg':
            continue
        if role is None:
            if type(g) is not type(w) or g != w:
                raise TranslatorError('%s %s: constant #%d is %r, the model has %r' % (where, qual, i, g, w))
        else:
            if type(g) is not type(w):
                raise TranslatorError('%s %s: constant %s is %r (type changed)' % (where, qual, role, g))
            if role in out and out[role] != g:
                raise TranslatorError('%s %s: the occurrences of %s differ (%r, %r)' % (where, qual, role, out[role], g))
            out[role] = g
    return out


def _import(modname):
    if tables.PY not in sys.path:
        sys.path.insert(0, tables.PY)
    try:
        return importlib.import_module(modname)
    except Exception as e:   # fail closed
        raise TranslatorError('cannot import %s: %s: %s' % (modname, type(e).__name__, e))


def _assigned_once(tree, name, where):
    n = sum(1 for node in ast.walk(tree) for t in (node.targets if isinstance(node, ast.Assign) else [])
            for x in ast.walk(t) if isinstance(x, ast.Name) and x.id == name and isinstance(x.ctx, ast.Store))
    if n != 1:
        raise TranslatorError('%s: %s is assigned %d times' % (where, name, n))


def _u(node):
    return ast.unparse(node)


def _key(s, what):
    if not isinstance(s, str) or s not in KEYS:
        raise TranslatorError('%s: unknown record key %r' % (what, s))
    return KEYS[s]


# --------------------------------------------------------------------------- templates
_T_TO_SECONDS = '''
def to_seconds(value):
    norm = str(value).upper().strip()
    if norm[-1] not in _TIME_SCALE:
        raise Exception('Invalid (unitless) interval: ' + str(value))

    return int(norm[0:-1]) * _TIME_SCALE[norm[-1]]
'''
_T_RETENTION = '''
def _get_data_retention(data):
    data_retention_timeout = data.get('data_retention_timeout')
    if data_retention_timeout is not None:
        return utils.to_seconds(data_retention_timeout)
    else:
        return None
'''
_T_LEASE = '''
def _get_lease(data):
    return utils.to_seconds(data.get('lease', '0s'))
'''
_T_DEFAULT_ASSIGNMENT = '''
def find_default_assignment(self, name):
    alloc = self.cell.partitions[_DEFAULT_PARTITION].allocation

    unassigned = alloc.get_sub_alloc(_DEFAULT_TENANT)

    proid, _rest = name.split('.', 1)
    proid_alloc = unassigned.get_sub_alloc(proid)

    return 1, proid_alloc
'''
_T_FIND_ASSIGNMENT = '''
def find_assignment(self, name):
    key = _alloc_key(name)

    if key in self.assignments:
        for assignment in self.assignments[key]:
            pattern_re, priority, alloc = assignment
            if pattern_re.match(name):
                return (priority, alloc)

    return self.find_default_assignment(name)
'''
_T_LOAD_SERVER = '''
def load_server(self, servername):
    try:
        data = self.backend.get(z.path.server(servername))
        if not data:
            return

        server = self.create_server(servername, data)

        assert 'parent' in data
        parentname = data['parent']
        parent = self.buckets.get(parentname)
        if not parent:
            return

        self.buckets[parentname].add_node(server)
        self.servers[servername] = server
        assert server.parent == self.buckets[parentname]

        self.backend.ensure_exists(z.path.placement(servername))
        self.adjust_server_state(servername)
        self.set_server_valid_until(servername)

    except be.ObjectNotFoundError:
        pass
'''
_T_CREATE_CODE = '''
def create_code(traits):
    code = 1
    result = {INVALID: code}

    if not traits:
        return result

    for trait in traits:
        code = code << 1
        result[trait] = code

    return result
'''
_T_ENCODE = '''
def encode(code, traits, use_invalid=False, add_new=False):
    result = 0
    next_code = max(code.values(), default=1)

    for trait in traits:
        if trait in code:
            result |= code[trait]
        elif add_new:
            next_code = next_code << 1
            code[trait] = next_code
            result |= code[trait]
        else:
            if use_invalid:
                result |= code[INVALID]

    return result, code
'''
_T_AFFINITY = '''
def __init__(self, name, limits=None):
    self.name = name
    self.limits = collections.defaultdict(lambda: float('inf'))
    if limits:
        self.limits.update(limits)

    self.constraints = tuple([self.name] + sorted(self.limits.values()))
'''
_T_TRAITSET = '''
def __init__(self, traits=0):
    if not traits:
        traits = 0

    assert isinstance(traits, six.integer_types)
    self.self_traits = traits

    self.children_traits = dict()

    self._recalculate()
'''
_T_NODE = '''
def __init__(self, name, traits, level, valid_until=0):
    self.name = name
    self.level = level
    self.free_capacity = zero_capacity()
    self.parent = None
    self.children = list()
    self.children_by_name = dict()
    self.traits = TraitSet(traits)
    self.labels = set()
    self.affinity_counters = collections.Counter()
    self.valid_until = valid_until
    self._state = State.up
    self._state_since = time.time()
'''
_T_SERVER = '''
def __init__(self, name, capacity, up_since=0, valid_until=0,
             traits=0, label=None, presence_id=None):
    super(Server, self).__init__(name, traits=traits, level='server',
                                 valid_until=valid_until)
    self.labels = set([label])
    self.init_capacity = np.array(capacity, dtype=float)
    self.free_capacity = self.init_capacity.copy()
    self.apps = dict()
    self.up_since = up_since
    self.presence_id = presence_id
'''


# --------------------------------------------------------------------------- dataflow extraction
def _sig(fn, attrs, what):
    """(parameter names without self, {parameter: default code}) of a constructor"""
    a = fn.args
    if a.vararg or a.kwarg or a.kwonlyargs or a.posonlyargs:
        raise TranslatorError('%s: *args / **kwargs / keyword-only parameters' % what)
    names = [x.arg for x in a.args]
    if not names or names[0] != 'self':
        raise TranslatorError('%s: first parameter is not self' % what)
    names = names[1:]
    for n in names:
        if n not in attrs:
            raise TranslatorError('%s: unknown parameter %r' % (what, n))
    defaults = []
    for n, d in zip(names[len(names) - len(a.defaults):], a.defaults):
        d = _Norm().visit(copy.deepcopy(d))
        if not isinstance(d, ast.Constant):
            raise TranslatorError('%s: default of %s is not a constant' % (what, n))
        v = d.value
        if v is None:
            code = 0
        elif v is False:
            code = 1
        elif v is True:
            code = 2
        elif type(v) is int and v >= 0:
            code = 10 + v
        else:
            raise TranslatorError('%s: default of %s is %r' % (what, n, v))
        defaults.append([attrs[n], code])
    return names, defaults


def _bind_call(call, params, what):
    """{parameter: argument node} of a constructor call, in source order"""
    if any(isinstance(x, ast.Starred) for x in call.args) or any(k.arg is None for k in call.keywords):
        raise TranslatorError('%s: * / ** in the constructor call' % what)
    if len(call.args) > len(params):
        raise TranslatorError('%s: too many positional arguments' % what)
    out = []
    for p, x in zip(params, call.args):
        out.append((p, x))
    for k in call.keywords:
        if k.arg not in params:
            raise TranslatorError('%s: unknown keyword %r' % (what, k.arg))
        if k.arg in [p for p, _x in out]:
            raise TranslatorError('%s: parameter %r given twice' % (what, k.arg))
        out.append((k.arg, k.value))
    return out


def _get_call(node, src):
    """src.get(K[, D]) -> (key id, default code, default string or None); None if the node is not such a call"""
    if not (isinstance(node, ast.Call) and isinstance(node.func, ast.Attribute) and node.func.attr == 'get'
            and isinstance(node.func.value, ast.Name) and node.func.value.id == src and not node.keywords
            and 1 <= len(node.args) <= 2):
        return None
    k = node.args[0]
    if not (isinstance(k, ast.Constant) and isinstance(k.value, str)):
        raise TranslatorError('%s.get: the key is not a string constant: %s' % (src, _u(node)))
    key = _key(k.value, '%s.get' % src)
    if len(node.args) == 1:
        return key, D_NOKEY, None
    d = node.args[1]
    if isinstance(d, ast.Constant) and d.value is None:
        return key, D_NONE, None
    if isinstance(d, ast.List) and not d.elts:
        return key, D_EMPTY_LIST, None
    if isinstance(d, ast.Constant) and isinstance(d.value, str):
        return key, D_STR, d.value
    if _u(d) == 'int(time.time())':
        return key, D_NOW, None
    raise TranslatorError('%s.get(%r, ...): unrecognised default %s' % (src, k.value, _u(d)))


def _encode_call(node, what):
    """traits.encode(self.trait_codes, <local>, flag=True ...) -> (local name, [use_invalid, add_new])"""
    if not (isinstance(node, ast.Call) and _u(node.func) == 'traits.encode' and len(node.args) == 2
            and _u(node.args[0]) == 'self.trait_codes' and isinstance(node.args[1], ast.Name)):
        raise TranslatorError('%s: expected traits.encode(self.trait_codes, <local>, ...), got %s' % (what, _u(node)))
    flags = {'use_invalid': 0, 'add_new': 0}
    for k in node.keywords:
        if k.arg not in flags or not (isinstance(k.value, ast.Constant) and type(k.value.value) is bool):
            raise TranslatorError('%s: unrecognised traits.encode keyword %s' % (what, _u(k.value)))
        flags[k.arg] = int(k.value.value)
    return node.args[1].id, [flags['use_invalid'], flags['add_new']]


def _stores(fn):
    """how many times each local name is stored in the function"""
    out = {}
    for n in ast.walk(fn):
        if isinstance(n, ast.Name) and isinstance(n.ctx, (ast.Store, ast.Del)):
            out[n.id] = out.get(n.id, 0) + 1
        elif isinstance(n, (ast.Global, ast.Nonlocal, ast.Lambda, ast.FunctionDef, ast.ListComp, ast.DictComp,
                            ast.SetComp, ast.GeneratorExp, ast.NamedExpr, ast.For, ast.While, ast.With, ast.Try)):
            if n is not fn:
                raise TranslatorError('%s: unexpected %s (line %d)' % (fn.name, type(n).__name__,
                                                                       getattr(n, 'lineno', 0)))
    return out


def _env(stmts, what):
    """simple straight-line assignments: {local: ('expr', node) | ('tuple', i, call node)}"""
    env = {}
    rest = []
    for st in stmts:
        if isinstance(st, ast.Assign) and len(st.targets) == 1 and isinstance(st.targets[0], ast.Name):
            if st.targets[0].id in env:
                raise TranslatorError('%s: %s assigned twice' % (what, st.targets[0].id))
            env[st.targets[0].id] = ('expr', st.value)
        elif isinstance(st, ast.Assign) and len(st.targets) == 1 and isinstance(st.targets[0], ast.Tuple) \
                and all(isinstance(e, ast.Name) for e in st.targets[0].elts) and isinstance(st.value, ast.Call):
            for i, e in enumerate(st.targets[0].elts):
                if e.id in env:
                    raise TranslatorError('%s: %s assigned twice' % (what, e.id))
                env[e.id] = ('tuple', i, st.value)
        else:
            rest.append(st)
    return env, rest


def app_init_facts(tree):
    fn = _clean(_find_def(tree, 'Application.__init__', 'scheduler/__init__.py'))
    params, defaults = _sig(fn, APP_ATTRS, 'Application.__init__')
    _stores(fn)
    rows = []
    seen = set()
    for st in fn.body:
        if not (isinstance(st, ast.Assign) and len(st.targets) == 1 and isinstance(st.targets[0], ast.Attribute)
                and isinstance(st.targets[0].value, ast.Name) and st.targets[0].value.id == 'self'):
            raise TranslatorError('Application.__init__: unrecognised statement %s' % _u(st))
        attr = st.targets[0].attr
        if attr not in APP_ATTRS:
            raise TranslatorError('Application.__init__: unknown attribute %r' % attr)
        if attr in seen:
            raise TranslatorError('Application.__init__: %s assigned twice' % attr)
        seen.add(attr)
        v = st.value
        if isinstance(v, ast.Name):
            if v.id not in params:
                raise TranslatorError('Application.__init__: self.%s = %s is not a parameter' % (attr, v.id))
            rows.append([APP_ATTRS[attr], 1, APP_ATTRS[v.id]])
        elif isinstance(v, ast.Constant) and (v.value is None or type(v.value) is bool):
            rows.append([APP_ATTRS[attr], 2, 0 if v.value is None else (2 if v.value else 1)])
        elif isinstance(v, ast.Call) and _u(v.func) == 'np.array' and len(v.args) == 1 \
                and isinstance(v.args[0], ast.Name) and v.args[0].id in params \
                and [(k.arg, _u(k.value)) for k in v.keywords] == [('dtype', 'float')]:
            rows.append([APP_ATTRS[attr], 3, APP_ATTRS[v.args[0].id]])
        elif isinstance(v, ast.Call) and _u(v) == 'Affinity(affinity, affinity_limits)':
            rows.append([APP_ATTRS[attr], 4, 0])
        elif isinstance(v, ast.Call) and _u(v) == '_global_order()':
            rows.append([APP_ATTRS[attr], 5, 0])
        else:
            raise TranslatorError('Application.__init__: unrecognised value self.%s = %s' % (attr, _u(v)))
    return params, rows, defaults


def _resolve(name, envs, src, helpers, what):
    """the flow (how, key, default, extra) of local `name`"""
    for env in envs:
        if name in env:
            b = env[name]
            break
    else:
        raise TranslatorError('%s: %s is not assigned by a recognised statement' % (what, name))
    if b[0] == 'tuple':
        if b[1] != 0:
            raise TranslatorError('%s: %s is not the first result of traits.encode' % (what, name))
        lst, flags = _encode_call(b[2], what)
        g = None
        for env in envs:
            if lst in env and env[lst][0] == 'expr':
                g = _get_call(env[lst][1], src)
        if g is None:
            raise TranslatorError('%s: the trait list %s is not %s.get(...)' % (what, lst, src))
        if g[1] == D_STR:
            raise TranslatorError('%s: string default for a trait list' % what)
        return (F_ENCODE, g[0], g[1], flags)
    v = b[1]
    g = _get_call(v, src)
    if g is not None:
        if g[1] == D_STR:
            raise TranslatorError('%s: %s has a string default outside _get_lease' % (what, name))
        return (F_GET, g[0], g[1], None)
    if isinstance(v, ast.Call) and isinstance(v.func, ast.Name) and len(v.args) == 1 and not v.keywords \
            and isinstance(v.args[0], ast.Name) and v.args[0].id == src:
        if v.func.id == 'resources':
            return (F_RESOURCES, 0, 0, None)
        if v.func.id in helpers:
            return helpers[v.func.id]
    raise TranslatorError('%s: unrecognised value %s = %s' % (what, name, _u(v)))


_PRIO_IF = "if 'priority' in manifest and int(manifest['priority']) != -1:\n    priority = int(manifest['priority'])"


def load_app_facts(ltree, app_params, helpers):
    what = 'Loader.load_app'
    fn = _clean(_find_def(ltree, 'Loader.load_app', 'scheduler/loader.py'))
    if [a.arg for a in fn.args.args] != ['self', 'appname'] or fn.args.vararg or fn.args.kwarg:
        raise TranslatorError('%s: expected (self, appname)' % what)
    stores = _stores(fn)
    body = list(fn.body)
    fixed = ['manifest = self.backend.get_default(z.path.scheduled(appname))',
             'if not manifest:\n    self.remove_app(appname)\n    return',
             'priority, allocation = self.find_assignment(appname)']
    if len(body) < 8 or [_u(s) for s in body[:3]] != fixed:
        raise TranslatorError('%s: the prologue (manifest fetch, falsy manifest, find_assignment) changed' % what)
    # the priority rule
    h, hw = _Holes(), _Holes()
    got = _u(h.visit(copy.deepcopy(body[3])))
    want = _u(hw.visit(_clean(ast.parse(_PRIO_IF)).body[0]))
    if got != want or len(h.values) != 4:
        raise TranslatorError('%s: the priority rule changed: %s' % (what, _u(body[3])))
    k1, k2, unset, k3 = h.values
    if not (k1 == k2 == k3) or type(unset) is not int:
        raise TranslatorError('%s: the priority rule reads different keys %r' % (what, (k1, k2, k3)))
    prio_key = _key(k1, what)
    # locate `app = self.cell.apps.get(appname, None)` and the if/else
    idx = [i for i, s in enumerate(body) if _u(s) == 'app = self.cell.apps.get(appname, None)']
    if len(idx) != 1 or idx[0] + 1 >= len(body) or not isinstance(body[idx[0] + 1], ast.If):
        raise TranslatorError('%s: expected "app = self.cell.apps.get(appname, None)" followed by "if app:"' % what)
    i = idx[0]
    top_env, rest = _env(body[4:i], what)
    if rest:
        raise TranslatorError('%s: unrecognised statement before the branch: %s' % (what, _u(rest[0])))
    branch = body[i + 1]
    if _u(branch.test) != 'app' or not branch.orelse:
        raise TranslatorError('%s: the branch is not "if app: ... else: ..."' % what)
    # else: assignments, then app = scheduler.Application(...)
    els = list(branch.orelse)
    last = els[-1]
    if not (isinstance(last, ast.Assign) and _u(last.targets[0]) == 'app' and len(last.targets) == 1
            and isinstance(last.value, ast.Call) and _u(last.value.func) == 'scheduler.Application'):
        raise TranslatorError('%s: the else branch does not end with app = scheduler.Application(...)' % what)
    else_env, rest = _env(els[:-1], what)
    if rest:
        raise TranslatorError('%s: unrecognised statement in the else branch: %s' % (what, _u(rest[0])))
    for n, c in stores.items():
        allowed = 2 if n in ('priority', 'app') else 1
        if n == '_':
            continue
        if c > allowed:
            raise TranslatorError('%s: local %s is assigned %d times' % (what, n, c))
    flow, arg_local, encode_flags = [], {}, None
    for p, x in _bind_call(last.value, app_params, what):
        if not isinstance(x, ast.Name):
            raise TranslatorError('%s: argument %s of scheduler.Application is not a local: %s' % (what, p, _u(x)))
        arg_local[p] = x.id
        if x.id == 'appname':
            flow.append([APP_ATTRS[p], F_ARG, 0, 0])
        elif x.id == 'priority':
            flow.append([APP_ATTRS[p], F_PRIORITY, prio_key, 0])
        else:
            how, key, d, extra = _resolve(x.id, [else_env, top_env], 'manifest', helpers, what)
            if how == F_ENCODE:
                if encode_flags is not None:
                    raise TranslatorError('%s: two encoded arguments' % what)
                encode_flags = extra
            flow.append([APP_ATTRS[p], how, key, d])
    if encode_flags is None:
        raise TranslatorError('%s: no traits.encode argument' % what)
    # _get_lease / _get_data_retention are evaluated before the branch (both branches evaluate them)
    for hname in helpers:
        if not any(b[0] == 'expr' and isinstance(b[1], ast.Call) and _u(b[1].func) == hname
                   for b in top_env.values()):
            raise TranslatorError('%s: %s(manifest) is no longer evaluated before the branch' % (what, hname))
    # if: app.<attr> = <local>, the local being the constructor argument of that name
    refresh = []
    for st in branch.body:
        if not (isinstance(st, ast.Assign) and len(st.targets) == 1 and isinstance(st.targets[0], ast.Attribute)
                and _u(st.targets[0].value) == 'app' and isinstance(st.value, ast.Name)):
            raise TranslatorError('%s: unrecognised statement in the existing-instance branch: %s' % (what, _u(st)))
        attr = st.targets[0].attr
        if attr not in APP_ATTRS or attr not in arg_local:
            raise TranslatorError('%s: existing-instance branch assigns unknown attribute %r' % (what, attr))
        if arg_local[attr] != st.value.id:
            raise TranslatorError('%s: app.%s is refreshed from %s but constructed from %s'
                                  % (what, attr, st.value.id, arg_local[attr]))
        refresh.append(APP_ATTRS[attr])
    # after the branch
    after = []
    tail = body[i + 2:]
    if not tail or _u(tail[-1]) != 'self.cell.add_app(allocation, app)':
        raise TranslatorError('%s: does not end with self.cell.add_app(allocation, app)' % what)
    for st in tail[:-1]:
        if _u(st) == 'app.blacklisted = self._is_blacklisted(appname)':
            after.append(APP_ATTRS['blacklisted'])
        else:
            raise TranslatorError('%s: unrecognised statement after the branch: %s' % (what, _u(st)))
    return {'flow': flow, 'refresh': refresh, 'after': after, 'encode': encode_flags, 'unset': unset}


def create_server_facts(ltree, srv_params):
    what = 'Loader.create_server'
    fn = _clean(_find_def(ltree, 'Loader.create_server', 'scheduler/loader.py'))
    if [a.arg for a in fn.args.args] != ['self', 'servername', 'data'] or fn.args.vararg or fn.args.kwarg:
        raise TranslatorError('%s: expected (self, servername, data)' % what)
    stores = _stores(fn)
    body = list(fn.body)
    if len(body) < 3 or not (isinstance(body[-1], ast.Return) and _u(body[-1]) == 'return server'):
        raise TranslatorError('%s: does not end with "return server"' % what)
    ctor = body[-2]
    if not (isinstance(ctor, ast.Assign) and _u(ctor.targets[0]) == 'server' and len(ctor.targets) == 1
            and isinstance(ctor.value, ast.Call) and _u(ctor.value.func) == 'scheduler.Server'):
        raise TranslatorError('%s: expected server = scheduler.Server(...) before the return' % what)
    env, rest = _env(body[:-2], what)
    defaulted, stored_back = set(), False
    for st in rest:
        if isinstance(st, ast.If) and not st.orelse and len(st.body) == 1 and isinstance(st.test, ast.UnaryOp) \
                and isinstance(st.test.op, ast.Not) and isinstance(st.test.operand, ast.Name) \
                and _u(st.body[0]) == '%s = _DEFAULT_PARTITION' % st.test.operand.id:
            defaulted.add(st.test.operand.id)
        elif isinstance(st, ast.Assign) and _u(st.targets[0]) == 'self.trait_codes' and len(st.targets) == 1 \
                and isinstance(st.value, ast.Name) and env.get(st.value.id, ('',))[0] == 'tuple' \
                and env[st.value.id][1] == 1:
            stored_back = True
        else:
            raise TranslatorError('%s: unrecognised statement %s' % (what, _u(st)))
    for n, c in stores.items():
        if c > (2 if n in defaulted else 1) and n != '_':
            raise TranslatorError('%s: local %s is assigned %d times' % (what, n, c))
    flow, flags = [], None
    for p, x in _bind_call(ctor.value, srv_params, what):
        if isinstance(x, ast.Name) and x.id == 'servername':
            flow.append([SRV_ATTRS[p], F_ARG, 0, 0])
        elif _u(x) == 'resources(data)':
            flow.append([SRV_ATTRS[p], F_RESOURCES, 0, 0])
        elif isinstance(x, ast.Name):
            how, key, d, extra = _resolve(x.id, [env], 'data', {}, what)
            if how == F_ENCODE:
                flags = extra
            if x.id in defaulted:
                if how != F_GET or p != 'label':
                    raise TranslatorError('%s: the _DEFAULT_PARTITION fallback is applied to %s' % (what, p))
                how = F_LABEL
            flow.append([SRV_ATTRS[p], how, key, d])
        else:
            raise TranslatorError('%s: unrecognised argument %s=%s' % (what, p, _u(x)))
    if 'label' not in [p for p, _x in _bind_call(ctor.value, srv_params, what)]:
        raise TranslatorError('%s: no label argument' % what)
    if flags is None or not stored_back:
        raise TranslatorError('%s: traits.encode / the write-back of self.trait_codes is missing' % what)
    return {'flow': flow, 'encode': flags}


# --------------------------------------------------------------------------- assembling
def facts():
    utree = _module('treadmill/utils.py')
    ltree = _module('treadmill/scheduler/loader.py')
    stree = _module('treadmill/scheduler/__init__.py')
    ttree = _module('treadmill/traits.py')
    f = {}
    # utils.to_seconds + _TIME_SCALE
    _match(utree, 'to_seconds', 'utils.py', _T_TO_SECONDS, {1: 'msg'})
    _assigned_once(utree, '_TIME_SCALE', 'utils.py')
    scale = getattr(_import('treadmill.utils'), '_TIME_SCALE', None)
    if not isinstance(scale, dict) or not scale:
        raise TranslatorError('utils._TIME_SCALE is not a non-empty dict')
    items = []
    for k, v in scale.items():
        if not (isinstance(k, str) and len(k) == 1 and ord(k) < 128 and k == k.upper() and not k.isspace()
                and not k.isdigit()):
            raise TranslatorError('utils._TIME_SCALE: key %r can never match an upper-cased, stripped suffix' % (k,))
        if type(v) is not int or v <= 0:
            raise TranslatorError('utils._TIME_SCALE[%r] = %r is not a positive int' % (k, v))
        items.append((ord(k), v))
    f['time_scale'] = sorted(items)
    # loader helpers
    r = _match(ltree, '_get_data_retention', 'scheduler/loader.py', _T_RETENTION, {0: 'key'})
    helpers = {'_get_data_retention': (F_RETENTION, _key(r['key'], '_get_data_retention'), D_NOKEY, None)}
    r = _match(ltree, '_get_lease', 'scheduler/loader.py', _T_LEASE, {0: 'key', 1: 'default'})
    helpers['_get_lease'] = (F_LEASE, _key(r['key'], '_get_lease'), D_STR, None)
    f['lease_default'] = r['default']
    r = _match(ltree, 'Loader.find_default_assignment', 'scheduler/loader.py', _T_DEFAULT_ASSIGNMENT, {2: 'prio'})
    f['default_prio'] = r['prio']
    _match(ltree, 'Loader.find_assignment', 'scheduler/loader.py', _T_FIND_ASSIGNMENT, {})
    _match(ltree, 'Loader.load_server', 'scheduler/loader.py', _T_LOAD_SERVER, {0: 'k', 1: 'k'})
    f['load_server'] = [1]
    for name in ('_DEFAULT_PARTITION',):
        _assigned_once(ltree, name, 'scheduler/loader.py')
    imp = [n for n in ltree.body if isinstance(n, ast.ImportFrom) and n.module == 'treadmill'
           and any(a.name in ('utils', 'traits', 'scheduler') and a.asname is None for a in n.names)]
    if len(imp) != 3:
        raise TranslatorError('scheduler/loader.py: expected "from treadmill import scheduler / traits / utils"')
    lmod = _import('treadmill.scheduler.loader')
    f['default_partition'] = getattr(lmod, '_DEFAULT_PARTITION', None)
    # traits
    _match(ttree, 'create_code', 'traits.py', _T_CREATE_CODE, {})
    _match(ttree, 'encode', 'traits.py', _T_ENCODE, {})
    _assigned_once(ttree, 'INVALID', 'traits.py')
    f['invalid'] = getattr(_import('treadmill.traits'), 'INVALID', None)
    for what in ('default_partition', 'invalid', 'lease_default'):
        v = f[what]
        if not (isinstance(v, str) and v and all(ord(c) < 128 for c in v)):
            raise TranslatorError('%s: expected a non-empty ASCII str, got %r' % (what, v))
    # scheduler constructors
    _match(stree, 'Affinity.__init__', 'scheduler/__init__.py', _T_AFFINITY, {})
    f['aff_init'] = [1]
    _match(stree, 'TraitSet.__init__', 'scheduler/__init__.py', _T_TRAITSET, {})
    _match(stree, 'Node.__init__', 'scheduler/__init__.py', _T_NODE, {})
    _match(stree, 'Server.__init__', 'scheduler/__init__.py', _T_SERVER, {})
    sfn = _find_def(stree, 'Server.__init__', 'scheduler/__init__.py')
    srv_params, srv_defaults = _sig(sfn, SRV_ATTRS, 'Server.__init__')
    f['srv_defaults'] = srv_defaults
    # the rows the pinned Server.__init__ / Node.__init__ / TraitSet.__init__ stand for
    f['srv_init'] = [[34, 6, 34], [32, 3, 32], [38, 8, 0], [39, 9, 0], [33, 1, 33], [37, 1, 37], [35, 7, 35],
                     [36, 1, 36]]
    app_params, app_init, app_defaults = app_init_facts(stree)
    f['app_init'], f['app_defaults'] = app_init, app_defaults
    la = load_app_facts(ltree, app_params, helpers)
    f['app_flow'], f['app_refresh'], f['app_after'], f['app_encode'] = la['flow'], la['refresh'], la['after'], \
        la['encode']
    f['prio_unset'] = la['unset']
    cs = create_server_facts(ltree, srv_params)
    f['srv_flow'], f['srv_encode'] = cs['flow'], cs['encode']
    if type(f['default_prio']) is not int:
        raise TranslatorError('find_default_assignment: the default priority is %r' % (f['default_prio'],))
    return f


def _zz(items):
    return G.lst(['(%s, %s)' % (G.z(a), G.z(b)) for a, b in items])


def _zll(rows):
    return G.lst([G.zlist(r) for r in rows])


def _codes(s):
    return G.zlist([ord(c) for c in s])


def _emit():
    f = facts()
    return (
        '(* scheduler/loader.py load_app / create_server / load_server / _get_lease / _get_data_retention /\n'
        '   find_default_assignment, scheduler/__init__.py Application / Affinity / Server / Node / TraitSet __init__,\n'
        '   utils.to_seconds + _TIME_SCALE, traits.create_code / encode (AST-extracted dataflow, shapes pinned by\n'
        '   template; ids: see Master/LoadApp.v) *)\n'
        'Definition loadapp_time_scale : list (Z * Z) := %s.\n'
        'Definition loadapp_default_partition : list Z := %s.\n'
        'Definition loadapp_prio_unset : Z := %s.\n'
        'Definition loadapp_default_prio : Z := %s.\n'
        'Definition loadapp_lease_default : list Z := %s.\n'
        'Definition loadapp_invalid : list Z := %s.\n'
        'Definition loadapp_app_flow : list (list Z) := %s.\n'
        'Definition loadapp_app_refresh : list Z := %s.\n'
        'Definition loadapp_app_after : list Z := %s.\n'
        'Definition loadapp_app_encode : list Z := %s.\n'
        'Definition loadapp_app_init : list (list Z) := %s.\n'
        'Definition loadapp_app_defaults : list (list Z) := %s.\n'
        'Definition loadapp_aff_init : list Z := %s.\n'
        'Definition loadapp_srv_flow : list (list Z) := %s.\n'
        'Definition loadapp_srv_encode : list Z := %s.\n'
        'Definition loadapp_srv_init : list (list Z) := %s.\n'
        'Definition loadapp_srv_defaults : list (list Z) := %s.\n'
        'Definition loadapp_load_server : list Z := %s.\n'
        % (_zz(f['time_scale']), _codes(f['default_partition']), G.z(f['prio_unset']), G.z(f['default_prio']),
           _codes(f['lease_default']), _codes(f['invalid']), _zll(f['app_flow']), G.zlist(f['app_refresh']),
           G.zlist(f['app_after']), G.zlist(f['app_encode']), _zll(f['app_init']), _zll(f['app_defaults']),
           G.zlist(f['aff_init']), _zll(f['srv_flow']), G.zlist(f['srv_encode']), _zll(f['srv_init']),
           _zll(f['srv_defaults']), G.zlist(f['load_server'])))


tables.register('loadapp', _emit)
