"""Translator section for C12: constants and call shapes of eventmgr.py / fs.write_safe / appcfgmgr.py
that the cache model (Node/Cache.v) takes as parameters.  Fail-closed AST pattern matching."""
import ast

from . import gallina as G
from . import tables


def _call_name(node):
    """dotted name of a call's function, e.g. 'fs.write_safe', 'os.path.join'"""
    f = node.func
    parts = []
    while isinstance(f, ast.Attribute):
        parts.append(f.attr)
        f = f.value
    if isinstance(f, ast.Name):
        parts.append(f.id)
        return '.'.join(reversed(parts))
    return None


def _calls(node, name):
    return [n for n in ast.walk(node) if isinstance(n, ast.Call) and _call_name(n) == name]


def _one(lst, what):
    if len(lst) != 1:
        raise tables.TranslatorError('%s: expected exactly one, found %d' % (what, len(lst)))
    return lst[0]


def c12_facts():
    em = ast.parse(tables._src('treadmill/eventmgr.py'))
    # READY_FILE = '.ready'
    ready = None
    for st in em.body:
        if isinstance(st, ast.Assign) and len(st.targets) == 1 and isinstance(st.targets[0], ast.Name) \
                and st.targets[0].id == 'READY_FILE':
            ready = tables._const_str(st.value, 'eventmgr.READY_FILE')
    if ready is None:
        raise tables.TranslatorError('eventmgr.READY_FILE not found')
    # _cache: fs.write_safe(manifest_file, ..., prefix='.%s-' % app, ...)
    cache = tables._func(em, '_cache')
    ws = _one(_calls(cache, 'fs.write_safe'), 'fs.write_safe call in EventMgr._cache')
    kw = {k.arg: k.value for k in ws.keywords}
    pf = kw.get('prefix')
    if not (isinstance(pf, ast.BinOp) and isinstance(pf.op, ast.Mod) and isinstance(pf.right, ast.Name)
            and pf.right.id == 'app'):
        raise tables.TranslatorError('EventMgr._cache: prefix= is not "<fmt>" % app')
    fmt = tables._const_str(pf.left, 'write_safe prefix format')
    if fmt.count('%s') != 1 or fmt.count('%') != 1:
        raise tables.TranslatorError('write_safe prefix format %r: expected exactly one %%s' % fmt)
    pre, post = fmt.split('%s')
    for k in ('subdir', 'owner', 'utimes', 'fsync'):
        if k in kw:
            raise tables.TranslatorError('EventMgr._cache: write_safe called with %s= (not modelled)' % k)
    if not (len(ws.args) == 2 and isinstance(ws.args[0], ast.Name) and ws.args[0].id == 'manifest_file'):
        raise tables.TranslatorError('EventMgr._cache: write_safe target is not manifest_file')
    # _synchronize: glob.glob(os.path.join(self.tm_env.cache_dir, '*'))
    sync = tables._func(em, '_synchronize')
    gl = _one(_calls(sync, 'glob.glob'), 'glob.glob call in EventMgr._synchronize')
    if not (len(gl.args) == 1 and isinstance(gl.args[0], ast.Call) and _call_name(gl.args[0]) == 'os.path.join'
            and len(gl.args[0].args) == 2):
        raise tables.TranslatorError('EventMgr._synchronize: glob argument is not os.path.join(dir, pattern)')
    pattern = tables._const_str(gl.args[0].args[1], 'glob pattern of EventMgr._synchronize')
    # appcfgmgr: elif instance_name[0] == '.'  in _on_created and _on_deleted
    am = ast.parse(tables._src('treadmill/appcfgmgr.py'))
    chars = set()
    for fn in ('_on_created', '_on_deleted'):
        found = None
        for n in ast.walk(tables._func(am, fn)):
            if isinstance(n, ast.Compare) and len(n.ops) == 1 and isinstance(n.ops[0], ast.Eq) \
                    and isinstance(n.left, ast.Subscript) and isinstance(n.left.value, ast.Name) \
                    and n.left.value.id == 'instance_name' and isinstance(n.left.slice, ast.Constant) \
                    and n.left.slice.value == 0:
                found = tables._const_str(n.comparators[0], 'dot-file filter of AppCfgMgr.%s' % fn)
        if found is None:
            raise tables.TranslatorError('AppCfgMgr.%s: instance_name[0] == <char> filter not found' % fn)
        chars.add(found)
    ignore = _one(sorted(chars), 'dot-file filter character of AppCfgMgr')
    return {'ready': ready, 'pre': pre, 'post': post, 'glob': pattern, 'ignore': ignore,
            'shape': write_safe_shape()}


_STEP = {'tempfile.NamedTemporaryFile': 1, 'func': 2, 'os.fchmod': 3, 'os.fchown': 4, 'os.fsync': 5,
         'os.utime': 5, 'replace': 6, 'rm_safe': 7}


def write_safe_shape():
    """Order of the state-changing calls of fs.write_safe:
       [1 temp file in the target's directory, delete=False, prefix=prefix; 2 func(tmpfile); 3 fchmod; 4 fchown;
        5 fsync/utime; 6 replace(tmpfile.name, filename) after the with block; 7 finally: rm_safe(tmpfile.name)]"""
    fsm = ast.parse(tables._src('treadmill/fs/__init__.py'))
    fn = tables._func(fsm, 'write_safe')
    trys = [s for s in tables._body(fn) if isinstance(s, ast.Try)]
    tr = None
    for t in trys:
        if t.finalbody:
            tr = t
    if tr is None:
        raise tables.TranslatorError('fs.write_safe: try/finally not found')
    withs = [s for s in tr.body if isinstance(s, ast.With)]
    w = _one(withs, 'fs.write_safe: with block inside try')
    ctx = w.items[0].context_expr
    if not (isinstance(ctx, ast.Call) and _call_name(ctx) == 'tempfile.NamedTemporaryFile'):
        raise tables.TranslatorError('fs.write_safe: with block is not tempfile.NamedTemporaryFile')
    kw = {k.arg: k.value for k in ctx.keywords}
    if not (isinstance(kw.get('delete'), ast.Constant) and kw['delete'].value is False
            and isinstance(kw.get('dir'), ast.Name) and kw['dir'].id == 'dirname'
            and isinstance(kw.get('prefix'), ast.Name) and kw['prefix'].id == 'prefix'):
        raise tables.TranslatorError('fs.write_safe: NamedTemporaryFile(dir=dirname, delete=False, prefix=prefix) expected')
    if not (isinstance(w.items[0].optional_vars, ast.Name) and w.items[0].optional_vars.id == 'tmpfile'):
        raise tables.TranslatorError('fs.write_safe: with ... as tmpfile expected')
    shape = [1]

    def is_tmpname(e):
        return isinstance(e, ast.Attribute) and e.attr == 'name' and isinstance(e.value, ast.Name) \
            and e.value.id == 'tmpfile'
    for st in w.body:
        for c in [n for n in ast.walk(st) if isinstance(n, ast.Call)]:
            nm = _call_name(c)
            if nm in _STEP and nm not in ('replace', 'rm_safe', 'tempfile.NamedTemporaryFile'):
                if _STEP[nm] not in shape:
                    shape.append(_STEP[nm])
            elif nm in ('replace', 'rm_safe', 'os.rename', 'os.replace', 'os.unlink'):
                raise tables.TranslatorError('fs.write_safe: %s inside the with block' % nm)
    after = tr.body[tr.body.index(w) + 1:]
    if not (len(after) == 1 and isinstance(after[0], ast.Expr) and isinstance(after[0].value, ast.Call)
            and _call_name(after[0].value) == 'replace' and len(after[0].value.args) == 2
            and is_tmpname(after[0].value.args[0]) and isinstance(after[0].value.args[1], ast.Name)
            and after[0].value.args[1].id == 'filename'):
        raise tables.TranslatorError('fs.write_safe: replace(tmpfile.name, filename) after the with block expected')
    shape.append(6)
    fin = [c for s in tr.finalbody for c in ast.walk(s) if isinstance(c, ast.Call)]
    fin = [c for c in fin if _call_name(c) == 'rm_safe']
    c = _one(fin, 'fs.write_safe: rm_safe in finally')
    if not (len(c.args) == 1 and is_tmpname(c.args[0])):
        raise tables.TranslatorError('fs.write_safe: finally rm_safe(tmpfile.name) expected')
    shape.append(7)
    # replace() itself must be an atomic rename on python 3
    rp = tables._func(fsm, 'replace')
    if not _calls(rp, 'os.replace'):
        raise tables.TranslatorError('fs.replace: os.replace not used')
    return shape


def _emit():
    f = c12_facts()
    return ('(* eventmgr.py / fs.write_safe / appcfgmgr.py: constants and call shapes used by Node/Cache.v *)\n'
            'Definition c12_ready_file : string := %s.\n'
            'Definition c12_tmp_pre : string := %s.\n'
            'Definition c12_tmp_post : string := %s.\n'
            'Definition c12_glob_pattern : string := %s.\n'
            'Definition c12_appcfg_ignore : string := %s.\n'
            'Definition c12_write_safe_shape : list Z := %s.\n'
            % (G.string(f['ready']), G.string(f['pre']), G.string(f['post']), G.string(f['glob']),
               G.string(f['ignore']), G.zlist(f['shape'])))


tables.register('c12', _emit)
