(** Proofs about Codec/LdapCls.v: the option-indexed list codec and the per-class wrappers of admin/_ldap.py:
    from_entry (_remove_empty (to_entry x)) = normal form of x, for every class, on typed objects. *)
From Coq Require Import ZArith List Bool Lia ZifyBool Permutation Sorted.
From TM Require Import Codec.BaseN Codec.BaseNP Codec.Dec Codec.DecP Codec.Json Codec.JsonP Codec.Ldap Codec.LdapP
  Codec.LdapCls.
Import ListNotations.
Open Scope Z_scope.

(** * 1. Comparisons that are total orders *)
Definition TO {A} (c : A -> A -> comparison) : Prop :=
  (forall a b, c a b = Eq -> a = b) /\ (forall a b, c b a = CompOpp (c a b)) /\
  (forall a b d, c a b = Lt -> c b d = Lt -> c a d = Lt).

Lemma TO_refl {A} (c : A -> A -> comparison) a : TO c -> c a a = Eq.
Proof. intros [_ [Ho _]]. specialize (Ho a a). destruct (c a a); cbn in Ho; congruence. Qed.

Lemma TO_Z : TO Z.compare.
Proof.
  split; [|split].
  - intros a b H. apply Z.compare_eq. exact H.
  - intros a b. apply Z.compare_antisym.
  - intros a b d H1 H2. rewrite Z.compare_lt_iff in *. lia.
Qed.

Lemma TO_bool : TO bool_cmp.
Proof.
  split; [|split].
  - intros [] []; cbn; intros H; try reflexivity; discriminate.
  - intros [] []; reflexivity.
  - intros [] [] []; cbn; intros H1 H2; try reflexivity; discriminate.
Qed.

Lemma TO_list {A} (c : A -> A -> comparison) : TO c -> TO (list_cmp c).
Proof.
  intros Hc. pose proof (TO_refl c) as Hr. destruct Hc as [He [Ho Ht]]. split; [|split].
  - induction a as [|x a IH]; destruct b as [|y b]; cbn [list_cmp]; intros H; try discriminate; [reflexivity|].
    destruct (c x y) eqn:E; try discriminate. apply He in E. subst y. f_equal. apply IH. exact H.
  - induction a as [|x a IH]; destruct b as [|y b]; cbn [list_cmp CompOpp]; try reflexivity.
    rewrite (Ho x y). destruct (c x y); cbn [CompOpp]; [apply IH|reflexivity|reflexivity].
  - induction a as [|x a IH]; destruct b as [|y b]; destruct d as [|z d]; cbn [list_cmp]; intros H1 H2;
      try discriminate; try reflexivity.
    destruct (c x y) eqn:E1; try discriminate; destruct (c y z) eqn:E2; try discriminate.
    + apply He in E1. subst y. rewrite E2. eapply IH; eassumption.
    + apply He in E1. subst y. rewrite E2. reflexivity.
    + apply He in E2. subst z. rewrite E1. reflexivity.
    + rewrite (Ht x y z E1 E2). reflexivity.
Qed.

Definition lex_cmp {A B} (c1 : A -> A -> comparison) (c2 : B -> B -> comparison) (a b : A * B) : comparison :=
  match c1 (fst a) (fst b) with Eq => c2 (snd a) (snd b) | r => r end.

Lemma TO_lex {A B} (c1 : A -> A -> comparison) (c2 : B -> B -> comparison) : TO c1 -> TO c2 -> TO (lex_cmp c1 c2).
Proof.
  intros [He1 [Ho1 Ht1]] [He2 [Ho2 Ht2]]. unfold lex_cmp. split; [|split].
  - intros [a1 a2] [b1 b2]; cbn [fst snd]. destruct (c1 a1 b1) eqn:E; try discriminate.
    intros H. apply He1 in E. apply He2 in H. congruence.
  - intros [a1 a2] [b1 b2]; cbn [fst snd]. rewrite (Ho1 a1 b1). destruct (c1 a1 b1); cbn [CompOpp]; [apply Ho2|reflexivity|reflexivity].
  - intros [a1 a2] [b1 b2] [d1 d2]; cbn [fst snd].
    destruct (c1 a1 b1) eqn:E1; try discriminate; destruct (c1 b1 d1) eqn:E2; try discriminate; intros H1 H2.
    + apply He1 in E1. subst b1. rewrite E2. eapply Ht2; eassumption.
    + apply He1 in E1. subst b1. rewrite E2. reflexivity.
    + apply He1 in E2. subst d1. rewrite E1. reflexivity.
    + rewrite (Ht1 _ _ _ E1 E2). reflexivity.
Qed.

Lemma TO_str : TO str_cmp.
Proof. apply TO_list. exact TO_Z. Qed.

(** str_ltb (Codec/Json.v) is the strict part of str_cmp *)
Lemma str_ltb_cmp a b : str_ltb a b = true <-> str_cmp a b = Lt.
Proof.
  unfold str_cmp. revert b. induction a as [|x a IH]; destruct b as [|y b]; cbn [str_ltb list_cmp];
    try (split; congruence).
  destruct (Z.compare_spec x y) as [E|E|E].
  - subst y. rewrite Z.ltb_irrefl, Z.eqb_refl. cbn [orb andb]. apply IH.
  - assert (x <? y = true) by lia. rewrite H. cbn [orb]. split; reflexivity.
  - assert (x <? y = false) by lia. assert (x =? y = false) by lia. rewrite H, H0. cbn. split; congruence.
Qed.

Lemma str_ltb_irrefl a : str_ltb a a = false.
Proof.
  destruct (str_ltb a a) eqn:E; [|reflexivity]. apply str_ltb_cmp in E. rewrite (TO_refl str_cmp a TO_str) in E.
  discriminate.
Qed.

Lemma str_ltb_trans a b c : str_ltb a b = true -> str_ltb b c = true -> str_ltb a c = true.
Proof.
  rewrite !str_ltb_cmp. destruct TO_str as [_ [_ Ht]]. apply Ht.
Qed.

Lemma str_ltb_tri a b : str_ltb a b = false -> a <> b -> str_ltb b a = true.
Proof.
  intros H Hne. apply str_ltb_cmp. destruct TO_str as [He [Ho _]]. rewrite (Ho a b).
  destruct (str_cmp a b) eqn:E; cbn [CompOpp].
  - apply He in E. contradiction.
  - apply str_ltb_cmp in E. congruence.
  - reflexivity.
Qed.

(** * 2. Insertion sort: a permutation; canonical when the order is total on the elements *)
Lemma ins_by_perm {A} (lt : A -> A -> bool) x l : Permutation (ins_by lt x l) (x :: l).
Proof.
  induction l as [|y r IH]; cbn [ins_by]; [apply Permutation_refl|].
  destruct (lt y x); [|apply Permutation_refl].
  eapply Permutation_trans; [apply perm_skip; exact IH|apply perm_swap].
Qed.

Lemma sort_by_perm {A} (lt : A -> A -> bool) l : Permutation (sort_by lt l) l.
Proof.
  induction l as [|x r IH]; cbn [sort_by]; [apply Permutation_refl|].
  eapply Permutation_trans; [apply ins_by_perm|apply perm_skip; exact IH].
Qed.

Section SortCanon.
  Context {A : Type} (lt : A -> A -> bool) (P : A -> Prop).
  Hypothesis Hasym : forall a b, lt a b = true -> lt b a = false.
  Hypothesis Htrans : forall a b c, lt a b = true -> lt b c = true -> lt a c = true.
  (** trichotomy on the elements that satisfy P *)
  Hypothesis Htri : forall a b, P a -> P b -> lt a b = false -> lt b a = false -> a = b.

  Let le (a b : A) : Prop := lt b a = false.

  Lemma le_refl_ a : le a a.
  Proof. unfold le. destruct (lt a a) eqn:E; [|reflexivity]. rewrite (Hasym a a E) in E. discriminate. Qed.

  Lemma le_trans_ a b c : P a -> P b -> P c -> le a b -> le b c -> le a c.
  Proof.
    unfold le. intros Pa Pb Pc H1 H2. destruct (lt c a) eqn:E; [|reflexivity]. exfalso.
    destruct (lt a b) eqn:E2.
    - rewrite (Htrans c a b E E2) in H2. discriminate.
    - assert (a = b) by (apply Htri; assumption). subst b. congruence.
  Qed.

  Lemma ins_sorted x l : P x -> Forall P l -> StronglySorted le l -> StronglySorted le (ins_by lt x l).
  Proof.
    intros Px. induction l as [|y r IH]; intros HP Hs; cbn [ins_by].
    - constructor; [constructor|constructor].
    - inversion Hs as [|y' r' Hr Hy]; subst. inversion HP as [|y' r' Py Pr]; subst.
      destruct (lt y x) eqn:E.
      + constructor; [apply IH; assumption|].
        rewrite Forall_forall. intros z Hz.
        apply (Permutation_in _ (ins_by_perm lt x r)) in Hz. destruct Hz as [<-|Hz].
        * unfold le. apply Hasym. exact E.
        * rewrite Forall_forall in Hy. apply Hy. exact Hz.
      + constructor; [exact Hs|]. constructor; [exact E|].
        rewrite Forall_forall in *. intros z Hz.
        apply (le_trans_ x y z); [exact Px|exact Py|apply Pr; exact Hz|exact E|apply Hy; exact Hz].
  Qed.

  Lemma sort_sorted l : Forall P l -> StronglySorted le (sort_by lt l).
  Proof.
    induction l as [|x r IH]; intros HP; cbn [sort_by]; [constructor|].
    inversion HP as [|x' r' Px Pr]; subst.
    apply ins_sorted; [exact Px| |apply IH; exact Pr].
    rewrite Forall_forall in *. intros z Hz. apply Pr. eapply Permutation_in; [apply sort_by_perm|exact Hz].
  Qed.

  Lemma sorted_perm_eq l1 : forall l2, Forall P l1 -> StronglySorted le l1 -> StronglySorted le l2 ->
    Permutation l1 l2 -> l1 = l2.
  Proof.
    induction l1 as [|x t1 IH]; intros l2 HP H1 H2 Hp.
    - apply Permutation_nil in Hp. subst. reflexivity.
    - destruct l2 as [|y t2]; [apply Permutation_sym, Permutation_nil in Hp; discriminate|].
      inversion H1 as [|x' t1' Hs1 Hx]; subst. inversion H2 as [|y' t2' Hs2 Hy]; subst.
      inversion HP as [|x' t1' Px Pt]; subst.
      assert (HP2 : Forall P (y :: t2)).
      { rewrite Forall_forall in *. intros z Hz. apply HP. eapply Permutation_in; [apply Permutation_sym; exact Hp|exact Hz]. }
      inversion HP2 as [|y' t2' Py Pt2]; subst.
      assert (Hxy : le x y).
      { assert (Hin : In y (x :: t1)) by (eapply Permutation_in; [apply Permutation_sym; exact Hp|left; reflexivity]).
        destruct Hin as [<-|Hin]; [apply le_refl_|]. rewrite Forall_forall in Hx. apply Hx. exact Hin. }
      assert (Hyx : le y x).
      { assert (Hin : In x (y :: t2)) by (eapply Permutation_in; [exact Hp|left; reflexivity]).
        destruct Hin as [<-|Hin]; [apply le_refl_|]. rewrite Forall_forall in Hy. apply Hy. exact Hin. }
      assert (x = y) by (apply Htri; assumption). subst y.
      f_equal. apply IH; [exact Pt|exact Hs1|exact Hs2|]. eapply Permutation_cons_inv. exact Hp.
  Qed.

  Theorem sort_by_canon l1 l2 : Forall P l1 -> Permutation l1 l2 -> sort_by lt l1 = sort_by lt l2.
  Proof.
    intros HP Hp.
    assert (HP2 : Forall P l2).
    { rewrite Forall_forall in *. intros z Hz. apply HP. eapply Permutation_in; [apply Permutation_sym; exact Hp|exact Hz]. }
    apply sorted_perm_eq.
    - rewrite Forall_forall in *. intros z Hz. apply HP. eapply Permutation_in; [apply sort_by_perm|exact Hz].
    - apply sort_sorted. exact HP.
    - apply sort_sorted. exact HP2.
    - eapply Permutation_trans; [apply sort_by_perm|].
      eapply Permutation_trans; [exact Hp|apply Permutation_sym, sort_by_perm].
  Qed.

  (** a sorted list is a fixed point *)
  Lemma sort_by_sorted_id l : Forall P l -> StronglySorted le l -> sort_by lt l = l.
  Proof.
    intros HP Hs. apply sorted_perm_eq.
    - rewrite Forall_forall in *. intros z Hz. apply HP. eapply Permutation_in; [apply sort_by_perm|exact Hz].
    - apply sort_sorted. exact HP.
    - exact Hs.
    - apply sort_by_perm.
  Qed.

  Theorem sort_by_idem l : Forall P l -> sort_by lt (sort_by lt l) = sort_by lt l.
  Proof.
    intros HP. apply sort_by_sorted_id; [|apply sort_sorted; exact HP].
    rewrite Forall_forall in *. intros z Hz. apply HP. eapply Permutation_in; [apply sort_by_perm|exact Hz].
  Qed.
End SortCanon.

(** * 3. Dicts: lookups through aset / dict.update / _remove_empty *)
Lemma alookup_none_iff {A} (d : list (str * A)) k : alookup d k = None <-> ~ In k (map fst d).
Proof.
  split; [|apply alookup_none_notin].
  induction d as [|[k0 v0] t IH]; cbn [alookup map fst]; intros H Hin; [exact Hin|].
  destruct (str_eqb k0 k) eqn:E; [discriminate|]. destruct Hin as [->|Hin]; [rewrite str_eqb_refl in E; discriminate|].
  exact (IH H Hin).
Qed.

Lemma alookup_some_in {A} (d : list (str * A)) k v : alookup d k = Some v -> In (k, v) d.
Proof.
  induction d as [|[k0 v0] t IH]; cbn [alookup]; intros H; [discriminate|].
  destruct (str_eqb k0 k) eqn:E; [apply str_eqb_eq in E; inversion H; subst; left; reflexivity|right; apply IH; exact H].
Qed.

Lemma in_alookup {A} (d : list (str * A)) k v : NoDup (map fst d) -> In (k, v) d -> alookup d k = Some v.
Proof.
  induction d as [|[k0 v0] t IH]; cbn [alookup map fst]; intros Hnd Hin; [contradiction|].
  inversion Hnd as [|x l Hx Ht]; subst. destruct Hin as [Heq|Hin].
  - inversion Heq; subst. rewrite str_eqb_refl. reflexivity.
  - rewrite str_eqb_neq; [apply IH; assumption|]. intros ->. apply Hx. apply in_map_iff. exists (k, v). split; [reflexivity|exact Hin].
Qed.

Lemma alookup_perm {A} (d d' : list (str * A)) k : NoDup (map fst d) -> Permutation d d' -> alookup d k = alookup d' k.
Proof.
  intros Hnd Hp.
  assert (Hnd' : NoDup (map fst d')) by (eapply Permutation_NoDup; [apply Permutation_map; exact Hp|exact Hnd]).
  destruct (alookup d k) as [v|] eqn:E.
  - symmetry. apply in_alookup; [exact Hnd'|]. eapply Permutation_in; [exact Hp|]. apply alookup_some_in. exact E.
  - symmetry. apply alookup_none_iff. apply alookup_none_iff in E. intros Hin. apply E.
    eapply Permutation_in; [apply Permutation_map, Permutation_sym; exact Hp|exact Hin].
Qed.

Lemma alookup_app_l {A} (l1 l2 : list (str * A)) k :
  alookup (l1 ++ l2) k = match alookup l1 k with Some v => Some v | None => alookup l2 k end.
Proof. induction l1 as [|[k0 v0] t IH]; cbn [app alookup]; [reflexivity|]. destruct (str_eqb k0 k); [reflexivity|exact IH]. Qed.

Lemma eupdate_cons {A} (e : list (str * A)) kv d : eupdate e (kv :: d) = eupdate (aset e (fst kv) (snd kv)) d.
Proof. reflexivity. Qed.

Lemma eupdate_nodup {A} (d e : list (str * A)) : NoDup (map fst e) -> NoDup (map fst (eupdate e d)).
Proof.
  revert e. induction d as [|[k v] d IH]; intros e H; [exact H|]. rewrite eupdate_cons. apply IH. apply aset_nodup. exact H.
Qed.

Lemma alookup_eupdate {A} (d e : list (str * A)) k : NoDup (map fst d) ->
  alookup (eupdate e d) k = match alookup d k with Some v => Some v | None => alookup e k end.
Proof.
  revert e. induction d as [|[k0 v0] d IH]; intros e Hnd; [reflexivity|].
  inversion Hnd as [|x l Hx Hd]; subst. rewrite eupdate_cons, (IH _ Hd). cbn [fst snd alookup].
  rewrite alookup_aset. destruct (str_eqb k0 k) eqn:E.
  - apply str_eqb_eq in E. subst k0. rewrite (alookup_none_notin d k Hx). reflexivity.
  - reflexivity.
Qed.

Lemma eupdate_keys {A} (d e : list (str * A)) k :
  In k (map fst (eupdate e d)) -> In k (map fst e) \/ In k (map fst d).
Proof.
  revert e. induction d as [|[k0 v0] d IH]; intros e H; [left; exact H|].
  rewrite eupdate_cons in H. apply IH in H as [H|H]; [|right; right; exact H].
  cbn [fst snd] in H. rewrite aset_keys in H. destruct (existsb (str_eqb k0) (map fst e)); [left; exact H|].
  apply in_app_or in H as [H|[H|[]]]; [left; exact H|right; left; exact H].
Qed.

Lemma eupdate_nil_l {A} (d : list (str * A)) : NoDup (map fst d) -> eupdate [] d = d.
Proof.
  intros Hnd. assert (H : forall e, (forall k, In k (map fst d) -> ~ In k (map fst e)) -> eupdate e d = e ++ d).
  { induction d as [|[k v] d IH]; intros e Hdis; [cbn; rewrite app_nil_r; reflexivity|].
    inversion Hnd as [|x l Hx Hd]; subst. rewrite eupdate_cons. cbn [fst snd].
    rewrite aset_fresh by (apply Hdis; left; reflexivity).
    rewrite (IH Hd).
    - rewrite <- app_assoc. reflexivity.
    - intros k' Hin Hin'. rewrite map_app in Hin'. apply in_app_or in Hin' as [Hin'|[<-|[]]].
      + apply (Hdis k'); [right; exact Hin|exact Hin'].
      + exact (Hx Hin). }
  apply (H []). intros k _ [].
Qed.

Lemma remove_empty_keys (e : entry) k : In k (map fst (remove_empty e)) -> In k (map fst e).
Proof.
  unfold remove_empty. intros H. apply in_map_iff in H as [kv [<- Hin]]. apply filter_In in Hin as [Hin _].
  apply in_map. exact Hin.
Qed.

Lemma remove_empty_nodup (e : entry) : NoDup (map fst e) -> NoDup (map fst (remove_empty e)).
Proof.
  unfold remove_empty. induction e as [|[k v] e IH]; cbn [filter map fst snd]; intros H; [constructor|].
  inversion H as [|x l Hx He]; subst. destruct v; [apply IH; exact He|].
  cbn [map fst]. constructor; [|apply IH; exact He]. intros Hin. apply Hx. apply (remove_empty_keys e k). exact Hin.
Qed.

(** * 4. _dict_2_entry (d2e): what it assigns *)
Definition row_assigned2 (o : obj) (f : str) (t : ftype) : option (list eval) :=
  match alookup o f with
  | Some v => match enc_field2 t v with Some (Some vs) => Some vs | _ => None end
  | None => None
  end.

Definition attrs (sch : schema) : list str := map fst (active sch).

Lemma d2e_loop_spec sch o : NoDup (attrs sch) -> forall acc D, d2e_loop sch o acc = Some D -> NoDup (map fst acc) ->
  NoDup (map fst D) /\
  (forall a f t, In (a, (f, t)) (active sch) ->
     alookup D a = match row_assigned2 o f t with Some vs => Some vs | None => alookup acc a end) /\
  (forall a, ~ In a (attrs sch) -> alookup D a = alookup acc a).
Proof.
  unfold attrs.
  induction sch as [|[a0 [[f0|] t0]] r IH]; cbn [d2e_loop active flat_map app map fst]; intros Hnd acc D HD Hacc.
  - inversion HD; subst. split; [exact Hacc|]. split; [intros a f t []|reflexivity].
  - inversion Hnd as [|x l Hx Hr]; subst.
    assert (Hcase : exists acc', d2e_loop r o acc' = Some D /\ NoDup (map fst acc') /\
                      (forall a, alookup acc' a = if str_eqb a0 a then match row_assigned2 o f0 t0 with
                                                                       | Some vs => Some vs | None => alookup acc a end
                                                  else alookup acc a)).
    { unfold row_assigned2. destruct (alookup o f0) as [v|] eqn:Ev.
      - destruct (enc_field2 t0 v) as [[vs|]|] eqn:Een; [| |discriminate].
        + exists (aset acc a0 vs). split; [exact HD|]. split; [apply aset_nodup; exact Hacc|].
          intros a. rewrite alookup_aset. reflexivity.
        + exists acc. split; [exact HD|]. split; [exact Hacc|]. intros a. destruct (str_eqb a0 a); reflexivity.
      - exists acc. split; [exact HD|]. split; [exact Hacc|]. intros a. destruct (str_eqb a0 a); reflexivity. }
    destruct Hcase as [acc' [HD' [Hacc' Hl']]].
    destruct (IH Hr acc' D HD' Hacc') as [HndD [Hrow Hoth]]. split; [exact HndD|]. split.
    + intros a f t [Heq|Hin].
      * inversion Heq; subst. rewrite (Hoth a Hx), Hl', str_eqb_refl. reflexivity.
      * rewrite (Hrow a f t Hin), Hl'. rewrite str_eqb_neq; [reflexivity|].
        intros ->. apply Hx. apply in_map_iff. exists (a, (f, t)). split; [reflexivity|exact Hin].
    + intros a Hn. rewrite Hoth by (intros Hin; apply Hn; right; exact Hin). rewrite Hl'.
      rewrite str_eqb_neq; [reflexivity|]. intros ->. apply Hn. left. reflexivity.
  - apply IH; assumption.
Qed.

Lemma d2e_spec sch o D : NoDup (attrs sch) -> d2e sch o = Some D ->
  NoDup (map fst D) /\
  (forall a f t, In (a, (f, t)) (active sch) -> alookup D a = row_assigned2 o f t) /\
  (forall a, ~ In a (attrs sch) -> alookup D a = None).
Proof.
  intros Hnd HD. destruct (d2e_loop_spec sch o Hnd [] D HD (NoDup_nil _)) as [H1 [H2 H3]].
  split; [exact H1|]. split; [|exact H3].
  intros a f t Hin. rewrite (H2 a f t Hin). destruct (row_assigned2 o f t); reflexivity.
Qed.

Lemma d2e_keys sch o D k : NoDup (attrs sch) -> d2e sch o = Some D -> In k (map fst D) -> In k (attrs sch).
Proof.
  intros Hnd HD Hin. destruct (d2e_spec sch o D Hnd HD) as [_ [_ H3]].
  destruct (in_dec str_eq_dec k (attrs sch)) as [H|H]; [exact H|].
  exfalso. apply (proj1 (alookup_none_iff D k) (H3 k H)). exact Hin.
Qed.

(** one field through encode, _remove_empty, decode *)
Lemma field_roundtrip2 t v : ftyped2 t v = true ->
  exists r, enc_field2 t v = Some r /\
  match stored r with
  | None => expected_field t (Some v) = (if is_list_type t then Some (FStrs []) else None)
  | Some vs => exists w, dec_field t vs = Ok w /\ expected_field t (Some v) = Some w /\ w <> FNone
  end.
Proof.
  intros H.
  assert (Hc : (t = TListInt /\ v = FStrs []) \/ (enc_field2 t v = enc_field t v /\ field_typed t v = true)).
  { destruct t; try (right; split; [reflexivity|exact H]).
    destruct v as [| | | |[|x l]| |]; try (right; split; [reflexivity|exact H]). left. split; reflexivity. }
  destruct Hc as [[-> ->]|[He Hf]].
  - exists None. split; reflexivity.
  - rewrite He. apply field_roundtrip. exact Hf.
Qed.

Lemma obj_typed2_row sch o a f t v :
  obj_typed2 sch o = true -> In (a, (f, t)) (active sch) -> alookup o f = Some v -> ftyped2 t v = true.
Proof.
  induction sch as [|[a0 [[f0|] t0]] r IH]; cbn [active flat_map app]; intros Ht Hin Hv.
  - contradiction.
  - cbn [obj_typed2 forallb] in Ht. apply andb_true_iff in Ht as [Hrow Hr]. fold (obj_typed2 r o) in Hr.
    destruct Hin as [Heq|Hin]; [|apply IH; assumption].
    inversion Heq; subst. rewrite Hv in Hrow. exact Hrow.
  - cbn [obj_typed2 forallb] in Ht. fold (obj_typed2 r o) in Ht. apply IH; assumption.
Qed.

Lemma d2e_total sch o : obj_typed2 sch o = true -> forall acc, exists D, d2e_loop sch o acc = Some D.
Proof.
  induction sch as [|[a0 [[f0|] t]] r IH]; intros Ht acc; cbn [d2e_loop].
  - exists acc. reflexivity.
  - cbn [obj_typed2 forallb] in Ht. apply andb_true_iff in Ht as [Hrow Hr]. fold (obj_typed2 r o) in Hr.
    destruct (alookup o f0) as [v|] eqn:Ev; [|apply IH; exact Hr].
    destruct (field_roundtrip2 t v Hrow) as [rr [Hen _]]. rewrite Hen.
    destruct rr as [vs|]; apply IH; exact Hr.
  - cbn [obj_typed2 forallb] in Ht. fold (obj_typed2 r o) in Ht. apply IH. exact Ht.
Qed.

(** * 5. _entry_2_dict, syntactically: the rows in schema order, None values dropped *)
Definition dec_row (e : entry) (r : str * (str * ftype)) : option (str * fval) :=
  match row_decoded e (fst r) (snd (snd r)) with Some v => Some (fst (snd r), v) | None => None end.

Lemma active_some a f t (r : schema) : active ((a, (Some f, t)) :: r) = (a, (f, t)) :: active r.
Proof. reflexivity. Qed.
Lemma active_none a t (r : schema) : active ((a, (None, t)) :: r) = active r.
Proof. reflexivity. Qed.

Lemma e2d_loop_syn sch e : NoDup (fields sch) -> forall l acc, all_some (map (dec_row e) (active sch)) = Some l ->
  (forall f, In f (fields sch) -> ~ In f (map fst acc)) ->
  entry_2_dict_loop sch e acc = Ok (acc ++ l).
Proof.
  unfold fields.
  induction sch as [|[a0 [[f0|] t0]] r IH]; intros Hnd l acc Hl Hdis.
  - cbn in Hl. inversion Hl; subst. cbn [entry_2_dict_loop]. rewrite app_nil_r. reflexivity.
  - rewrite active_some in Hnd, Hl, Hdis. cbn [map fst snd] in Hnd, Hdis. cbn [map all_some] in Hl.
    cbn [entry_2_dict_loop].
    inversion Hnd as [|x l0 Hx Hr]; subst.
    unfold dec_row at 1 in Hl. cbn [fst snd] in Hl. unfold row_decoded in Hl.
    assert (Hf0 : ~ In f0 (map fst acc)) by (apply Hdis; left; reflexivity).
    assert (Hstep : forall v l', all_some (map (dec_row e) (active r)) = Some l' ->
               entry_2_dict_loop r e (aset acc f0 v) = Ok (acc ++ (f0, v) :: l')).
    { intros v l' Hl'. rewrite (aset_fresh acc f0 v Hf0). rewrite (IH Hr l' (acc ++ [(f0, v)]) Hl').
      - rewrite <- app_assoc. reflexivity.
      - intros f Hin Hin'. rewrite map_app in Hin'. apply in_app_or in Hin' as [Hin'|[<-|[]]].
        + apply (Hdis f); [right; exact Hin|exact Hin'].
        + exact (Hx Hin). }
    destruct (alookup e a0) as [vs|] eqn:El.
    + destruct (dec_field t0 vs) as [v|c] eqn:Ed; cbn beta iota in Hl; [|discriminate].
      destruct (all_some (map (dec_row e) (active r))) as [l'|] eqn:El'; [|discriminate].
      inversion Hl; subst. apply Hstep. reflexivity.
    + cbn beta iota in Hl.
      destruct (all_some (map (dec_row e) (active r))) as [l'|] eqn:El'; [|discriminate].
      inversion Hl; subst. apply Hstep. reflexivity.
  - rewrite active_none in Hnd, Hl, Hdis. cbn [entry_2_dict_loop]. apply IH; assumption.
Qed.

Definition not_none (kv : str * fval) : bool := match snd kv with FNone => false | _ => true end.

Lemma e2d_syn sch e l : NoDup (fields sch) -> all_some (map (dec_row e) (active sch)) = Some l ->
  entry_2_dict sch e = Ok (filter not_none l).
Proof.
  intros Hnd Hl. unfold entry_2_dict. rewrite (e2d_loop_syn sch e Hnd l [] Hl) by (intros f _ []). reflexivity.
Qed.

(** the round trip of one schema, given what the (stored) entry holds at the schema's attributes *)
Lemma rows_rt (e : entry) (o : obj) (L : list (str * (str * ftype))) :
  (forall a f t, In (a, (f, t)) L ->
     alookup e a = stored (row_assigned2 o f t) /\ match alookup o f with Some v => ftyped2 t v = true | None => True end) ->
  exists l, all_some (map (dec_row e) L) = Some l /\
    filter not_none l = flat_map (fun r => match expected_field (snd (snd r)) (alookup o (fst (snd r))) with
                                           | Some v => [(fst (snd r), v)] | None => [] end) L.
Proof.
  induction L as [|[a [f t]] L IH]; intros H.
  - exists []. split; reflexivity.
  - destruct IH as [l [Hl Hf]]; [intros a' f' t' Hin; apply H; right; exact Hin|].
    destruct (H a f t (or_introl eq_refl)) as [Hlk Hty].
    assert (Hrow : exists w, row_decoded e a t = Some w /\
                     (if not_none (f, w) then [(f, w)] else [])
                     = match expected_field t (alookup o f) with Some v => [(f, v)] | None => [] end).
    { unfold row_decoded. rewrite Hlk. unfold row_assigned2. destruct (alookup o f) as [v|] eqn:Ev.
      - destruct (field_roundtrip2 t v Hty) as [rr [Hen Hrr]]. rewrite Hen.
        assert (Est : stored (match rr with Some vs => Some vs | None => None end) = stored rr) by (destruct rr; reflexivity).
        rewrite Est. destruct (stored rr) as [vs|].
        + destruct Hrr as [w [Hw [Hexp Hnn]]]. rewrite Hw. exists w. split; [reflexivity|]. rewrite Hexp.
          unfold not_none. cbn [snd]. destruct w; try reflexivity. congruence.
        + rewrite Hrr. destruct (is_list_type t); eexists; (split; [reflexivity|]); reflexivity.
      - cbn [stored expected_field]. destruct (is_list_type t); eexists; (split; [reflexivity|]); reflexivity. }
    destruct Hrow as [w [Hw Hfw]].
    exists ((f, w) :: l). split.
    + cbn [map all_some]. unfold dec_row at 1. cbn [fst snd]. rewrite Hw, Hl. reflexivity.
    + cbn [filter flat_map fst snd]. rewrite <- Hfw, <- Hf. destruct (not_none (f, w)); reflexivity.
Qed.

Theorem base_rt sch (e : entry) (o : obj) : NoDup (fields sch) -> obj_typed2 sch o = true ->
  (forall a f t, In (a, (f, t)) (active sch) -> alookup e a = stored (row_assigned2 o f t)) ->
  entry_2_dict sch e = Ok (nf_base sch o).
Proof.
  intros Hnd Hty Hlk.
  destruct (rows_rt e o (active sch)) as [l [Hl Hf]].
  { intros a f t Hin. split; [apply Hlk; exact Hin|].
    destruct (alookup o f) as [v|] eqn:Ev; [|exact I]. eapply obj_typed2_row; eassumption. }
  rewrite (e2d_syn sch e l Hnd Hl). unfold nf_base. rewrite Hf. reflexivity.
Qed.

(** lookups in a normal form *)
Lemma alookup_nf_base sch o a f t : NoDup (fields sch) -> In (a, (f, t)) (active sch) ->
  alookup (nf_base sch o) f = expected_field t (alookup o f).
Proof.
  unfold nf_base, fields. induction (active sch) as [|[a0 [f0 t0]] L IH]; cbn [flat_map map fst snd]; intros Hnd Hin.
  - contradiction.
  - inversion Hnd as [|x l Hx HL]; subst. rewrite alookup_app_l. destruct Hin as [Heq|Hin].
    + inversion Heq; subst. destruct (expected_field t (alookup o f)) as [v|]; cbn [alookup].
      * rewrite str_eqb_refl. reflexivity.
      * apply alookup_none_notin. intros Hin. apply Hx. apply in_map_iff in Hin as [[k v] [<- Hin]].
        apply in_flat_map in Hin as [[a1 [f1 t1]] [Hin1 Hin2]]. cbn [fst snd] in Hin2.
        destruct (expected_field t1 (alookup o f1)); [|contradiction]. destruct Hin2 as [Heq2|[]]. inversion Heq2; subst.
        apply in_map_iff. exists (a1, (k, t1)). split; [reflexivity|exact Hin1].
    + assert (Hne : f0 <> f).
      { intros ->. apply Hx. apply in_map_iff. exists (a, (f, t)). split; [reflexivity|exact Hin]. }
      destruct (expected_field t0 (alookup o f0)) as [v|]; cbn [alookup].
      * rewrite (str_eqb_neq f0 f Hne). apply IH; assumption.
      * apply IH; assumption.
Qed.

Lemma nf_base_keys sch o k : In k (map fst (nf_base sch o)) -> In k (fields sch).
Proof.
  unfold nf_base, fields. intros Hin. apply in_map_iff in Hin as [[k' v] [<- Hin]].
  apply in_flat_map in Hin as [[a1 [f1 t1]] [Hin1 Hin2]]. cbn [fst snd] in Hin2.
  destruct (expected_field t1 (alookup o f1)); [|contradiction]. destruct Hin2 as [Heq2|[]]. inversion Heq2; subst.
  apply in_map_iff. exists (a1, (k', t1)). split; [reflexivity|exact Hin1].
Qed.

Lemma nf_base_nodup sch o : NoDup (fields sch) -> NoDup (map fst (nf_base sch o)).
Proof.
  unfold nf_base, fields. induction (active sch) as [|[a0 [f0 t0]] L IH]; cbn [flat_map map fst snd]; intros Hnd.
  - constructor.
  - inversion Hnd as [|x l Hx HL]; subst. rewrite map_app.
    destruct (expected_field t0 (alookup o f0)) as [v|]; cbn [map fst app]; [|apply IH; exact HL].
    constructor; [|apply IH; exact HL]. intros Hin. apply Hx.
    apply in_map_iff in Hin as [[k' v'] [Hk Hin]]. cbn [fst] in Hk. subst k'.
    apply in_flat_map in Hin as [[a1 [f1 t1]] [Hin1 Hin2]]. cbn [fst snd] in Hin2.
    destruct (expected_field t1 (alookup o f1)); [|contradiction]. destruct Hin2 as [Heq2|[]]. inversion Heq2; subst.
    apply in_map_iff. exists (a1, (f0, t1)). split; [reflexivity|exact Hin1].
Qed.

(** * 6. Schemas *)
Lemma wf_schema_spec sch : wf_schema sch = true ->
  NoDup (attrs sch) /\ NoDup (fields sch) /\ (forall a, In a (attrs sch) -> ~ In 59 a /\ lower a = a).
Proof.
  unfold wf_schema, attrs, fields. intros H. apply andb_true_iff in H as [H H3]. apply andb_true_iff in H as [H1 H2].
  apply keys_nodup_NoDup in H1, H2. split; [exact H1|]. split; [exact H2|].
  intros a Hin. apply in_map_iff in Hin as [r [<- Hin]]. rewrite forallb_forall in H3. specialize (H3 r Hin).
  apply andb_true_iff in H3 as [Hs Hl]. split.
  - unfold no_semicolon in Hs. intros Hin'. apply memb_In in Hin'. rewrite Hin' in Hs. discriminate.
  - apply str_eqb_eq. exact Hl.
Qed.

Lemma ts_ok_spec a : ts_ok a = true -> ~ In 59 a /\ lower a <> a.
Proof.
  unfold ts_ok, no_semicolon. intros H. apply andb_true_iff in H as [H1 H2]. split.
  - intros Hin. apply memb_In in Hin. rewrite Hin in H1. discriminate.
  - intros Heq. rewrite Heq, str_eqb_refl in H2. discriminate.
Qed.

Lemma nonempty_attr_absent (e : entry) a : ~ In a (map fst e) -> nonempty_attr e a = false.
Proof. intros H. unfold nonempty_attr. rewrite (alookup_none_notin e a H). reflexivity. Qed.

(** * 7. Classes without lists: DNS, AppGroup, Tenant, Allocation (LdapObject's from_entry / to_entry), Server *)
Definition ts_absent (T : ltables) (e : entry) : Prop :=
  ~ In (lt_ts_create T) (map fst e) /\ ~ In (lt_ts_modify T) (map fst e).

Lemma base_from_entry_ok T sch e o : ts_absent T e -> entry_2_dict sch e = Ok o -> base_from_entry T sch e = Ok o.
Proof.
  intros [H1 H2] He. unfold base_from_entry. rewrite He, (nonempty_attr_absent e _ H1), (nonempty_attr_absent e _ H2).
  reflexivity.
Qed.

Theorem plain_rt T sch o : wf_schema sch = true -> ts_ok (lt_ts_create T) = true -> ts_ok (lt_ts_modify T) = true ->
  obj_typed2 sch o = true -> plain_store_load T sch o = Some (Ok (nf_base sch o)).
Proof.
  intros Hwf Hc Hm Hty. destruct (wf_schema_spec sch Hwf) as [Hna [Hnf Hattr]].
  destruct (d2e_total sch o Hty []) as [D HD]. fold (d2e sch o) in HD.
  destruct (d2e_spec sch o D Hna HD) as [HndD [Hrow Hoth]].
  unfold plain_store_load, base_to_entry. rewrite HD. cbn [olift oret obind].
  assert (Hts : forall a, ts_ok a = true -> ~ In a (map fst (remove_empty D))).
  { intros a Ha Hin. apply remove_empty_keys in Hin. apply (d2e_keys sch o D a Hna HD) in Hin.
    destruct (ts_ok_spec a Ha) as [_ Hl]. apply Hl. apply Hattr. exact Hin. }
  rewrite (base_from_entry_ok T sch (remove_empty D) (nf_base sch o)); [reflexivity|split; apply Hts; assumption|].
  apply base_rt; [exact Hnf|exact Hty|].
  intros a f t Hin. rewrite (alookup_remove_empty D a HndD), (Hrow a f t Hin).
  destruct (row_assigned2 o f t) as [[|x l]|]; reflexivity.
Qed.

Theorem server_rt T o : wf_schema (lt_server T) = true -> ts_ok (lt_ts_create T) = true -> ts_ok (lt_ts_modify T) = true ->
  obj_typed2 (lt_server T) o = true -> server_store_load T o = Some (Ok (server_nf T o)).
Proof.
  intros Hwf Hc Hm Hty. pose proof (plain_rt T (lt_server T) o Hwf Hc Hm Hty) as H.
  unfold plain_store_load in H. unfold server_store_load, server_from_entry, server_nf.
  destruct (base_to_entry (lt_server T) o) as [[e|c]|]; cbn [obind] in *; try discriminate.
  destruct (base_from_entry T (lt_server T) (remove_empty e)) as [o'|c]; cbn [rlift] in *.
  - inversion H; subst. reflexivity.
  - destruct (c =? E_OTHER); discriminate.
Qed.

(** ** normal forms are typed, and normalising twice changes nothing *)
Lemma sort_keys_sort_by {A} (d : list (str * A)) : sort_keys d = sort_by key_lt d.
Proof.
  induction d as [|[k v] d IH]; cbn [sort_keys sort_by]; [reflexivity|]. rewrite IH.
  generalize (sort_by key_lt d). intros l. induction l as [|[k' v'] l IHl]; cbn [insert_key ins_by]; [reflexivity|].
  unfold key_lt at 1. cbn [fst]. destruct (str_ltb k' k); [rewrite IHl|]; reflexivity.
Qed.

Lemma sort_keys_idem {A} (d : list (str * A)) : NoDup (map fst d) -> sort_keys (sort_keys d) = sort_keys d.
Proof.
  intros Hnd. rewrite !sort_keys_sort_by.
  apply (sort_by_idem key_lt (fun x => In x d)).
  - intros a b H. unfold key_lt in *. destruct (str_ltb (fst b) (fst a)) eqn:E; [|reflexivity].
    pose proof (str_ltb_trans _ _ _ H E) as Ht. rewrite (str_ltb_irrefl (fst a)) in Ht. discriminate.
  - intros a b c. unfold key_lt. apply str_ltb_trans.
  - intros [k1 v1] [k2 v2] H1 H2 L1 L2. unfold key_lt in *. cbn [fst] in *.
    destruct (str_eq_dec k1 k2) as [->|Hne].
    + f_equal. apply (in_alookup d k2 v1 Hnd) in H1. apply (in_alookup d k2 v2 Hnd) in H2. congruence.
    + rewrite (str_ltb_tri k1 k2 L1 Hne) in L2. discriminate.
  - apply Forall_forall. intros x Hx. exact Hx.
Qed.

Lemma expected_typed t v : match v with Some x => ftyped2 t x = true | None => True end ->
  match expected_field t v with Some w => ftyped2 t w = true /\ w <> FNone | None => True end.
Proof.
  destruct v as [x|].
  - destruct x as [|s|z|b|l|l|d]; destruct t; cbn [ftyped2 field_typed]; intros H; try discriminate;
      cbn [expected_field is_list_type]; try exact I; try (split; [reflexivity|discriminate]).
    all: try (destruct l; cbn [ftyped2 field_typed]; first [exact I | split; [reflexivity|discriminate] | discriminate]).
    split; [|discriminate]. cbn [field_typed]. apply (sort_keys_wf d H).
  - intros _. destruct t; cbn [expected_field is_list_type]; try exact I; split; (reflexivity || discriminate).
Qed.

Lemma expected_idem t v : match v with Some x => ftyped2 t x = true | None => True end ->
  expected_field t (expected_field t v) = expected_field t v.
Proof.
  destruct v as [x|]; [|intros _; cbn; destruct t; reflexivity].
  destruct x as [|s|z|b|l|l|d]; destruct t; cbn [ftyped2 field_typed]; intros H; try discriminate;
    cbn [expected_field is_list_type]; try reflexivity; try (destruct l; reflexivity).
  cbn [wf_value] in H. apply andb_true_iff in H as [H _]. apply keys_nodup_NoDup in H.
  rewrite (sort_keys_idem d H). reflexivity.
Qed.

Lemma obj_typed2_intro sch o : (forall a f t, In (a, (f, t)) (active sch) ->
    match alookup o f with Some v => ftyped2 t v = true | None => True end) -> obj_typed2 sch o = true.
Proof.
  induction sch as [|[a0 [[f0|] t0]] r IH]; intros H; cbn [obj_typed2 forallb]; [reflexivity| |].
  - fold (obj_typed2 r o). apply andb_true_iff. split.
    + specialize (H a0 f0 t0 (or_introl eq_refl)). destruct (alookup o f0); [exact H|reflexivity].
    + apply IH. intros a f t Hin. apply (H a f t). rewrite active_some. right. exact Hin.
  - fold (obj_typed2 r o). apply IH. intros a f t Hin. apply (H a f t). rewrite active_none. exact Hin.
Qed.

Lemma row_typed sch o a f t : obj_typed2 sch o = true -> In (a, (f, t)) (active sch) ->
  match alookup o f with Some x => ftyped2 t x = true | None => True end.
Proof. intros Hty Hin. destruct (alookup o f) as [v|] eqn:E; [|exact I]. eapply obj_typed2_row; eassumption. Qed.

Theorem nf_base_typed sch o : NoDup (fields sch) -> obj_typed2 sch o = true -> obj_typed2 sch (nf_base sch o) = true.
Proof.
  intros Hnf Hty. apply obj_typed2_intro. intros a f t Hin. rewrite (alookup_nf_base sch o a f t Hnf Hin).
  pose proof (expected_typed t (alookup o f) (row_typed sch o a f t Hty Hin)) as H.
  destruct (expected_field t (alookup o f)); [apply H|exact I].
Qed.

Theorem nf_base_idem sch o : NoDup (fields sch) -> obj_typed2 sch o = true -> nf_base sch (nf_base sch o) = nf_base sch o.
Proof.
  intros Hnf Hty. unfold nf_base at 1 3.
  assert (H : forall L, (forall r, In r L -> In r (active sch)) ->
     flat_map (fun r => match expected_field (snd (snd r)) (alookup (nf_base sch o) (fst (snd r))) with
                        | Some v => [(fst (snd r), v)] | None => [] end) L
     = flat_map (fun r => match expected_field (snd (snd r)) (alookup o (fst (snd r))) with
                          | Some v => [(fst (snd r), v)] | None => [] end) L).
  { induction L as [|[a [f t]] L IH]; intros HL; [reflexivity|]. cbn [flat_map fst snd].
    rewrite IH by (intros r Hr; apply HL; right; exact Hr).
    assert (Hin : In (a, (f, t)) (active sch)) by (apply HL; left; reflexivity).
    rewrite (alookup_nf_base sch o a f t Hnf Hin), (expected_idem t _ (row_typed sch o a f t Hty Hin)). reflexivity. }
  apply H. intros r Hr. exact Hr.
Qed.

Lemma set_default_idem o f v : set_default (set_default o f v) f v = set_default o f v.
Proof.
  unfold set_default at 2. destruct (alookup o f) eqn:E.
  - unfold set_default. rewrite E. reflexivity.
  - unfold set_default. rewrite alookup_app_l, E. cbn [alookup]. rewrite str_eqb_refl. reflexivity.
Qed.

Lemma alookup_set_default o f v k :
  alookup (set_default o f v) k = match alookup o k with Some x => Some x | None => if str_eqb f k then Some v else None end.
Proof.
  unfold set_default. destruct (alookup o f) eqn:E.
  - destruct (alookup o k) eqn:Ek; [reflexivity|]. destruct (str_eqb f k) eqn:Ef; [|reflexivity].
    apply str_eqb_eq in Ef. subst k. congruence.
  - rewrite alookup_app_l. cbn [alookup]. destruct (alookup o k); reflexivity.
Qed.

(** * 8. Attribute options: '<attribute>;<prefix>-<hex index>' *)
Lemma digits16_nodup : NoDup digits16.
Proof. apply nodupb_NoDup. reflexivity. Qed.

Lemma hex_nonneg_spec n : 0 <= n ->
  to_base_n digits16 16 n = Ok (hex_of_nonneg n) /\ Forall (fun c => In c digits16) (hex_of_nonneg n).
Proof.
  intros Hn. destruct (to_base_n_spec digits16 16 n digits16_nodup) as [s [Hs [_ [_ [_ Hall]]]]];
    [change (zlen digits16) with 16; lia|exact Hn|].
  unfold hex_of_nonneg. rewrite Hs. split; [reflexivity|exact Hall].
Qed.

Lemma hex_nonneg_inj a b : 0 <= a -> 0 <= b -> hex_of_nonneg a = hex_of_nonneg b -> a = b.
Proof.
  intros Ha Hb H. destruct (hex_nonneg_spec a Ha) as [Ea _]. destruct (hex_nonneg_spec b Hb) as [Eb _].
  rewrite <- H in Eb. apply (base_n_injective digits16 16 a b (hex_of_nonneg a)); try assumption; try reflexivity.
  change (zlen digits16) with 16. lia.
Qed.

Lemma digit16_not c : In c digits16 -> c <> 45 /\ c <> 59.
Proof. unfold digits16. cbn [In]. intros H. repeat (destruct H as [<-|H]; [split; discriminate|]). contradiction. Qed.

Lemma hex_nonneg_head n : 0 <= n -> exists c r, hex_of_nonneg n = c :: r /\ In c digits16.
Proof.
  intros Hn. destruct (to_base_n_spec digits16 16 n digits16_nodup) as [s [Hs [_ [Hl [_ Hall]]]]];
    [change (zlen digits16) with 16; lia|exact Hn|].
  unfold hex_of_nonneg. rewrite Hs. destruct s as [|c r]; [cbn in Hl; lia|].
  exists c, r. split; [reflexivity|]. inversion Hall; assumption.
Qed.

Theorem hex_of_Z_inj a b : hex_of_Z a = hex_of_Z b -> a = b.
Proof.
  unfold hex_of_Z. destruct (a <? 0) eqn:Ea; destruct (b <? 0) eqn:Eb; intros H.
  - inversion H as [H']. apply hex_nonneg_inj in H'; lia.
  - destruct (hex_nonneg_head b ltac:(lia)) as [c [r [Hb Hc]]]. rewrite Hb in H. inversion H; subst.
    destruct (digit16_not 45 Hc) as [Hx _]. congruence.
  - destruct (hex_nonneg_head a ltac:(lia)) as [c [r [Hb Hc]]]. rewrite Hb in H. inversion H; subst.
    destruct (digit16_not 45 Hc) as [Hx _]. congruence.
  - apply hex_nonneg_inj; [lia|lia|exact H].
Qed.

Lemma hex_of_Z_no_semicolon z : ~ In 59 (hex_of_Z z).
Proof.
  assert (Hnn : forall n, 0 <= n -> ~ In 59 (hex_of_nonneg n)).
  { intros n Hn Hin. destruct (hex_nonneg_spec n Hn) as [_ Hall]. rewrite Forall_forall in Hall.
    destruct (digit16_not 59 (Hall 59 Hin)) as [_ Hx]. congruence. }
  unfold hex_of_Z. destruct (z <? 0) eqn:E.
  - intros [Hin|Hin]; [discriminate|]. apply (Hnn (- z)); [lia|exact Hin].
  - apply Hnn. lia.
Qed.

Lemma opt_name_no_semicolon p z : ~ In 59 p -> ~ In 59 (opt_name p z).
Proof.
  intros Hp Hin. unfold opt_name in Hin. apply in_app_or in Hin as [Hin|[Hin|Hin]]; [exact (Hp Hin)|discriminate|].
  exact (hex_of_Z_no_semicolon z Hin).
Qed.

Lemma opt_name_inj p a b : opt_name p a = opt_name p b -> a = b.
Proof. unfold opt_name. intros H. apply app_inv_head in H. inversion H as [H']. apply hex_of_Z_inj. exact H'. Qed.

(** the two parts of an option key *)
Lemma key_parts_opt a o : ~ In 59 a -> ~ In 59 o -> key_parts (opt_attr a o) = [a; o].
Proof.
  intros Ha Ho. unfold key_parts, opt_attr. rewrite split_app, (split_notin 59 a Ha), (split_notin 59 o Ho). reflexivity.
Qed.

Lemma has_opt_opt a o : has_opt (opt_attr a o) = true.
Proof. unfold has_opt, opt_attr. apply memb_In. apply in_or_app. right. left. reflexivity. Qed.

Lemma has_opt_plain a : ~ In 59 a -> has_opt a = false.
Proof. intros H. unfold has_opt. destruct (memb 59 a) eqn:E; [apply memb_In in E; contradiction|reflexivity]. Qed.

Lemma opt_of_opt a o : ~ In 59 a -> ~ In 59 o -> opt_of (opt_attr a o) = o.
Proof. intros Ha Ho. unfold opt_of. rewrite (key_parts_opt a o Ha Ho). reflexivity. Qed.

Lemma opt_attr_inj a o a' o' : ~ In 59 a -> ~ In 59 a' -> opt_attr a o = opt_attr a' o' -> a = a' /\ o = o'.
Proof.
  intros Ha Ha' H. unfold opt_attr in H.
  pose proof (split1_first 59 a o Ha) as H1. pose proof (split1_first 59 a' o' Ha') as H2.
  rewrite H in H1. rewrite H1 in H2. inversion H2. split; reflexivity.
Qed.

Lemma opt_attr_not_plain a o k : ~ In 59 k -> opt_attr a o <> k.
Proof. intros Hk <-. apply Hk. unfold opt_attr. apply in_or_app. right. left. reflexivity. Qed.

(** renamed schemas *)
Lemma active_rename sch o : active (rename_opt sch o) = map (fun r => (opt_attr (fst r) o, snd r)) (active sch).
Proof.
  unfold rename_opt. induction sch as [|[a [[f|] t]] r IH]; cbn [map fst snd]; [reflexivity| |].
  - rewrite !active_some, IH. reflexivity.
  - rewrite !active_none, IH. reflexivity.
Qed.

Lemma fields_rename sch o : fields (rename_opt sch o) = fields sch.
Proof. unfold fields. rewrite active_rename, map_map. reflexivity. Qed.

Lemma attrs_rename sch o : attrs (rename_opt sch o) = map (fun a => opt_attr a o) (attrs sch).
Proof. unfold attrs. rewrite active_rename, !map_map. reflexivity. Qed.

Lemma nf_base_rename sch o x : nf_base (rename_opt sch o) x = nf_base sch x.
Proof.
  unfold nf_base. rewrite active_rename. induction (active sch) as [|r L IH]; cbn [map flat_map fst snd]; [reflexivity|].
  rewrite IH. reflexivity.
Qed.

Lemma obj_typed2_rename sch o x : obj_typed2 (rename_opt sch o) x = obj_typed2 sch x.
Proof.
  unfold rename_opt, obj_typed2. induction sch as [|[a [[f|] t]] r IH]; cbn [map forallb fst snd]; [reflexivity| |];
    rewrite IH; reflexivity.
Qed.

Lemma attrs_rename_nodup sch o : NoDup (attrs sch) -> NoDup (attrs (rename_opt sch o)).
Proof.
  intros H. rewrite attrs_rename. apply FinFun.Injective_map_NoDup; [|exact H].
  intros a b Hab. unfold opt_attr in Hab. apply app_inv_tail in Hab. exact Hab.
Qed.

(** * 9. _group_entry_by_opt: the options of an entry *)
Lemma ins_opt_in o l x : In x (ins_opt o l) <-> x = o \/ In x l.
Proof.
  induction l as [|y r IH]; cbn [ins_opt].
  - cbn. intuition.
  - destruct (str_eqb y o) eqn:E.
    + apply str_eqb_eq in E. subst y. cbn [In]. intuition.
    + destruct (str_ltb y o); cbn [In]; [rewrite IH|]; intuition.
Qed.

Definition sorted_opts (l : list str) : Prop := StronglySorted (fun a b => str_ltb a b = true) l.

Lemma ins_opt_sorted o l : sorted_opts l -> sorted_opts (ins_opt o l).
Proof.
  unfold sorted_opts. induction l as [|y r IH]; intros Hs; cbn [ins_opt].
  - constructor; constructor.
  - inversion Hs as [|y' r' Hr Hy]; subst. destruct (str_eqb y o) eqn:E; [exact Hs|].
    assert (Hne : y <> o) by (intros ->; rewrite str_eqb_refl in E; discriminate).
    destruct (str_ltb y o) eqn:El.
    + constructor; [apply IH; exact Hr|]. rewrite Forall_forall in *. intros z Hz. apply ins_opt_in in Hz as [->|Hz]; [exact El|apply Hy; exact Hz].
    + constructor; [exact Hs|]. pose proof (str_ltb_tri y o El Hne) as Hoy.
      constructor; [exact Hoy|]. rewrite Forall_forall in *. intros z Hz. apply (str_ltb_trans o y z Hoy). apply Hy. exact Hz.
Qed.

Lemma sorted_opts_nodup l : sorted_opts l -> NoDup l.
Proof.
  unfold sorted_opts. induction 1 as [|x l Hs IH Hx]; constructor; [|exact IH].
  intros Hin. rewrite Forall_forall in Hx. specialize (Hx x Hin). rewrite str_ltb_irrefl in Hx. discriminate.
Qed.

Lemma opts_of_sorted e : sorted_opts (opts_of e).
Proof.
  unfold opts_of. induction e as [|[k v] e IH]; cbn [fold_right fst]; [constructor|].
  destruct (has_opt k); [apply ins_opt_sorted|]; exact IH.
Qed.

Lemma opts_of_in e o : In o (opts_of e) <-> exists k, In k (map fst e) /\ has_opt k = true /\ opt_of k = o.
Proof.
  unfold opts_of. induction e as [|[k v] e IH]; cbn [fold_right fst map].
  - split; [intros []|intros [k [[] _]]].
  - destruct (has_opt k) eqn:E.
    + rewrite ins_opt_in, IH. split.
      * intros [->|[k' [H1 [H2 H3]]]]; [exists k; split; [left; reflexivity|split; [exact E|reflexivity]]|].
        exists k'. split; [right; exact H1|split; assumption].
      * intros [k' [[<-|H1] [H2 H3]]]; [left; symmetry; exact H3|right; exists k'; split; [exact H1|split; assumption]].
    + rewrite IH. split.
      * intros [k' [H1 [H2 H3]]]. exists k'. split; [right; exact H1|split; assumption].
      * intros [k' [[<-|H1] [H2 H3]]]; [congruence|exists k'; split; [exact H1|split; assumption]].
Qed.

Lemma filter_nodup {A} (f : A -> bool) l : NoDup l -> NoDup (filter f l).
Proof. apply NoDup_filter. Qed.

(** startswith *)
Lemma is_prefix_app p s : is_prefix p (p ++ s) = true.
Proof.
  unfold is_prefix, starts_with. induction p as [|c p IH]; cbn [app]; [reflexivity|]. rewrite Z.eqb_refl. exact IH.
Qed.

Lemma is_prefix_split p s : is_prefix p s = true -> exists r, s = p ++ r.
Proof.
  unfold is_prefix, starts_with. revert s. induction p as [|c p IH]; intros s H; [exists s; reflexivity|].
  destruct s as [|d s]; [discriminate|]. destruct (c =? d) eqn:E; [|discriminate].
  apply Z.eqb_eq in E. subst d. destruct (IH s H) as [r ->]. exists r. reflexivity.
Qed.

Lemma is_prefix_both p q s : is_prefix p s = true -> is_prefix q s = true -> is_prefix p q = true \/ is_prefix q p = true.
Proof.
  revert q s. induction p as [|c p IH]; intros q s Hp Hq; [left; reflexivity|].
  destruct q as [|d q]; [right; reflexivity|].
  destruct s as [|x s]; [discriminate|].
  unfold is_prefix, starts_with in Hp, Hq |- *.
  destruct (c =? x) eqn:E1; [|discriminate]. destruct (d =? x) eqn:E2; [|discriminate].
  apply Z.eqb_eq in E1, E2. subst c d. rewrite Z.eqb_refl.
  apply (IH q s); assumption.
Qed.

(** * 10. The order on decoded items *)
Definition fkey (v : fval) : Z * list (list Z) :=
  match v with
  | FNone => (0, []) | FStr s => (1, [s]) | FInt z => (2, [[z]]) | FBool b => (3, [[if b then 1 else 0]])
  | FStrs l => (4, l) | FInts l => (5, [l]) | FDict _ => (6, [])
  end.
Definition kcmp : Z * list (list Z) -> Z * list (list Z) -> comparison := lex_cmp Z.compare (list_cmp (list_cmp Z.compare)).
Definition pkey (kv : str * fval) : str * (Z * list (list Z)) := (fst kv, fkey (snd kv)).
Definition pcmp : str * (Z * list (list Z)) -> str * (Z * list (list Z)) -> comparison := lex_cmp str_cmp kcmp.

Lemma TO_kcmp : TO kcmp.
Proof. apply TO_lex; [exact TO_Z|apply TO_list, TO_list, TO_Z]. Qed.
Lemma TO_pcmp : TO pcmp.
Proof. apply TO_lex; [exact TO_str|exact TO_kcmp]. Qed.

Lemma fval_cmp_key a b : fval_cmp a b = kcmp (fkey a) (fkey b).
Proof.
  destruct a as [|x|x|x|x|x|x]; destruct b as [|y|y|y|y|y|y]; try reflexivity; unfold kcmp, lex_cmp; cbn [fkey fst snd fval_cmp].
  - change (1 ?= 1) with Eq. cbn [list_cmp]. unfold str_cmp. destruct (list_cmp Z.compare x y); reflexivity.
  - change (2 ?= 2) with Eq. cbn [list_cmp]. destruct (x ?= y); reflexivity.
  - destruct x, y; reflexivity.
  - change (5 ?= 5) with Eq. cbn [list_cmp]. destruct (list_cmp Z.compare x y); reflexivity.
Qed.

Lemma pair_cmp_key a b : pair_cmp a b = pcmp (pkey a) (pkey b).
Proof. unfold pair_cmp, pcmp, lex_cmp, pkey. cbn [fst snd]. rewrite fval_cmp_key. reflexivity. Qed.

Lemma list_cmp_map {A B} (c : B -> B -> comparison) (c' : A -> A -> comparison) (g : A -> B) :
  (forall a b, c' a b = c (g a) (g b)) -> forall l1 l2, list_cmp c' l1 l2 = list_cmp c (map g l1) (map g l2).
Proof.
  intros H. induction l1 as [|x l1 IH]; destruct l2 as [|y l2]; cbn [list_cmp map]; try reflexivity.
  rewrite H, IH. reflexivity.
Qed.

Lemma item_cmp_key a b : item_cmp a b = list_cmp pcmp (map pkey (sort_keys a)) (map pkey (sort_keys b)).
Proof. unfold item_cmp. apply list_cmp_map. exact pair_cmp_key. Qed.

Lemma item_lt_asym a b : item_lt a b = true -> item_lt b a = false.
Proof.
  unfold item_lt. rewrite !item_cmp_key. destruct (TO_list pcmp TO_pcmp) as [_ [Ho _]].
  rewrite (Ho (map pkey (sort_keys a)) (map pkey (sort_keys b))).
  destruct (list_cmp pcmp (map pkey (sort_keys a)) (map pkey (sort_keys b))); cbn [CompOpp]; congruence.
Qed.

Lemma item_lt_trans a b c : item_lt a b = true -> item_lt b c = true -> item_lt a c = true.
Proof.
  unfold item_lt. rewrite !item_cmp_key. destruct (TO_list pcmp TO_pcmp) as [_ [_ Ht]].
  intros H1 H2.
  destruct (list_cmp pcmp (map pkey (sort_keys a)) (map pkey (sort_keys b))) eqn:E1; try discriminate.
  destruct (list_cmp pcmp (map pkey (sort_keys b)) (map pkey (sort_keys c))) eqn:E2; try discriminate.
  rewrite (Ht _ _ _ E1 E2). reflexivity.
Qed.

Definition simple_val (v : fval) : bool := match v with FDict _ => false | _ => true end.

Lemma fkey_inj a b : simple_val a = true -> simple_val b = true -> fkey a = fkey b -> a = b.
Proof.
  destruct a as [|x|x|x|x|x|x]; destruct b as [|y|y|y|y|y|y]; cbn [simple_val fkey]; intros Ha Hb H;
    try discriminate; try reflexivity; inversion H; subst; try reflexivity.
  destruct x, y; try reflexivity; discriminate.
Qed.

(** an item in the order of its schema *)
Definition reorder (sch : schema) (a : obj) : obj :=
  flat_map (fun r => match alookup a (fst (snd r)) with Some v => [(fst (snd r), v)] | None => [] end) (active sch).
Definition itemP (sch : schema) (a : obj) : Prop :=
  reorder sch a = a /\ NoDup (map fst a) /\ forallb (fun kv => simple_val (snd kv)) a = true.

Lemma reorder_ext sch a b : (forall k, alookup a k = alookup b k) -> reorder sch a = reorder sch b.
Proof.
  intros H. unfold reorder. induction (active sch) as [|r L IH]; cbn [flat_map]; [reflexivity|]. rewrite H, IH. reflexivity.
Qed.

Lemma map_pkey_inj l1 : forall l2, forallb (fun kv => simple_val (snd kv)) l1 = true ->
  forallb (fun kv => simple_val (snd kv)) l2 = true -> map pkey l1 = map pkey l2 -> l1 = l2.
Proof.
  induction l1 as [|[k v] l1 IH]; destruct l2 as [|[k' v'] l2]; cbn [map forallb snd]; intros H1 H2 H; try discriminate;
    [reflexivity|].
  apply andb_true_iff in H1 as [Hv H1]. apply andb_true_iff in H2 as [Hv' H2].
  inversion H as [[Hk Hf Hr]]. subst k'. rewrite (fkey_inj v v' Hv Hv' Hf). f_equal. apply IH; assumption.
Qed.

Lemma item_lt_tri sch a b : itemP sch a -> itemP sch b -> item_lt a b = false -> item_lt b a = false -> a = b.
Proof.
  intros [Ra [Na Sa]] [Rb [Nb Sb]] L1 L2.
  assert (Heq : item_cmp a b = Eq).
  { unfold item_lt in L1, L2. rewrite item_cmp_key in *. destruct (TO_list pcmp TO_pcmp) as [_ [Ho _]].
    rewrite (Ho (map pkey (sort_keys a)) (map pkey (sort_keys b))) in L2.
    destruct (list_cmp pcmp (map pkey (sort_keys a)) (map pkey (sort_keys b))); cbn [CompOpp] in L2; congruence. }
  rewrite item_cmp_key in Heq. destruct (TO_list pcmp TO_pcmp) as [He _]. apply He in Heq.
  apply map_pkey_inj in Heq.
  - rewrite <- Ra, <- Rb. apply reorder_ext. intros k.
    rewrite (alookup_perm a (sort_keys a) k Na (Permutation_sym (sort_keys_perm a))).
    rewrite (alookup_perm b (sort_keys b) k Nb (Permutation_sym (sort_keys_perm b))). rewrite Heq. reflexivity.
  - eapply forallb_perm; [apply Permutation_sym, sort_keys_perm|exact Sa].
  - eapply forallb_perm; [apply Permutation_sym, sort_keys_perm|exact Sb].
Qed.

Theorem items_sort_canon sch l1 l2 : Forall (itemP sch) l1 -> Permutation l1 l2 -> sort_by item_lt l1 = sort_by item_lt l2.
Proof.
  apply (sort_by_canon item_lt (itemP sch)); [exact item_lt_asym|exact item_lt_trans|exact (item_lt_tri sch)].
Qed.

Theorem items_sort_idem sch l : Forall (itemP sch) l -> sort_by item_lt (sort_by item_lt l) = sort_by item_lt l.
Proof.
  apply (sort_by_idem item_lt (itemP sch)); [exact item_lt_asym|exact item_lt_trans|exact (item_lt_tri sch)].
Qed.

(** the kind of a value is decided by the type of its row *)
Definition has_kind (t : ftype) (v : fval) : bool :=
  match t, v with
  | TStr, FStr _ | TInt, FInt _ | TBool, FBool _ | TListStr, FStrs _ => true
  | _, _ => false
  end.
Definition kinded (sch : schema) (a : obj) : Prop :=
  forall k v, In (k, v) a -> exists a0 t, In (a0, (k, t)) (active sch) /\ has_kind t v = true.

Lemma has_kind_same t v w : has_kind t v = true -> has_kind t w = true -> same_kind v w = true.
Proof. destruct t, v, w; cbn; congruence. Qed.

Lemma field_type_unique sch a f t a' t' : NoDup (fields sch) -> In (a, (f, t)) (active sch) -> In (a', (f, t')) (active sch) -> t = t'.
Proof.
  unfold fields. induction (active sch) as [|[a0 [f0 t0]] L IH]; cbn [map fst snd]; intros Hnd H1 H2; [contradiction|].
  inversion Hnd as [|x l Hx HL]; subst.
  assert (Hno : forall a1 t1, In (a1, (f0, t1)) L -> False).
  { intros a1 t1 Hin. apply Hx. apply in_map_iff. exists (a1, (f0, t1)). split; [reflexivity|exact Hin]. }
  destruct H1 as [E1|H1]; destruct H2 as [E2|H2].
  - congruence.
  - inversion E1; subst. exfalso. eapply Hno. exact H2.
  - inversion E2; subst. exfalso. eapply Hno. exact H1.
  - apply IH; assumption.
Qed.

Lemma comparable_kinded sch l1 : forall l2, NoDup (fields sch) ->
  (forall k v, In (k, v) l1 -> exists a0 t, In (a0, (k, t)) (active sch) /\ has_kind t v = true) ->
  (forall k v, In (k, v) l2 -> exists a0 t, In (a0, (k, t)) (active sch) /\ has_kind t v = true) ->
  comparable_s l1 l2 = true.
Proof.
  induction l1 as [|[k v] l1 IH]; intros l2 Hnd H1 H2; [reflexivity|]. destruct l2 as [|[k' v'] l2]; [reflexivity|].
  cbn [comparable_s fst snd]. destruct (str_eqb k k') eqn:E; [|reflexivity]. apply str_eqb_eq in E. subst k'.
  destruct (H1 k v (or_introl eq_refl)) as [a0 [t [Hin Hk]]]. destruct (H2 k v' (or_introl eq_refl)) as [a0' [t' [Hin' Hk']]].
  assert (t = t') by (eapply field_type_unique; eassumption). subst t'.
  rewrite (has_kind_same t v v' Hk Hk'). destruct (fval_cmp v v'); try reflexivity.
  apply IH; [exact Hnd| |]; intros k1 v1 Hin1; [apply H1|apply H2]; right; exact Hin1.
Qed.

Lemma kinded_comparable sch a b : NoDup (fields sch) -> kinded sch a -> kinded sch b -> comparable a b = true.
Proof.
  intros Hnd Ha Hb. unfold comparable. apply (comparable_kinded sch); [exact Hnd| |]; intros k v Hin.
  - apply Ha. eapply Permutation_in; [apply sort_keys_perm|exact Hin].
  - apply Hb. eapply Permutation_in; [apply sort_keys_perm|exact Hin].
Qed.

Lemma all_comparable_intro l : (forall a b, In a l -> In b l -> comparable a b = true) -> all_comparable l = true.
Proof.
  induction l as [|x l IH]; intros H; [reflexivity|]. cbn [all_comparable]. apply andb_true_iff. split.
  - apply forallb_forall. intros y Hy. apply H; [left; reflexivity|right; exact Hy].
  - apply IH. intros a b Ha Hb. apply H; right; assumption.
Qed.

(** normal forms of typed items of an item schema (types str / int / bool / [str]) *)
Definition isch_ok (sch : schema) : Prop :=
  NoDup (fields sch) /\ forall a f t, In (a, (f, t)) (active sch) -> item_type_ok t = true.

Lemma nf_item_kind t v w : item_type_ok t = true -> match v with Some x => ftyped2 t x = true | None => True end ->
  expected_field t v = Some w -> has_kind t w = true.
Proof.
  destruct v as [x|].
  - destruct x as [|s|z|b|l|l|d]; destruct t; cbn [item_type_ok ftyped2 field_typed]; intros Ht H; try discriminate;
      cbn [expected_field is_list_type]; intros E; try discriminate; try (inversion E; subst; reflexivity).
    all: destruct l; inversion E; subst; reflexivity.
  - destruct t; cbn [item_type_ok expected_field is_list_type]; intros Ht _ E; try discriminate; inversion E; subst; reflexivity.
Qed.

Lemma nf_base_in sch o k v : In (k, v) (nf_base sch o) ->
  exists a t, In (a, (k, t)) (active sch) /\ expected_field t (alookup o k) = Some v.
Proof.
  unfold nf_base. intros Hin. apply in_flat_map in Hin as [[a1 [f1 t1]] [Hin1 Hin2]]. cbn [fst snd] in Hin2.
  destruct (expected_field t1 (alookup o f1)) eqn:E; [|contradiction]. destruct Hin2 as [Heq2|[]]. inversion Heq2; subst.
  exists a1, t1. split; [exact Hin1|exact E].
Qed.

Lemma nf_item_kinded sch x : isch_ok sch -> obj_typed2 sch x = true -> kinded sch (nf_base sch x).
Proof.
  intros [Hnd Hty] Hx k v Hin. destruct (nf_base_in sch x k v Hin) as [a [t [Hr He]]].
  exists a, t. split; [exact Hr|]. eapply nf_item_kind; [eapply Hty; exact Hr|eapply row_typed; eassumption|exact He].
Qed.

Lemma has_kind_simple t v : has_kind t v = true -> simple_val v = true.
Proof. destruct t, v; cbn; congruence. Qed.

Lemma reorder_nf sch x : NoDup (fields sch) -> reorder sch (nf_base sch x) = nf_base sch x.
Proof.
  intros Hnd. unfold reorder. unfold nf_base at 2.
  assert (H : forall L, (forall r, In r L -> In r (active sch)) ->
     flat_map (fun r => match alookup (nf_base sch x) (fst (snd r)) with Some v => [(fst (snd r), v)] | None => [] end) L
     = flat_map (fun r => match expected_field (snd (snd r)) (alookup x (fst (snd r))) with
                          | Some v => [(fst (snd r), v)] | None => [] end) L).
  { induction L as [|[a [f t]] L IH]; intros HL; [reflexivity|]. cbn [flat_map fst snd].
    rewrite IH by (intros r Hr; apply HL; right; exact Hr).
    rewrite (alookup_nf_base sch x a f t Hnd (HL _ (or_introl eq_refl))). reflexivity. }
  apply H. intros r Hr. exact Hr.
Qed.

Lemma nf_item_P sch x : isch_ok sch -> obj_typed2 sch x = true -> itemP sch (nf_base sch x).
Proof.
  intros Hok Hx. pose proof (nf_item_kinded sch x Hok Hx) as Hk. destruct Hok as [Hnd Hty].
  split; [apply reorder_nf; exact Hnd|]. split; [apply nf_base_nodup; exact Hnd|].
  apply forallb_forall. intros [k v] Hin. cbn [snd]. destruct (Hk k v Hin) as [a0 [t [_ Hkind]]].
  eapply has_kind_simple. exact Hkind.
Qed.

(** * 11. _grouped_to_list_of_dict on an entry whose option groups are known *)
Lemma mapM_ok {A B} (f : A -> res B) (g : A -> B) l : (forall x, In x l -> f x = Ok (g x)) -> mapM f l = Ok (map g l).
Proof.
  induction l as [|x l IH]; intros H; [reflexivity|]. cbn [mapM map].
  rewrite (H x (or_introl eq_refl)), IH by (intros y Hy; apply H; right; exact Hy). reflexivity.
Qed.

Definition get_item (hx : list (str * obj)) (o : str) : obj := match alookup hx o with Some x => x | None => [] end.

Theorem grouped_list_spec (E : entry) (lp : str) (isch : schema) (hx : list (str * obj)) :
  isch_ok isch -> NoDup (map fst hx) ->
  (forall o x, In (o, x) hx -> is_prefix lp o = true /\ obj_typed2 isch x = true /\
      (forall a f t, In (a, (f, t)) (active isch) -> alookup E (opt_attr a o) = stored (row_assigned2 x f t)) /\
      (exists k, In k (map fst E) /\ has_opt k = true /\ opt_of k = o)) ->
  (forall k, In k (map fst E) -> has_opt k = true -> is_prefix lp (opt_of k) = true -> In (opt_of k) (map fst hx)) ->
  (forall k, In k (map fst E) -> has_opt k = true -> zlen (key_parts k) = 2) ->
  grouped_list E lp isch = Ok (sort_by item_lt (map (fun ox => nf_base isch (snd ox)) hx)).
Proof.
  intros Hok Hnd Hhx Hcov H2.
  pose proof Hok as [Hnf Hty].
  set (opts := filter (is_prefix lp) (opts_of E)).
  assert (Hopts_nd : NoDup opts) by (apply NoDup_filter, sorted_opts_nodup, opts_of_sorted).
  assert (Hopts_in : forall o, In o opts <-> In o (map fst hx)).
  { intros o. unfold opts. rewrite filter_In, opts_of_in. split.
    - intros [[k [Hk [Ho <-]]] Hp]. apply Hcov; assumption.
    - intros Hin. apply in_map_iff in Hin as [[o' x] [<- Hin]]. cbn [fst].
      destruct (Hhx o' x Hin) as [Hp [_ [_ Hex]]]. split; [exact Hex|exact Hp]. }
  assert (Hperm : Permutation opts (map fst hx)) by (apply NoDup_Permutation; assumption).
  assert (Hget : forall o x, In (o, x) hx -> get_item hx o = x).
  { intros o x Hin. unfold get_item. rewrite (in_alookup hx o x Hnd Hin). reflexivity. }
  set (g := fun o => nf_base isch (get_item hx o)).
  assert (Hgd : forall o, In o opts -> group_dict E isch o = Ok (g o)).
  { intros o Hin. apply Hopts_in in Hin. apply in_map_iff in Hin as [[o' x] [Heq Hin]]. cbn [fst] in Heq. subst o'.
    destruct (Hhx o x Hin) as [_ [Htx [Hlk _]]]. unfold group_dict.
    assert (Hbad : bad_group E o = false).
    { unfold bad_group. apply not_true_is_false. intros Hex. apply existsb_exists in Hex as [[k v] [Hkv Hb]]. cbn [fst] in Hb.
      apply andb_true_iff in Hb as [Hb _]. apply andb_true_iff in Hb as [Hopt Hlen].
      assert (Hk : In k (map fst E)) by (apply in_map_iff; exists (k, v); split; [reflexivity|exact Hkv]).
      rewrite (H2 k Hk Hopt) in Hlen. discriminate. }
    rewrite Hbad. unfold g. rewrite (Hget o x Hin), <- (nf_base_rename isch o x).
    apply base_rt.
    - rewrite fields_rename. exact Hnf.
    - rewrite obj_typed2_rename. exact Htx.
    - intros a f t Hr. rewrite active_rename in Hr. apply in_map_iff in Hr as [[a0 [f0 t0]] [Heq Hr]].
      cbn [fst snd] in Heq. inversion Heq; subst. apply (Hlk a0 f t Hr). }
  unfold grouped_list. fold opts. rewrite (mapM_ok (group_dict E isch) g opts Hgd).
  assert (HP : Forall (itemP isch) (map g opts) /\ forall a, In a (map g opts) -> kinded isch a).
  { split; [apply Forall_forall|]; intros a Ha; apply in_map_iff in Ha as [o [<- Ho]];
      apply Hopts_in in Ho; apply in_map_iff in Ho as [[o' x] [Heq Hin]]; cbn [fst] in Heq; subst o';
      unfold g; rewrite (Hget o x Hin); destruct (Hhx o x Hin) as [_ [Htx _]];
      [apply nf_item_P|apply nf_item_kinded]; assumption. }
  destruct HP as [HP Hkind].
  rewrite all_comparable_intro by (intros a b Ha Hb; apply (kinded_comparable isch); [exact Hnf|apply Hkind; exact Ha|apply Hkind; exact Hb]).
  f_equal. apply (items_sort_canon isch); [exact HP|].
  eapply Permutation_trans; [apply Permutation_map; exact Hperm|]. rewrite map_map.
  assert (Hext : forall l, (forall ox, In ox l -> In ox hx) -> map (fun x => g (fst x)) l = map (fun ox => nf_base isch (snd ox)) l).
  { induction l as [|[o x] l IH]; intros Hl; [reflexivity|]. cbn [map fst snd]. rewrite IH by (intros ox Hox; apply Hl; right; exact Hox).
    unfold g at 1. rewrite (Hget o x (Hl _ (or_introl eq_refl))). reflexivity. }
  rewrite Hext by (intros ox Hox; exact Hox). apply Permutation_refl.
Qed.

(** * 12. Entries built from option blocks *)
Fixpoint oblocks {X} (blk : str -> X -> option entry) (hx : list (str * X)) (acc : entry) : option entry :=
  match hx with
  | [] => Some acc
  | (o, x) :: r => match blk o x with None => None | Some d => oblocks blk r (eupdate acc d) end
  end.

Definition blk_ok {X} (csch : schema) (view : X -> obj) (blk : str -> X -> option entry) (P : X -> Prop) : Prop :=
  forall o x d, P x -> blk o x = Some d -> NoDup (map fst d) /\
    (forall a f t, In (a, (f, t)) (active csch) -> alookup d (opt_attr a o) = row_assigned2 (view x) f t) /\
    (forall k, In k (map fst d) -> exists a, In a (attrs csch) /\ k = opt_attr a o).

Lemma oblocks_spec {X} csch (view : X -> obj) blk P : blk_ok csch view blk P -> (forall a, In a (attrs csch) -> ~ In 59 a) ->
  forall hx acc D, oblocks blk hx acc = Some D -> NoDup (map fst acc) -> NoDup (map fst hx) -> (forall o x, In (o, x) hx -> P x) ->
  NoDup (map fst D) /\
  (forall o x, In (o, x) hx -> forall a f t, In (a, (f, t)) (active csch) ->
     alookup D (opt_attr a o) = match row_assigned2 (view x) f t with Some vs => Some vs | None => alookup acc (opt_attr a o) end) /\
  (forall k, (forall o x a, In (o, x) hx -> In a (attrs csch) -> k <> opt_attr a o) -> alookup D k = alookup acc k) /\
  (forall k, In k (map fst D) -> In k (map fst acc) \/ exists o x a, In (o, x) hx /\ In a (attrs csch) /\ k = opt_attr a o).
Proof.
  intros Hblk Hsemi. induction hx as [|[o x] r IH]; intros acc D HD Hacc Hnd HP; cbn [oblocks] in HD.
  - inversion HD; subst. split; [exact Hacc|]. split; [intros o x []|]. split; [reflexivity|]. intros k Hk. left. exact Hk.
  - destruct (blk o x) as [d|] eqn:Eb; [|discriminate]. destruct (Hblk o x d (HP o x (or_introl eq_refl)) Eb) as [Hd [Hrow Hkeys]].
    cbn [map fst] in Hnd. inversion Hnd as [|y l Ho Hr]; subst.
    destruct (IH (eupdate acc d) D HD (eupdate_nodup d acc Hacc) Hr (fun o' x' Hin => HP o' x' (or_intror Hin))) as [HndD [H2 [H3 H4]]].
    assert (Hattr_in : forall a f t, In (a, (f, t)) (active csch) -> In a (attrs csch)).
    { intros a f t Hin. unfold attrs. apply in_map_iff. exists (a, (f, t)). split; [reflexivity|exact Hin]. }
    assert (Hd_none : forall k, (forall a, In a (attrs csch) -> k <> opt_attr a o) -> alookup d k = None).
    { intros k Hk. apply alookup_none_iff. intros Hin. destruct (Hkeys k Hin) as [a [Ha ->]]. exact (Hk a Ha eq_refl). }
    assert (Hdiff : forall o' x' a a', In (o', x') r -> In a (attrs csch) -> In a' (attrs csch) -> opt_attr a o <> opt_attr a' o').
    { intros o' x' a a' Hin Ha Ha' Heq. apply opt_attr_inj in Heq as [_ ->]; [|apply Hsemi; exact Ha|apply Hsemi; exact Ha'].
      apply Ho. apply in_map_iff. exists (o', x'). split; [reflexivity|exact Hin]. }
    split; [exact HndD|]. split; [|split].
    + intros o' x' [Heq|Hin] a f t Hr'.
      * inversion Heq; subst o' x'.
        rewrite H3 by (intros o1 x1 a1 Hin1 Ha1; apply (Hdiff o1 x1 a a1 Hin1 (Hattr_in a f t Hr') Ha1)).
        rewrite (alookup_eupdate d acc _ Hd), (Hrow a f t Hr'). reflexivity.
      * rewrite (H2 o' x' Hin a f t Hr'). rewrite (alookup_eupdate d acc _ Hd).
        rewrite Hd_none; [reflexivity|]. intros a1 Ha1 Heq. symmetry in Heq. exact (Hdiff o' x' a1 a Hin Ha1 (Hattr_in a f t Hr') Heq).
    + intros k Hk. rewrite H3 by (intros o1 x1 a1 Hin1 Ha1; apply (Hk o1 x1 a1); [right; exact Hin1|exact Ha1]).
      rewrite (alookup_eupdate d acc _ Hd), Hd_none; [reflexivity|].
      intros a1 Ha1. apply (Hk o x a1); [left; reflexivity|exact Ha1].
    + intros k Hk. destruct (H4 k Hk) as [Hk'|[o1 [x1 [a1 [Hin1 [Ha1 ->]]]]]].
      * apply eupdate_keys in Hk' as [Hk'|Hk']; [left; exact Hk'|].
        destruct (Hkeys k Hk') as [a [Ha ->]]. right. exists o, x, a. split; [left; reflexivity|split; [exact Ha|reflexivity]].
      * right. exists o1, x1, a1. split; [right; exact Hin1|split; [exact Ha1|reflexivity]].
Qed.

(** plain blocks: _dict_2_entry(item, schema, prefix, idx) *)
Lemma blk_ok_d2e isch : NoDup (attrs isch) -> blk_ok isch (fun x => x) (fun o x => d2e (rename_opt isch o) x) (fun _ => True).
Proof.
  intros Hna o x d _ Hd. pose proof (attrs_rename_nodup isch o Hna) as Hna'.
  destruct (d2e_spec (rename_opt isch o) x d Hna' Hd) as [H1 [H2 H3]]. split; [exact H1|]. split.
  - intros a f t Hin. apply H2. rewrite active_rename. apply in_map_iff. exists (a, (f, t)). split; [reflexivity|exact Hin].
  - intros k Hk. apply (d2e_keys _ _ _ _ Hna' Hd) in Hk. rewrite attrs_rename in Hk. apply in_map_iff in Hk as [a [<- Ha]].
    exists a. split; [exact Ha|reflexivity].
Qed.

Fixpoint number {X} (p : str) (idx : Z) (l : list X) : list (str * X) :=
  match l with [] => [] | x :: r => (opt_name p idx, x) :: number p (idx + 1) r end.

Lemma item_blocks_oblocks isch p items : forall idx acc,
  item_blocks isch p idx items acc = oblocks (fun o x => d2e (rename_opt isch o) x) (number p idx items) acc.
Proof.
  induction items as [|x r IH]; intros idx acc; cbn [item_blocks number oblocks]; [reflexivity|].
  destruct (d2e (rename_opt isch (opt_name p idx)) x); [apply IH|reflexivity].
Qed.

Lemma number_in {X} p (l : list X) : forall idx o x, In (o, x) (number p idx l) -> exists i, idx <= i /\ o = opt_name p i /\ In x l.
Proof.
  induction l as [|y r IH]; intros idx o x Hin; [contradiction|]. cbn [number] in Hin. destruct Hin as [Heq|Hin].
  - inversion Heq; subst. exists idx. split; [lia|split; [reflexivity|left; reflexivity]].
  - destruct (IH (idx + 1) o x Hin) as [i [Hi [Ho Hx]]]. exists i. split; [lia|split; [exact Ho|right; exact Hx]].
Qed.

Lemma number_nodup {X} p (l : list X) : forall idx, NoDup (map fst (number p idx l)).
Proof.
  induction l as [|y r IH]; intros idx; cbn [number map fst]; constructor; [|apply IH].
  intros Hin. apply in_map_iff in Hin as [[o x] [Ho Hin]]. cbn [fst] in Ho. subst o.
  destruct (number_in p r (idx + 1) _ x Hin) as [i [Hi [Heq _]]]. apply opt_name_inj in Heq. lia.
Qed.

Lemma number_snd {X} p (l : list X) : forall idx, map snd (number p idx l) = l.
Proof. induction l as [|y r IH]; intros idx; cbn [number map snd]; [reflexivity|]. rewrite IH. reflexivity. Qed.

(** * 13. Several dict.update in a row, each on its own set of keys *)
Definition section := ((str -> Prop) * entry)%type.
Definition sec_ok (s : section) : Prop := NoDup (map fst (snd s)) /\ forall k, In k (map fst (snd s)) -> fst s k.
Fixpoint eupdates (acc : entry) (secs : list section) : entry :=
  match secs with [] => acc | s :: r => eupdates (eupdate acc (snd s)) r end.

Lemma eupdates_app acc s1 s2 : eupdates acc (s1 ++ s2) = eupdates (eupdates acc s1) s2.
Proof. revert acc. induction s1 as [|s r IH]; intros acc; cbn [app eupdates]; [reflexivity|apply IH]. Qed.

Lemma alookup_eupdate_skip (d e : entry) k : ~ In k (map fst d) -> alookup (eupdate e d) k = alookup e k.
Proof.
  revert e. induction d as [|[k0 v0] d IH]; intros e Hn; [reflexivity|]. rewrite eupdate_cons. cbn [fst snd].
  rewrite IH by (intros Hin; apply Hn; right; exact Hin). rewrite alookup_aset.
  rewrite str_eqb_neq; [reflexivity|]. intros ->. apply Hn. left. reflexivity.
Qed.

Lemma eupdates_spec secs : Forall sec_ok secs -> ForallOrdPairs (fun s s' : section => forall k, fst s k -> ~ fst s' k) secs ->
  forall acc, NoDup (map fst acc) -> (forall k s, In k (map fst acc) -> In s secs -> ~ fst s k) ->
  NoDup (map fst (eupdates acc secs)) /\
  (forall k, (forall s, In s secs -> ~ fst s k) -> alookup (eupdates acc secs) k = alookup acc k) /\
  (forall s k, In s secs -> fst s k -> alookup (eupdates acc secs) k = alookup (snd s) k) /\
  (forall k, In k (map fst (eupdates acc secs)) -> In k (map fst acc) \/ exists s, In s secs /\ In k (map fst (snd s))).
Proof.
  induction secs as [|s r IH]; intros Hok Hdis acc Hacc Hadis; cbn [eupdates].
  - split; [exact Hacc|]. split; [reflexivity|]. split; [intros s k []|]. intros k Hk. left. exact Hk.
  - inversion Hok as [|s' r' [Hsnd Hsk] Hokr]; subst. inversion Hdis as [|s' r' Hs Hdr]; subst.
    rewrite Forall_forall in Hs.
    destruct (IH Hokr Hdr (eupdate acc (snd s)) (eupdate_nodup (snd s) acc Hacc)) as [H1 [H2 [H3 H4]]].
    { intros k s' Hk Hs'. apply eupdate_keys in Hk as [Hk|Hk].
      - apply (Hadis k s' Hk). right. exact Hs'.
      - intros Hf. exact (Hs s' Hs' k (Hsk k Hk) Hf). }
    split; [exact H1|]. split; [|split].
    + intros k Hk. rewrite H2 by (intros s' Hs'; apply Hk; right; exact Hs').
      apply alookup_eupdate_skip. intros Hin. exact (Hk s (or_introl eq_refl) (Hsk k Hin)).
    + intros s' k [<-|Hs'] Hf.
      * rewrite H2 by (intros s' Hs'; apply (Hs s' Hs' k Hf)).
        rewrite (alookup_eupdate (snd s) acc k Hsnd). destruct (alookup (snd s) k) eqn:E; [reflexivity|].
        apply alookup_none_iff. intros Hin. exact (Hadis k s Hin (or_introl eq_refl) Hf).
      * apply (H3 s' k Hs' Hf).
    + intros k Hk. destruct (H4 k Hk) as [Hk'|[s' [Hs' Hk']]].
      * apply eupdate_keys in Hk' as [Hk'|Hk']; [left; exact Hk'|right; exists s; split; [left; reflexivity|exact Hk']].
      * right. exists s'. split; [right; exact Hs'|exact Hk'].
Qed.

(** * 14. _to_obj_list *)
Definition K_list (isch : schema) (hx : list (str * obj)) (k : str) : Prop :=
  In k (attrs isch) \/ exists o x a, In (o, x) hx /\ In a (attrs isch) /\ k = opt_attr a o.

Lemma keys_of_ok key items : forallb (has_str_key key) items = true ->
  exists ks, keys_of key items = oret ks /\ length ks = length items.
Proof.
  induction items as [|x r IH]; intros H; [exists []; split; reflexivity|]. cbn [forallb] in H.
  apply andb_true_iff in H as [Hx Hr]. destruct (IH Hr) as [ks [Hks Hlen]].
  unfold has_str_key in Hx. cbn [keys_of]. unfold key_of. destruct (alookup x key) as [[|s| | | | |]|]; try discriminate.
  exists (s :: ks). cbn [oret obind]. rewrite Hks. cbn [oret obind]. split; [reflexivity|cbn [length]; rewrite Hlen; reflexivity].
Qed.

Lemma sort_by_key_perm {A} ks (items : list A) : length ks = length items -> Permutation (sort_by_key ks items) items.
Proof.
  intros Hlen. unfold sort_by_key.
  eapply Permutation_trans; [apply Permutation_map, sort_by_perm|].
  assert (H : map snd (combine ks items) = items).
  { revert items Hlen. induction ks as [|k ks IH]; intros [|x items] Hlen; cbn in *; try discriminate; [reflexivity|].
    f_equal. apply IH. lia. }
  rewrite H. apply Permutation_refl.
Qed.

Lemma empty_list_entry_spec sch :
  NoDup (map fst (empty_list_entry sch)) /\ (forall k v, alookup (empty_list_entry sch) k = Some v -> v = [] /\ In k (map fst sch)).
Proof.
  unfold empty_list_entry.
  assert (H : forall acc : entry, NoDup (map fst acc) -> (forall k v, alookup acc k = Some v -> v = [] /\ In k (map fst sch ++ map fst acc)) ->
     NoDup (map fst (fold_left (fun a r => aset a (fst r) []) sch acc)) /\
     forall k v, alookup (fold_left (fun a (r : str * (option str * ftype)) => aset a (fst r) []) sch acc) k = Some v ->
                 v = [] /\ In k (map fst sch ++ map fst acc)).
  { induction sch as [|[a r0] sch IH]; intros acc Hnd Hacc; cbn [fold_left]; [split; [exact Hnd|exact Hacc]|].
    destruct (IH (aset acc a []) (aset_nodup acc a [] Hnd)) as [H1 H2].
    - intros k v. cbn [fst]. rewrite alookup_aset. destruct (str_eqb a k) eqn:E.
      + apply str_eqb_eq in E. subst k. intros Hv. inversion Hv; subst. split; [reflexivity|].
        apply in_or_app. right. rewrite aset_keys. destruct (existsb (str_eqb a) (map fst acc)) eqn:Ex.
        * apply existsb_exists in Ex as [y [Hy Ey]]. apply str_eqb_eq in Ey. subst y. exact Hy.
        * apply in_or_app. right. left. reflexivity.
      + intros Hv. destruct (Hacc k v Hv) as [Hv' Hin]. split; [exact Hv'|].
        apply in_app_or in Hin as [Hin|Hin]; apply in_or_app.
        * cbn [map fst] in Hin. destruct Hin as [<-|Hin]; [rewrite str_eqb_refl in E; discriminate|left; exact Hin].
        * right. rewrite aset_keys. destruct (existsb (str_eqb a) (map fst acc)); [exact Hin|apply in_or_app; left; exact Hin].
    - split; [exact H1|]. intros k v Hv. destruct (H2 k v Hv) as [Hv' Hin]. split; [exact Hv'|].
      apply in_app_or in Hin as [Hin|Hin]; apply in_or_app.
      + left. right. exact Hin.
      + cbn [fst] in Hin. rewrite aset_keys in Hin. destruct (existsb (str_eqb a) (map fst acc)); [right; exact Hin|].
        apply in_app_or in Hin as [Hin|[<-|[]]]; [right; exact Hin|left; left; reflexivity]. }
  destruct (H [] (NoDup_nil _)) as [H1 H2]; [intros k v Hv; discriminate|].
  split; [exact H1|]. intros k v Hv. destruct (H2 k v Hv) as [Hv' Hin]. split; [exact Hv'|].
  rewrite app_nil_r in Hin. exact Hin.
Qed.

Lemma all_active_attrs sch : all_active sch = true -> attrs sch = map fst sch.
Proof.
  unfold attrs. induction sch as [|[a [[f|] t]] r IH]; cbn [all_active forallb fst snd map]; intros H; [reflexivity| |discriminate].
  rewrite active_some. cbn [map fst]. f_equal. apply IH. exact H.
Qed.

Lemma oblocks_total {X} (blk : str -> X -> option entry) hx : (forall o x, In (o, x) hx -> exists d, blk o x = Some d) ->
  forall acc, exists D, oblocks blk hx acc = Some D.
Proof.
  induction hx as [|[o x] r IH]; intros H acc; cbn [oblocks]; [exists acc; reflexivity|].
  destruct (H o x (or_introl eq_refl)) as [d Hd]. rewrite Hd. apply IH. intros o' x' Hin. apply H. right. exact Hin.
Qed.

Definition isch_wf (isch : schema) : Prop :=
  NoDup (attrs isch) /\ (forall a, In a (attrs isch) -> ~ In 59 a /\ lower a = a) /\ attrs isch = map fst isch.

Lemma to_obj_list_spec items key p isch : isch_wf isch -> ~ In 59 p ->
  forallb (fun x => obj_typed2 isch x && has_str_key key x) items = true ->
  exists D sorted, to_obj_list items key p isch = oret D /\ Permutation sorted items /\ NoDup (map fst D) /\
    (forall k, In k (map fst D) -> K_list isch (number p 0 sorted) k) /\
    (forall o x, In (o, x) (number p 0 sorted) -> forall a f t, In (a, (f, t)) (active isch) ->
        alookup D (opt_attr a o) = row_assigned2 x f t).
Proof.
  intros [Hna [Hattr Hall]] Hp Hty.
  assert (Hkeys : forallb (has_str_key key) items = true).
  { rewrite forallb_forall in *. intros x Hx. specialize (Hty x Hx). apply andb_true_iff in Hty as [_ H]. exact H. }
  destruct (keys_of_ok key items Hkeys) as [ks [Hks Hlen]].
  unfold to_obj_list. rewrite Hks. cbn [oret obind].
  pose proof (sort_by_key_perm ks items Hlen) as Hperm.
  set (sorted := sort_by_key ks items) in *.
  destruct sorted as [|x0 r0] eqn:Es.
  - exists (empty_list_entry isch), []. split; [reflexivity|]. split; [exact Hperm|].
    destruct (empty_list_entry_spec isch) as [H1 H2]. split; [exact H1|]. split.
    + intros k Hk. left. rewrite Hall. destruct (alookup (empty_list_entry isch) k) as [v|] eqn:E.
      * apply (H2 k v E).
      * exfalso. apply (proj1 (alookup_none_iff _ k) E). exact Hk.
    + intros o x [].
  - rewrite <- Es in *. clear Es.
    assert (Htot : exists D, item_blocks isch p 0 sorted [] = Some D).
    { rewrite item_blocks_oblocks. apply oblocks_total. intros o x Hin.
      destruct (number_in p sorted 0 o x Hin) as [i [_ [_ Hx]]].
      assert (Hx' : In x items) by (eapply Permutation_in; [exact Hperm|exact Hx]).
      rewrite forallb_forall in Hty. specialize (Hty x Hx'). apply andb_true_iff in Hty as [Htx _].
      apply (d2e_total (rename_opt isch o) x); rewrite obj_typed2_rename; exact Htx. }
    destruct Htot as [D HD]. exists D, sorted. rewrite HD. split; [reflexivity|]. split; [exact Hperm|].
    rewrite item_blocks_oblocks in HD.
    destruct (oblocks_spec isch (fun x => x) _ _ (blk_ok_d2e isch Hna) (fun a Ha => proj1 (Hattr a Ha))
                (number p 0 sorted) [] D HD (NoDup_nil _) (number_nodup p sorted 0) (fun _ _ _ => I)) as [H1 [H2 [_ H4]]].
    split; [exact H1|]. split.
    + intros k Hk. destruct (H4 k Hk) as [[]|Hex]. right. exact Hex.
    + intros o x Hin a f t Hr. rewrite (H2 o x Hin a f t Hr). destruct (row_assigned2 x f t); reflexivity.
Qed.

(** * 15. Unpacking the table checks *)
Lemma row_is_spec sch f t : row_is sch f t = true -> exists a, In (a, (f, t)) (active sch).
Proof.
  unfold row_is. intros H. apply existsb_exists in H as [[a [[f'|] t']] [Hin H]]; [|discriminate].
  apply andb_true_iff in H as [Hf Ht]. apply str_eqb_eq in Hf. subst f'.
  assert (t' = t) by (destruct t, t'; try discriminate; reflexivity). subst t'.
  exists a. clear Ht. induction sch as [|[a0 [[f0|] t0]] r IH]; [contradiction| |].
  - rewrite active_some. destruct Hin as [Heq|Hin]; [inversion Heq; subst; left; reflexivity|right; apply IH; exact Hin].
  - rewrite active_none. destruct Hin as [Heq|Hin]; [discriminate|apply IH; exact Hin].
Qed.

Lemma disjoint_attrs_spec a b k : disjoint_attrs a b = true -> In k (map fst a) -> ~ In k (attrs b).
Proof.
  unfold disjoint_attrs, attrs. intros H Hin Hin'. rewrite forallb_forall in H.
  apply in_map_iff in Hin as [r [<- Hr]]. specialize (H r Hr). apply negb_true_iff in H.
  apply in_map_iff in Hin' as [q [Hq Hq']]. assert (existsb (fun q => str_eqb (fst q) (fst r)) (active b) = true).
  { apply existsb_exists. exists q. split; [exact Hq'|]. rewrite Hq. apply str_eqb_refl. }
  congruence.
Qed.

Lemma no_semicolon_spec s : no_semicolon s = true -> ~ In 59 s.
Proof. unfold no_semicolon. intros H Hin. apply memb_In in Hin. rewrite Hin in H. discriminate. Qed.

Lemma in_active_attrs sch a f t : In (a, (f, t)) (active sch) -> In a (attrs sch).
Proof. intros H. unfold attrs. apply in_map_iff. exists (a, (f, t)). split; [reflexivity|exact H]. Qed.

Lemma in_active_fields sch a f t : In (a, (f, t)) (active sch) -> In f (fields sch).
Proof. intros H. unfold fields. apply in_map_iff. exists (a, (f, t)). split; [reflexivity|exact H]. Qed.

Lemma list_spec_ok_spec base kt ls : list_spec_ok base kt ls = true ->
  isch_wf (ls_schema ls) /\ isch_ok (ls_schema ls) /\ (exists ak, In (ak, (ls_key ls, kt)) (active (ls_schema ls))) /\
  ls_lprefix ls = ls_prefix ls ++ [45] /\ ~ In 59 (ls_prefix ls) /\
  (forall k, In k (attrs (ls_schema ls)) -> ~ In k (attrs base)).
Proof.
  unfold list_spec_ok. intros H.
  apply andb_true_iff in H as [H H7]. apply andb_true_iff in H as [H H6]. apply andb_true_iff in H as [H H5].
  apply andb_true_iff in H as [H H4]. apply andb_true_iff in H as [H H3]. apply andb_true_iff in H as [H1 H2].
  destruct (wf_schema_spec _ H1) as [Hna [Hnf Hattr]]. pose proof (all_active_attrs _ H2) as Hall.
  split; [split; [exact Hna|split; [exact Hattr|exact Hall]]|]. split.
  - split; [exact Hnf|]. intros a f t Hin. rewrite forallb_forall in H3.
    assert (Hin' : exists r, In r (ls_schema ls) /\ snd (snd r) = t).
    { clear -Hin. induction (ls_schema ls) as [|[a0 [[f0|] t0]] r IH]; [contradiction| |].
      - rewrite active_some in Hin. destruct Hin as [Heq|Hin]; [inversion Heq; subst; eexists; split; [left; reflexivity|reflexivity]|].
        destruct (IH Hin) as [r' [Hr' Ht']]. exists r'. split; [right; exact Hr'|exact Ht'].
      - rewrite active_none in Hin. destruct (IH Hin) as [r' [Hr' Ht']]. exists r'. split; [right; exact Hr'|exact Ht']. }
    destruct Hin' as [r [Hr <-]]. apply H3. exact Hr.
  - split; [apply row_is_spec; exact H4|]. split; [apply str_eqb_eq; exact H5|]. split; [apply no_semicolon_spec; exact H6|].
    intros k Hk. apply (disjoint_attrs_spec _ _ k H7). rewrite <- Hall. exact Hk.
Qed.

Lemma key_present (E : entry) a o vs : alookup E (opt_attr a o) = Some vs -> ~ In 59 a -> ~ In 59 o ->
  exists k, In k (map fst E) /\ has_opt k = true /\ opt_of k = o.
Proof.
  intros H Ha Ho. exists (opt_attr a o). split; [eapply alookup_in_keys; exact H|]. split; [apply has_opt_opt|apply opt_of_opt; assumption].
Qed.

Lemma zlen_two {A} (x y : A) : zlen [x; y] = 2.
Proof. reflexivity. Qed.

Lemma stored_some_keep (r : option (list eval)) : stored (match r with Some vs => Some vs | None => None end) = stored r.
Proof. destruct r; reflexivity. Qed.

Lemma is_prefix_opt_name p lp i : lp = p ++ [45] -> is_prefix lp (opt_name p i) = true.
Proof. intros ->. unfold opt_name. change (p ++ 45 :: hex_of_Z i) with (p ++ [45] ++ hex_of_Z i). rewrite app_assoc. apply is_prefix_app. Qed.

(** * 16. A class schema plus one list written by _to_obj_list (CellAllocation, Partition) *)
Lemma items_P isch l : isch_ok isch -> forallb (obj_typed2 isch) l = true -> Forall (itemP isch) (map (nf_base isch) l).
Proof.
  intros Hok H. apply Forall_forall. intros a Ha. apply in_map_iff in Ha as [x [<- Hx]].
  rewrite forallb_forall in H. apply nf_item_P; [exact Hok|apply H; exact Hx].
Qed.

Theorem listobj_rt T sch ls o : wf_schema sch = true -> list_spec_ok sch TStr ls = true ->
  ts_ok (lt_ts_create T) = true -> ts_ok (lt_ts_modify T) = true ->
  obj_typed2 sch (lo_base o) = true -> items_typed ls (lo_items o) = true ->
  exists E, listobj_to_entry sch ls o = oret E /\
    base_from_entry T sch (remove_empty E) = Ok (nf_base sch (lo_base o)) /\
    grouped_list (remove_empty E) (ls_lprefix ls) (ls_schema ls) = Ok (nf_items (ls_schema ls) (items_or_nil (lo_items o))).
Proof.
  intros Hwf Hls Hc Hm Hty Hit.
  destruct (wf_schema_spec sch Hwf) as [Hna [Hnf Hattr]].
  destruct (list_spec_ok_spec sch TStr ls Hls) as [Hiw [Hiok [[ak Hak] [Hlp [Hp Hdisj]]]]].
  pose proof Hiw as [Hina [Hiattr Hiall]].
  destruct (d2e_total sch (lo_base o) Hty []) as [e0 He0]. fold (d2e sch (lo_base o)) in He0.
  destruct (d2e_spec sch (lo_base o) e0 Hna He0) as [Hnd0 [Hrow0 Hoth0]].
  unfold items_typed, item_typed in Hit.
  destruct (to_obj_list_spec (items_or_nil (lo_items o)) (ls_key ls) (ls_prefix ls) (ls_schema ls) Hiw Hp Hit)
    as [D [sorted [HD [Hperm [HndD [HkD HrowD]]]]]].
  set (hx := number (ls_prefix ls) 0 sorted) in *.
  exists (eupdate e0 D). unfold listobj_to_entry, base_to_entry. rewrite He0. cbn [olift oret obind]. rewrite HD. cbn [oret obind].
  split; [reflexivity|].
  set (E := eupdate e0 D). assert (HndE : NoDup (map fst E)) by (apply eupdate_nodup; exact Hnd0).
  assert (HlkE : forall k, alookup (remove_empty E) k = stored (match alookup D k with Some v => Some v | None => alookup e0 k end)).
  { intros k. rewrite (alookup_remove_empty E k HndE). unfold E. rewrite (alookup_eupdate D e0 k HndD). reflexivity. }
  assert (Hk0 : forall k, In k (map fst e0) -> ~ In 59 k /\ lower k = k).
  { intros k Hk. apply Hattr. eapply d2e_keys; eassumption. }
  assert (HsortedT : forall x, In x sorted -> obj_typed2 (ls_schema ls) x = true /\ has_str_key (ls_key ls) x = true).
  { intros x Hx. rewrite forallb_forall in Hit. apply andb_true_iff. apply Hit. eapply Permutation_in; [exact Hperm|exact Hx]. }
  assert (Hhx_o : forall o' x, In (o', x) hx -> ~ In 59 o' /\ In x sorted /\ is_prefix (ls_lprefix ls) o' = true).
  { intros o' x Hin. destruct (number_in _ _ _ _ _ Hin) as [i [_ [-> Hx]]].
    split; [apply opt_name_no_semicolon; exact Hp|]. split; [exact Hx|apply is_prefix_opt_name; exact Hlp]. }
  assert (HkE : forall k, In k (map fst (remove_empty E)) -> (~ In 59 k /\ lower k = k) \/
            exists o' x a, In (o', x) hx /\ In a (attrs (ls_schema ls)) /\ k = opt_attr a o').
  { intros k Hk. apply remove_empty_keys in Hk. apply eupdate_keys in Hk as [Hk|Hk]; [left; apply Hk0; exact Hk|].
    destruct (HkD k Hk) as [Hk'|Hk']; [left; apply Hiattr; exact Hk'|right; exact Hk']. }
  split.
  - (* the class schema *)
    apply base_from_entry_ok.
    + split; intros Hin; apply HkE in Hin as [[_ Hl]|[o' [x [a [_ [_ Heq]]]]]].
      * exact (proj2 (ts_ok_spec _ Hc) Hl).
      * exact (opt_attr_not_plain a o' _ (proj1 (ts_ok_spec _ Hc)) (eq_sym Heq)).
      * exact (proj2 (ts_ok_spec _ Hm) Hl).
      * exact (opt_attr_not_plain a o' _ (proj1 (ts_ok_spec _ Hm)) (eq_sym Heq)).
    + apply base_rt; [exact Hnf|exact Hty|]. intros a f t Hin. rewrite HlkE.
      assert (HDa : alookup D a = None).
      { apply alookup_none_iff. intros Hk. destruct (HkD a Hk) as [Hk'|[o' [x [a' [_ [_ Heq]]]]]].
        - exact (Hdisj a Hk' (in_active_attrs sch a f t Hin)).
        - exact (opt_attr_not_plain a' o' a (proj1 (Hattr a (in_active_attrs sch a f t Hin))) (eq_sym Heq)). }
      rewrite HDa, (Hrow0 a f t Hin). reflexivity.
  - (* the list *)
    assert (Hrows : forall o' x, In (o', x) hx -> forall a f t, In (a, (f, t)) (active (ls_schema ls)) ->
              alookup (remove_empty E) (opt_attr a o') = stored (row_assigned2 x f t)).
    { intros o' x Hin a f t Hr. rewrite HlkE, (HrowD o' x Hin a f t Hr).
      destruct (row_assigned2 x f t) as [vs|]; [reflexivity|].
      rewrite (alookup_none_notin e0); [reflexivity|]. intros Hk. apply Hk0 in Hk as [Hk _]. apply Hk.
      unfold opt_attr. apply in_or_app. right. left. reflexivity. }
    unfold nf_items.
    rewrite (grouped_list_spec (remove_empty E) (ls_lprefix ls) (ls_schema ls) hx Hiok (number_nodup _ _ _)).
    + f_equal. unfold hx. rewrite <- (map_map snd (nf_base (ls_schema ls))), number_snd.
      apply (items_sort_canon (ls_schema ls)); [|apply Permutation_map; exact Hperm].
      apply items_P; [exact Hiok|]. apply forallb_forall. intros x Hx. apply HsortedT. exact Hx.
    + intros o' x Hin. destruct (Hhx_o o' x Hin) as [Ho' [Hx Hpre]]. destruct (HsortedT x Hx) as [Htx Hkx].
      split; [exact Hpre|]. split; [exact Htx|]. split; [apply Hrows; exact Hin|].
      unfold has_str_key in Hkx. destruct (alookup x (ls_key ls)) as [[|s| | | | |]|] eqn:Ek; try discriminate.
      apply (key_present (remove_empty E) ak o' [EStr s]); [|apply Hiattr; eapply in_active_attrs; exact Hak|exact Ho'].
      rewrite (Hrows o' x Hin ak _ _ Hak). unfold row_assigned2. rewrite Ek. reflexivity.
    + intros k Hk Hopt _. apply HkE in Hk as [[Hk _]|[o' [x [a [Hin [Ha ->]]]]]].
      * rewrite (has_opt_plain k Hk) in Hopt. discriminate.
      * destruct (Hhx_o o' x Hin) as [Ho' _]. rewrite (opt_of_opt a o' (proj1 (Hiattr a Ha)) Ho').
        apply in_map_iff. exists (o', x). split; [reflexivity|exact Hin].
    + intros k Hk Hopt. apply HkE in Hk as [[Hk _]|[o' [x [a [Hin [Ha ->]]]]]].
      * rewrite (has_opt_plain k Hk) in Hopt. discriminate.
      * destruct (Hhx_o o' x Hin) as [Ho' _]. rewrite (key_parts_opt a o' (proj1 (Hiattr a Ha)) Ho'). reflexivity.
Qed.

(** * 17. CellAllocation, Partition *)
Lemma alookup_set_defaults_other o ds k : ~ In k (map fst ds) -> alookup (set_defaults o ds) k = alookup o k.
Proof.
  unfold set_defaults. revert o. induction ds as [|[f d] ds IH]; intros o Hn; cbn [fold_left]; [reflexivity|].
  rewrite IH by (intros Hin; apply Hn; right; exact Hin). cbn [fst snd]. rewrite alookup_set_default.
  destruct (alookup o k); [reflexivity|]. rewrite str_eqb_neq; [reflexivity|]. intros ->. apply Hn. left. reflexivity.
Qed.

Theorem ca_rt T o : ca_tables_ok T = true -> ca_typed T o = true -> ca_store_load T o = Some (Ok (ca_nf T o)).
Proof.
  unfold ca_tables_ok, ca_typed. intros HT Hty.
  apply andb_true_iff in HT as [HT Hpm]. apply andb_true_iff in HT as [HT Hdm]. apply andb_true_iff in HT as [HT Hrm].
  apply andb_true_iff in HT as [HT Hrp]. apply andb_true_iff in HT as [HT Hdef]. apply andb_true_iff in HT as [HT Hls].
  apply andb_true_iff in HT as [HT Hwf]. apply andb_true_iff in HT as [Hc Hm].
  apply andb_true_iff in Hty as [Hty Hmu]. apply andb_true_iff in Hty as [Hb Hit].
  destruct (listobj_rt T (lt_ca T) (lt_ca_list T) o Hwf Hls Hc Hm Hb Hit) as [E [HE [Hbase Hlist]]].
  unfold ca_store_load, ca_to_entry. rewrite HE. cbn [oret obind]. unfold ca_from_entry.
  rewrite Hbase. cbn [rlift obind]. rewrite Hlist. cbn [rlift obind].
  destruct (wf_schema_spec _ Hwf) as [_ [Hnf _]]. destruct (row_is_spec _ _ _ Hrm) as [am Ham].
  assert (Hmu0 : alookup (nf_base (lt_ca T) (lo_base o)) (lt_ca_maxutil T) = None).
  { rewrite (alookup_nf_base _ _ am _ TStr Hnf Ham). unfold absent_or_none in Hmu.
    destruct (alookup (lo_base o) (lt_ca_maxutil T)) as [[| | | | | |]|]; try discriminate; reflexivity. }
  assert (Hmu2 : alookup (set_default (set_defaults (nf_base (lt_ca T) (lo_base o)) (lt_ca_defaults T)) (lt_ca_partition T)
                            (FStr (lt_default_partition T))) (lt_ca_maxutil T) = None).
  { rewrite alookup_set_default, alookup_set_defaults_other, Hmu0.
    - apply negb_true_iff in Hpm. rewrite Hpm. reflexivity.
    - intros Hin. apply negb_true_iff in Hdm. apply in_map_iff in Hin as [d [Hd Hin]].
      assert (existsb (fun d => str_eqb (fst d) (lt_ca_maxutil T)) (lt_ca_defaults T) = true)
        by (apply existsb_exists; exists d; split; [exact Hin|rewrite Hd; apply str_eqb_refl]).
      congruence. }
  rewrite Hmu2. reflexivity.
Qed.

Theorem pt_rt T o : pt_tables_ok T = true -> pt_typed T o = true -> pt_store_load T o = Some (Ok (pt_nf T o)).
Proof.
  unfold pt_tables_ok, pt_typed. intros HT Hty.
  apply andb_true_iff in HT as [HT Hdef]. apply andb_true_iff in HT as [HT Hls].
  apply andb_true_iff in HT as [HT Hwf]. apply andb_true_iff in HT as [Hc Hm].
  apply andb_true_iff in Hty as [Hb Hit].
  destruct (listobj_rt T (lt_pt T) (lt_pt_list T) o Hwf Hls Hc Hm Hb Hit) as [E [HE [Hbase Hlist]]].
  unfold pt_store_load, pt_to_entry. rewrite HE. cbn [oret obind]. unfold pt_from_entry.
  rewrite Hbase. cbn [rlift obind]. rewrite Hlist. cbn [rlift obind]. reflexivity.
Qed.

(** * 18. Cell: the option index is the master's own idx *)
Definition cell_hx (p : str) (zs : list Z) (ms : list obj) : list (str * obj) := combine (map (opt_name p) zs) ms.

Lemma cell_blocks_oblocks ls ms : forall zs acc, all_some (map (idx_of (ls_key ls)) ms) = Some zs ->
  cell_blocks ls ms acc = olift (oblocks (fun o x => d2e (rename_opt (ls_schema ls) o) x) (cell_hx (ls_prefix ls) zs ms) acc).
Proof.
  induction ms as [|m r IH]; intros zs acc Hz; cbn [map all_some] in Hz.
  - inversion Hz; subst. reflexivity.
  - destruct (idx_of (ls_key ls) m) as [z|] eqn:Ez; [|discriminate].
    destruct (all_some (map (idx_of (ls_key ls)) r)) as [zs'|] eqn:Er; [|discriminate]. inversion Hz; subst zs.
    unfold idx_of in Ez. cbn [cell_blocks cell_hx map combine oblocks].
    destruct (alookup m (ls_key ls)) as [[| |z'| | | |]|]; try discriminate. inversion Ez; subst z'.
    destruct (d2e (rename_opt (ls_schema ls) (opt_name (ls_prefix ls) z)) m); [apply (IH zs' _ eq_refl)|reflexivity].
Qed.

Lemma z_nodup_NoDup l : z_nodup l = true -> NoDup l.
Proof.
  induction l as [|x r IH]; cbn [z_nodup]; intros H; [constructor|]. apply andb_true_iff in H as [Hx Hr].
  constructor; [|apply IH; exact Hr]. intros Hin. apply negb_true_iff in Hx.
  assert (existsb (Z.eqb x) r = true) by (apply existsb_exists; exists x; split; [exact Hin|apply Z.eqb_refl]). congruence.
Qed.

Lemma all_some_length {A} (l : list (option A)) r : all_some l = Some r -> length r = length l.
Proof.
  revert r. induction l as [|[x|] l IH]; intros r H; cbn [all_some] in H; try discriminate; [inversion H; reflexivity|].
  destruct (all_some l) as [r'|]; [|discriminate]. inversion H; subst. cbn [length]. rewrite (IH r' eq_refl). reflexivity.
Qed.

Lemma combine_fst {A B} (l1 : list A) (l2 : list B) : length l1 = length l2 -> map fst (combine l1 l2) = l1.
Proof. revert l2. induction l1 as [|x l1 IH]; intros [|y l2] H; cbn in *; try discriminate; [reflexivity|]. f_equal. apply IH. lia. Qed.
Lemma combine_snd {A B} (l1 : list A) (l2 : list B) : length l1 = length l2 -> map snd (combine l1 l2) = l2.
Proof. revert l2. induction l1 as [|x l1 IH]; intros [|y l2] H; cbn in *; try discriminate; [reflexivity|]. f_equal. apply IH. lia. Qed.

Lemma cell_hx_in ls ms : forall zs o x, all_some (map (idx_of (ls_key ls)) ms) = Some zs -> In (o, x) (cell_hx (ls_prefix ls) zs ms) ->
  exists z, o = opt_name (ls_prefix ls) z /\ In x ms /\ alookup x (ls_key ls) = Some (FInt z).
Proof.
  induction ms as [|m r IH]; intros zs o x Hz Hin; cbn [map all_some] in Hz.
  - inversion Hz; subst. contradiction.
  - destruct (idx_of (ls_key ls) m) as [z|] eqn:Ez; [|discriminate].
    destruct (all_some (map (idx_of (ls_key ls)) r)) as [zs'|] eqn:Er; [|discriminate]. inversion Hz; subst zs.
    cbn [cell_hx map combine] in Hin. destruct Hin as [Heq|Hin].
    + inversion Heq; subst. exists z. split; [reflexivity|]. split; [left; reflexivity|].
      unfold idx_of in Ez. destruct (alookup x (ls_key ls)) as [[| |z'| | | |]|]; try discriminate. congruence.
    + destruct (IH zs' o x eq_refl Hin) as [z' [Ho [Hx Hk]]]. exists z'. split; [exact Ho|split; [right; exact Hx|exact Hk]].
Qed.

Theorem cell_rt T o : cell_tables_ok T = true -> cell_typed T o = true -> cell_store_load T o = Some (Ok (cell_nf T o)).
Proof.
  unfold cell_tables_ok, cell_typed. intros HT Hty.
  apply andb_true_iff in HT as [HT Hls]. apply andb_true_iff in HT as [HT Hwf]. apply andb_true_iff in HT as [Hc Hm].
  apply andb_true_iff in Hty as [Hty Hidx]. apply andb_true_iff in Hty as [Hb Hit].
  set (sch := lt_cell T) in *. set (ls := lt_cell_masters T) in *. set (ms := items_or_nil (lo_items o)) in *.
  destruct (all_some (map (idx_of (ls_key ls)) ms)) as [zs|] eqn:Ezs; [|discriminate].
  apply z_nodup_NoDup in Hidx.
  destruct (wf_schema_spec sch Hwf) as [Hna [Hnf Hattr]].
  destruct (list_spec_ok_spec sch TInt ls Hls) as [Hiw [Hiok [[ak Hak] [Hlp [Hp Hdisj]]]]].
  pose proof Hiw as [Hina [Hiattr Hiall]].
  destruct (d2e_total sch (lo_base o) Hb []) as [e0 He0]. fold (d2e sch (lo_base o)) in He0.
  destruct (d2e_spec sch (lo_base o) e0 Hna He0) as [Hnd0 [Hrow0 Hoth0]].
  set (hx := cell_hx (ls_prefix ls) zs ms).
  assert (Hlen : length (map (opt_name (ls_prefix ls)) zs) = length ms).
  { rewrite map_length, (all_some_length _ _ Ezs), map_length. reflexivity. }
  assert (Hhx_nd : NoDup (map fst hx)).
  { unfold hx, cell_hx. rewrite (combine_fst _ _ Hlen). apply FinFun.Injective_map_NoDup; [|exact Hidx].
    intros a b Hab. apply opt_name_inj in Hab. exact Hab. }
  assert (Hhx : forall o' x, In (o', x) hx -> ~ In 59 o' /\ In x ms /\ is_prefix (ls_lprefix ls) o' = true /\
                 exists z, alookup x (ls_key ls) = Some (FInt z)).
  { intros o' x Hin. destruct (cell_hx_in ls ms zs o' x Ezs Hin) as [z [-> [Hx Hk]]].
    split; [apply opt_name_no_semicolon; exact Hp|]. split; [exact Hx|]. split; [apply is_prefix_opt_name; exact Hlp|].
    exists z. exact Hk. }
  assert (Htot : exists E, oblocks (fun o x => d2e (rename_opt (ls_schema ls) o) x) hx e0 = Some E).
  { apply oblocks_total. intros o' x Hin. destruct (Hhx o' x Hin) as [_ [Hx _]].
    rewrite forallb_forall in Hit. apply (d2e_total (rename_opt (ls_schema ls) o') x). rewrite obj_typed2_rename. apply Hit. exact Hx. }
  destruct Htot as [E HE].
  unfold cell_store_load, cell_to_entry, base_to_entry. fold sch ls ms. rewrite He0. cbn [olift oret obind].
  rewrite (cell_blocks_oblocks ls ms zs e0 Ezs). fold hx. rewrite HE. cbn [olift oret obind].
  destruct (oblocks_spec (ls_schema ls) (fun x => x) _ _ (blk_ok_d2e _ Hina) (fun a Ha => proj1 (Hiattr a Ha)) hx e0 E HE Hnd0 Hhx_nd
              (fun _ _ _ => I)) as [HndE [H2 [H3 H4]]].
  assert (Hk0 : forall k, In k (map fst e0) -> ~ In 59 k /\ lower k = k).
  { intros k Hk. apply Hattr. eapply d2e_keys; eassumption. }
  assert (HkE : forall k, In k (map fst (remove_empty E)) -> (~ In 59 k /\ lower k = k) \/
            exists o' x a, In (o', x) hx /\ In a (attrs (ls_schema ls)) /\ k = opt_attr a o').
  { intros k Hk. apply remove_empty_keys in Hk. destruct (H4 k Hk) as [Hk'|Hk']; [left; apply Hk0; exact Hk'|right; exact Hk']. }
  unfold cell_from_entry. fold sch ls.
  assert (Hbase : base_from_entry T sch (remove_empty E) = Ok (nf_base sch (lo_base o))).
  { apply base_from_entry_ok.
    - split; intros Hin; apply HkE in Hin as [[_ Hl]|[o' [x [a [_ [_ Heq]]]]]].
      + exact (proj2 (ts_ok_spec _ Hc) Hl).
      + exact (opt_attr_not_plain a o' _ (proj1 (ts_ok_spec _ Hc)) (eq_sym Heq)).
      + exact (proj2 (ts_ok_spec _ Hm) Hl).
      + exact (opt_attr_not_plain a o' _ (proj1 (ts_ok_spec _ Hm)) (eq_sym Heq)).
    - apply base_rt; [exact Hnf|exact Hb|]. intros a f t Hin. rewrite (alookup_remove_empty E a HndE).
      rewrite H3, (Hrow0 a f t Hin); [reflexivity|].
      intros o' x a' _ _ Heq. exact (opt_attr_not_plain a' o' a (proj1 (Hattr a (in_active_attrs sch a f t Hin))) (eq_sym Heq)). }
  rewrite Hbase. cbn [rlift obind].
  assert (Hrows : forall o' x, In (o', x) hx -> forall a f t, In (a, (f, t)) (active (ls_schema ls)) ->
            alookup (remove_empty E) (opt_attr a o') = stored (row_assigned2 x f t)).
  { intros o' x Hin a f t Hr. rewrite (alookup_remove_empty E _ HndE), (H2 o' x Hin a f t Hr).
    destruct (row_assigned2 x f t) as [vs|]; [reflexivity|].
    rewrite (alookup_none_notin e0); [reflexivity|]. intros Hk. apply Hk0 in Hk as [Hk _]. apply Hk.
    unfold opt_attr. apply in_or_app. right. left. reflexivity. }
  rewrite (grouped_list_spec (remove_empty E) (ls_lprefix ls) (ls_schema ls) hx Hiok Hhx_nd).
  - cbn [rlift obind]. unfold cell_nf, nf_items. fold sch ls ms. unfold oret. do 3 f_equal.
    rewrite <- (map_map snd (nf_base (ls_schema ls))). unfold hx, cell_hx. rewrite (combine_snd _ _ Hlen). reflexivity.
  - intros o' x Hin. destruct (Hhx o' x Hin) as [Ho' [Hx [Hpre [z Hz]]]].
    split; [exact Hpre|]. split; [rewrite forallb_forall in Hit; apply Hit; exact Hx|]. split; [apply Hrows; exact Hin|].
    apply (key_present (remove_empty E) ak o' [EStr (str_of_Z z)]); [|apply Hiattr; eapply in_active_attrs; exact Hak|exact Ho'].
    rewrite (Hrows o' x Hin ak _ _ Hak). unfold row_assigned2. rewrite Hz. reflexivity.
  - intros k Hk Hopt _. apply HkE in Hk as [[Hk _]|[o' [x [a [Hin [Ha ->]]]]]].
    + rewrite (has_opt_plain k Hk) in Hopt. discriminate.
    + destruct (Hhx o' x Hin) as [Ho' _]. rewrite (opt_of_opt a o' (proj1 (Hiattr a Ha)) Ho').
      apply in_map_iff. exists (o', x). split; [reflexivity|exact Hin].
  - intros k Hk Hopt. apply HkE in Hk as [[Hk _]|[o' [x [a [Hin [Ha ->]]]]]].
    + rewrite (has_opt_plain k Hk) in Hopt. discriminate.
    + destruct (Hhx o' x Hin) as [Ho' _]. rewrite (key_parts_opt a o' (proj1 (Hiattr a Ha)) Ho'). reflexivity.
Qed.

(** * 19. Reading an entry that holds several option-indexed lists *)
Record lsec := { l_lp : str; l_csch : schema; l_hx : list (str * obj) }.

Definition plain_key (k : str) : Prop := ~ In 59 k /\ lower k = k.
Definition opt_key_of (secs : list lsec) (k : str) : Prop :=
  exists L o x a, In L secs /\ In (o, x) (l_hx L) /\ In a (attrs (l_csch L)) /\ k = opt_attr a o.

Definition layout_ok (E : entry) (secs : list lsec) : Prop :=
  NoDup (map fst E) /\
  (forall k, In k (map fst E) -> plain_key k \/ opt_key_of secs k) /\
  (forall L, In L secs -> (forall a, In a (attrs (l_csch L)) -> ~ In 59 a) /\ NoDup (map fst (l_hx L)) /\
     forall o x, In (o, x) (l_hx L) -> ~ In 59 o /\ is_prefix (l_lp L) o = true /\
       forall a f t, In (a, (f, t)) (active (l_csch L)) -> alookup E (opt_attr a o) = row_assigned2 x f t) /\
  (forall L L' o x, In L secs -> In L' secs -> In (o, x) (l_hx L) -> is_prefix (l_lp L') o = true -> L' = L).

Lemma layout_ts T E secs : layout_ok E secs -> ts_ok (lt_ts_create T) = true -> ts_ok (lt_ts_modify T) = true ->
  ts_absent T (remove_empty E).
Proof.
  intros [_ [Hk _]] Hc Hm.
  assert (H : forall a, ts_ok a = true -> ~ In a (map fst (remove_empty E))).
  { intros a Ha Hin. apply remove_empty_keys in Hin. destruct (ts_ok_spec a Ha) as [Hs Hl].
    destruct (Hk a Hin) as [[_ Hlow]|[L [o [x [a' [_ [_ [_ Heq]]]]]]]]; [exact (Hl Hlow)|].
    exact (opt_attr_not_plain a' o a Hs (eq_sym Heq)). }
  split; apply H; assumption.
Qed.

Theorem multi_read E secs L isch : layout_ok E secs -> In L secs -> isch_ok isch ->
  (forall r, In r (active isch) -> In r (active (l_csch L))) ->
  (forall o x, In (o, x) (l_hx L) -> obj_typed2 isch x = true /\
     exists a f t v vs, In (a, (f, t)) (active (l_csch L)) /\ row_assigned2 x f t = Some (v :: vs)) ->
  grouped_list (remove_empty E) (l_lp L) isch = Ok (sort_by item_lt (map (fun ox => nf_base isch (snd ox)) (l_hx L))).
Proof.
  intros [HndE [Hkeys [Hsecs Hclash]]] HL Hiok Hsub Hitems.
  destruct (Hsecs L HL) as [HsemiL [HndL HhxL]].
  assert (Hopt : forall k, In k (map fst (remove_empty E)) -> has_opt k = true ->
            exists L' o x a, In L' secs /\ In (o, x) (l_hx L') /\ In a (attrs (l_csch L')) /\ k = opt_attr a o /\ ~ In 59 a /\ ~ In 59 o).
  { intros k Hk Hopt. apply remove_empty_keys in Hk. destruct (Hkeys k Hk) as [[Hp _]|[L' [o [x [a [HL' [Hin [Ha ->]]]]]]]].
    - rewrite (has_opt_plain k Hp) in Hopt. discriminate.
    - destruct (Hsecs L' HL') as [Hsemi' [_ Hhx']]. destruct (Hhx' o x Hin) as [Ho _].
      exists L', o, x, a. repeat split; try assumption. apply Hsemi'. exact Ha. }
  apply grouped_list_spec; [exact Hiok|exact HndL| | |].
  - intros o x Hin. destruct (HhxL o x Hin) as [Ho [Hpre Hrows]]. destruct (Hitems o x Hin) as [Htx [a [f [t [v [vs [Hr Hv]]]]]]].
    split; [exact Hpre|]. split; [exact Htx|]. split.
    + intros a' f' t' Hr'. rewrite (alookup_remove_empty E _ HndE), (Hrows a' f' t' (Hsub _ Hr')). reflexivity.
    + apply (key_present (remove_empty E) a o (v :: vs)); [|apply HsemiL; eapply in_active_attrs; exact Hr|exact Ho].
      rewrite (alookup_remove_empty E _ HndE), (Hrows a f t Hr), Hv. reflexivity.
  - intros k Hk Hopt' Hpre. destruct (Hopt k Hk Hopt') as [L' [o [x [a [HL' [Hin [Ha [-> [Hsa Hso]]]]]]]]].
    rewrite (opt_of_opt a o Hsa Hso) in *. rewrite (Hclash L' L o x HL' HL Hin Hpre) in *.
    apply in_map_iff. exists (o, x). split; [reflexivity|exact Hin].
  - intros k Hk Hopt'. destruct (Hopt k Hk Hopt') as [L' [o [x [a [_ [_ [_ [-> [Hsa Hso]]]]]]]]].
    rewrite (key_parts_opt a o Hsa Hso). reflexivity.
Qed.

(** reading through a schema none of whose option groups is in the entry *)
Theorem multi_read_absent E secs lp isch : layout_ok E secs ->
  (forall L o x, In L secs -> In (o, x) (l_hx L) -> is_prefix lp o = false) ->
  grouped_list (remove_empty E) lp isch = Ok [].
Proof.
  intros [HndE [Hkeys [Hsecs _]]] Hno. unfold grouped_list.
  assert (Hnil : filter (is_prefix lp) (opts_of (remove_empty E)) = []).
  { destruct (filter (is_prefix lp) (opts_of (remove_empty E))) as [|o r] eqn:Ef; [reflexivity|]. exfalso.
    assert (Hin : In o (filter (is_prefix lp) (opts_of (remove_empty E)))) by (rewrite Ef; left; reflexivity).
    apply filter_In in Hin as [Hin Hpre]. apply opts_of_in in Hin as [k [Hk [Hopt <-]]].
    apply remove_empty_keys in Hk. destruct (Hkeys k Hk) as [[Hp _]|[L [o' [x [a [HL [Hin [Ha ->]]]]]]]].
    - rewrite (has_opt_plain k Hp) in Hopt. discriminate.
    - destruct (Hsecs L HL) as [Hsemi [_ Hhx]]. destruct (Hhx o' x Hin) as [Ho' _].
      rewrite (opt_of_opt a o' (Hsemi a Ha) Ho') in Hpre. rewrite (Hno L o' x HL Hin) in Hpre. discriminate. }
  rewrite Hnil. reflexivity.
Qed.

(** * 20. Application: the tables *)
Ltac split_app HT :=
  apply andb_true_iff in HT as [HT Hvdis]; apply andb_true_iff in HT as [HT Hvshape];
  apply andb_true_iff in HT as [HT Hports2]; apply andb_true_iff in HT as [HT Hports1];
  apply andb_true_iff in HT as [HT Hudpf]; apply andb_true_iff in HT as [HT Htcpf];
  apply andb_true_iff in HT as [HT Haffshape]; apply andb_true_iff in HT as [HT Hdflt];
  apply andb_true_iff in HT as [HT Hrshape]; apply andb_true_iff in HT as [HT Hctypes];
  apply andb_true_iff in HT as [HT Hcdis]; apply andb_true_iff in HT as [HT Hcall];
  apply andb_true_iff in HT as [HT Hcwf]; apply andb_true_iff in HT as [HT Hpdis];
  apply andb_true_iff in HT as [HT Hnoclash]; apply andb_true_iff in HT as [HT Hlists];
  apply andb_true_iff in HT as [HT Hwf]; apply andb_true_iff in HT as [Hc Hm].

Lemma rst_shape_spec T :
  match lt_app_rst_schema T, ls_schema (lt_app_svc T) with
  | (a0, (Some f0, TStr)) :: (a1, (Some f1, TInt)) :: (a2, (Some f2, TInt)) :: [], (b0, (Some g0, TStr)) :: rest =>
      str_eqb a0 b0 && str_eqb f0 g0 && str_eqb f0 (ls_key (lt_app_svc T))
      && str_eqb f1 (lt_app_rst_limit T) && str_eqb f2 (lt_app_rst_interval T)
  | _, _ => false
  end = true ->
  exists a0 a1 a2 rest,
    lt_app_rst_schema T = [(a0, (Some (ls_key (lt_app_svc T)), TStr)); (a1, (Some (lt_app_rst_limit T), TInt));
                           (a2, (Some (lt_app_rst_interval T), TInt))] /\
    ls_schema (lt_app_svc T) = (a0, (Some (ls_key (lt_app_svc T)), TStr)) :: rest.
Proof.
  destruct (lt_app_rst_schema T) as [|[a0 [[f0|] t0]] r0]; try discriminate. destruct t0; try discriminate.
  destruct r0 as [|[a1 [[f1|] t1]] r1]; try discriminate. destruct t1; try discriminate.
  destruct r1 as [|[a2 [[f2|] t2]] r2]; try discriminate. destruct t2; try discriminate.
  destruct r2; try discriminate.
  destruct (ls_schema (lt_app_svc T)) as [|[b0 [[g0|] u0]] rest]; try discriminate. destruct u0; try discriminate.
  intros H. apply andb_true_iff in H as [H H5]. apply andb_true_iff in H as [H H4]. apply andb_true_iff in H as [H H3].
  apply andb_true_iff in H as [H1 H2]. apply str_eqb_eq in H1, H2, H3, H4, H5. subst.
  exists b0, a1, a2, rest. split; reflexivity.
Qed.

Lemma dflt_shape_spec T :
  match lt_app_default_restart T with
  | [(a, _); (b, _)] => str_eqb a (lt_app_rst_limit T) && str_eqb b (lt_app_rst_interval T)
  | _ => false
  end = true ->
  exists l i, default_restart T = [(lt_app_rst_limit T, FInt l); (lt_app_rst_interval T, FInt i)].
Proof.
  unfold default_restart. destruct (lt_app_default_restart T) as [|[a l] [|[b i] [|]]]; try discriminate.
  intros H. apply andb_true_iff in H as [H1 H2]. apply str_eqb_eq in H1, H2. subst. exists l, i. reflexivity.
Qed.

(** * 21. Application: services *)
Definition rst_of (T : ltables) (s : svc) : obj :=
  eupdate (default_restart T) (match sv_restart s with Some d => d | None => [] end).
Definition svc_view (T : ltables) (s : svc) : obj :=
  [(lt_app_rst_limit T, get_default (rst_of T s) (lt_app_rst_limit T) FNone);
   (lt_app_rst_interval T, get_default (rst_of T s) (lt_app_rst_interval T) FNone)] ++ sv_fields s.
Definition svc_blk (T : ltables) (o : str) (s : svc) : option entry :=
  match d2e (rename_opt (ls_schema (lt_app_svc T)) o) (sv_fields s) with
  | None => None
  | Some se => match d2e (rename_opt (lt_app_rst_schema T) o) (rst_of T s) with
               | None => None
               | Some re => Some (eupdate se re)
               end
  end.

Lemma svc_blocks_oblocks T ss : forall idx acc,
  svc_blocks T idx ss acc = oblocks (svc_blk T) (number (ls_prefix (lt_app_svc T)) idx ss) acc.
Proof.
  induction ss as [|s r IH]; intros idx acc; cbn [svc_blocks number oblocks]; [reflexivity|]. unfold svc_blk at 1. fold (rst_of T s).
  destruct (d2e (rename_opt (ls_schema (lt_app_svc T)) (opt_name (ls_prefix (lt_app_svc T)) idx)) (sv_fields s)); [|reflexivity].
  destruct (d2e (rename_opt (lt_app_rst_schema T) (opt_name (ls_prefix (lt_app_svc T)) idx)) (rst_of T s)); [apply IH|reflexivity].
Qed.

(** the restart settings of a typed service: limit and interval, both ints *)
Lemma rst_of_spec T s l0 i0 : default_restart T = [(lt_app_rst_limit T, FInt l0); (lt_app_rst_interval T, FInt i0)] ->
  lt_app_rst_limit T <> lt_app_rst_interval T -> restart_typed T (sv_restart s) = true ->
  (exists l, alookup (rst_of T s) (lt_app_rst_limit T) = Some (FInt l)) /\
  (exists i, alookup (rst_of T s) (lt_app_rst_interval T) = Some (FInt i)) /\
  (forall k, k <> lt_app_rst_limit T -> k <> lt_app_rst_interval T -> alookup (rst_of T s) k = None).
Proof.
  intros Hd Hne Hty. unfold rst_of. rewrite Hd.
  set (d := match sv_restart s with Some d => d | None => [] end).
  assert (Hd' : NoDup (map fst d) /\ forall k v, alookup d k = Some v ->
                  (k = lt_app_rst_limit T \/ k = lt_app_rst_interval T) /\ exists z, v = FInt z).
  { unfold d, restart_typed in *. destruct (sv_restart s) as [d0|]; [|split; [constructor|intros k v Hv; discriminate]].
    apply andb_true_iff in Hty as [Hnd Hall]. split; [apply keys_nodup_NoDup; exact Hnd|].
    intros k v Hv. apply alookup_some_in in Hv. rewrite forallb_forall in Hall. specialize (Hall _ Hv). cbn [fst snd] in Hall.
    apply andb_true_iff in Hall as [Hk Hz]. split.
    - apply orb_true_iff in Hk as [Hk|Hk]; apply str_eqb_eq in Hk; [left|right]; exact Hk.
    - destruct v; try discriminate. eexists. reflexivity. }
  destruct Hd' as [Hnd Hvals].
  assert (Hlk : forall k, alookup (eupdate [(lt_app_rst_limit T, FInt l0); (lt_app_rst_interval T, FInt i0)] d) k
                = match alookup d k with Some v => Some v | None =>
                    alookup [(lt_app_rst_limit T, FInt l0); (lt_app_rst_interval T, FInt i0)] k end)
    by (intros k; apply alookup_eupdate; exact Hnd).
  split; [|split].
  - rewrite Hlk. destruct (alookup d (lt_app_rst_limit T)) as [v|] eqn:E.
    + destruct (Hvals _ _ E) as [_ [z ->]]. exists z. reflexivity.
    + cbn [alookup]. rewrite str_eqb_refl. exists l0. reflexivity.
  - rewrite Hlk. destruct (alookup d (lt_app_rst_interval T)) as [v|] eqn:E.
    + destruct (Hvals _ _ E) as [_ [z ->]]. exists z. reflexivity.
    + cbn [alookup]. rewrite (str_eqb_neq _ _ Hne), str_eqb_refl. exists i0. reflexivity.
  - intros k H1 H2. rewrite Hlk. destruct (alookup d k) as [v|] eqn:E.
    + destruct (Hvals _ _ E) as [[->| ->] _]; contradiction.
    + cbn [alookup]. rewrite (str_eqb_neq _ k (fun e => H1 (eq_sym e))), (str_eqb_neq _ k (fun e => H2 (eq_sym e))). reflexivity.
Qed.

Lemma active_app (s1 s2 : schema) : active (s1 ++ s2) = active s1 ++ active s2.
Proof. unfold active. apply flat_map_app. Qed.

Lemma row_assigned2_ext o o' f t : alookup o f = alookup o' f -> row_assigned2 o f t = row_assigned2 o' f t.
Proof. intros H. unfold row_assigned2. rewrite H. reflexivity. Qed.

Section AppSvc.
  Variable T : ltables.
  Variables a0 a1 a2 : str.
  Variable rest : schema.
  Let key := ls_key (lt_app_svc T).
  Let lim := lt_app_rst_limit T.
  Let itv := lt_app_rst_interval T.
  Hypothesis Hrs : lt_app_rst_schema T = [(a0, (Some key, TStr)); (a1, (Some lim, TInt)); (a2, (Some itv, TInt))].
  Hypothesis Hsv : ls_schema (lt_app_svc T) = (a0, (Some key, TStr)) :: rest.
  Hypothesis Hcwf : wf_schema (app_csch T) = true.
  Variables l0 i0 : Z.
  Hypothesis Hdflt : default_restart T = [(lim, FInt l0); (itv, FInt i0)].

  Lemma csch_active : active (app_csch T) = active (ls_schema (lt_app_svc T)) ++ [(a1, (lim, TInt)); (a2, (itv, TInt))].
  Proof. unfold app_csch. rewrite active_app, Hrs. reflexivity. Qed.

  Lemma csch_facts :
    NoDup (attrs (ls_schema (lt_app_svc T))) /\ NoDup (fields (ls_schema (lt_app_svc T))) /\
    ~ In a1 (attrs (ls_schema (lt_app_svc T))) /\ ~ In a2 (attrs (ls_schema (lt_app_svc T))) /\ a1 <> a2 /\
    ~ In lim (fields (ls_schema (lt_app_svc T))) /\ ~ In itv (fields (ls_schema (lt_app_svc T))) /\ lim <> itv /\
    In a0 (attrs (ls_schema (lt_app_svc T))) /\ In key (fields (ls_schema (lt_app_svc T))) /\
    (forall a, In a (attrs (app_csch T)) -> ~ In 59 a /\ lower a = a).
  Proof.
    destruct (wf_schema_spec _ Hcwf) as [Hna [Hnf Hattr]]. unfold attrs, fields in Hna, Hnf. rewrite csch_active in Hna, Hnf.
    rewrite map_app in Hna, Hnf. cbn [map fst snd] in Hna, Hnf.
    pose proof (NoDup_remove_1 _ _ _ Hna) as Hna1. pose proof (NoDup_remove_2 _ _ _ Hna) as Hna2.
    pose proof (NoDup_remove_1 _ _ _ Hnf) as Hnf1. pose proof (NoDup_remove_2 _ _ _ Hnf) as Hnf2.
    pose proof (NoDup_remove_1 _ _ _ Hna1) as Hna3. pose proof (NoDup_remove_2 _ _ _ Hna1) as Hna4.
    pose proof (NoDup_remove_1 _ _ _ Hnf1) as Hnf3. pose proof (NoDup_remove_2 _ _ _ Hnf1) as Hnf4.
    rewrite app_nil_r in *.
    split; [exact Hna3|]. split; [exact Hnf3|].
    split; [intros Hin; apply Hna2; apply in_or_app; left; exact Hin|].
    split; [exact Hna4|].
    split; [intros ->; apply Hna2; apply in_or_app; right; left; reflexivity|].
    split; [intros Hin; apply Hnf2; apply in_or_app; left; exact Hin|].
    split; [exact Hnf4|].
    split; [intros Heq; apply Hnf2; apply in_or_app; right; left; symmetry; exact Heq|].
    split; [unfold attrs; rewrite Hsv, active_some; left; reflexivity|].
    split; [unfold fields; rewrite Hsv, active_some; left; reflexivity|exact Hattr].
  Qed.

  Lemma svc_view_field s f : f <> lim -> f <> itv -> alookup (svc_view T s) f = alookup (sv_fields s) f.
  Proof.
    intros H1 H2. unfold svc_view. cbn [app alookup]. fold lim itv.
    rewrite (str_eqb_neq lim f (fun e => H1 (eq_sym e))), (str_eqb_neq itv f (fun e => H2 (eq_sym e))). reflexivity.
  Qed.

  Definition svc_ok (s : svc) : Prop := restart_typed T (sv_restart s) = true.

  Lemma svc_view_rst s : svc_ok s ->
    (exists l, alookup (rst_of T s) lim = Some (FInt l) /\ alookup (svc_view T s) lim = Some (FInt l)) /\
    (exists i, alookup (rst_of T s) itv = Some (FInt i) /\ alookup (svc_view T s) itv = Some (FInt i)) /\
    alookup (rst_of T s) key = None.
  Proof.
    intros Hok. destruct csch_facts as [_ [_ [_ [_ [_ [Hl [Hi [Hli [_ [Hk _]]]]]]]]]].
    destruct (rst_of_spec T s l0 i0 Hdflt Hli Hok) as [[l Hl'] [[i Hi'] Hoth]]. fold lim itv in Hl', Hi'.
    split; [exists l; split; [exact Hl'|]|split; [exists i; split; [exact Hi'|]|]].
    - unfold svc_view. cbn [app alookup]. fold lim. rewrite str_eqb_refl. unfold get_default. rewrite Hl'. reflexivity.
    - unfold svc_view. cbn [app alookup]. fold lim itv. rewrite (str_eqb_neq lim itv Hli), str_eqb_refl.
      unfold get_default. rewrite Hi'. reflexivity.
    - apply Hoth; intros ->; [apply Hl|apply Hi]; exact Hk.
  Qed.

  Lemma svc_blk_ok : blk_ok (app_csch T) (svc_view T) (svc_blk T) svc_ok.
  Proof.
    intros o s d Hok Hd. unfold svc_blk in Hd.
    destruct csch_facts as [Hna [Hnf [Ha1 [Ha2 [Ha12 [Hl [Hi [Hli [Ha0 [Hk Hattr]]]]]]]]]].
    destruct (d2e (rename_opt (ls_schema (lt_app_svc T)) o) (sv_fields s)) as [se|] eqn:Ese; [|discriminate].
    destruct (d2e (rename_opt (lt_app_rst_schema T) o) (rst_of T s)) as [re|] eqn:Ere; [|discriminate].
    inversion Hd; subst d. clear Hd.
    destruct (d2e_spec _ _ _ (attrs_rename_nodup _ o Hna) Ese) as [Hnds [Hrows Hoths]].
    assert (HnaR : NoDup (attrs (lt_app_rst_schema T))).
    { unfold attrs. rewrite Hrs. cbn. constructor.
      { intros [H|[H|[]]]; [apply Ha1|apply Ha2]; rewrite H; exact Ha0. }
      constructor; [intros [H|[]]; exact (Ha12 (eq_sym H))|]. constructor; [intros []|constructor]. }
    destruct (d2e_spec _ _ _ (attrs_rename_nodup _ o HnaR) Ere) as [Hndr [Hrowr Hothr]].
    destruct (svc_view_rst s Hok) as [[l [Hrl Hvl]] [[i [Hri Hvi]] Hrk]].
    assert (HactR : active (rename_opt (lt_app_rst_schema T) o)
                    = [(opt_attr a0 o, (key, TStr)); (opt_attr a1 o, (lim, TInt)); (opt_attr a2 o, (itv, TInt))])
      by (rewrite active_rename, Hrs; reflexivity).
    split; [apply eupdate_nodup; exact Hnds|]. split.
    - intros a f t Hin. rewrite (alookup_eupdate re se _ Hndr). rewrite csch_active in Hin. apply in_app_or in Hin as [Hin|Hin].
      + (* a row of the service schema *)
        assert (Hre : alookup re (opt_attr a o) = None).
        { destruct (str_eq_dec a a0) as [->|Hne].
          - rewrite (Hrowr (opt_attr a0 o) key TStr) by (rewrite HactR; left; reflexivity).
            unfold row_assigned2. rewrite Hrk. reflexivity.
          - apply Hothr. rewrite attrs_rename. unfold attrs. rewrite Hrs. cbn. intros [H|[H|[H|[]]]]; unfold opt_attr in H;
              apply app_inv_tail in H; [congruence| |]; [apply Ha1|apply Ha2]; rewrite H; eapply in_active_attrs; exact Hin. }
        rewrite Hre. rewrite (Hrows (opt_attr a o) f t) by (rewrite active_rename; apply in_map_iff; exists (a, (f, t)); split; [reflexivity|exact Hin]).
        apply row_assigned2_ext. symmetry. apply svc_view_field; intros ->; [apply Hl|apply Hi]; eapply in_active_fields; exact Hin.
      + destruct Hin as [Heq|[Heq|[]]]; inversion Heq; subst a f t.
        * rewrite (Hrowr (opt_attr a1 o) lim TInt) by (rewrite HactR; right; left; reflexivity).
          unfold row_assigned2. rewrite Hrl, Hvl. reflexivity.
        * rewrite (Hrowr (opt_attr a2 o) itv TInt) by (rewrite HactR; right; right; left; reflexivity).
          unfold row_assigned2. rewrite Hri, Hvi. reflexivity.
    - intros k Hk'. apply eupdate_keys in Hk' as [Hk'|Hk'].
      + apply (d2e_keys _ _ _ _ (attrs_rename_nodup _ o Hna) Ese) in Hk'. rewrite attrs_rename in Hk'.
        apply in_map_iff in Hk' as [a [<- Ha]]. exists a. split; [|reflexivity].
        unfold attrs. rewrite csch_active, map_app. apply in_or_app. left. exact Ha.
      + apply (d2e_keys _ _ _ _ (attrs_rename_nodup _ o HnaR) Ere) in Hk'. rewrite attrs_rename in Hk'.
        apply in_map_iff in Hk' as [a [<- Ha]]. exists a. split; [|reflexivity].
        unfold attrs in Ha. rewrite Hrs in Ha. cbn in Ha. unfold attrs. rewrite csch_active, map_app. apply in_or_app.
        destruct Ha as [<-|[<-|[<-|[]]]]; [left; exact Ha0|right; left; reflexivity|right; right; left; reflexivity].
  Qed.
End AppSvc.

(** * 22. Building a layout, one dict.update at a time *)
Lemma opt_key_of_mono secs secs' k : (forall L, In L secs -> In L secs') -> opt_key_of secs k -> opt_key_of secs' k.
Proof. intros H [L [o [x [a [HL Hr]]]]]. exists L, o, x, a. split; [apply H; exact HL|exact Hr]. Qed.

Lemma layout_nil E : NoDup (map fst E) -> (forall k, In k (map fst E) -> plain_key k) -> layout_ok E [].
Proof.
  intros Hnd Hk. split; [exact Hnd|]. split; [intros k Hin; left; apply Hk; exact Hin|]. split; [intros L []|intros L L' o x []].
Qed.

Lemma layout_add E secs D lp isch hx :
  layout_ok E secs ->
  (forall a, In a (attrs isch) -> ~ In 59 a /\ lower a = a) ->
  NoDup (map fst D) -> (forall k, In k (map fst D) -> K_list isch hx k) ->
  (forall o x, In (o, x) hx -> forall a f t, In (a, (f, t)) (active isch) -> alookup D (opt_attr a o) = row_assigned2 x f t) ->
  NoDup (map fst hx) -> (forall o x, In (o, x) hx -> ~ In 59 o /\ is_prefix lp o = true) ->
  (forall L o, In L secs -> is_prefix lp o = true -> is_prefix (l_lp L) o = true -> False) ->
  layout_ok (eupdate E D) (secs ++ [{| l_lp := lp; l_csch := isch; l_hx := hx |}]) /\
  (forall k, ~ In k (map fst D) -> alookup (eupdate E D) k = alookup E k).
Proof.
  intros [HndE [HkE [HsE HcE]]] Hattr HndD HkD HrD Hndhx Hhx Hclash.
  set (L0 := {| l_lp := lp; l_csch := isch; l_hx := hx |}).
  split; [|intros k Hk; apply alookup_eupdate_skip; exact Hk].
  assert (Hnew_not_old : forall o x a a' L o' x', In (o, x) hx -> In a (attrs isch) -> In L secs -> In (o', x') (l_hx L) ->
            In a' (attrs (l_csch L)) -> opt_attr a o = opt_attr a' o' -> False).
  { intros o x a a' L o' x' Hin Ha HL Hin' Ha' Heq. destruct (HsE L HL) as [Hsemi [_ HhxL]].
    apply opt_attr_inj in Heq as [_ ->]; [|apply Hattr; exact Ha|apply Hsemi; exact Ha'].
    destruct (Hhx o' x Hin) as [_ Hp1]. destruct (HhxL o' x' Hin') as [_ [Hp2 _]]. exact (Hclash L o' HL Hp1 Hp2). }
  split; [apply eupdate_nodup; exact HndE|]. split; [|split].
  - intros k Hk. apply eupdate_keys in Hk as [Hk|Hk].
    + destruct (HkE k Hk) as [Hp|Ho]; [left; exact Hp|right]. eapply opt_key_of_mono; [|exact Ho].
      intros L HL. apply in_or_app. left. exact HL.
    + destruct (HkD k Hk) as [Ha|[o [x [a [Hin [Ha ->]]]]]]; [left; apply Hattr; exact Ha|right].
      exists L0, o, x, a. split; [apply in_or_app; right; left; reflexivity|]. split; [exact Hin|split; [exact Ha|reflexivity]].
  - intros L HL. apply in_app_or in HL as [HL|[<-|[]]].
    + destruct (HsE L HL) as [Hsemi [Hnd HhxL]]. split; [exact Hsemi|]. split; [exact Hnd|].
      intros o x Hin. destruct (HhxL o x Hin) as [Ho [Hp Hrows]]. split; [exact Ho|]. split; [exact Hp|].
      intros a f t Hr. rewrite alookup_eupdate_skip; [apply Hrows; exact Hr|].
      intros Hk. destruct (HkD _ Hk) as [Ha|[o' [x' [a' [Hin' [Ha' Heq]]]]]].
      * destruct (Hattr _ Ha) as [Hs _]. apply Hs. unfold opt_attr. apply in_or_app. right. left. reflexivity.
      * symmetry in Heq. exact (Hnew_not_old o' x' a' a L o x Hin' Ha' HL Hin (in_active_attrs _ _ _ _ Hr) Heq).
    + cbn [l_csch l_hx l_lp]. split; [intros a Ha; apply Hattr; exact Ha|]. split; [exact Hndhx|].
      intros o x Hin. destruct (Hhx o x Hin) as [Ho Hp]. split; [exact Ho|]. split; [exact Hp|].
      intros a f t Hr. rewrite (alookup_eupdate D E _ HndD), (HrD o x Hin a f t Hr).
      destruct (row_assigned2 x f t) as [vs|]; [reflexivity|]. apply alookup_none_iff. intros Hk.
      destruct (HkE _ Hk) as [[Hs _]|[L [o' [x' [a' [HL [Hin' [Ha' Heq]]]]]]]].
      * apply Hs. unfold opt_attr. apply in_or_app. right. left. reflexivity.
      * exact (Hnew_not_old o x a a' L o' x' Hin (in_active_attrs _ _ _ _ Hr) HL Hin' Ha' Heq).
  - intros L L' o x HL HL' Hin Hp. apply in_app_or in HL as [HL|[<-|[]]]; apply in_app_or in HL' as [HL'|[<-|[]]].
    + apply (HcE L L' o x HL HL' Hin Hp).
    + exfalso. destruct (HsE L HL) as [_ [_ HhxL]]. destruct (HhxL o x Hin) as [_ [Hp' _]]. exact (Hclash L o HL Hp Hp').
    + exfalso. destruct (Hhx o x Hin) as [_ Hp']. exact (Hclash L' o HL' Hp' Hp).
    + reflexivity.
Qed.

Lemma layout_add_plain E secs D : layout_ok E secs -> (forall k, In k (map fst D) -> plain_key k) -> layout_ok (eupdate E D) secs.
Proof.
  intros [HndE [HkE [HsE HcE]]] HkD. split; [apply eupdate_nodup; exact HndE|]. split; [|split; [|exact HcE]].
  - intros k Hk. apply eupdate_keys in Hk as [Hk|Hk]; [apply HkE; exact Hk|left; apply HkD; exact Hk].
  - intros L HL. destruct (HsE L HL) as [Hsemi [Hnd HhxL]]. split; [exact Hsemi|]. split; [exact Hnd|].
    intros o x Hin. destruct (HhxL o x Hin) as [Ho [Hp Hrows]]. split; [exact Ho|]. split; [exact Hp|].
    intros a f t Hr. rewrite alookup_eupdate_skip; [apply Hrows; exact Hr|].
    intros Hk. destruct (HkD _ Hk) as [Hs _]. apply Hs. unfold opt_attr. apply in_or_app. right. left. reflexivity.
Qed.

Lemma no_clash_spec a b o : no_prefix_clash a b = true ->
  is_prefix (ls_lprefix a) o = true -> is_prefix (ls_lprefix b) o = true -> False.
Proof.
  unfold no_prefix_clash. intros H H1 H2. apply andb_true_iff in H as [Ha Hb]. apply negb_true_iff in Ha, Hb.
  destruct (is_prefix_both _ _ _ H1 H2) as [H|H]; congruence.
Qed.

(** the section written by _to_obj_list for a typed list, added to a layout *)
Lemma layout_add_list E secs base ls items :
  layout_ok E secs -> list_spec_ok base TStr ls = true -> items_typed ls items = true ->
  (forall L o, In L secs -> is_prefix (ls_lprefix ls) o = true -> is_prefix (l_lp L) o = true -> False) ->
  exists E' sorted, update_obj_list ls items E = oret E' /\ Permutation sorted (items_or_nil items) /\
    layout_ok E' (secs ++ [{| l_lp := ls_lprefix ls; l_csch := ls_schema ls; l_hx := number (ls_prefix ls) 0 sorted |}]) /\
    (forall k, ~ In 59 k -> ~ In k (attrs (ls_schema ls)) -> alookup E' k = alookup E k).
Proof.
  intros Hlay Hls Hty Hclash.
  destruct (list_spec_ok_spec base TStr ls Hls) as [Hiw [Hiok [[ak Hak] [Hlp [Hp Hdisj]]]]].
  pose proof Hiw as [Hina [Hiattr Hiall]]. unfold items_typed, item_typed in Hty.
  destruct (to_obj_list_spec (items_or_nil items) (ls_key ls) (ls_prefix ls) (ls_schema ls) Hiw Hp Hty)
    as [D [sorted [HD [Hperm [HndD [HkD HrowD]]]]]].
  exists (eupdate E D), sorted. unfold update_obj_list. rewrite HD. cbn [oret obind]. split; [reflexivity|]. split; [exact Hperm|].
  destruct (layout_add E secs D (ls_lprefix ls) (ls_schema ls) (number (ls_prefix ls) 0 sorted) Hlay Hiattr HndD HkD HrowD
              (number_nodup _ _ _)) as [H1 H2].
  - intros o x Hin. destruct (number_in _ _ _ _ _ Hin) as [i [_ [-> _]]].
    split; [apply opt_name_no_semicolon; exact Hp|apply is_prefix_opt_name; exact Hlp].
  - exact Hclash.
  - split; [exact H1|]. intros k Hs Hk. apply H2. intros Hin. destruct (HkD k Hin) as [Ha|[o [x [a [_ [_ ->]]]]]]; [exact (Hk Ha)|].
    apply Hs. unfold opt_attr. apply in_or_app. right. left. reflexivity.
Qed.

(** * 23. Application: the services section *)
Definition svc_hx (T : ltables) (sorted : list svc) : list (str * obj) :=
  map (fun os => (fst os, svc_view T (snd os))) (number (ls_prefix (lt_app_svc T)) 0 sorted).
Definition svc_sec (T : ltables) (sorted : list svc) : lsec :=
  {| l_lp := ls_lprefix (lt_app_svc T); l_csch := app_csch T; l_hx := svc_hx T sorted |}.

Lemma keys_of_map_ok key (ss : list svc) : forallb (fun s => has_str_key key (sv_fields s)) ss = true ->
  exists ks, keys_of key (map sv_fields ss) = oret ks /\ length ks = length ss.
Proof.
  intros H. destruct (keys_of_ok key (map sv_fields ss)) as [ks [Hk Hl]].
  - rewrite forallb_forall in *. intros x Hx. apply in_map_iff in Hx as [s [<- Hs]]. apply H. exact Hs.
  - exists ks. split; [exact Hk|]. rewrite Hl, map_length. reflexivity.
Qed.

Lemma app_services_layout T ss E0 : app_tables_ok T = true -> layout_ok E0 [] -> forallb (svc_typed T) ss = true ->
  exists E1 sorted, app_services_entry T ss E0 = oret E1 /\ Permutation sorted ss /\
    layout_ok E1 [svc_sec T sorted] /\
    (forall k, ~ In 59 k -> ~ In k (attrs (app_csch T)) -> alookup E1 k = alookup E0 k).
Proof.
  intros HT Hlay Hty. split_app HT.
  destruct (rst_shape_spec T Hrshape) as [a0 [a1 [a2 [rest [Hrs Hsv]]]]].
  destruct (dflt_shape_spec T Hdflt) as [l0 [i0 Hd]].
  destruct (csch_facts T a0 a1 a2 rest Hrs Hsv Hcwf) as [Hna [Hnf [Ha1 [Ha2 [Ha12 [Hl [Hi [Hli [Ha0 [Hk Hattr]]]]]]]]]].
  cbn [app_lists forallb] in Hlists. apply andb_true_iff in Hlists as [Hsvc_ok _].
  destruct (list_spec_ok_spec _ _ _ Hsvc_ok) as [Hiw [Hiok [[ak Hak] [Hlp [Hp Hdisj]]]]].
  assert (Hkeys : forallb (fun s => has_str_key (ls_key (lt_app_svc T)) (sv_fields s)) ss = true).
  { rewrite forallb_forall in *. intros s Hs. specialize (Hty s Hs). unfold svc_typed, item_typed in Hty.
    apply andb_true_iff in Hty as [Hty _]. apply andb_true_iff in Hty as [_ Hty]. exact Hty. }
  destruct (keys_of_map_ok _ ss Hkeys) as [ks [Hks Hlen]].
  unfold app_services_entry. rewrite Hks. cbn [oret obind].
  pose proof (sort_by_key_perm ks ss Hlen) as Hperm. set (sorted := sort_by_key ks ss) in *.
  assert (Hsorted_ty : forall s, In s sorted -> obj_typed2 (ls_schema (lt_app_svc T)) (sv_fields s) = true /\ svc_ok T s).
  { intros s Hs. rewrite forallb_forall in Hty. specialize (Hty s (Permutation_in _ Hperm Hs)). unfold svc_typed, item_typed in Hty.
    apply andb_true_iff in Hty as [Hty Hr]. apply andb_true_iff in Hty as [Hty _]. split; [exact Hty|exact Hr]. }
  assert (HactR : active (lt_app_rst_schema T) = [(a0, (ls_key (lt_app_svc T), TStr)); (a1, (lt_app_rst_limit T, TInt));
                                                   (a2, (lt_app_rst_interval T, TInt))]) by (rewrite Hrs; reflexivity).
  assert (Hattrs_c : attrs (app_csch T) = attrs (ls_schema (lt_app_svc T)) ++ [a1; a2]).
  { unfold attrs. rewrite (csch_active T a0 a1 a2 Hrs), map_app. reflexivity. }
  destruct sorted as [|s0 r0] eqn:Es.
  - (* no service: _empty_list_entry *)
    exists (eupdate E0 (empty_list_entry (ls_schema (lt_app_svc T) ++ lt_app_rst_schema T))), [].
    split; [reflexivity|]. split; [exact Hperm|].
    destruct (empty_list_entry_spec (ls_schema (lt_app_svc T) ++ lt_app_rst_schema T)) as [HndD HvD].
    set (D := empty_list_entry (ls_schema (lt_app_svc T) ++ lt_app_rst_schema T)) in *.
    assert (HkD : forall k, In k (map fst D) -> In k (attrs (app_csch T))).
    { intros k Hin. destruct (alookup D k) as [v|] eqn:E; [|exfalso; exact (proj1 (alookup_none_iff D k) E Hin)].
      destruct (HvD k v E) as [_ Hk']. rewrite map_app in Hk'. rewrite Hattrs_c. destruct Hiw as [_ [_ Hall]].
      apply in_app_or in Hk' as [Hk'|Hk']; apply in_or_app.
      - left. rewrite Hall. exact Hk'.
      - rewrite Hrs in Hk'. cbn in Hk'. destruct Hk' as [<-|[<-|[<-|[]]]]; [left; exact Ha0|right; left; reflexivity|right; right; left; reflexivity]. }
    destruct (layout_add E0 [] D (ls_lprefix (lt_app_svc T)) (app_csch T) [] Hlay Hattr HndD) as [H1 H2].
    + intros k Hin. left. apply HkD. exact Hin.
    + intros o x [].
    + constructor.
    + intros o x [].
    + intros L o [].
    + split; [exact H1|]. intros k _ Hk'. apply H2. intros Hin. exact (Hk' (HkD k Hin)).
  - rewrite <- Es in *. clear Es s0 r0.
    set (hx := number (ls_prefix (lt_app_svc T)) 0 sorted).
    assert (Hhx : forall o s, In (o, s) hx -> ~ In 59 o /\ is_prefix (ls_lprefix (lt_app_svc T)) o = true /\ In s sorted).
    { intros o s Hin. destruct (number_in _ _ _ _ _ Hin) as [i [_ [-> Hs]]].
      split; [apply opt_name_no_semicolon; exact Hp|]. split; [apply is_prefix_opt_name; exact Hlp|exact Hs]. }
    assert (Htot : exists E1, oblocks (svc_blk T) hx E0 = Some E1).
    { apply oblocks_total. intros o s Hin. destruct (Hhx o s Hin) as [_ [_ Hs]]. destruct (Hsorted_ty s Hs) as [Hf Hr].
      unfold svc_blk.
      destruct (d2e_total (rename_opt (ls_schema (lt_app_svc T)) o) (sv_fields s)) with (acc := @nil (str * list eval)) as [se Hse];
        [rewrite obj_typed2_rename; exact Hf|]. fold (d2e (rename_opt (ls_schema (lt_app_svc T)) o) (sv_fields s)) in Hse. rewrite Hse.
      destruct (svc_view_rst T a0 a1 a2 rest Hrs Hsv Hcwf l0 i0 Hd s Hr) as [[l [Hrl _]] [[i [Hri _]] Hrk]].
      destruct (d2e_total (rename_opt (lt_app_rst_schema T) o) (rst_of T s)) with (acc := @nil (str * list eval)) as [re Hre].
      { rewrite obj_typed2_rename. apply obj_typed2_intro. intros a f t Hin'. rewrite HactR in Hin'.
        destruct Hin' as [Heq|[Heq|[Heq|[]]]]; inversion Heq; subst a f t; [rewrite Hrk|rewrite Hrl|rewrite Hri]; try exact I; reflexivity. }
      fold (d2e (rename_opt (lt_app_rst_schema T) o) (rst_of T s)) in Hre. rewrite Hre. eexists. reflexivity. }
    destruct Htot as [E1 HE1]. exists E1, sorted. rewrite svc_blocks_oblocks. fold hx. rewrite HE1.
    split; [reflexivity|]. split; [exact Hperm|].
    destruct Hlay as [HndE0 [HkE0 _]].
    destruct (oblocks_spec (app_csch T) (svc_view T) (svc_blk T) (svc_ok T)
                (svc_blk_ok T a0 a1 a2 rest Hrs Hsv Hcwf l0 i0 Hd) (fun a Ha => proj1 (Hattr a Ha)) hx E0 E1 HE1 HndE0
                (number_nodup _ _ _)) as [HndE1 [H2 [H3 H4]]].
    { intros o s Hin. destruct (Hhx o s Hin) as [_ [_ Hs]]. apply Hsorted_ty. exact Hs. }
    assert (HE0plain : forall k, In k (map fst E0) -> ~ In 59 k).
    { intros k Hk'. destruct (HkE0 k Hk') as [[Hs _]|[L [o [x [a [[] _]]]]]]. exact Hs. }
    split.
    + split; [exact HndE1|]. split; [|split].
      * intros k Hk'. destruct (H4 k Hk') as [Hk0|[o [s [a [Hin [Ha ->]]]]]]; [apply HkE0 in Hk0 as [Hpl|[L [o [x [a [[] _]]]]]]; left; exact Hpl|].
        right. exists (svc_sec T sorted), o, (svc_view T s), a. split; [left; reflexivity|]. split; [|split; [exact Ha|reflexivity]].
        unfold svc_sec, svc_hx. cbn [l_hx]. apply in_map_iff. exists (o, s). split; [reflexivity|exact Hin].
      * intros L [<-|[]]. cbn [svc_sec l_csch l_hx l_lp]. split; [intros a Ha; apply Hattr; exact Ha|].
        split; [unfold svc_hx; rewrite map_map; cbn [fst]; apply number_nodup|].
        intros o x Hin. unfold svc_hx in Hin. apply in_map_iff in Hin as [[o' s] [Heq Hin]]. cbn [fst snd] in Heq. inversion Heq; subst o' x.
        destruct (Hhx o s Hin) as [Ho [Hpre _]]. split; [exact Ho|]. split; [exact Hpre|].
        intros a f t Hr. rewrite (H2 o s Hin a f t Hr). destruct (row_assigned2 (svc_view T s) f t); [reflexivity|].
        apply alookup_none_iff. intros Hk'. apply (HE0plain _ Hk'). unfold opt_attr. apply in_or_app. right. left. reflexivity.
      * intros L L' o x [<-|[]] [<-|[]] _ _. reflexivity.
    + intros k Hs _. apply H3. intros o s a _ _ ->. apply Hs. unfold opt_attr. apply in_or_app. right. left. reflexivity.
Qed.

(** * 24. Application: to_entry as a layout *)
Definition lsec_of (ls : list_spec) (sorted : list obj) : lsec :=
  {| l_lp := ls_lprefix ls; l_csch := ls_schema ls; l_hx := number (ls_prefix ls) 0 sorted |}.
Definition vr_on (a : appo) : bool := match ap_vring a with Some v => vring_truthy v | None => false end.
Definition vr_obj (T : ltables) (a : appo) : obj :=
  match ap_vring a with Some v => if vring_truthy v then vring_obj T v else [] | None => [] end.
Definition vr_rules_of (a : appo) : list obj :=
  match ap_vring a with Some v => if vring_truthy v then items_or_nil (vr_rules v) else [] | None => [] end.

Lemma obj_typed2_aset sch o f v : obj_typed2 sch o = true ->
  (forall a t, In (a, (f, t)) (active sch) -> ftyped2 t v = true) -> obj_typed2 sch (aset o f v) = true.
Proof.
  intros Hty Hv. apply obj_typed2_intro. intros a f' t Hin. rewrite alookup_aset.
  destruct (str_eqb f f') eqn:E; [apply str_eqb_eq in E; subst f'; apply (Hv a t Hin)|].
  apply (row_typed sch o a f' t Hty Hin).
Qed.

Lemma app_base_typed T a : NoDup (fields (lt_app T)) ->
  (exists at_, In (at_, (lt_app_eph_tcpf T, TInt)) (active (lt_app T))) ->
  (exists au, In (au, (lt_app_eph_udpf T, TInt)) (active (lt_app T))) ->
  obj_typed2 (lt_app T) (ap_base a) = true -> eph_typed T (ap_eph a) = true -> obj_typed2 (lt_app T) (app_base T a) = true.
Proof.
  intros Hnf [at_ Hat] [au Hau] Hb He. unfold app_base. destruct (ap_eph a) as [m|]; [|exact Hb].
  unfold eph_typed in He. cbn [forallb] in He. apply andb_true_iff in He as [H1 H2]. apply andb_true_iff in H2 as [H2 _].
  assert (Hint : forall k, match alookup m k with None | Some FNone | Some (FInt _) => true | _ => false end = true ->
            ftyped2 TInt (get_default m k (FInt (lt_app_eph_default T))) = true).
  { intros k Hk. unfold get_default. destruct (alookup m k) as [[| | | | | |]|]; try discriminate; reflexivity. }
  apply obj_typed2_aset; [apply obj_typed2_aset; [exact Hb|]|].
  - intros a' t Hin. rewrite (field_type_unique _ _ _ _ _ _ Hnf Hin Hat). apply Hint. exact H1.
  - intros a' t Hin. rewrite (field_type_unique _ _ _ _ _ _ Hnf Hin Hau). apply Hint. exact H2.
Qed.

Lemma aff_items_typed T d : int_map d = true ->
  (exists r0 r1, ls_schema (lt_app_aff T) = [(r0, (Some (lt_app_aff_level T), TStr)); (r1, (Some (lt_app_aff_limit T), TInt))]) ->
  ls_key (lt_app_aff T) = lt_app_aff_level T -> lt_app_aff_level T <> lt_app_aff_limit T ->
  items_typed (lt_app_aff T) (Some (affinity_items T d)) = true.
Proof.
  intros Hd [r0 [r1 Hs]] Hkey Hne. unfold items_typed, items_or_nil, affinity_items. apply forallb_forall.
  intros x Hx. apply in_map_iff in Hx as [[k v] [<- Hin]]. unfold int_map in Hd. apply andb_true_iff in Hd as [_ Hall].
  rewrite forallb_forall in Hall. specialize (Hall _ Hin). cbn [snd fst] in *. destruct v as [| |z| | | |]; try discriminate.
  unfold item_typed. rewrite Hs, Hkey. cbn [obj_typed2 forallb alookup]. rewrite ?str_eqb_refl.
  rewrite (str_eqb_neq _ _ Hne). unfold has_str_key. cbn [alookup]. rewrite ?str_eqb_refl. reflexivity.
Qed.

Lemma aff_shape_spec T :
  match ls_schema (lt_app_aff T) with
  | (_, (Some f0, TStr)) :: (_, (Some f1, TInt)) :: [] =>
      str_eqb f0 (lt_app_aff_level T) && str_eqb f1 (lt_app_aff_limit T) && str_eqb f0 (ls_key (lt_app_aff T))
  | _ => false
  end = true ->
  (exists r0 r1, ls_schema (lt_app_aff T) = [(r0, (Some (lt_app_aff_level T), TStr)); (r1, (Some (lt_app_aff_limit T), TInt))]) /\
  ls_key (lt_app_aff T) = lt_app_aff_level T.
Proof.
  destruct (ls_schema (lt_app_aff T)) as [|[r0 [[f0|] t0]] r]; try discriminate. destruct t0; try discriminate.
  destruct r as [|[r1 [[f1|] t1]] r']; try discriminate. destruct t1; try discriminate. destruct r'; try discriminate.
  intros H. apply andb_true_iff in H as [H H3]. apply andb_true_iff in H as [H1 H2]. apply str_eqb_eq in H1, H2, H3. subst.
  split; [exists r0, r1; reflexivity|symmetry; exact H3].
Qed.

Lemma vr_shape_spec T :
  match lt_app_vr_schema T with
  | (a, (Some f, TListStr)) :: [] => str_eqb f (lt_app_vr_cells T) && no_semicolon a && str_eqb (lower a) a
  | _ => false
  end = true ->
  exists av, lt_app_vr_schema T = [(av, (Some (lt_app_vr_cells T), TListStr))] /\ ~ In 59 av /\ lower av = av.
Proof.
  destruct (lt_app_vr_schema T) as [|[av [[f|] t]] r]; try discriminate. destruct t; try discriminate. destruct r; try discriminate.
  intros H. apply andb_true_iff in H as [H H3]. apply andb_true_iff in H as [H1 H2]. apply str_eqb_eq in H1, H3. subst.
  exists av. split; [reflexivity|]. split; [apply no_semicolon_spec; exact H2|exact H3].
Qed.

Lemma pairwise_in {A} (p : A -> A -> bool) l : pairwise p l = true ->
  forall l1 x l2 y l3, l = l1 ++ x :: l2 ++ y :: l3 -> p x y = true.
Proof.
  induction l as [|z l IH]; intros H l1 x l2 y l3 Heq; [destruct l1; discriminate|].
  cbn [pairwise] in H. apply andb_true_iff in H as [Hz Hl]. destruct l1 as [|w l1]; cbn [app] in Heq; inversion Heq; subst.
  - rewrite forallb_forall in Hz. apply Hz. apply in_or_app. right. left. reflexivity.
  - eapply IH; [exact Hl|reflexivity].
Qed.

Theorem app_write T a : app_tables_ok T = true -> app_typed T a = true ->
  exists E ssv sep senv saff svr,
    app_to_entry T a = oret E /\
    Permutation ssv (items_or_nil (ap_services a)) /\ Permutation sep (items_or_nil (ap_endpoints a)) /\
    Permutation senv (items_or_nil (ap_environ a)) /\ Permutation saff (affinity_items T (items_or_nil (ap_affinity a))) /\
    Permutation svr (vr_rules_of a) /\
    layout_ok E [svc_sec T ssv; lsec_of (lt_app_ep T) sep; lsec_of (lt_app_env T) senv; lsec_of (lt_app_aff T) saff;
                 lsec_of (lt_app_vr T) svr] /\
    (forall a' f t, In (a', (f, t)) (active (lt_app T)) -> alookup E a' = row_assigned2 (app_base T a) f t) /\
    (forall a' f t, In (a', (f, t)) (active (lt_app_vr_schema T)) -> alookup E a' = row_assigned2 (vr_obj T a) f t).
Proof.
  intros HT Hty. pose proof HT as HT0. split_app HT.
  unfold app_typed in Hty.
  apply andb_true_iff in Hty as [Hty Hvr]. apply andb_true_iff in Hty as [Hty Haff]. apply andb_true_iff in Hty as [Hty Henv].
  apply andb_true_iff in Hty as [Hty Hep]. apply andb_true_iff in Hty as [Hty Hnames]. apply andb_true_iff in Hty as [Hty Hsvcs].
  apply andb_true_iff in Hty as [Hbase Heph].
  destruct (wf_schema_spec _ Hwf) as [Hna [Hnf Hattr]].
  pose proof Hlists as Hlists'. cbn [app_lists forallb] in Hlists'.
  apply andb_true_iff in Hlists' as [Hl_svc Hlists']. apply andb_true_iff in Hlists' as [Hl_ep Hlists'].
  apply andb_true_iff in Hlists' as [Hl_env Hlists']. apply andb_true_iff in Hlists' as [Hl_aff Hlists'].
  apply andb_true_iff in Hlists' as [Hl_vr _].
  destruct (aff_shape_spec T Haffshape) as [Haffs Haffkey].
  destruct (vr_shape_spec T Hvshape) as [av [Hvrs [Hav1 Hav2]]].
  assert (Hnc : forall l1 x l2 y l3 o, app_lists T = l1 ++ x :: l2 ++ y :: l3 ->
            is_prefix (ls_lprefix x) o = true -> is_prefix (ls_lprefix y) o = true -> False).
  { intros l1 x l2 y l3 o Heq. apply no_clash_spec. exact (pairwise_in _ _ Hnoclash l1 x l2 y l3 Heq). }
  (* the class schema *)
  assert (Hbt : obj_typed2 (lt_app T) (app_base T a) = true)
    by (apply app_base_typed; [exact Hnf|apply row_is_spec; exact Htcpf|apply row_is_spec; exact Hudpf|exact Hbase|exact Heph]).
  destruct (d2e_total (lt_app T) (app_base T a) Hbt []) as [E0 HE0]. fold (d2e (lt_app T) (app_base T a)) in HE0.
  destruct (d2e_spec _ _ _ Hna HE0) as [HndE0 [Hrow0 Hoth0]].
  assert (Hlay0 : layout_ok E0 []).
  { apply layout_nil; [exact HndE0|]. intros k Hk. apply Hattr. eapply d2e_keys; eassumption. }
  (* services *)
  destruct (app_services_layout T (items_or_nil (ap_services a)) E0 HT0 Hlay0 Hsvcs) as [E1 [ssv [HE1 [Hpsv [Hlay1 Hpres1]]]]].
  (* endpoints, environ, affinity *)
  destruct (layout_add_list E1 [svc_sec T ssv] (lt_app T) (lt_app_ep T) (ap_endpoints a) Hlay1 Hl_ep Hep) as [E2 [sep [HE2 [Hpep [Hlay2 Hpres2]]]]].
  { intros L o [<-|[]] H1 H2. cbn [svc_sec l_lp] in H2. exact (Hnc [] (lt_app_svc T) [] (lt_app_ep T) _ o eq_refl H2 H1). }
  destruct (layout_add_list E2 _ (lt_app T) (lt_app_env T) (ap_environ a) Hlay2 Hl_env Henv) as [E3 [senv [HE3 [Hpenv [Hlay3 Hpres3]]]]].
  { intros L o [<-|[<-|[]]] H1 H2; cbn [svc_sec lsec_of l_lp] in H2.
    - exact (Hnc [] (lt_app_svc T) [lt_app_ep T] (lt_app_env T) _ o eq_refl H2 H1).
    - exact (Hnc [lt_app_svc T] (lt_app_ep T) [] (lt_app_env T) _ o eq_refl H2 H1). }
  assert (Hne_aff : lt_app_aff_level T <> lt_app_aff_limit T).
  { destruct Haffs as [r0 [r1 Hs]]. destruct (list_spec_ok_spec _ _ _ Hl_aff) as [_ [[Hnfa _] _]].
    unfold fields in Hnfa. rewrite Hs in Hnfa. cbn in Hnfa. inversion Hnfa as [|x l Hx _]; subst. intros Heq. apply Hx. left. symmetry. exact Heq. }
  pose proof (aff_items_typed T (items_or_nil (ap_affinity a)) Haff Haffs Haffkey Hne_aff) as Hafft.
  destruct (layout_add_list E3 _ (lt_app T) (lt_app_aff T) (Some (affinity_items T (items_or_nil (ap_affinity a)))) Hlay3 Hl_aff Hafft)
    as [E4 [saff [HE4 [Hpaff [Hlay4 Hpres4]]]]].
  { intros L o [<-|[<-|[<-|[]]]] H1 H2; cbn [svc_sec lsec_of l_lp] in H2.
    - exact (Hnc [] (lt_app_svc T) [lt_app_ep T; lt_app_env T] (lt_app_aff T) _ o eq_refl H2 H1).
    - exact (Hnc [lt_app_svc T] (lt_app_ep T) [lt_app_env T] (lt_app_aff T) _ o eq_refl H2 H1).
    - exact (Hnc [lt_app_svc T; lt_app_ep T] (lt_app_env T) [] (lt_app_aff T) _ o eq_refl H2 H1). }
  cbn [items_or_nil] in Hpaff.
  assert (Hclash_vr : forall L o, In L ([svc_sec T ssv] ++ [lsec_of (lt_app_ep T) sep] ++ [lsec_of (lt_app_env T) senv] ++
                                      [lsec_of (lt_app_aff T) saff]) ->
            is_prefix (ls_lprefix (lt_app_vr T)) o = true -> is_prefix (l_lp L) o = true -> False).
  { intros L o [<-|[<-|[<-|[<-|[]]]]] H1 H2; cbn [svc_sec lsec_of l_lp] in H2.
    - exact (Hnc [] (lt_app_svc T) [lt_app_ep T; lt_app_env T; lt_app_aff T] (lt_app_vr T) _ o eq_refl H2 H1).
    - exact (Hnc [lt_app_svc T] (lt_app_ep T) [lt_app_env T; lt_app_aff T] (lt_app_vr T) _ o eq_refl H2 H1).
    - exact (Hnc [lt_app_svc T; lt_app_ep T] (lt_app_env T) [lt_app_aff T] (lt_app_vr T) _ o eq_refl H2 H1).
    - exact (Hnc [lt_app_svc T; lt_app_ep T; lt_app_env T] (lt_app_aff T) [] (lt_app_vr T) _ o eq_refl H2 H1). }
  (* plain attributes: which tables own them *)
  destruct (list_spec_ok_spec _ _ _ Hl_ep) as [[_ [_ Hall_ep]] [_ [_ [_ [_ Hd_ep]]]]].
  destruct (list_spec_ok_spec _ _ _ Hl_env) as [[_ [_ Hall_env]] [_ [_ [_ [_ Hd_env]]]]].
  destruct (list_spec_ok_spec _ _ _ Hl_aff) as [[_ [_ Hall_aff]] [_ [_ [_ [_ Hd_aff]]]]].
  destruct (list_spec_ok_spec _ _ _ Hl_vr) as [[_ [_ Hall_vr]] [_ [_ [_ [_ Hd_vr]]]]].
  pose proof (all_active_attrs _ Hcall) as Hall_c.
  assert (Hpd : forall l1 x l2 y l3 k, [app_csch T; ls_schema (lt_app_ep T); ls_schema (lt_app_env T); ls_schema (lt_app_aff T);
                                        ls_schema (lt_app_vr T); lt_app_vr_schema T] = l1 ++ x :: l2 ++ y :: l3 ->
            In k (map fst x) -> ~ In k (attrs y)).
  { intros l1 x l2 y l3 k Heq. apply disjoint_attrs_spec. exact (pairwise_in _ _ Hpdis l1 x l2 y l3 Heq). }
  assert (Hattr_vrs : attrs (lt_app_vr_schema T) = [av]) by (unfold attrs; rewrite Hvrs; reflexivity).
  assert (Hav_c : ~ In av (attrs (app_csch T))).
  { rewrite Hall_c. intros Hin. apply (Hpd [] _ [_; _; _; _] _ [] av eq_refl Hin). rewrite Hattr_vrs. left. reflexivity. }
  assert (Hav_ep : ~ In av (attrs (ls_schema (lt_app_ep T)))).
  { rewrite Hall_ep. intros Hin. apply (Hpd [_] _ [_; _; _] _ [] av eq_refl Hin). rewrite Hattr_vrs. left. reflexivity. }
  assert (Hav_env : ~ In av (attrs (ls_schema (lt_app_env T)))).
  { rewrite Hall_env. intros Hin. apply (Hpd [_; _] _ [_; _] _ [] av eq_refl Hin). rewrite Hattr_vrs. left. reflexivity. }
  assert (Hav_aff : ~ In av (attrs (ls_schema (lt_app_aff T)))).
  { rewrite Hall_aff. intros Hin. apply (Hpd [_; _; _] _ [_] _ [] av eq_refl Hin). rewrite Hattr_vrs. left. reflexivity. }
  assert (Hav_vr : ~ In av (attrs (ls_schema (lt_app_vr T)))).
  { rewrite Hall_vr. intros Hin. apply (Hpd [_; _; _; _] _ [] _ [] av eq_refl Hin). rewrite Hattr_vrs. left. reflexivity. }
  assert (Hav_app : ~ In av (attrs (lt_app T))).
  { apply (disjoint_attrs_spec _ _ av Hvdis). rewrite Hvrs. left. reflexivity. }
  assert (Hbase_c : forall k, In k (attrs (lt_app T)) -> ~ In k (attrs (app_csch T))).
  { intros k Hk Hin. rewrite Hall_c in Hin. exact (disjoint_attrs_spec _ _ k Hcdis Hin Hk). }
  (* up to the affinity limits *)
  assert (Hpres04 : forall k, ~ In 59 k -> ~ In k (attrs (app_csch T)) -> ~ In k (attrs (ls_schema (lt_app_ep T))) ->
            ~ In k (attrs (ls_schema (lt_app_env T))) -> ~ In k (attrs (ls_schema (lt_app_aff T))) -> alookup E4 k = alookup E0 k).
  { intros k Hs H1 H2 H3 H4. rewrite (Hpres4 k Hs H4), (Hpres3 k Hs H3), (Hpres2 k Hs H2), (Hpres1 k Hs H1). reflexivity. }
  assert (Hbase4 : forall a' f t, In (a', (f, t)) (active (lt_app T)) -> alookup E4 a' = row_assigned2 (app_base T a) f t).
  { intros a' f t Hin. pose proof (in_active_attrs _ _ _ _ Hin) as Ha'.
    rewrite Hpres04; [apply (Hrow0 a' f t Hin)|apply Hattr; exact Ha'|apply Hbase_c; exact Ha'| | |];
      intros Hin'; [exact (Hd_ep _ Hin' Ha')|exact (Hd_env _ Hin' Ha')|exact (Hd_aff _ Hin' Ha')]. }
  assert (Hav4 : alookup E4 av = None).
  { rewrite Hpres04; try assumption. apply Hoth0. exact Hav_app. }
  unfold app_to_entry. unfold base_to_entry. rewrite HE0. cbn [olift oret obind]. rewrite HE1. cbn [oret obind].
  rewrite HE2. cbn [oret obind]. rewrite HE3. cbn [oret obind]. rewrite HE4. cbn [oret obind].
  destruct (vr_on a) eqn:Evr.
  - (* a vring *)
    unfold vr_on in Evr. destruct (ap_vring a) as [v|] eqn:Eav; [|discriminate]. rewrite Evr.
    unfold vring_typed in Hvr. apply andb_true_iff in Hvr as [Hcells Hrules].
    assert (Hvt : obj_typed2 (lt_app_vr_schema T) (vring_obj T v) = true).
    { rewrite Hvrs. unfold vring_obj. cbn [obj_typed2 forallb]. destruct (vr_cells v) as [c|]; cbn [alookup]; [|reflexivity].
      rewrite str_eqb_refl. destruct c; try discriminate; try reflexivity. }
    destruct (d2e_total _ _ Hvt []) as [Dv HDv]. fold (d2e (lt_app_vr_schema T) (vring_obj T v)) in HDv. rewrite HDv. cbn [olift oret obind].
    assert (HnaV : NoDup (attrs (lt_app_vr_schema T))) by (rewrite Hattr_vrs; constructor; [intros []|constructor]).
    destruct (d2e_spec _ _ _ HnaV HDv) as [HndDv [HrowV HothV]].
    assert (HkDv : forall k, In k (map fst Dv) -> k = av).
    { intros k Hk. apply (d2e_keys _ _ _ _ HnaV HDv) in Hk. rewrite Hattr_vrs in Hk. destruct Hk as [<-|[]]. reflexivity. }
    assert (Hlay5 : layout_ok (eupdate E4 Dv) ([svc_sec T ssv] ++ [lsec_of (lt_app_ep T) sep] ++ [lsec_of (lt_app_env T) senv] ++
                                               [lsec_of (lt_app_aff T) saff])).
    { apply layout_add_plain; [exact Hlay4|]. intros k Hk. rewrite (HkDv k Hk). split; assumption. }
    destruct (layout_add_list (eupdate E4 Dv) _ (lt_app T) (lt_app_vr T) (vr_rules v) Hlay5 Hl_vr Hrules Hclash_vr)
      as [E6 [svr [HE6 [Hpvr [Hlay6 Hpres6]]]]].
    rewrite HE6. exists E6, ssv, sep, senv, saff, svr. split; [reflexivity|].
    split; [exact Hpsv|]. split; [exact Hpep|]. split; [exact Hpenv|]. split; [exact Hpaff|].
    split; [unfold vr_rules_of; rewrite Eav, Evr; exact Hpvr|]. split; [exact Hlay6|]. split.
    + intros a' f t Hin. pose proof (in_active_attrs _ _ _ _ Hin) as Ha'.
      rewrite Hpres6; [|apply Hattr; exact Ha'|intros Hin'; exact (Hd_vr _ Hin' Ha')].
      rewrite alookup_eupdate_skip; [apply Hbase4; exact Hin|]. intros Hk. rewrite (HkDv _ Hk) in Ha'. exact (Hav_app Ha').
    + intros a' f t Hin. rewrite Hvrs in Hin. destruct Hin as [Heq|[]]. inversion Heq; subst a' f t.
      rewrite Hpres6; [|exact Hav1|exact Hav_vr]. rewrite (alookup_eupdate Dv E4 av HndDv).
      assert (HinV : In (av, (lt_app_vr_cells T, TListStr)) (active (lt_app_vr_schema T))) by (rewrite Hvrs; left; reflexivity).
      rewrite (HrowV av _ _ HinV).
      unfold vr_obj. rewrite Eav, Evr. destruct (row_assigned2 (vring_obj T v) (lt_app_vr_cells T) TListStr); [reflexivity|exact Hav4].
  - (* no vring (or an empty one) *)
    assert (Heq : match ap_vring a with
                  | Some v => if vring_truthy v
                              then obind (olift (d2e (lt_app_vr_schema T) (vring_obj T v)))
                                     (fun dv => update_obj_list (lt_app_vr T) (vr_rules v) (eupdate E4 dv))
                              else oret E4
                  | None => oret E4
                  end = oret E4).
    { unfold vr_on in Evr. destruct (ap_vring a) as [v|]; [rewrite Evr|]; reflexivity. }
    rewrite Heq. exists E4, ssv, sep, senv, saff, []. split; [reflexivity|].
    split; [exact Hpsv|]. split; [exact Hpep|]. split; [exact Hpenv|]. split; [exact Hpaff|].
    assert (Hvo : vr_rules_of a = [] /\ vr_obj T a = []).
    { unfold vr_rules_of, vr_obj, vr_on in *. destruct (ap_vring a) as [v|]; [rewrite Evr|]; split; reflexivity. }
    destruct Hvo as [Hvo1 Hvo2]. split; [rewrite Hvo1; apply Permutation_refl|]. split; [|split].
    + destruct (layout_add E4 _ [] (ls_lprefix (lt_app_vr T)) (ls_schema (lt_app_vr T)) [] Hlay4) as [H1 _].
      * destruct (list_spec_ok_spec _ _ _ Hl_vr) as [[_ [Hia _]] _]. exact Hia.
      * constructor.
      * intros k [].
      * intros o x [].
      * constructor.
      * intros o x [].
      * exact Hclash_vr.
      * exact H1.
    + exact Hbase4.
    + intros a' f t Hin. rewrite Hvrs in Hin. destruct Hin as [Heq'|[]]. inversion Heq'; subst a' f t. rewrite Hvo2. exact Hav4.
Qed.

(** * 25. Application: from_entry after the lists have been read *)
Lemma nf_base_ext sch o o' : (forall f, In f (fields sch) -> alookup o f = alookup o' f) -> nf_base sch o = nf_base sch o'.
Proof.
  unfold nf_base, fields. induction (active sch) as [|[a [f t]] L IH]; intros H; [reflexivity|]. cbn [flat_map fst snd map] in *.
  rewrite (H f (or_introl eq_refl)), IH by (intros f' Hf'; apply H; right; exact Hf'). reflexivity.
Qed.

Lemma ins_by_map {A B} (h : A -> B) (lt : A -> A -> bool) (lt' : B -> B -> bool) :
  (forall a b, lt' (h a) (h b) = lt a b) -> forall x l, map h (ins_by lt x l) = ins_by lt' (h x) (map h l).
Proof.
  intros H x l. induction l as [|y r IH]; cbn [ins_by map]; [reflexivity|]. rewrite H. destruct (lt y x); cbn [map]; [rewrite IH|]; reflexivity.
Qed.

Lemma sort_by_map {A B} (h : A -> B) (lt : A -> A -> bool) (lt' : B -> B -> bool) :
  (forall a b, lt' (h a) (h b) = lt a b) -> forall l, map h (sort_by lt l) = sort_by lt' (map h l).
Proof.
  intros H l. induction l as [|x r IH]; cbn [sort_by map]; [reflexivity|]. rewrite (ins_by_map h lt lt' H), IH. reflexivity.
Qed.

Lemma fval_eqb_str a b : fval_eqb (FStr a) (FStr b) = true <-> a = b.
Proof.
  unfold fval_eqb. cbn [same_kind fval_cmp andb]. destruct TO_str as [He _]. split.
  - intros H. destruct (str_cmp a b) eqn:E; try discriminate. apply He. exact E.
  - intros ->. rewrite (TO_refl str_cmp b TO_str). reflexivity.
Qed.

Lemma nodup_map_inj {A B} (f : A -> B) l a b : NoDup (map f l) -> In a l -> In b l -> f a = f b -> a = b.
Proof.
  induction l as [|x l IH]; intros Hnd Ha Hb Hf; [contradiction|]. cbn [map] in Hnd. inversion Hnd as [|y l' Hx Hl]; subst.
  destruct Ha as [->|Ha]; destruct Hb as [->|Hb]; [reflexivity| | |apply IH; assumption].
  - exfalso. apply Hx. rewrite Hf. apply in_map. exact Hb.
  - exfalso. apply Hx. rewrite <- Hf. apply in_map. exact Ha.
Qed.

Section AppMerge.
  Variable T : ltables.
  Let key := ls_key (lt_app_svc T).
  Let lim := lt_app_rst_limit T.
  Let itv := lt_app_rst_interval T.
  Let svcsch := ls_schema (lt_app_svc T).
  Variable R : schema.
  Variables a0 a1 a2 : str.
  Hypothesis HR : active R = [(a0, (key, TStr)); (a1, (lim, TInt)); (a2, (itv, TInt))].
  Hypothesis Hkl : key <> lim.
  Hypothesis Hki : key <> itv.
  Hypothesis Hli : lim <> itv.
  Hypothesis Hnf : NoDup (fields svcsch).
  Variable ak : str.
  Hypothesis Hak : In (ak, (key, TStr)) (active svcsch).
  Variable ss : list svc.
  Hypothesis Hnames : NoDup (map (svc_name T) ss).
  (** every service: a str name; its restart settings are ints *)
  Hypothesis Hss : forall s, In s ss -> (exists n, alookup (sv_fields s) key = Some (FStr n)) /\
     (exists l, alookup (rst_of T s) lim = Some (FInt l) /\ alookup (svc_view T s) lim = Some (FInt l)) /\
     (exists i, alookup (rst_of T s) itv = Some (FInt i) /\ alookup (svc_view T s) itv = Some (FInt i)) /\
     alookup (svc_view T s) key = alookup (sv_fields s) key.

  Let nfF (s : svc) : obj := nf_base svcsch (sv_fields s).
  Let nfR (s : svc) : obj := nf_base R (svc_view T s).

  Lemma nfR_eq s : In s ss -> exists n l i, alookup (sv_fields s) key = Some (FStr n) /\
    nfR s = [(key, FStr n); (lim, FInt l); (itv, FInt i)] /\ nf_restart T s = [(lim, FInt l); (itv, FInt i)] /\
    alookup (nfF s) key = Some (FStr n) /\ svc_name T s = n.
  Proof.
    intros Hs. destruct (Hss s Hs) as [[n Hn] [[l [Hrl Hvl]] [[i [Hri Hvi]] Hvk]]].
    exists n, l, i. split; [exact Hn|]. split; [|split; [|split]].
    - unfold nfR, nf_base. rewrite HR. cbn [flat_map fst snd]. rewrite Hvk, Hn, Hvl, Hvi. reflexivity.
    - unfold nf_restart. fold (rst_of T s). fold lim itv. unfold get_default. rewrite Hrl, Hri. reflexivity.
    - unfold nfF. rewrite (alookup_nf_base svcsch _ ak key TStr Hnf Hak), Hn. reflexivity.
    - unfold svc_name. fold key. rewrite Hn. reflexivity.
  Qed.

  Lemma merge_one_spec s : In s ss -> forall rl cur, (forall r, In r rl -> exists s', In s' ss /\ r = nfR s') ->
    merge_one T (nfF s) rl cur = oret (if existsb (fun r => match alookup r key with Some (FStr n) => str_eqb n (svc_name T s) | _ => false end) rl
                                      then Some (nf_restart T s) else cur).
  Proof.
    intros Hs. destruct (nfR_eq s Hs) as [n [l [i [Hn [HR' [Hrst [HF Hname]]]]]]].
    induction rl as [|r rl IH]; intros cur Hrl; [reflexivity|]. cbn [merge_one existsb]. fold key lim itv.
    destruct (Hrl r (or_introl eq_refl)) as [s' [Hs' ->]].
    destruct (nfR_eq s' Hs') as [n' [l' [i' [Hn' [HR'' [Hrst' [_ Hname']]]]]]].
    rewrite HR''. cbn [alookup]. rewrite str_eqb_refl, HF.
    rewrite (str_eqb_neq key lim Hkl), (str_eqb_neq key itv Hki), (str_eqb_neq lim itv Hli), !str_eqb_refl. cbn [alookup].
    rewrite Hname in IH |- *. destruct (str_eqb n' n) eqn:E.
    - apply str_eqb_eq in E. rewrite (proj2 (fval_eqb_str n' n) E). cbn [orb].
      assert (s' = s) by (apply (nodup_map_inj (svc_name T) ss); [exact Hnames|exact Hs'|exact Hs|congruence]). subst s'.
      rewrite IH by (intros r Hr; apply Hrl; right; exact Hr).
      rewrite Hrst in Hrst'. inversion Hrst'; subst l' i'. rewrite Hrst.
      match goal with |- context [existsb ?f rl] => destruct (existsb f rl) end; reflexivity.
    - assert (Hneq : fval_eqb (FStr n') (FStr n) = false).
      { destruct (fval_eqb (FStr n') (FStr n)) eqn:E'; [|reflexivity]. apply fval_eqb_str in E'. rewrite E', str_eqb_refl in E. discriminate. }
      rewrite Hneq. cbn [orb]. apply IH. intros r Hr. apply Hrl. right. exact Hr.
  Qed.

  Lemma merge_restarts_spec rl : Permutation rl (map nfR ss) ->
    forall l, (forall s, In s l -> In s ss) -> merge_restarts T (map nfF l) rl = oret (map (nf_svc T) l).
  Proof.
    intros Hp. assert (Hrl : forall r, In r rl -> exists s', In s' ss /\ r = nfR s').
    { intros r Hr. apply (Permutation_in _ Hp) in Hr. apply in_map_iff in Hr as [s' [<- Hs']]. exists s'. split; [exact Hs'|reflexivity]. }
    induction l as [|s l IH]; intros Hl; [reflexivity|]. cbn [map merge_restarts].
    assert (Hs : In s ss) by (apply Hl; left; reflexivity).
    rewrite (merge_one_spec s Hs rl None Hrl).
    assert (Hex : existsb (fun r => match alookup r key with Some (FStr n) => str_eqb n (svc_name T s) | _ => false end) rl = true).
    { apply existsb_exists. exists (nfR s). split; [eapply Permutation_in; [apply Permutation_sym; exact Hp|apply in_map; exact Hs]|].
      destruct (nfR_eq s Hs) as [n [l' [i' [_ [HR' [_ [_ Hname]]]]]]]. rewrite HR'. cbn [alookup]. rewrite str_eqb_refl, Hname. apply str_eqb_refl. }
    rewrite Hex. cbn [oret obind]. rewrite IH by (intros s' Hs'; apply Hl; right; exact Hs'). reflexivity.
  Qed.

  Theorem merge_sorted rl : Permutation rl (map nfR ss) ->
    merge_restarts T (sort_by item_lt (map nfF ss)) rl = oret (sort_by svc_lt (map (nf_svc T) ss)).
  Proof.
    intros Hp.
    rewrite <- (sort_by_map nfF (fun a b => item_lt (nfF a) (nfF b)) item_lt (fun a b => eq_refl)).
    rewrite (merge_restarts_spec rl Hp) by (intros s Hs; eapply Permutation_in; [apply sort_by_perm|exact Hs]).
    rewrite (sort_by_map (nf_svc T) (fun a b => item_lt (nfF a) (nfF b)) svc_lt); [reflexivity|].
    intros a b. reflexivity.
  Qed.
End AppMerge.

(** the affinity limits: a dict from the sorted {level, limit} items *)
Lemma affinity_map_spec T l : lt_app_aff_level T <> lt_app_aff_limit T ->
  (forall x, In x l -> exists k z, x = [(lt_app_aff_level T, FStr k); (lt_app_aff_limit T, FInt z)]) ->
  forall acc, NoDup (map fst acc ++ map (fun x => match alookup x (lt_app_aff_level T) with Some (FStr k) => k | _ => [] end) l) ->
  affinity_map T l acc = oret (acc ++ map (fun x => (match alookup x (lt_app_aff_level T) with Some (FStr k) => k | _ => [] end,
                                                    get_default x (lt_app_aff_limit T) FNone)) l).
Proof.
  intros Hne. induction l as [|x l IH]; intros Hl acc Hnd; [cbn; rewrite app_nil_r; reflexivity|].
  destruct (Hl x (or_introl eq_refl)) as [k [z ->]]. cbn [affinity_map map alookup] in *.
  rewrite str_eqb_refl, (str_eqb_neq _ _ Hne) in *. cbn [alookup] in *. rewrite str_eqb_refl.
  unfold get_default. cbn [alookup]. rewrite (str_eqb_neq _ _ Hne). cbn [alookup]. rewrite str_eqb_refl.
  assert (Hk : ~ In k (map fst acc)).
  { intros Hin. apply NoDup_remove_2 in Hnd. apply Hnd. apply in_or_app. left. exact Hin. }
  rewrite (aset_fresh acc k (FInt z) Hk). rewrite IH.
  - rewrite <- app_assoc. reflexivity.
  - intros y Hy. apply Hl. right. exact Hy.
  - rewrite map_app. cbn [map fst]. rewrite <- app_assoc. cbn [app]. exact Hnd.
Qed.

(** * 26. Application: the round trip *)
Lemma read_list E secs base ls sorted items : layout_ok E secs -> In (lsec_of ls sorted) secs ->
  list_spec_ok base TStr ls = true -> items_typed ls items = true -> Permutation sorted (items_or_nil items) ->
  grouped_list (remove_empty E) (ls_lprefix ls) (ls_schema ls) = Ok (nf_items (ls_schema ls) (items_or_nil items)).
Proof.
  intros Hlay HL Hls Hty Hperm.
  destruct (list_spec_ok_spec base TStr ls Hls) as [Hiw [Hiok [[ak Hak] _]]].
  unfold items_typed, item_typed in Hty.
  assert (Hst : forall x, In x sorted -> obj_typed2 (ls_schema ls) x = true /\ has_str_key (ls_key ls) x = true).
  { intros x Hx. rewrite forallb_forall in Hty. apply andb_true_iff. apply Hty. eapply Permutation_in; [exact Hperm|exact Hx]. }
  change (ls_lprefix ls) with (l_lp (lsec_of ls sorted)).
  rewrite (multi_read E secs (lsec_of ls sorted) (ls_schema ls) Hlay HL Hiok).
  - unfold nf_items. f_equal. cbn [lsec_of l_hx]. rewrite <- (map_map snd (nf_base (ls_schema ls))), number_snd.
    apply (items_sort_canon (ls_schema ls)); [|apply Permutation_map; exact Hperm].
    apply items_P; [exact Hiok|]. apply forallb_forall. intros x Hx. apply Hst. exact Hx.
  - intros r Hr. exact Hr.
  - intros o x Hin. cbn [lsec_of l_hx l_csch] in *. destruct (number_in _ _ _ _ _ Hin) as [i [_ [_ Hx]]].
    destruct (Hst x Hx) as [Htx Hkx]. split; [exact Htx|].
    unfold has_str_key in Hkx. destruct (alookup x (ls_key ls)) as [[|s| | | | |]|] eqn:Ek; try discriminate.
    exists ak, (ls_key ls), TStr, (EStr s), []. split; [exact Hak|]. unfold row_assigned2. rewrite Ek. reflexivity.
Qed.

Lemma zlen_cons_nonzero {A} (x : A) l : (zlen (x :: l) =? 0) = false.
Proof. rewrite zlen_cons. pose proof (zlen_nonneg l). lia. Qed.

Lemma vring_final {A} (cells : list str) (rules : list obj) (X : A) :
  (if fval_truthy (FStrs cells) || negb (zlen rules =? 0) then Some X else None)
  = match cells, rules with [], [] => None | _, _ => Some X end.
Proof.
  destruct cells as [|c cs]; destruct rules as [|r rs]; reflexivity.
Qed.

Theorem app_rt T a : app_tables_ok T = true -> app_typed T a = true -> app_store_load T a = Some (Ok (app_nf T a)).
Proof.
  intros HT Hty.
  destruct (app_write T a HT Hty) as [E [ssv [sep [senv [saff [svr [HE [Hpsv [Hpep [Hpenv [Hpaff [Hpvr [Hlay [Hbase Hvrow]]]]]]]]]]]]]].
  pose proof HT as HT0. split_app HT.
  unfold app_typed in Hty.
  apply andb_true_iff in Hty as [Hty Hvr]. apply andb_true_iff in Hty as [Hty Haff]. apply andb_true_iff in Hty as [Hty Henv].
  apply andb_true_iff in Hty as [Hty Hep]. apply andb_true_iff in Hty as [Hty Hnames]. apply andb_true_iff in Hty as [Hty Hsvcs].
  apply andb_true_iff in Hty as [Hbt Heph].
  destruct (wf_schema_spec _ Hwf) as [Hna [Hnf Hattr]].
  pose proof Hlists as Hlists'. cbn [app_lists forallb] in Hlists'.
  apply andb_true_iff in Hlists' as [Hl_svc Hlists']. apply andb_true_iff in Hlists' as [Hl_ep Hlists'].
  apply andb_true_iff in Hlists' as [Hl_env Hlists']. apply andb_true_iff in Hlists' as [Hl_aff Hlists'].
  apply andb_true_iff in Hlists' as [Hl_vr _].
  destruct (aff_shape_spec T Haffshape) as [[r0 [r1 Haffs]] Haffkey].
  destruct (vr_shape_spec T Hvshape) as [av [Hvrs [Hav1 Hav2]]].
  destruct (rst_shape_spec T Hrshape) as [a0 [a1 [a2 [rest [Hrs Hsv]]]]].
  destruct (dflt_shape_spec T Hdflt) as [l0 [i0 Hd]].
  destruct (csch_facts T a0 a1 a2 rest Hrs Hsv Hcwf) as [Hsna [Hsnf [Ha1 [Ha2 [Ha12 [Hl [Hi [Hli [Ha0 [Hk Hcattr]]]]]]]]]].
  destruct (list_spec_ok_spec _ _ _ Hl_svc) as [Hsiw [Hsiok [[ak Hak] _]]].
  set (ss := items_or_nil (ap_services a)) in *.
  set (ER := remove_empty E).
  pose proof Hlay as [HndE _].
  (* 1. the class schema *)
  assert (Hbt' : obj_typed2 (lt_app T) (app_base T a) = true)
    by (apply app_base_typed; [exact Hnf|apply row_is_spec; exact Htcpf|apply row_is_spec; exact Hudpf|exact Hbt|exact Heph]).
  assert (R1 : base_from_entry T (lt_app T) ER = Ok (nf_base (lt_app T) (app_base T a))).
  { apply base_from_entry_ok; [apply (layout_ts T E _ Hlay Hc Hm)|]. apply base_rt; [exact Hnf|exact Hbt'|].
    intros a' f t Hin. unfold ER. rewrite (alookup_remove_empty E a' HndE), (Hbase a' f t Hin). reflexivity. }
  (* 2. services and their restart settings *)
  assert (Hss : forall s, In s ss -> (exists n, alookup (sv_fields s) (ls_key (lt_app_svc T)) = Some (FStr n)) /\
     (exists l, alookup (rst_of T s) (lt_app_rst_limit T) = Some (FInt l) /\ alookup (svc_view T s) (lt_app_rst_limit T) = Some (FInt l)) /\
     (exists i, alookup (rst_of T s) (lt_app_rst_interval T) = Some (FInt i) /\ alookup (svc_view T s) (lt_app_rst_interval T) = Some (FInt i)) /\
     alookup (svc_view T s) (ls_key (lt_app_svc T)) = alookup (sv_fields s) (ls_key (lt_app_svc T))).
  { intros s Hs. rewrite forallb_forall in Hsvcs. specialize (Hsvcs s Hs). unfold svc_typed, item_typed in Hsvcs.
    apply andb_true_iff in Hsvcs as [Hf Hr]. apply andb_true_iff in Hf as [_ Hkey].
    destruct (svc_view_rst T a0 a1 a2 rest Hrs Hsv Hcwf l0 i0 Hd s Hr) as [Hl' [Hi' _]].
    split; [|split; [exact Hl'|split; [exact Hi'|]]].
    - unfold has_str_key in Hkey. destruct (alookup (sv_fields s) (ls_key (lt_app_svc T))) as [[|n| | | | |]|]; try discriminate. exists n. reflexivity.
    - apply svc_view_field; intros Heq; [apply Hl|apply Hi]; rewrite <- Heq; exact Hk. }
  assert (Hss_ty : forall s, In s ss -> obj_typed2 (ls_schema (lt_app_svc T)) (sv_fields s) = true).
  { intros s Hs. rewrite forallb_forall in Hsvcs. specialize (Hsvcs s Hs). unfold svc_typed, item_typed in Hsvcs.
    apply andb_true_iff in Hsvcs as [Hf _]. apply andb_true_iff in Hf as [Hf _]. exact Hf. }
  assert (Hview_svc : forall s f, In f (fields (ls_schema (lt_app_svc T))) -> alookup (svc_view T s) f = alookup (sv_fields s) f).
  { intros s f Hf. apply svc_view_field; intros ->; [exact (Hl Hf)|exact (Hi Hf)]. }
  assert (HactR : active (lt_app_rst_schema T) = [(a0, (ls_key (lt_app_svc T), TStr)); (a1, (lt_app_rst_limit T, TInt));
                                                   (a2, (lt_app_rst_interval T, TInt))]) by (rewrite Hrs; reflexivity).
  assert (Hkl : ls_key (lt_app_svc T) <> lt_app_rst_limit T) by (intros Heq; apply Hl; rewrite <- Heq; exact Hk).
  assert (Hki : ls_key (lt_app_svc T) <> lt_app_rst_interval T) by (intros Heq; apply Hi; rewrite <- Heq; exact Hk).
  assert (Ha0row : In (a0, (ls_key (lt_app_svc T), TStr)) (active (ls_schema (lt_app_svc T)))) by (rewrite Hsv, active_some; left; reflexivity).
  assert (Hsvc_in : In (svc_sec T ssv) [svc_sec T ssv; lsec_of (lt_app_ep T) sep; lsec_of (lt_app_env T) senv;
                                         lsec_of (lt_app_aff T) saff; lsec_of (lt_app_vr T) svr]) by (left; reflexivity).
  assert (Hhx_s : forall o x, In (o, x) (svc_hx T ssv) -> exists s, In s ss /\ x = svc_view T s).
  { intros o x Hin. unfold svc_hx in Hin. apply in_map_iff in Hin as [[o' s] [Heq Hin]]. cbn [fst snd] in Heq. inversion Heq; subst.
    destruct (number_in _ _ _ _ _ Hin) as [_ [_ [_ Hs]]]. exists s. split; [eapply Permutation_in; [exact Hpsv|exact Hs]|reflexivity]. }
  assert (Hkeyrow : forall s, In s ss -> exists v vs, row_assigned2 (svc_view T s) (ls_key (lt_app_svc T)) TStr = Some (v :: vs)).
  { intros s Hs. destruct (Hss s Hs) as [[n Hn] [_ [_ Hvk]]]. unfold row_assigned2. rewrite Hvk, Hn. eexists. eexists. reflexivity. }
  assert (Hkey_c : In (a0, (ls_key (lt_app_svc T), TStr)) (active (app_csch T))).
  { rewrite (csch_active T a0 a1 a2 Hrs). apply in_or_app. left. exact Ha0row. }
  assert (Hmap_hx : forall (g : obj -> obj), map (fun ox => g (snd ox)) (svc_hx T ssv) = map (fun s => g (svc_view T s)) ssv).
  { intros g. unfold svc_hx. rewrite map_map. cbn [snd].
    rewrite <- (map_map snd (fun s => g (svc_view T s))), number_snd. reflexivity. }
  assert (R2 : grouped_list ER (ls_lprefix (lt_app_svc T)) (ls_schema (lt_app_svc T))
               = Ok (sort_by item_lt (map (fun s => nf_base (ls_schema (lt_app_svc T)) (sv_fields s)) ss))).
  { change (ls_lprefix (lt_app_svc T)) with (l_lp (svc_sec T ssv)). unfold ER.
    rewrite (multi_read E _ (svc_sec T ssv) (ls_schema (lt_app_svc T)) Hlay Hsvc_in Hsiok).
    - f_equal. cbn [svc_sec l_hx]. rewrite (Hmap_hx (nf_base (ls_schema (lt_app_svc T)))).
      rewrite (map_ext_in _ (fun s => nf_base (ls_schema (lt_app_svc T)) (sv_fields s)))
        by (intros s _; apply nf_base_ext; intros f Hf; apply Hview_svc; exact Hf).
      apply (items_sort_canon (ls_schema (lt_app_svc T))); [|apply Permutation_map; exact Hpsv].
      apply Forall_forall. intros x Hx. apply in_map_iff in Hx as [s [<- Hs]].
      apply nf_item_P; [exact Hsiok|apply Hss_ty; eapply Permutation_in; [exact Hpsv|exact Hs]].
    - intros r Hr. cbn [svc_sec l_csch]. rewrite (csch_active T a0 a1 a2 Hrs). apply in_or_app. left. exact Hr.
    - intros o x Hin. cbn [svc_sec l_hx l_csch] in *. destruct (Hhx_s o x Hin) as [s [Hs ->]]. split.
      + apply obj_typed2_intro. intros a' f t Hr. rewrite (Hview_svc s f (in_active_fields _ _ _ _ Hr)).
        apply (row_typed _ _ a' f t (Hss_ty s Hs) Hr).
      + destruct (Hkeyrow s Hs) as [v [vs Hv]]. exists a0, (ls_key (lt_app_svc T)), TStr, v, vs. split; [exact Hkey_c|exact Hv]. }
  assert (HRok : isch_ok (lt_app_rst_schema T)).
  { split.
    - unfold fields. rewrite HactR. cbn [map fst snd]. constructor; [intros [H|[H|[]]]; [exact (Hkl (eq_sym H))|exact (Hki (eq_sym H))]|].
      constructor; [intros [H|[]]; exact (Hli (eq_sym H))|]. constructor; [intros []|constructor].
    - intros a' f t Hin. rewrite HactR in Hin. destruct Hin as [H|[H|[H|[]]]]; inversion H; reflexivity. }
  assert (R3 : exists RL, grouped_list ER (ls_lprefix (lt_app_svc T)) (lt_app_rst_schema T) = Ok RL /\
                 Permutation RL (map (fun s => nf_base (lt_app_rst_schema T) (svc_view T s)) ss)).
  { eexists. split.
    - change (ls_lprefix (lt_app_svc T)) with (l_lp (svc_sec T ssv)). unfold ER.
      apply (multi_read E _ (svc_sec T ssv) (lt_app_rst_schema T) Hlay Hsvc_in HRok).
      + intros r Hr. cbn [svc_sec l_csch]. rewrite (csch_active T a0 a1 a2 Hrs). rewrite HactR in Hr.
        destruct Hr as [<-|[<-|[<-|[]]]]; apply in_or_app; [left; exact Ha0row|right; left; reflexivity|right; right; left; reflexivity].
      + intros o x Hin. cbn [svc_sec l_hx l_csch] in *. destruct (Hhx_s o x Hin) as [s [Hs ->]]. split.
        * apply obj_typed2_intro. intros a' f t Hr. rewrite HactR in Hr. destruct (Hss s Hs) as [[n Hn] [[l [_ Hvl]] [[i [_ Hvi]] Hvk]]].
          destruct Hr as [H|[H|[H|[]]]]; inversion H; subst a' f t; [rewrite Hvk, Hn|rewrite Hvl|rewrite Hvi]; reflexivity.
        * destruct (Hkeyrow s Hs) as [v [vs Hv]]. exists a0, (ls_key (lt_app_svc T)), TStr, v, vs. split; [exact Hkey_c|exact Hv].
    - cbn [svc_sec l_hx]. rewrite (Hmap_hx (nf_base (lt_app_rst_schema T))).
      eapply Permutation_trans; [apply sort_by_perm|apply Permutation_map; exact Hpsv]. }
  destruct R3 as [RL [R3 HRL]].
  (* 3. the other lists *)
  assert (R4 : grouped_list ER (ls_lprefix (lt_app_ep T)) (ls_schema (lt_app_ep T))
               = Ok (nf_items (ls_schema (lt_app_ep T)) (items_or_nil (ap_endpoints a))))
    by (apply (read_list E _ (lt_app T) (lt_app_ep T) sep (ap_endpoints a) Hlay); [right; left; reflexivity|assumption|assumption|assumption]).
  assert (R5 : grouped_list ER (ls_lprefix (lt_app_env T)) (ls_schema (lt_app_env T))
               = Ok (nf_items (ls_schema (lt_app_env T)) (items_or_nil (ap_environ a))))
    by (apply (read_list E _ (lt_app T) (lt_app_env T) senv (ap_environ a) Hlay); [right; right; left; reflexivity|assumption|assumption|assumption]).
  assert (Hne_aff : lt_app_aff_level T <> lt_app_aff_limit T).
  { destruct (list_spec_ok_spec _ _ _ Hl_aff) as [_ [[Hnfa _] _]].
    unfold fields in Hnfa. rewrite Haffs in Hnfa. cbn in Hnfa. inversion Hnfa as [|x l Hx _]; subst. intros Heq. apply Hx. left. symmetry. exact Heq. }
  set (d := items_or_nil (ap_affinity a)) in *.
  assert (R6 : grouped_list ER (ls_lprefix (lt_app_aff T)) (ls_schema (lt_app_aff T))
               = Ok (nf_items (ls_schema (lt_app_aff T)) (affinity_items T d))).
  { apply (read_list E _ (lt_app T) (lt_app_aff T) saff (Some (affinity_items T d)) Hlay); [right; right; right; left; reflexivity|assumption| |exact Hpaff].
    apply aff_items_typed; [exact Haff|exists r0, r1; exact Haffs|exact Haffkey|exact Hne_aff]. }
  assert (Hvr_ty : items_typed (lt_app_vr T) (Some (vr_rules_of a)) = true).
  { unfold vr_rules_of, vring_typed in *. destruct (ap_vring a) as [v|]; [|reflexivity]. destruct (vring_truthy v); [|reflexivity].
    apply andb_true_iff in Hvr as [_ Hr]. exact Hr. }
  assert (R7 : grouped_list ER (ls_lprefix (lt_app_vr T)) (ls_schema (lt_app_vr T))
               = Ok (nf_items (ls_schema (lt_app_vr T)) (vr_rules_of a)))
    by (apply (read_list E _ (lt_app T) (lt_app_vr T) svr (Some (vr_rules_of a)) Hlay); [right; right; right; right; left; reflexivity|assumption|assumption|exact Hpvr]).
  (* 4. the vring attribute *)
  assert (Hvro_ty : obj_typed2 (lt_app_vr_schema T) (vr_obj T a) = true).
  { rewrite Hvrs. unfold vr_obj, vring_typed, vring_obj in *. cbn [obj_typed2 forallb].
    destruct (ap_vring a) as [v|]; [|reflexivity]. destruct (vring_truthy v); [|reflexivity].
    apply andb_true_iff in Hvr as [Hcells _]. destruct (vr_cells v) as [c|]; cbn [alookup]; [|reflexivity].
    rewrite str_eqb_refl. destruct c; try discriminate; reflexivity. }
  assert (R8 : entry_2_dict (lt_app_vr_schema T) ER = Ok (nf_base (lt_app_vr_schema T) (vr_obj T a))).
  { apply base_rt; [unfold fields; rewrite Hvrs; cbn; constructor; [intros []|constructor]|exact Hvro_ty|].
    intros a' f t Hin. unfold ER. rewrite (alookup_remove_empty E a' HndE), (Hvrow a' f t Hin). reflexivity. }
  (* 5. putting it together *)
  unfold app_store_load. rewrite HE. cbn [oret obind]. unfold app_from_entry. fold ER.
  rewrite R1. cbn [rlift obind]. rewrite R2. cbn [rlift obind]. rewrite R3. cbn [rlift obind]. rewrite R4. cbn [rlift obind].
  rewrite R5. cbn [rlift obind]. rewrite R6. cbn [rlift obind]. rewrite R7. cbn [rlift obind].
  rewrite (merge_sorted T (lt_app_rst_schema T) a0 a1 a2 HactR Hkl Hki Hli Hsnf ak Hak ss
             (proj1 (keys_nodup_NoDup _) Hnames) Hss RL HRL). cbn [oret obind].
  assert (Haffm : affinity_map T (nf_items (ls_schema (lt_app_aff T)) (affinity_items T d)) []
                  = oret (map (fun x => (match alookup x (lt_app_aff_level T) with Some (FStr k) => k | _ => [] end,
                                         get_default x (lt_app_aff_limit T) FNone))
                              (nf_items (ls_schema (lt_app_aff T)) (affinity_items T d)))).
  { assert (Hnfid : forall x, In x (affinity_items T d) -> nf_base (ls_schema (lt_app_aff T)) x = x /\
                      exists k z, x = [(lt_app_aff_level T, FStr k); (lt_app_aff_limit T, FInt z)] /\ In (k, FInt z) d).
    { intros x Hx. unfold affinity_items in Hx. apply in_map_iff in Hx as [[k v] [<- Hin]]. cbn [fst snd].
      unfold int_map in Haff. apply andb_true_iff in Haff as [_ Hall]. rewrite forallb_forall in Hall. specialize (Hall _ Hin).
      cbn [snd] in Hall. destruct v as [| |z| | | |]; try discriminate. split; [|exists k, z; split; [reflexivity|exact Hin]].
      unfold nf_base. rewrite Haffs. cbn [active flat_map fst snd alookup app]. rewrite str_eqb_refl, (str_eqb_neq _ _ Hne_aff).
      cbn [alookup]. rewrite str_eqb_refl. reflexivity. }
    assert (Hmapid : map (nf_base (ls_schema (lt_app_aff T))) (affinity_items T d) = affinity_items T d).
    { rewrite <- (map_id (affinity_items T d)) at 2. apply map_ext_in. intros x Hx. apply (Hnfid x Hx). }
    unfold nf_items. rewrite Hmapid.
    rewrite (affinity_map_spec T _ Hne_aff); [reflexivity| |].
    - intros x Hx. apply (Permutation_in _ (sort_by_perm item_lt _)) in Hx. destruct (Hnfid x Hx) as [_ [k [z [Hxeq _]]]]. exists k, z. exact Hxeq.
    - cbn [map app]. eapply Permutation_NoDup; [apply Permutation_map, Permutation_sym, sort_by_perm|].
      unfold affinity_items. rewrite map_map. cbn [alookup fst]. rewrite str_eqb_refl.
      unfold int_map in Haff. apply andb_true_iff in Haff as [Hnd _]. apply keys_nodup_NoDup in Hnd. exact Hnd. }
  rewrite Haffm. cbn [oret obind]. rewrite R8. cbn [rlift obind].
  (* the vring *)
  assert (Hvd : exists cells, nf_base (lt_app_vr_schema T) (vr_obj T a) = [(lt_app_vr_cells T, FStrs cells)] /\
                  cells = match ap_vring a with
                          | Some v => if vring_truthy v then match vr_cells v with Some (FStrs l) => l | _ => [] end else []
                          | None => []
                          end).
  { unfold nf_base. rewrite Hvrs. cbn [active flat_map fst snd app]. unfold vr_obj, vring_typed, vring_obj in *.
    destruct (ap_vring a) as [v|]; [|exists []; split; reflexivity]. destruct (vring_truthy v); [|exists []; split; reflexivity].
    apply andb_true_iff in Hvr as [Hcells _]. destruct (vr_cells v) as [c|]; cbn [alookup]; [|exists []; split; reflexivity].
    rewrite str_eqb_refl. destruct c as [| | | |l| |]; try discriminate; [exists []; split; reflexivity|].
    destruct l; eexists; split; reflexivity. }
  destruct Hvd as [cells [Hvd Hcells]]. rewrite Hvd. cbn [alookup]. rewrite str_eqb_refl.
  unfold oret. do 2 f_equal. unfold app_nf. fold ss d.
  rewrite (vring_final cells (nf_items (ls_schema (lt_app_vr T)) (vr_rules_of a))).
  assert (Hrules : nf_items (ls_schema (lt_app_vr T)) (vr_rules_of a)
                   = match ap_vring a with
                     | Some v => if vring_truthy v then nf_items (ls_schema (lt_app_vr T)) (items_or_nil (vr_rules v)) else []
                     | None => []
                     end).
  { unfold vr_rules_of. destruct (ap_vring a) as [v|]; [destruct (vring_truthy v)|]; reflexivity. }
  rewrite <- Hrules, <- Hcells. reflexivity.
Qed.

(** * 27. Normal forms are normal: typed again, and unchanged by a second store + load *)
Theorem nf_items_idem isch items : isch_ok isch -> forallb (obj_typed2 isch) items = true ->
  nf_items isch (nf_items isch items) = nf_items isch items.
Proof.
  intros Hok Hty. pose proof Hok as [Hnf _]. unfold nf_items.
  assert (Hfix : map (nf_base isch) (sort_by item_lt (map (nf_base isch) items)) = sort_by item_lt (map (nf_base isch) items)).
  { rewrite <- (map_id (sort_by item_lt (map (nf_base isch) items))) at 2. apply map_ext_in. intros y Hy.
    apply (Permutation_in _ (sort_by_perm item_lt _)) in Hy. apply in_map_iff in Hy as [x [<- Hx]].
    rewrite forallb_forall in Hty. apply nf_base_idem; [exact Hnf|apply Hty; exact Hx]. }
  rewrite Hfix. apply (items_sort_idem isch). apply items_P; assumption.
Qed.

Lemma nf_items_typed ls items : isch_ok (ls_schema ls) -> (exists ak, In (ak, (ls_key ls, TStr)) (active (ls_schema ls))) ->
  items_typed ls (Some items) = true -> items_typed ls (Some (nf_items (ls_schema ls) items)) = true.
Proof.
  intros [Hnf Hty] [ak Hak] H. unfold items_typed, items_or_nil, item_typed in *. apply forallb_forall. intros y Hy.
  unfold nf_items in Hy. apply (Permutation_in _ (sort_by_perm item_lt _)) in Hy. apply in_map_iff in Hy as [x [<- Hx]].
  rewrite forallb_forall in H. specialize (H x Hx). apply andb_true_iff in H as [Htx Hkx]. apply andb_true_iff. split.
  - apply nf_base_typed; assumption.
  - unfold has_str_key in *. rewrite (alookup_nf_base _ _ ak _ TStr Hnf Hak).
    destruct (alookup x (ls_key ls)) as [[|s| | | | |]|]; try discriminate. reflexivity.
Qed.

(** dicts are compared key by key (Python dict equality ignores the order of the keys) *)
Definition obj_eqv (a b : obj) : Prop := forall k, alookup a k = alookup b k.

Definition fixed (sch : schema) (o : obj) : Prop :=
  (forall a f t, In (a, (f, t)) (active sch) -> expected_field t (alookup o f) = alookup o f) /\
  (forall k, ~ In k (fields sch) -> alookup o k = None).

Lemma nf_base_fixed_eqv sch o : NoDup (fields sch) -> fixed sch o -> obj_eqv (nf_base sch o) o.
Proof.
  intros Hnf [H1 H2] k. destruct (in_dec str_eq_dec k (fields sch)) as [Hin|Hn].
  - unfold fields in Hin. apply in_map_iff in Hin as [[a [f t]] [Hk Hin]]. cbn [fst snd] in Hk. subst f.
    rewrite (alookup_nf_base sch o a k t Hnf Hin). apply (H1 a k t Hin).
  - rewrite (H2 k Hn). apply alookup_none_iff. intros Hin. apply Hn. eapply nf_base_keys. exact Hin.
Qed.

Lemma nf_base_is_fixed sch o : NoDup (fields sch) -> obj_typed2 sch o = true -> fixed sch (nf_base sch o).
Proof.
  intros Hnf Hty. split.
  - intros a f t Hin. rewrite (alookup_nf_base sch o a f t Hnf Hin). apply expected_idem. apply (row_typed sch o a f t Hty Hin).
  - intros k Hn. apply alookup_none_iff. intros Hin. apply Hn. eapply nf_base_keys. exact Hin.
Qed.

Lemma fixed_set_default sch o p d : NoDup (fields sch) -> (exists ap, In (ap, (p, TStr)) (active sch)) -> fixed sch o ->
  fixed sch (set_default o p (FStr d)).
Proof.
  intros Hnf [ap Hap] [H1 H2]. split.
  - intros a f t Hin. rewrite alookup_set_default. destruct (alookup o f) as [x|] eqn:E.
    + rewrite <- E. apply (H1 a f t Hin).
    + destruct (str_eqb p f) eqn:Ep.
      * apply str_eqb_eq in Ep. subst f. rewrite (field_type_unique sch a p t ap TStr Hnf Hin Hap). reflexivity.
      * rewrite <- E. apply (H1 a f t Hin).
  - intros k Hn. rewrite alookup_set_default, (H2 k Hn). rewrite str_eqb_neq; [reflexivity|].
    intros ->. apply Hn. eapply in_active_fields. exact Hap.
Qed.

Lemma fixed_set_defaults sch o ds : NoDup (fields sch) -> defaults_ok sch ds = true -> fixed sch o -> fixed sch (set_defaults o ds).
Proof.
  intros Hnf. unfold set_defaults, defaults_ok. revert o. induction ds as [|[f d] ds IH]; intros o Hds Hfix; [exact Hfix|].
  cbn [forallb fst] in Hds. apply andb_true_iff in Hds as [Hf Hds]. cbn [fold_left fst snd]. apply IH; [exact Hds|].
  apply fixed_set_default; [exact Hnf|apply row_is_spec; exact Hf|exact Hfix].
Qed.

Lemma eqv_set_default a b p v : obj_eqv a b -> obj_eqv (set_default a p v) (set_default b p v).
Proof. intros H k. rewrite !alookup_set_default, (H k). reflexivity. Qed.

Lemma eqv_set_defaults a b ds : obj_eqv a b -> obj_eqv (set_defaults a ds) (set_defaults b ds).
Proof.
  unfold set_defaults. revert a b. induction ds as [|[f d] ds IH]; intros a b H; [exact H|]. cbn [fold_left]. apply IH. apply eqv_set_default. exact H.
Qed.

Lemma set_default_twice_eqv o p v : obj_eqv (set_default (set_default o p v) p v) (set_default o p v).
Proof. rewrite set_default_idem. intros k. reflexivity. Qed.

Lemma set_defaults_keep o ds k x : alookup o k = Some x -> alookup (set_defaults o ds) k = Some x.
Proof.
  unfold set_defaults. revert o. induction ds as [|[f d] ds IH]; intros o H; [exact H|]. cbn [fold_left]. apply IH.
  rewrite alookup_set_default, H. reflexivity.
Qed.

Lemma set_default_present o p v : alookup o p <> None -> set_default o p v = o.
Proof. intros H. unfold set_default. destruct (alookup o p); [reflexivity|congruence]. Qed.

Lemma set_defaults_present o ds : (forall f, In f (map fst ds) -> alookup o f <> None) -> set_defaults o ds = o.
Proof.
  unfold set_defaults. induction ds as [|[f d] ds IH]; intros H; [reflexivity|]. cbn [fold_left fst snd].
  rewrite set_default_present by (apply H; left; reflexivity). apply IH. intros f' Hf'. apply H. right. exact Hf'.
Qed.

Lemma set_defaults_has o ds f : In f (map fst ds) -> alookup (set_defaults o ds) f <> None.
Proof.
  unfold set_defaults. revert o. induction ds as [|[f0 d] ds IH]; intros o Hin; [contradiction|]. cbn [fold_left fst snd map] in *.
  destruct Hin as [->|Hin]; [|apply IH; exact Hin].
  destruct (alookup (set_default o f (FStr d)) f) as [x|] eqn:E.
  - fold (set_defaults (set_default o f (FStr d)) ds). rewrite (set_defaults_keep _ ds f x E). discriminate.
  - rewrite alookup_set_default in E. destruct (alookup o f); [discriminate|]. rewrite str_eqb_refl in E. discriminate.
Qed.

Lemma obj_eqv_trans a b c : obj_eqv a b -> obj_eqv b c -> obj_eqv a c.
Proof. intros H1 H2 k. rewrite (H1 k). apply H2. Qed.

Theorem server_nf_idem T o : plain_tables_ok T = true -> obj_typed2 (lt_server T) o = true ->
  obj_eqv (server_nf T (server_nf T o)) (server_nf T o).
Proof.
  unfold plain_tables_ok. intros HT Hty. apply andb_true_iff in HT as [HT Hrow]. apply andb_true_iff in HT as [_ Hwfs].
  cbn [forallb] in Hwfs. apply andb_true_iff in Hwfs as [Hwf _]. destruct (wf_schema_spec _ Hwf) as [_ [Hnf _]].
  unfold server_nf at 1. set (o1 := server_nf T o).
  assert (Hfix : fixed (lt_server T) o1).
  { unfold o1, server_nf. apply fixed_set_default; [exact Hnf|apply row_is_spec; exact Hrow|apply nf_base_is_fixed; assumption]. }
  eapply obj_eqv_trans; [apply eqv_set_default, nf_base_fixed_eqv; assumption|]. unfold o1, server_nf. apply set_default_twice_eqv.
Qed.

Theorem ca_nf_idem T o : ca_tables_ok T = true -> ca_typed T o = true ->
  obj_eqv (lo_base (ca_nf T (ca_nf T o))) (lo_base (ca_nf T o)) /\ lo_items (ca_nf T (ca_nf T o)) = lo_items (ca_nf T o).
Proof.
  unfold ca_tables_ok, ca_typed. intros HT Hty.
  apply andb_true_iff in HT as [HT Hpm]. apply andb_true_iff in HT as [HT Hdm]. apply andb_true_iff in HT as [HT Hrm].
  apply andb_true_iff in HT as [HT Hrp]. apply andb_true_iff in HT as [HT Hdef]. apply andb_true_iff in HT as [HT Hls].
  apply andb_true_iff in HT as [HT Hwf]. apply andb_true_iff in Hty as [Hty Hmu]. apply andb_true_iff in Hty as [Hb Hit].
  destruct (wf_schema_spec _ Hwf) as [_ [Hnf _]]. destruct (list_spec_ok_spec _ _ _ Hls) as [_ [Hiok _]].
  split.
  - cbn [ca_nf lo_base]. set (b := nf_base (lt_ca T) (lo_base o)).
    set (o1 := set_default (set_defaults b (lt_ca_defaults T)) (lt_ca_partition T) (FStr (lt_default_partition T))).
    assert (Hfix : fixed (lt_ca T) o1).
    { unfold o1. apply fixed_set_default; [exact Hnf|apply row_is_spec; exact Hrp|].
      apply fixed_set_defaults; [exact Hnf|exact Hdef|apply nf_base_is_fixed; assumption]. }
    eapply obj_eqv_trans; [apply eqv_set_default, eqv_set_defaults, nf_base_fixed_eqv; assumption|].
    assert (Hhas : forall f, In f (map fst (lt_ca_defaults T)) -> alookup o1 f <> None).
    { intros f Hf. unfold o1. rewrite alookup_set_default.
      pose proof (set_defaults_has b (lt_ca_defaults T) f Hf) as H. destruct (alookup (set_defaults b (lt_ca_defaults T)) f); [discriminate|congruence]. }
    rewrite (set_defaults_present o1 _ Hhas). unfold o1. apply set_default_twice_eqv.
  - cbn [ca_nf lo_items items_or_nil]. f_equal. apply nf_items_idem; [exact Hiok|].
    unfold items_typed, item_typed in Hit. rewrite forallb_forall in *. intros x Hx. specialize (Hit x Hx).
    apply andb_true_iff in Hit as [H _]. exact H.
Qed.

Theorem pt_nf_idem T o : pt_tables_ok T = true -> pt_typed T o = true ->
  obj_eqv (lo_base (pt_nf T (pt_nf T o))) (lo_base (pt_nf T o)) /\ lo_items (pt_nf T (pt_nf T o)) = lo_items (pt_nf T o).
Proof.
  unfold pt_tables_ok, pt_typed. intros HT Hty.
  apply andb_true_iff in HT as [HT Hdef]. apply andb_true_iff in HT as [HT Hls]. apply andb_true_iff in HT as [HT Hwf].
  apply andb_true_iff in Hty as [Hb Hit].
  destruct (wf_schema_spec _ Hwf) as [_ [Hnf _]]. destruct (list_spec_ok_spec _ _ _ Hls) as [_ [Hiok _]].
  split.
  - cbn [pt_nf lo_base]. set (b := nf_base (lt_pt T) (lo_base o)). set (o1 := set_defaults b (lt_pt_defaults T)).
    assert (Hfix : fixed (lt_pt T) o1) by (apply fixed_set_defaults; [exact Hnf|exact Hdef|apply nf_base_is_fixed; assumption]).
    eapply obj_eqv_trans; [apply eqv_set_defaults, nf_base_fixed_eqv; assumption|].
    rewrite (set_defaults_present o1); [intros k; reflexivity|]. intros f Hf. apply set_defaults_has. exact Hf.
  - cbn [pt_nf lo_items items_or_nil]. f_equal. apply nf_items_idem; [exact Hiok|].
    unfold items_typed, item_typed in Hit. rewrite forallb_forall in *. intros x Hx. specialize (Hit x Hx).
    apply andb_true_iff in Hit as [H _]. exact H.
Qed.

Theorem cell_nf_idem T o : cell_tables_ok T = true -> cell_typed T o = true -> cell_nf T (cell_nf T o) = cell_nf T o.
Proof.
  unfold cell_tables_ok, cell_typed. intros HT Hty.
  apply andb_true_iff in HT as [HT Hls]. apply andb_true_iff in HT as [_ Hwf].
  apply andb_true_iff in Hty as [Hty _]. apply andb_true_iff in Hty as [Hb Hit].
  destruct (wf_schema_spec _ Hwf) as [_ [Hnf _]]. destruct (list_spec_ok_spec _ _ _ Hls) as [_ [Hiok _]].
  unfold cell_nf. cbn [lo_base lo_items items_or_nil]. f_equal.
  - apply nf_base_idem; assumption.
  - f_equal. apply nf_items_idem; assumption.
Qed.

(** the normal forms are typed: what was loaded can be stored again *)
Theorem server_nf_typed T o : plain_tables_ok T = true -> obj_typed2 (lt_server T) o = true ->
  obj_typed2 (lt_server T) (server_nf T o) = true.
Proof.
  unfold plain_tables_ok. intros HT Hty. apply andb_true_iff in HT as [HT Hrow]. apply andb_true_iff in HT as [_ Hwfs].
  cbn [forallb] in Hwfs. apply andb_true_iff in Hwfs as [Hwf _]. destruct (wf_schema_spec _ Hwf) as [_ [Hnf _]].
  destruct (row_is_spec _ _ _ Hrow) as [ap Hap].
  apply obj_typed2_intro. intros a f t Hin. unfold server_nf. rewrite alookup_set_default.
  pose proof (row_typed _ _ a f t (nf_base_typed _ o Hnf Hty) Hin) as H.
  destruct (alookup (nf_base (lt_server T) o) f); [exact H|]. destruct (str_eqb (lt_srv_partition T) f) eqn:E; [|exact I].
  apply str_eqb_eq in E. subst f. rewrite (field_type_unique _ _ _ _ _ _ Hnf Hin Hap). reflexivity.
Qed.

Lemma set_default_typed sch o p d : NoDup (fields sch) -> (exists ap, In (ap, (p, TStr)) (active sch)) ->
  obj_typed2 sch o = true -> obj_typed2 sch (set_default o p (FStr d)) = true.
Proof.
  intros Hnf [ap Hap] Hty. apply obj_typed2_intro. intros a f t Hin. rewrite alookup_set_default.
  pose proof (row_typed _ _ a f t Hty Hin) as H. destruct (alookup o f); [exact H|].
  destruct (str_eqb p f) eqn:E; [|exact I]. apply str_eqb_eq in E. subst f. rewrite (field_type_unique _ _ _ _ _ _ Hnf Hin Hap). reflexivity.
Qed.

Lemma set_defaults_typed sch o ds : NoDup (fields sch) -> defaults_ok sch ds = true ->
  obj_typed2 sch o = true -> obj_typed2 sch (set_defaults o ds) = true.
Proof.
  intros Hnf. unfold set_defaults, defaults_ok. revert o. induction ds as [|[f d] ds IH]; intros o Hds Hty; [exact Hty|].
  cbn [forallb fst] in Hds. apply andb_true_iff in Hds as [Hf Hds]. cbn [fold_left fst snd]. apply IH; [exact Hds|].
  apply set_default_typed; [exact Hnf|apply row_is_spec; exact Hf|exact Hty].
Qed.

Theorem pt_nf_typed T o : pt_tables_ok T = true -> pt_typed T o = true -> pt_typed T (pt_nf T o) = true.
Proof.
  unfold pt_tables_ok, pt_typed. intros HT Hty.
  apply andb_true_iff in HT as [HT Hdef]. apply andb_true_iff in HT as [HT Hls]. apply andb_true_iff in HT as [HT Hwf].
  apply andb_true_iff in Hty as [Hb Hit].
  destruct (wf_schema_spec _ Hwf) as [_ [Hnf _]]. destruct (list_spec_ok_spec _ _ _ Hls) as [_ [Hiok [Hkey _]]].
  cbn [pt_nf lo_base lo_items]. apply andb_true_iff. split.
  - apply set_defaults_typed; [exact Hnf|exact Hdef|apply nf_base_typed; assumption].
  - apply nf_items_typed; [exact Hiok|exact Hkey|]. destruct (lo_items o); exact Hit.
Qed.

Theorem ca_nf_typed T o : ca_tables_ok T = true -> ca_typed T o = true -> ca_typed T (ca_nf T o) = true.
Proof.
  unfold ca_tables_ok, ca_typed. intros HT Hty.
  apply andb_true_iff in HT as [HT Hpm]. apply andb_true_iff in HT as [HT Hdm]. apply andb_true_iff in HT as [HT Hrm].
  apply andb_true_iff in HT as [HT Hrp]. apply andb_true_iff in HT as [HT Hdef]. apply andb_true_iff in HT as [HT Hls].
  apply andb_true_iff in HT as [HT Hwf]. apply andb_true_iff in Hty as [Hty Hmu]. apply andb_true_iff in Hty as [Hb Hit].
  destruct (wf_schema_spec _ Hwf) as [_ [Hnf _]]. destruct (list_spec_ok_spec _ _ _ Hls) as [_ [Hiok [Hkey _]]].
  destruct (row_is_spec _ _ _ Hrm) as [am Ham].
  cbn [ca_nf lo_base lo_items]. apply andb_true_iff. split; [apply andb_true_iff; split|].
  - apply set_default_typed; [exact Hnf|apply row_is_spec; exact Hrp|].
    apply set_defaults_typed; [exact Hnf|exact Hdef|apply nf_base_typed; assumption].
  - apply nf_items_typed; [exact Hiok|exact Hkey|]. destruct (lo_items o); exact Hit.
  - unfold absent_or_none. rewrite alookup_set_default, alookup_set_defaults_other.
    + rewrite (alookup_nf_base _ _ am _ TStr Hnf Ham). unfold absent_or_none in Hmu.
      destruct (alookup (lo_base o) (lt_ca_maxutil T)) as [[| | | | | |]|]; try discriminate; cbn [expected_field is_list_type];
        apply negb_true_iff in Hpm; rewrite Hpm; reflexivity.
    + intros Hin. apply negb_true_iff in Hdm. apply in_map_iff in Hin as [d [Hd Hin]].
      assert (existsb (fun d => str_eqb (fst d) (lt_ca_maxutil T)) (lt_ca_defaults T) = true)
        by (apply existsb_exists; exists d; split; [exact Hin|rewrite Hd; apply str_eqb_refl]).
      congruence.
Qed.

Lemma NoDup_z_nodup l : NoDup l -> z_nodup l = true.
Proof.
  induction 1 as [|x l Hx Hl IH]; [reflexivity|]. cbn [z_nodup]. rewrite IH, andb_true_r. apply negb_true_iff.
  apply not_true_is_false. intros H. apply existsb_exists in H as [y [Hy Hxy]]. apply Z.eqb_eq in Hxy. subst y. exact (Hx Hy).
Qed.

Lemma all_some_map_perm {A B} (f : A -> option B) l l' zs : Permutation l l' -> all_some (map f l) = Some zs ->
  exists zs', all_some (map f l') = Some zs' /\ Permutation zs zs'.
Proof.
  intros Hp. revert zs. induction Hp as [|x l l' Hp IH|x y l|l l' l'' Hp1 IH1 Hp2 IH2]; intros zs H.
  - exists zs. split; [exact H|apply Permutation_refl].
  - cbn [map all_some] in *. destruct (f x) as [z|]; [|discriminate]. destruct (all_some (map f l)) as [r|] eqn:E; [|discriminate].
    inversion H; subst. destruct (IH r eq_refl) as [r' [Hr' Hpr]]. rewrite Hr'. exists (z :: r'). split; [reflexivity|apply perm_skip; exact Hpr].
  - cbn [map all_some] in *. destruct (f y) as [zy|]; [|discriminate]. destruct (f x) as [zx|]; [|discriminate].
    destruct (all_some (map f l)) as [r|]; [|discriminate]. inversion H; subst. exists (zx :: zy :: r). split; [reflexivity|apply perm_swap].
  - destruct (IH1 zs H) as [z1 [H1 P1]]. destruct (IH2 z1 H1) as [z2 [H2 P2]]. exists z2. split; [exact H2|eapply Permutation_trans; eassumption].
Qed.

Theorem cell_nf_typed T o : cell_tables_ok T = true -> cell_typed T o = true -> cell_typed T (cell_nf T o) = true.
Proof.
  unfold cell_tables_ok, cell_typed. intros HT Hty.
  apply andb_true_iff in HT as [HT Hls]. apply andb_true_iff in HT as [_ Hwf].
  apply andb_true_iff in Hty as [Hty Hidx]. apply andb_true_iff in Hty as [Hb Hit].
  destruct (wf_schema_spec _ Hwf) as [_ [Hnf _]]. destruct (list_spec_ok_spec _ _ _ Hls) as [_ [Hiok [[ak Hak] _]]].
  pose proof Hiok as [Hinf _].
  set (ls := lt_cell_masters T) in *. set (ms := items_or_nil (lo_items o)) in *.
  cbn [cell_nf lo_base lo_items items_or_nil]. fold ls ms.
  apply andb_true_iff. split; [apply andb_true_iff; split|].
  - apply nf_base_typed; assumption.
  - apply forallb_forall. intros y Hy. unfold nf_items in Hy. apply (Permutation_in _ (sort_by_perm item_lt _)) in Hy.
    apply in_map_iff in Hy as [x [<- Hx]]. rewrite forallb_forall in Hit. apply nf_base_typed; [exact Hinf|apply Hit; exact Hx].
  - destruct (all_some (map (idx_of (ls_key ls)) ms)) as [zs|] eqn:Ez; [|discriminate].
    assert (Hsame : all_some (map (idx_of (ls_key ls)) (map (nf_base (ls_schema ls)) ms)) = Some zs).
    { rewrite map_map. rewrite <- Ez. f_equal. apply map_ext_in. intros x Hx. unfold idx_of.
      rewrite (alookup_nf_base _ _ ak _ TInt Hinf Hak).
      assert (Hsome : idx_of (ls_key ls) x <> None).
      { clear -Ez Hx. revert zs Ez. induction ms as [|m r IH]; intros zs Ez; [contradiction|]. cbn [map all_some] in Ez.
        destruct (idx_of (ls_key ls) m) eqn:E; [|discriminate]. destruct (all_some (map (idx_of (ls_key ls)) r)) eqn:Er; [|discriminate].
        destruct Hx as [<-|Hx]; [congruence|]. eapply IH; [exact Hx|reflexivity]. }
      unfold idx_of in Hsome. destruct (alookup x (ls_key ls)) as [[| |z| | | |]|]; try congruence. reflexivity. }
    destruct (all_some_map_perm _ _ (sort_by item_lt (map (nf_base (ls_schema ls)) ms)) zs (Permutation_sym (sort_by_perm item_lt _)) Hsame)
      as [zs' [Hzs' Hp]].
    unfold nf_items. rewrite Hzs'. apply NoDup_z_nodup. eapply Permutation_NoDup; [exact Hp|apply z_nodup_NoDup; exact Hidx].
Qed.

(** * 28. The table check, class by class *)
Lemma ltables_ok_proj T : ltables_ok T = true ->
  base_tables_ok T = true /\ plain_tables_ok T = true /\ ca_tables_ok T = true /\ pt_tables_ok T = true /\
  cell_tables_ok T = true /\ app_tables_ok T = true.
Proof.
  unfold ltables_ok. intros H. apply andb_true_iff in H as [H H6]. apply andb_true_iff in H as [H H5].
  apply andb_true_iff in H as [H H4]. apply andb_true_iff in H as [H H3]. apply andb_true_iff in H as [H1 H2].
  repeat split; assumption.
Qed.

Theorem plain_class_rt T sch o : ltables_ok T = true ->
  In sch [lt_server T; lt_dns T; lt_appgroup T; lt_tenant T; lt_allocation T] ->
  obj_typed2 sch o = true -> plain_store_load T sch o = Some (Ok (nf_base sch o)).
Proof.
  intros HT Hin Hty. destruct (ltables_ok_proj T HT) as [_ [Hp _]]. unfold plain_tables_ok in Hp.
  apply andb_true_iff in Hp as [Hp _]. apply andb_true_iff in Hp as [Hp Hwfs]. apply andb_true_iff in Hp as [Hc Hm].
  rewrite forallb_forall in Hwfs. apply plain_rt; [apply Hwfs; exact Hin|exact Hc|exact Hm|exact Hty].
Qed.

Theorem plain_class_nf T sch o : ltables_ok T = true ->
  In sch [lt_server T; lt_dns T; lt_appgroup T; lt_tenant T; lt_allocation T] ->
  obj_typed2 sch o = true -> obj_typed2 sch (nf_base sch o) = true /\ nf_base sch (nf_base sch o) = nf_base sch o.
Proof.
  intros HT Hin Hty. destruct (ltables_ok_proj T HT) as [_ [Hp _]]. unfold plain_tables_ok in Hp.
  apply andb_true_iff in Hp as [Hp _]. apply andb_true_iff in Hp as [_ Hwfs].
  rewrite forallb_forall in Hwfs. destruct (wf_schema_spec sch (Hwfs sch Hin)) as [_ [Hnf _]].
  split; [apply nf_base_typed|apply nf_base_idem]; assumption.
Qed.

Theorem server_class_rt T o : ltables_ok T = true -> obj_typed2 (lt_server T) o = true ->
  server_store_load T o = Some (Ok (server_nf T o)).
Proof.
  intros HT Hty. destruct (ltables_ok_proj T HT) as [_ [Hp _]]. unfold plain_tables_ok in Hp.
  apply andb_true_iff in Hp as [Hp _]. apply andb_true_iff in Hp as [Hp Hwfs]. apply andb_true_iff in Hp as [Hc Hm].
  rewrite forallb_forall in Hwfs. apply server_rt; [apply Hwfs; left; reflexivity|exact Hc|exact Hm|exact Hty].
Qed.

(** the option-indexed list codec on its own: a typed list written by _to_obj_list into an empty entry, stored, read back *)
Theorem obj_list_rt ls items : list_spec_ok [] TStr ls = true -> items_typed ls (Some items) = true ->
  exists E, to_obj_list items (ls_key ls) (ls_prefix ls) (ls_schema ls) = oret E /\
    grouped_list (remove_empty E) (ls_lprefix ls) (ls_schema ls) = Ok (nf_items (ls_schema ls) items).
Proof.
  intros Hls Hty.
  set (T0 := {| lt_opt_format := []; lt_opt_sep := []; lt_ts_create := [67]; lt_ts_modify := [67]; lt_default_partition := [];
                lt_server := []; lt_dns := []; lt_appgroup := []; lt_tenant := []; lt_allocation := []; lt_cell := []; lt_ca := [];
                lt_pt := []; lt_app := []; lt_srv_partition := []; lt_cell_masters := ls; lt_ca_list := ls; lt_ca_defaults := [];
                lt_ca_partition := []; lt_ca_maxutil := []; lt_pt_list := ls; lt_pt_defaults := []; lt_app_svc := ls;
                lt_app_rst_schema := []; lt_app_rst_limit := []; lt_app_rst_interval := []; lt_app_default_restart := [];
                lt_app_ep := ls; lt_app_env := ls; lt_app_aff := ls; lt_app_aff_level := []; lt_app_aff_limit := [];
                lt_app_eph_tcpf := []; lt_app_eph_tcp := []; lt_app_eph_udpf := []; lt_app_eph_udp := []; lt_app_eph_default := 0;
                lt_app_vr_schema := []; lt_app_vr_cells := []; lt_app_vr := ls |}).
  destruct (listobj_rt T0 [] ls {| lo_base := []; lo_items := Some items |}) as [E [HE [_ Hl]]]; try reflexivity; try assumption.
  unfold listobj_to_entry, base_to_entry in HE. cbn [d2e d2e_loop olift oret obind lo_base lo_items items_or_nil] in HE.
  destruct (to_obj_list items (ls_key ls) (ls_prefix ls) (ls_schema ls)) as [[D|c]|] eqn:ED; cbn [obind oret] in HE; try discriminate.
  inversion HE; subst E. exists D. split; [reflexivity|].
  assert (HD : eupdate [] D = D).
  { apply eupdate_nil_l. unfold to_obj_list in ED. destruct (keys_of (ls_key ls) items) as [[ks|c]|]; cbn [obind] in ED; try discriminate.
    destruct (sort_by_key ks items) as [|x r] eqn:Es.
    - inversion ED; subst. apply (empty_list_entry_spec (ls_schema ls)).
    - unfold olift in ED. destruct (item_blocks (ls_schema ls) (ls_prefix ls) 0 (x :: r) []) as [D'|] eqn:EB; [|discriminate].
      inversion ED; subst D'. rewrite item_blocks_oblocks in EB.
      destruct (list_spec_ok_spec [] TStr ls Hls) as [[Hina [Hiattr _]] _].
      destruct (oblocks_spec (ls_schema ls) (fun x => x) _ _ (blk_ok_d2e _ Hina) (fun a Ha => proj1 (Hiattr a Ha)) _ [] D EB (NoDup_nil _)
                  (number_nodup _ _ _) (fun _ _ _ => I)) as [H _]. exact H. }
  rewrite HD in Hl. exact Hl.
Qed.
