(** Proofs about Codec/Event.v: from_data (to_data e) = e for every event class on [body_domain],
    injectivity, event-node names. *)
From Coq Require Import ZArith List Bool Lia ZifyBool.
From TM Require Import Codec.BaseN Codec.BaseNP Codec.Dec Codec.DecP Codec.Event.
Import ListNotations.
Open Scope Z_scope.

(** * Enum tables *)
Lemma str_eqb_refl s : str_eqb s s = true.
Proof. apply str_eqb_eq. reflexivity. Qed.

Lemma existsb_str_eqb_In x l : existsb (str_eqb x) l = true <-> In x l.
Proof.
  rewrite existsb_exists. split.
  - intros [y [Hin Heq]]. apply str_eqb_eq in Heq. subst. exact Hin.
  - intros Hin. exists x. split; [exact Hin|apply str_eqb_refl].
Qed.

Lemma nodup_strs_NoDup l : nodup_strs l = true -> NoDup l.
Proof.
  induction l as [|x t IH]; cbn [nodup_strs]; intros H; [constructor|].
  apply andb_true_iff in H as [Hx Ht]. constructor; [|apply IH; exact Ht].
  intros Hin. apply existsb_str_eqb_In in Hin. rewrite Hin in Hx. discriminate.
Qed.

Lemma lookup_by_class_in t c n : lookup_by_class t c = Some n ->
  exists sl, In (n, (c, sl)) t.
Proof.
  induction t as [|[n0 [c0 s0]] r IH]; cbn [lookup_by_class]; intros H; [discriminate|].
  destruct (str_eqb c0 c) eqn:E.
  - apply str_eqb_eq in E. inversion H; subst. exists s0. left. reflexivity.
  - destruct (IH H) as [sl Hin]. exists sl. right. exact Hin.
Qed.

Lemma lookup_name_of_class t c n :
  NoDup (map fst t) -> lookup_by_class t c = Some n ->
  exists sl, lookup_by_name t n = Some (c, sl).
Proof.
  induction t as [|[n0 [c0 s0]] r IH]; cbn [lookup_by_class lookup_by_name map fst]; intros Hnd H;
    [discriminate|].
  inversion Hnd as [|x l Hx Hr]; subst.
  destruct (str_eqb c0 c) eqn:E.
  - apply str_eqb_eq in E. inversion H; subst. rewrite str_eqb_refl. exists s0. reflexivity.
  - destruct (str_eqb n0 n) eqn:En.
    + apply str_eqb_eq in En. subst n0. exfalso. apply Hx.
      destruct (lookup_by_class_in r c n H) as [sl Hin].
      apply in_map_iff. exists (n, (c, sl)). split; [reflexivity|exact Hin].
    + apply IH; assumption.
Qed.

Lemma lookup_by_class_exists t c :
  existsb (fun e => str_eqb (fst (snd e)) c) t = true -> exists n, lookup_by_class t c = Some n.
Proof.
  induction t as [|[n0 [c0 s0]] r IH]; cbn [existsb lookup_by_class fst snd]; intros H; [discriminate|].
  destruct (str_eqb c0 c) eqn:E; [exists n0; reflexivity|]. cbn in H. apply IH. exact H.
Qed.

Lemma cls_of_name_class_name k : cls_of_name (class_name k) = Some k.
Proof. destruct k; vm_compute; reflexivity. Qed.

Lemma table_ok_lookup t server k :
  table_ok t server = true -> is_server k = server ->
  exists ty sl, lookup_by_class t (class_name k) = Some ty
             /\ lookup_by_name t ty = Some (class_name k, sl) /\ ~ In comma ty.
Proof.
  unfold table_ok. intros H Hk.
  repeat match goal with
         | X : _ && _ = true |- _ => apply andb_true_iff in X; destruct X
         end.
  match goal with X : forallb _ all_cls = true |- _ => rename X into Hall end.
  rewrite forallb_forall in Hall.
  assert (Hin : In k all_cls) by (destruct k; cbn; tauto).
  specialize (Hall k Hin). rewrite Hk in Hall. rewrite eqb_reflx in Hall. cbn [negb orb] in Hall.
  destruct (lookup_by_class_exists t (class_name k) Hall) as [ty Hty].
  match goal with X : nodup_strs (map fst t) = true |- _ => apply nodup_strs_NoDup in X; rename X into Hnd end.
  destruct (lookup_name_of_class t (class_name k) ty Hnd Hty) as [sl Hsl].
  exists ty, sl. split; [exact Hty|]. split; [exact Hsl|].
  destruct (lookup_by_class_in t _ _ Hty) as [sl' Hin'].
  match goal with X : forallb (fun e => negb (memb comma (fst e))) t = true |- _ => rename X into Hc end.
  rewrite forallb_forall in Hc. specialize (Hc _ Hin'). cbn [fst] in Hc.
  apply negb_true_iff in Hc. apply memb_false_notin. exact Hc.
Qed.

(** * Class decoders invert event_data on the domain *)
Lemma last2_app m a b : last2 (m ++ [a; b]) = Some (m, a, b).
Proof.
  induction m as [|x m IH]; [reflexivity|].
  cbn [app]. destruct (m ++ [a; b]) as [|y [|z l']] eqn:El.
  - cbn in IH. discriminate.
  - cbn in IH. discriminate.
  - change (last2 (x :: y :: z :: l')) with
      (match last2 (y :: z :: l') with Some (mm, a0, b0) => Some (x :: mm, a0, b0) | None => None end).
    rewrite IH. reflexivity.
Qed.

Lemma some_without_spec c v : some_without c v = true -> exists s, v = Some s /\ ~ In c s.
Proof.
  destruct v as [s|]; cbn; intros H; [|discriminate]. exists s. split; [reflexivity|].
  apply negb_true_iff in H. apply memb_false_notin. exact H.
Qed.

Lemma is_some_spec {A} (v : option A) : is_some v = true -> exists s, v = Some s.
Proof. destruct v as [s|]; cbn; intros H; [exists s; reflexivity|discriminate]. Qed.

Definition data_of (b : body) : str := match event_data b with Some d => d | None => [] end.

Lemma class_roundtrip b : body_domain b = true -> class_from_data (cls_of b) (data_of b) = Some b.
Proof.
  destruct b as [w y|y|y|u| |rc sg|y|o|u s|u s rc sg|s| |]; cbn [body_domain]; intros Hd;
    unfold data_of; cbn [event_data cls_of class_from_data].
  - destruct (some_without_spec _ _ Hd) as [w' [-> Hnw]]. destruct y as [y'|]; cbn [pystr].
    + rewrite (split1_first colon w' y' Hnw). reflexivity.
    + rewrite (split1_none colon w' Hnw). reflexivity.
  - destruct (is_some_spec _ Hd) as [y' ->]. reflexivity.
  - destruct (is_some_spec _ Hd) as [y' ->]. reflexivity.
  - destruct (is_some_spec _ Hd) as [y' ->]. reflexivity.
  - reflexivity.
  - rewrite split_app.
    rewrite (split_notin dot _ (str_of_Z_no_dot rc)), (split_notin dot _ (str_of_Z_no_dot sg)).
    cbn [app]. rewrite !py_int_str_of_Z. reflexivity.
  - destruct (is_some_spec _ Hd) as [y' ->]. reflexivity.
  - destruct o; reflexivity.
  - apply andb_true_iff in Hd as [Hu Hs].
    destruct (some_without_spec _ _ Hu) as [u' [-> Hnu]]. destruct (is_some_spec _ Hs) as [s' ->].
    cbn [pystr]. rewrite split_app, (split_notin dot u' Hnu). cbn [app].
    rewrite join_split. reflexivity.
  - apply andb_true_iff in Hd as [Hu Hs].
    destruct (some_without_spec _ _ Hu) as [u' [-> Hnu]]. destruct (is_some_spec _ Hs) as [s' ->].
    cbn [pystr]. rewrite split_app, (split_notin dot u' Hnu). cbn [app].
    rewrite split_app, split_app.
    rewrite (split_notin dot _ (str_of_Z_no_dot rc)), (split_notin dot _ (str_of_Z_no_dot sg)).
    change ([str_of_Z rc] ++ [str_of_Z sg]) with [str_of_Z rc; str_of_Z sg].
    rewrite last2_app. rewrite !py_int_str_of_Z. rewrite join_split. reflexivity.
  - destruct (is_some_spec _ Hd) as [y' ->]. reflexivity.
  - reflexivity.
  - reflexivity.
Qed.

(** * from_data (to_data e) = e *)
Theorem event_roundtrip {H} T (h : H) b :
  event_tables_ok T = true -> body_domain b = true ->
  exists ty, to_data T (h, b) = Some (h, ty, data_of b)
             /\ from_data T (is_server (cls_of b)) h ty (data_of b) = Some (h, b)
             /\ ~ In comma ty.
Proof.
  intros HT Hd. unfold event_tables_ok in HT. apply andb_true_iff in HT as [Ha Hs].
  assert (Hside : table_ok (table_for T (cls_of b)) (is_server (cls_of b)) = true).
  { unfold table_for. destruct (is_server (cls_of b)); assumption. }
  destruct (table_ok_lookup _ _ (cls_of b) Hside eq_refl) as [ty [sl [Hty [Hname Hc]]]].
  exists ty. unfold to_data. rewrite Hty. split; [reflexivity|]. split; [|exact Hc].
  unfold from_data. unfold table_for in Hname. rewrite Hname.
  rewrite cls_of_name_class_name. rewrite (class_roundtrip b Hd). reflexivity.
Qed.

Theorem event_injective {H} T (h1 h2 : H) b1 b2 :
  event_tables_ok T = true -> body_domain b1 = true -> body_domain b2 = true ->
  is_server (cls_of b1) = is_server (cls_of b2) ->
  to_data T (h1, b1) = to_data T (h2, b2) -> (h1, b1) = (h2, b2).
Proof.
  intros HT D1 D2 Hside Heq.
  destruct (event_roundtrip T h1 b1 HT D1) as [ty1 [E1 [F1 _]]].
  destruct (event_roundtrip T h2 b2 HT D2) as [ty2 [E2 [F2 _]]].
  rewrite E1, E2 in Heq. inversion Heq; subst.
  match goal with X : data_of b1 = data_of b2 |- _ => rewrite X in F1 end.
  rewrite Hside in F1. rewrite F1 in F2. inversion F2. reflexivity.
Qed.

(** * Event-node names *)
Lemma node_tables_fields N : node_tables_ok N = true ->
  (forall id when host ty d,
     node_name N id when host ty d = Some (join comma [id; when; host; ty; d]))
  /\ nt_sep N = comma /\ length (nt_fields N) = 5%nat.
Proof.
  unfold node_tables_ok. intros H.
  repeat match goal with
         | X : _ && _ = true |- _ => apply andb_true_iff in X; destruct X
         end.
  repeat match goal with
         | X : str_eqb _ _ = true |- _ => apply str_eqb_eq in X
         end.
  assert (Hf : length (nt_fields N) = 5%nat).
  { match goal with X : strs_eqb (nt_fields N) _ = true |- _ => revert X end.
    destruct (nt_fields N) as [|a [|b [|c [|d [|e [|f t]]]]]]; cbn; intros X;
      repeat (apply andb_true_iff in X; destruct X as [? X]); try discriminate; reflexivity. }
  split; [|split; [lia|exact Hf]].
  intros id when host ty d. unfold node_name.
  match goal with X : nt_template N = _ |- _ => rewrite X end.
  match goal with X : nt_prefix_template N = _ |- _ => rewrite X end.
  cbn. rewrite !app_nil_r. reflexivity.
Qed.

Theorem node_roundtrip N id when host ty d :
  node_tables_ok N = true ->
  Forall (fun s => ~ In comma s) [id; when; host; ty; d] ->
  exists name, node_name N id when host ty d = Some name
               /\ node_fields N name = Some [id; when; host; ty; d].
Proof.
  intros HN Hall. destruct (node_tables_fields N HN) as [Hname [Hsep Hlen]].
  exists (join comma [id; when; host; ty; d]). split; [apply Hname|].
  unfold node_fields. cbv zeta. rewrite Hsep, split_join; [|discriminate|exact Hall].
  rewrite Hlen. reflexivity.
Qed.

Theorem node_injective N id when host ty d id' when' host' ty' d' :
  node_tables_ok N = true ->
  Forall (fun s => ~ In comma s) [id; when; host; ty; d] ->
  Forall (fun s => ~ In comma s) [id'; when'; host'; ty'; d'] ->
  node_name N id when host ty d = node_name N id' when' host' ty' d' ->
  [id; when; host; ty; d] = [id'; when'; host'; ty'; d'].
Proof.
  intros HN A1 A2 Heq.
  destruct (node_roundtrip N _ _ _ _ _ HN A1) as [n1 [E1 R1]].
  destruct (node_roundtrip N _ _ _ _ _ HN A2) as [n2 [E2 R2]].
  rewrite Heq, E2 in E1. inversion E1; subst. rewrite R1 in R2. inversion R2. reflexivity.
Qed.

(** event -> node name -> event *)
Definition data_no_comma (b : body) : bool := negb (memb comma (data_of b)).

Theorem event_node_roundtrip T N id when host b :
  event_tables_ok T = true -> node_tables_ok N = true ->
  body_domain b = true -> data_no_comma b = true ->
  ~ In comma id -> ~ In comma when -> ~ In comma host ->
  exists ty name, to_data T (tt, b) = Some (tt, ty, data_of b)
    /\ node_name N id when host ty (data_of b) = Some name
    /\ node_fields N name = Some [id; when; host; ty; data_of b]
    /\ from_data T (is_server (cls_of b)) tt ty (data_of b) = Some (tt, b).
Proof.
  intros HT HN Hd Hc H1 H2 H3.
  destruct (event_roundtrip T tt b HT Hd) as [ty [E [F Hty]]].
  unfold data_no_comma in Hc. apply negb_true_iff in Hc. apply memb_false_notin in Hc.
  destruct (node_roundtrip N id when host ty (data_of b) HN) as [name [En Rn]];
    [repeat constructor; assumption|].
  exists ty, name. repeat split; assumption.
Qed.
