(** C15, codec 3: firewall rules as rule-file names.  rulefile.py RuleMgr._filenameify / get_rule
    with the three filename patterns and the three regular expressions; firewall.py rule classes.

    Executable model ONLY (proofs in RuleP.v).

    The three '{field}' patterns and the source text of the three compiled regular expressions are
    parameters ([rule_tables]), regenerated from the source.  Encoder AND decoder are driven by the
    generated pattern: the decoder walks the pattern, takes each field up to the first character of
    the literal that follows it and validates it against the field's class.  [rule_tables_ok] checks
    that the regex text of the source is exactly  '^' + pattern.format(<group regex of each field>) + '$'
    for the field classes used here.  ASCII only (\w and \d also accept non-ASCII in Python). *)
From Coq Require Import ZArith List Bool.
From TM Require Import Codec.BaseN Codec.Dec.
Import ListNotations.
Open Scope Z_scope.

(** * '{name}' templates *)
Inductive item := Lit (s : str) | Fld (name : str).

Fixpoint tmpl_items (s : str) (lit : str) (fld : option str) : option (list item) :=
  match s with
  | [] => match fld with
          | Some _ => None
          | None => Some (match lit with [] => [] | _ => [Lit (rev lit)] end)
          end
  | c :: t =>
      match fld with
      | Some f =>
          if c =? 125 then option_map (cons (Fld (rev f))) (tmpl_items t [] None)
          else tmpl_items t lit (Some (c :: f))
      | None =>
          if c =? 123 then
            option_map (fun r => match lit with [] => r | _ => Lit (rev lit) :: r end) (tmpl_items t [] (Some []))
          else tmpl_items t (c :: lit) None
      end
  end.
Definition template_items (s : str) : option (list item) := tmpl_items s [] None.

Definition env := list (str * str).
Fixpoint env_get (e : env) (n : str) : option str :=
  match e with
  | [] => None
  | (k, v) :: r => if str_eqb k n then Some v else env_get r n
  end.

(** pattern.format of the keyword arguments in [e]; [None] = KeyError *)
Fixpoint render (items : list item) (e : env) : option str :=
  match items with
  | [] => Some []
  | Lit l :: r => option_map (app l) (render r e)
  | Fld n :: r =>
      match env_get e n, render r e with
      | Some v, Some s => Some (v ++ s)
      | _, _ => None
      end
  end.

(** * Field classes (the group regexes of rulefile.py) *)
Inductive fkind := KChain | KProto | KIpWild | KPortWild | KIp | KPort.

Definition is_word (c : Z) : bool :=
  is_digit c || ((65 <=? c) && (c <=? 90)) || ((97 <=? c) && (c <=? 122)) || (c =? 95).
Definition all_digits (s : str) : bool := forallb is_digit s.
Definition len_between (lo hi : Z) (s : str) : bool := (lo <=? zlen s) && (zlen s <=? hi).
Definition valid_octet (s : str) : bool := len_between 1 3 s && all_digits s.
Definition valid_ip (s : str) : bool :=
  match split 46 s with
  | [a; b; c; d] => valid_octet a && valid_octet b && valid_octet c && valid_octet d
  | _ => false
  end.
Definition valid_port (s : str) : bool := len_between 1 5 s && all_digits s.
Definition star : str := [42].
Definition s_tcp : str := [116; 99; 112].
Definition s_udp : str := [117; 100; 112].

Definition valid (k : fkind) (s : str) : bool :=
  match k with
  | KChain => len_between 2 32 s && forallb is_word s          (* \w{2,32} *)
  | KProto => str_eqb s s_tcp || str_eqb s s_udp               (* tcp|udp *)
  | KIpWild => valid_ip s || str_eqb s star                    (* (?:\d{1,3}\.){3}\d{1,3}|[*] *)
  | KPortWild => valid_port s || str_eqb s star                (* \d{1,5}|[*] *)
  | KIp => valid_ip s
  | KPort => valid_port s
  end.

(** the regex text of a group, as written in rulefile.py *)
Definition kind_regex (k : fkind) : str :=
  match k with
  | KChain => [40; 63; 58; 92; 119; 123; 50; 44; 51; 50; 125; 41]
  | KProto => [40; 63; 58; 116; 99; 112; 124; 117; 100; 112; 41]
  | KIpWild => [40; 63; 58; 40; 63; 58; 92; 100; 123; 49; 44; 51; 125; 92; 46; 41; 123; 51; 125; 92; 100; 123; 49; 44; 51; 125; 124; 91; 42; 93; 41]
  | KPortWild => [40; 63; 58; 92; 100; 123; 49; 44; 53; 125; 124; 91; 42; 93; 41]
  | KIp => [40; 63; 58; 92; 100; 123; 49; 44; 51; 125; 92; 46; 41; 123; 51; 125; 92; 100; 123; 49; 44; 51; 125]
  | KPort => [92; 100; 123; 49; 44; 53; 125]
  end.
Definition group_regex (name : str) (k : fkind) : str :=
  [40; 63; 80; 60] ++ name ++ [62] ++ kind_regex k ++ [41].      (* (?P<name>...) *)

(* field names *)
Definition f_chain : str := [99; 104; 97; 105; 110].
Definition f_proto : str := [112; 114; 111; 116; 111].
Definition f_src_ip : str := [115; 114; 99; 95; 105; 112].
Definition f_src_port : str := [115; 114; 99; 95; 112; 111; 114; 116].
Definition f_dst_ip : str := [100; 115; 116; 95; 105; 112].
Definition f_dst_port : str := [100; 115; 116; 95; 112; 111; 114; 116].
Definition f_new_ip : str := [110; 101; 119; 95; 105; 112].
Definition f_new_port : str := [110; 101; 119; 95; 112; 111; 114; 116].

Definition kinds := list (str * fkind).
Definition nat_kinds : kinds :=
  [(f_chain, KChain); (f_proto, KProto); (f_src_ip, KIpWild); (f_src_port, KPortWild);
   (f_dst_ip, KIpWild); (f_dst_port, KPortWild); (f_new_ip, KIp); (f_new_port, KPort)].
Definition pt_kinds : kinds := [(f_chain, KChain); (f_src_ip, KIp); (f_dst_ip, KIp)].

Fixpoint kind_get (K : kinds) (n : str) : option fkind :=
  match K with
  | [] => None
  | (k, v) :: r => if str_eqb k n then Some v else kind_get r n
  end.

(** * Pattern-driven decoder *)
(** longest prefix without [stop] *)
Fixpoint span_until (stop : Z) (s : str) : str * str :=
  match s with
  | [] => ([], [])
  | c :: t => if c =? stop then ([], s) else let (a, b) := span_until stop t in (c :: a, b)
  end.

Fixpoint strip_prefix (p s : str) : option str :=
  match p with
  | [] => Some s
  | c :: p' => match s with
               | d :: s' => if c =? d then strip_prefix p' s' else None
               | [] => None
               end
  end.

(** '$' also matches before one trailing newline *)
Definition chomp (s : str) : str :=
  match rev s with
  | c :: r => if c =? 10 then rev r else s
  | [] => s
  end.

Fixpoint parse_items (K : kinds) (items : list item) (s : str) : option env :=
  match items with
  | [] => match chomp s with [] => Some [] | _ => None end
  | Lit l :: r => match strip_prefix l s with
                  | Some s' => parse_items K r s'
                  | None => None
                  end
  | Fld n :: r =>
      match kind_get K n with
      | None => None
      | Some k =>
          match r with
          | [] => let tok := chomp s in if valid k tok then Some [(n, tok)] else None
          | Lit (c :: _) :: _ =>
              let (tok, s') := span_until c s in
              if valid k tok then option_map (cons (n, tok)) (parse_items K r s') else None
          | _ => None                 (* two adjacent fields / empty literal: not a pattern of this model *)
          end
      end
  end.

(** patterns this decoder handles: every field has a class and is followed by a literal starting with
    ':' or '-' (or ends the pattern); literals are non-empty *)
Fixpoint wf_items (K : kinds) (items : list item) : bool :=
  match items with
  | [] => true
  | Lit l :: r => match l with [] => false | _ :: _ => wf_items K r end
  | Fld n :: r =>
      match kind_get K n with
      | None => false
      | Some _ =>
          match r with
          | [] => true
          | Lit (c :: _) :: _ => ((c =? 58) || (c =? 45)) && wf_items K r
          | _ => false
          end
      end
  end.

(** * Rules *)
Inductive rule :=
| DNAT (proto : str) (src_ip : option str) (src_port : Z) (dst_ip : option str) (dst_port : Z)
       (new_ip : str) (new_port : Z)
| SNAT (proto : str) (src_ip : option str) (src_port : Z) (dst_ip : option str) (dst_port : Z)
       (new_ip : str) (new_port : Z)
| PassThrough (src_ip dst_ip : str).
(** src_ip / dst_ip = [None]: the object firewall.ANY_IP (compared with `is`); ports are ints, 0 = ANY_PORT *)

Record rule_tables := {
  rt_dnat : str; rt_snat : str; rt_pt : str;            (* _DNAT/_SNAT/_PASSTHROUGH_FILE_PATTERN *)
  rt_dnat_re : str; rt_snat_re : str; rt_pt_re : str;   (* .pattern of the three compiled regexes *)
  rt_any : str;                                         (* rulefile._ANY *)
  rt_any_port : Z                                       (* firewall.ANY_PORT *)
}.

Definition ip_text (R : rule_tables) (o : option str) : str := match o with None => rt_any R | Some s => s end.
Definition port_text (R : rule_tables) (p : Z) : str := if p =? 0 then rt_any R else str_of_Z p.   (* port or _ANY *)

Definition nat_env (R : rule_tables) (chain proto : str) (sip : option str) (sport : Z) (dip : option str)
           (dport : Z) (nip : str) (nport : Z) : env :=
  [(f_chain, chain); (f_proto, proto); (f_src_ip, ip_text R sip); (f_src_port, port_text R sport);
   (f_dst_ip, ip_text R dip); (f_dst_port, port_text R dport); (f_new_ip, nip); (f_new_port, str_of_Z nport)].

Definition render_pattern (p : str) (e : env) : option str :=
  match template_items p with Some items => render items e | None => None end.

(** RuleMgr._filenameify *)
Definition filenameify (R : rule_tables) (chain : str) (r : rule) : option str :=
  match r with
  | DNAT proto sip sport dip dport nip nport =>
      render_pattern (rt_dnat R) (nat_env R chain proto sip sport dip dport nip nport)
  | SNAT proto sip sport dip dport nip nport =>
      render_pattern (rt_snat R) (nat_env R chain proto sip sport dip dport nip nport)
  | PassThrough sip dip =>
      render_pattern (rt_pt R) [(f_chain, chain); (f_src_ip, sip); (f_dst_ip, dip)]
  end.

Definition match_pattern (K : kinds) (p s : str) : option env :=
  match template_items p with Some items => parse_items K items s | None => None end.

Definition dec_ip (R : rule_tables) (v : str) : option str := if str_eqb v (rt_any R) then None else Some v.
Definition dec_port (R : rule_tables) (v : str) : option Z :=
  if str_eqb v (rt_any R) then Some (rt_any_port R) else py_int v.

Definition build_nat (R : rule_tables) (mk : str -> option str -> Z -> option str -> Z -> str -> Z -> rule)
           (e : env) : option (str * rule) :=
  match env_get e f_chain, env_get e f_proto, env_get e f_src_ip, env_get e f_src_port,
        env_get e f_dst_ip, env_get e f_dst_port, env_get e f_new_ip, env_get e f_new_port with
  | Some ch, Some pr, Some si, Some sp, Some di, Some dp, Some ni, Some np =>
      match dec_port R sp, dec_port R dp, py_int np with
      | Some sp', Some dp', Some np' => Some (ch, mk pr (dec_ip R si) sp' (dec_ip R di) dp' ni np')
      | _, _, _ => None
      end
  | _, _, _, _, _, _, _, _ => None
  end.

(** RuleMgr.get_rule: DNAT regex, then SNAT regex, then PASSTHROUGH regex; [None] = unparseable *)
Definition get_rule (R : rule_tables) (s : str) : option (str * rule) :=
  match match_pattern nat_kinds (rt_dnat R) s with
  | Some e => build_nat R DNAT e
  | None =>
      match match_pattern nat_kinds (rt_snat R) s with
      | Some e => build_nat R SNAT e
      | None =>
          match match_pattern pt_kinds (rt_pt R) s with
          | Some e =>
              match env_get e f_chain, env_get e f_src_ip, env_get e f_dst_ip with
              | Some ch, Some si, Some di => Some (ch, PassThrough si di)
              | _, _, _ => None
              end
          | None => None
          end
      end
  end.

(** * What the generated tables must be *)
Definition expected_regex (K : kinds) (p : str) : option str :=
  match template_items p with
  | None => None
  | Some items =>
      match render items (map (fun nk => (fst nk, group_regex (fst nk) (snd nk))) K) with
      | Some body => Some (94 :: body ++ [36])           (* '^' ... '$' *)
      | None => None
      end
  end.

Definition regex_matches (K : kinds) (p re : str) : bool :=
  match expected_regex K p with Some e => str_eqb e re | None => false end.

Definition p_dnat : str := [123; 99; 104; 97; 105; 110; 125; 58; 100; 110; 97; 116; 58; 123; 112; 114; 111; 116; 111; 125; 58; 123; 115; 114; 99; 95; 105; 112; 125; 58; 123; 115; 114; 99; 95; 112; 111; 114; 116; 125; 58; 123; 100; 115; 116; 95; 105; 112; 125; 58; 123; 100; 115; 116; 95; 112; 111; 114; 116; 125; 45; 123; 110; 101; 119; 95; 105; 112; 125; 58; 123; 110; 101; 119; 95; 112; 111; 114; 116; 125].
Definition p_snat : str := [123; 99; 104; 97; 105; 110; 125; 58; 115; 110; 97; 116; 58; 123; 112; 114; 111; 116; 111; 125; 58; 123; 115; 114; 99; 95; 105; 112; 125; 58; 123; 115; 114; 99; 95; 112; 111; 114; 116; 125; 58; 123; 100; 115; 116; 95; 105; 112; 125; 58; 123; 100; 115; 116; 95; 112; 111; 114; 116; 125; 45; 123; 110; 101; 119; 95; 105; 112; 125; 58; 123; 110; 101; 119; 95; 112; 111; 114; 116; 125].
Definition p_pt : str := [123; 99; 104; 97; 105; 110; 125; 58; 112; 97; 115; 115; 116; 104; 114; 111; 117; 103; 104; 58; 123; 115; 114; 99; 95; 105; 112; 125; 45; 123; 100; 115; 116; 95; 105; 112; 125].

Definition rule_tables_ok (R : rule_tables) : bool :=
  str_eqb (rt_dnat R) p_dnat && str_eqb (rt_snat R) p_snat && str_eqb (rt_pt R) p_pt &&
  regex_matches nat_kinds (rt_dnat R) (rt_dnat_re R) &&
  regex_matches nat_kinds (rt_snat R) (rt_snat_re R) &&
  regex_matches pt_kinds (rt_pt R) (rt_pt_re R) &&
  str_eqb (rt_any R) star && (rt_any_port R =? 0).

(** * Domain *)
Definition valid_port_num (p : Z) : bool := (0 <=? p) && (p <=? 99999).
Definition valid_oip (o : option str) : bool := match o with None => true | Some s => valid_ip s end.
Definition rule_domain (r : rule) : bool :=
  match r with
  | DNAT pr si sp di dp ni np | SNAT pr si sp di dp ni np =>
      valid KProto pr && valid_oip si && valid_port_num sp && valid_oip di && valid_port_num dp
      && valid_ip ni && valid_port_num np
  | PassThrough si di => valid_ip si && valid_ip di
  end.
