(** C15, codec 1: utils.to_base_n / from_base_n and the container unique names of
    appcfg/__init__.py (gen_uniqueid, _fmt_unique_name, app_name, app_unique_id).

    Executable model ONLY (no proofs here; see BaseNP.v).

    Strings are [list Z] of code points.  A Python exception is an explicit
    [Err code]; a Python loop that would not terminate is [Err E_DIVERGE]
    (fuel exhausted) -- the theorems exclude both explicitly.

    Alphabets, format templates, fill/width and bit widths are NOT written here:
    they are fields of [uid_tables], instantiated in C15Run.v from the definitions
    that harness/tables_c15.py regenerates from the source on every run. *)
From Coq Require Import ZArith List Bool.
Import ListNotations.
Open Scope Z_scope.

Definition str := list Z.

Inductive res (A : Type) := Ok (a : A) | Err (code : Z).
Arguments Ok {A} a.
Arguments Err {A} code.

Definition E_VALUE : Z := 1.     (* ValueError *)
Definition E_INDEX : Z := 2.     (* IndexError *)
Definition E_ZERODIV : Z := 3.   (* ZeroDivisionError *)
Definition E_TYPE : Z := 4.      (* TypeError / AttributeError *)
Definition E_OTHER : Z := 5.     (* any other exception class *)
Definition E_DIVERGE : Z := 9.   (* the Python loop does not terminate (model fuel exhausted) *)

Definition zlen {A} (l : list A) : Z := Z.of_nat (length l).

(** [alphabet.index(char)] : first position, [None] = ValueError *)
Fixpoint index_of (c : Z) (l : str) : option Z :=
  match l with
  | [] => None
  | x :: t => if x =? c then Some 0 else option_map Z.succ (index_of c t)
  end.

(** [alphabet[i]] for [0 <= i] ([None] = IndexError; negative indices are never produced here) *)
Definition nth_z (i : Z) (l : str) : option Z :=
  if i <? 0 then None else nth_error l (Z.to_nat i).

(** * utils.to_base_n *)
(** while num: rem = num % base; num = num // base; arr.append(alphabet[rem])   -- then arr.reverse() *)
Fixpoint to_loop (fuel : nat) (alphabet : str) (base num : Z) (arr : str) : res str :=
  if num =? 0 then Ok arr
  else match fuel with
       | O => Err E_DIVERGE
       | S f =>
           match nth_z (num mod base) alphabet with
           | None => Err E_INDEX
           | Some ch => to_loop f alphabet base (num / base) (ch :: arr)
           end
       end.

Definition fuel_for (num : Z) : nat := S (Z.to_nat (Z.log2 num)).

Definition base_check (alphabet : str) (base : Z) : bool :=
  (0 <=? base) && (base <=? zlen alphabet).

Definition to_base_n (alphabet : str) (base num : Z) : res str :=
  if negb (base_check alphabet base) then Err E_VALUE
  else if num =? 0 then match alphabet with [] => Err E_INDEX | c :: _ => Ok [c] end
  else if base =? 0 then Err E_ZERODIV
  else to_loop (fuel_for num) alphabet base num [].

(** * utils.from_base_n *)
(** for char in base_num: power = strlen - (idx + 1); num += alphabet.index(char) * base ** power *)
Fixpoint from_loop (alphabet : str) (base : Z) (s : str) (num : Z) : option Z :=
  match s with
  | [] => Some num
  | c :: t =>
      match index_of c alphabet with
      | None => None
      | Some i => from_loop alphabet base t (num + i * base ^ zlen t)
      end
  end.

Definition from_base_n (alphabet : str) (base : Z) (s : str) : res Z :=
  if negb (base_check alphabet base) then Err E_VALUE
  else match from_loop alphabet base s 0 with
       | None => Err E_VALUE
       | Some n => Ok n
       end.

(** * Format helpers *)
(** '{x:>0Ws}'.format(x=s): right-aligned in width W with fill character; longer strings unchanged *)
Definition pad_left (fill : Z) (width : Z) (s : str) : str :=
  repeat fill (Z.to_nat (width - zlen s)) ++ s.

(** s.replace(a, b) for single characters *)
Definition replace_char (a b : Z) (s : str) : str :=
  map (fun c => if c =? a then b else c) s.

(** s.rsplit(sep, 1): split at the LAST occurrence of [sep]; [None] = no occurrence (Python returns [s]) *)
Fixpoint rsplit1 (sep : Z) (s : str) : option (str * str) :=
  match s with
  | [] => None
  | c :: t =>
      match rsplit1 sep t with
      | Some (h, tl) => Some (c :: h, tl)
      | None => if c =? sep then Some ([], t) else None
      end
  end.

(** * Tables regenerated from the source *)
Record uid_tables := {
  ut_default_alphabet : str;   (* utils._DEFAULT_BASE_ALPHABET *)
  ut_alphabet : str;           (* gen_uniqueid: numerals *)
  ut_uid_template : str;       (* gen_uniqueid: the format template text *)
  ut_uid_fill : Z;             (* parsed from it *)
  ut_uid_width : Z;
  ut_time_scale : Z;           (* 10**6 *)
  ut_time_shift : Z;           (* event_time << 64 *)
  ut_inst_shift : Z;           (* int(instance) << 31 *)
  ut_data_bits : Z;            (* event_data &= 2**64 - 1 *)
  ut_seed_bits : Z;            (* seed &= 2**77 - 1 *)
  ut_name_template : str;      (* _fmt_unique_name: the format template text *)
  ut_name_sep : str;           (* literal between the two fields *)
  ut_name_fill : Z;
  ut_name_width : Z;
  ut_name_from : Z;            (* appname.replace(from, to) *)
  ut_name_to : Z;
  ut_split_sep : Z;            (* app_name / app_unique_id: rsplit(sep, 1) *)
  ut_join_sep : Z              (* app_name: join *)
}.

(** * appcfg.gen_uniqueid  (os.stat supplied as data: inode, ctime in microseconds, instance id) *)
Definition uid_seed (t : uid_tables) (ino ctime_us inst : Z) : Z :=
  let data := Z.land (Z.lxor ino (Z.shiftl inst (ut_inst_shift t))) (2 ^ ut_data_bits t - 1) in
  Z.land (Z.shiftl ctime_us (ut_time_shift t) + data) (2 ^ ut_seed_bits t - 1).

Definition uid_of_seed (t : uid_tables) (seed : Z) : res str :=
  match to_base_n (ut_alphabet t) (zlen (ut_alphabet t)) seed with
  | Ok s => Ok (pad_left (ut_uid_fill t) (ut_uid_width t) s)
  | Err e => Err e
  end.

Definition gen_uniqueid (t : uid_tables) (ino ctime_us inst : Z) : res str :=
  uid_of_seed t (uid_seed t ino ctime_us inst).

(** * appcfg._fmt_unique_name / app_name / app_unique_id *)
Definition fmt_unique_name (t : uid_tables) (name uid : str) : str :=
  replace_char (ut_name_from t) (ut_name_to t) name ++ ut_name_sep t
    ++ pad_left (ut_name_fill t) (ut_name_width t) uid.

Definition app_name (t : uid_tables) (u : str) : str :=
  let appname := match rsplit1 (ut_split_sep t) u with Some (h, _) => h | None => u end in
  match rsplit1 (ut_split_sep t) appname with
  | Some (h, tl) => h ++ ut_join_sep t :: tl
  | None => appname
  end.

Definition app_unique_id (t : uid_tables) (u : str) : res str :=
  match rsplit1 (ut_split_sep t) u with
  | Some (_, tl) => Ok tl
  | None => Err E_INDEX
  end.

(** eventfile_unique_name: basename = [name] (contains the '#<instance>' suffix) *)
Definition eventfile_unique_name (t : uid_tables) (name : str) (ino ctime_us inst : Z) : res str :=
  match gen_uniqueid t ino ctime_us inst with
  | Ok uid => Ok (fmt_unique_name t name uid)
  | Err e => Err e
  end.

(** * What the tables must be for the property to hold (checked by vm_compute on the generated tables) *)
Fixpoint nodupb (l : str) : bool :=
  match l with
  | [] => true
  | x :: t => negb (existsb (Z.eqb x) t) && nodupb t
  end.

Fixpoint str_eqb (a b : str) : bool :=
  match a, b with
  | [], [] => true
  | x :: a', y :: b' => (x =? y) && str_eqb a' b'
  | _, _ => false
  end.

Definition memb (c : Z) (l : str) : bool := existsb (Z.eqb c) l.

Definition alphabet_ok (al : str) : bool := nodupb al && (2 <=? zlen al).

Definition uid_tables_ok (t : uid_tables) : bool :=
  alphabet_ok (ut_default_alphabet t) &&
  alphabet_ok (ut_alphabet t) &&
  (* 13 characters suffice for every seed of the masked width, and exactly 13 are produced *)
  (ut_uid_width t =? 13) && (0 <=? ut_seed_bits t) &&
  (2 ^ ut_seed_bits t <=? zlen (ut_alphabet t) ^ ut_uid_width t) &&
  (* the fill character is the zero digit, so padding does not change the decoded number *)
  (match ut_alphabet t with c :: _ => c =? ut_uid_fill t | [] => false end) &&
  (* unique name: one separator character, which is also the split character, not in the id alphabet *)
  str_eqb (ut_name_sep t) [ut_split_sep t] &&
  (ut_name_to t =? ut_split_sep t) &&
  (ut_name_from t =? ut_join_sep t) &&
  negb (ut_join_sep t =? ut_split_sep t) &&
  negb (memb (ut_split_sep t) (ut_alphabet t)) &&
  negb (ut_name_fill t =? ut_split_sep t) &&
  (ut_name_width t =? ut_uid_width t).
