(** Python string helpers shared by the C15 codec models: str.split / str.join / split(sep, 1),
    str(int) and int(str) on ASCII input.  Executable model ONLY (proofs in DecP.v). *)
From Coq Require Import ZArith List Bool.
From TM Require Import Codec.BaseN.
Import ListNotations.
Open Scope Z_scope.

(** s.split(sep) for a one-character separator: always a non-empty list *)
Fixpoint split (sep : Z) (s : str) : list str :=
  match s with
  | [] => [[]]
  | c :: t =>
      if c =? sep then [] :: split sep t
      else match split sep t with
           | p :: ps => (c :: p) :: ps
           | [] => [[c]]
           end
  end.

(** sep.join(parts) *)
Fixpoint join (sep : Z) (l : list str) : str :=
  match l with
  | [] => []
  | [x] => x
  | x :: t => x ++ sep :: join sep t
  end.

(** s.split(sep, 1): [None] when sep does not occur (Python returns [s]) *)
Fixpoint split1 (sep : Z) (s : str) : option (str * str) :=
  match s with
  | [] => None
  | c :: t =>
      if c =? sep then Some ([], t)
      else match split1 sep t with
           | Some (h, tl) => Some (c :: h, tl)
           | None => None
           end
  end.

(** * str(int), '%s' % int, '{}'.format(int) *)
Definition digits10 : str := [48; 49; 50; 51; 52; 53; 54; 55; 56; 57].

Definition str_of_nonneg (n : Z) : str :=
  match to_base_n digits10 10 n with Ok s => s | Err _ => [] end.

Definition str_of_Z (z : Z) : str :=
  if z <? 0 then 45 :: str_of_nonneg (- z) else str_of_nonneg z.

(** * int(s) for ASCII s: surrounding whitespace stripped, optional sign, digits with single
      underscores between digits.  [None] = ValueError. *)
Definition is_ws (c : Z) : bool := existsb (Z.eqb c) [9; 10; 11; 12; 13; 32].
Definition is_digit (c : Z) : bool := (48 <=? c) && (c <=? 57).

Fixpoint lstrip (s : str) : str :=
  match s with
  | c :: t => if is_ws c then lstrip t else s
  | [] => []
  end.
Definition strip (s : str) : str := rev (lstrip (rev (lstrip s))).

Fixpoint int_digits (s : str) (acc : Z) (prev_digit : bool) : option Z :=
  match s with
  | [] => if prev_digit then Some acc else None
  | c :: t =>
      if is_digit c then int_digits t (acc * 10 + (c - 48)) true
      else if (c =? 95) && prev_digit then int_digits t acc false
      else None
  end.

Definition py_int (s : str) : option Z :=
  match strip s with
  | [] => None
  | c :: t =>
      if c =? 45 then option_map Z.opp (int_digits t 0 false)        (* '-' *)
      else if c =? 43 then int_digits t 0 false                      (* '+' *)
      else int_digits (c :: t) 0 false
  end.

(** '%s' % v / '{}'.format(v) for v : None | str *)
Definition none_str : str := [78; 111; 110; 101].   (* "None" *)
Definition pystr (v : option str) : str := match v with Some s => s | None => none_str end.
