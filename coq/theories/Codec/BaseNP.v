(** Proofs about Codec/BaseN.v: base-N round trip for every alphabet without duplicates,
    13-character unique ids for every seed of the masked width, unique-name round trip. *)
From Coq Require Import ZArith List Bool Lia ZifyBool.
From TM Require Import Codec.BaseN.
Import ListNotations.
Open Scope Z_scope.

(** * Boolean predicates *)
Lemma existsb_eqb_In c l : existsb (Z.eqb c) l = true <-> In c l.
Proof.
  rewrite existsb_exists. split.
  - intros [x [Hin Heq]]. apply Z.eqb_eq in Heq. subst. exact Hin.
  - intros Hin. exists c. split; [exact Hin | apply Z.eqb_refl].
Qed.

Lemma memb_In c l : memb c l = true <-> In c l.
Proof. apply existsb_eqb_In. Qed.

Lemma memb_false_notin c l : memb c l = false -> ~ In c l.
Proof. intros H Hin. apply memb_In in Hin. congruence. Qed.

Lemma nodupb_NoDup l : nodupb l = true <-> NoDup l.
Proof.
  induction l as [|x t IH]; cbn [nodupb].
  - split; [constructor | reflexivity].
  - rewrite andb_true_iff, negb_true_iff, IH. split.
    + intros [Hx Ht]. constructor; [|exact Ht].
      intros Hin. apply existsb_eqb_In in Hin. congruence.
    + intros Hnd. inversion Hnd as [|y l' Hx Ht]; subst. split; [|exact Ht].
      destruct (existsb (Z.eqb x) t) eqn:E; [|reflexivity].
      apply existsb_eqb_In in E. contradiction.
Qed.

Lemma str_eqb_eq a b : str_eqb a b = true <-> a = b.
Proof.
  revert b; induction a as [|x a IH]; intros [|y b]; cbn [str_eqb]; split; intros H;
    try congruence; try discriminate.
  - apply andb_true_iff in H as [H1 H2]. apply Z.eqb_eq in H1. apply IH in H2. congruence.
  - inversion H; subst. rewrite Z.eqb_refl. cbn. apply IH. reflexivity.
Qed.

Lemma zlen_cons {A} (x : A) l : zlen (x :: l) = zlen l + 1.
Proof. unfold zlen. cbn [length]. lia. Qed.

Lemma zlen_app {A} (a b : list A) : zlen (a ++ b) = zlen a + zlen b.
Proof. unfold zlen. rewrite app_length. lia. Qed.

Lemma zlen_nonneg {A} (l : list A) : 0 <= zlen l.
Proof. unfold zlen. lia. Qed.

(** * index / nth *)
Lemma index_of_nth al : NoDup al -> forall k c, nth_error al k = Some c -> index_of c al = Some (Z.of_nat k).
Proof.
  induction al as [|x t IH]; intros Hnd k c Hk.
  - destruct k; discriminate.
  - inversion Hnd as [|y l' Hx Ht]; subst. destruct k as [|k]; cbn [nth_error] in Hk; cbn [index_of].
    + inversion Hk; subst. rewrite Z.eqb_refl. reflexivity.
    + assert (Hin : In c t) by (eapply nth_error_In; exact Hk).
      destruct (x =? c) eqn:E.
      * apply Z.eqb_eq in E. subst. contradiction.
      * rewrite (IH Ht k c Hk). cbn [option_map]. f_equal. lia.
Qed.

Lemma nth_z_some al i : 0 <= i < zlen al -> exists c, nth_z i al = Some c /\ nth_error al (Z.to_nat i) = Some c.
Proof.
  intros Hi. unfold nth_z. destruct (i <? 0) eqn:E; [lia|].
  destruct (nth_error al (Z.to_nat i)) as [c|] eqn:En.
  - exists c. split; reflexivity.
  - apply nth_error_None in En. unfold zlen in Hi. lia.
Qed.

Lemma index_of_In c al i : index_of c al = Some i -> In c al.
Proof.
  revert i; induction al as [|x t IH]; intros i H; cbn [index_of] in H; [discriminate|].
  destruct (x =? c) eqn:E.
  - apply Z.eqb_eq in E. left. exact E.
  - right. destruct (index_of c t) as [j|]; [|discriminate]. eapply IH. reflexivity.
Qed.

(** * The number a digit string denotes *)
Fixpoint val (al : str) (base : Z) (s : str) : option Z :=
  match s with
  | [] => Some 0
  | c :: t =>
      match index_of c al, val al base t with
      | Some i, Some v => Some (i * base ^ zlen t + v)
      | _, _ => None
      end
  end.

Lemma from_loop_val al base s : forall num,
  from_loop al base s num = option_map (Z.add num) (val al base s).
Proof.
  induction s as [|c t IH]; intros num; cbn [from_loop val].
  - cbn. f_equal. lia.
  - destruct (index_of c al) as [i|]; [|reflexivity].
    rewrite IH. destruct (val al base t) as [v|]; cbn [option_map]; [|reflexivity].
    f_equal. lia.
Qed.

Lemma val_snoc al base s ch :
  val al base (s ++ [ch]) =
  match val al base s, index_of ch al with
  | Some v, Some j => Some (v * base + j)
  | _, _ => None
  end.
Proof.
  induction s as [|c t IH]; cbn [app val].
  - destruct (index_of ch al) as [j|]; [|reflexivity]. cbn. f_equal. lia.
  - rewrite IH. destruct (index_of c al) as [i|]; [|reflexivity].
    destruct (val al base t) as [v|]; [|reflexivity].
    destruct (index_of ch al) as [j|]; [|reflexivity].
    f_equal. rewrite zlen_app. change (zlen [ch]) with 1.
    rewrite Z.pow_add_r by (pose proof (zlen_nonneg t); lia).
    rewrite Z.pow_1_r. ring.
Qed.

Lemma val_pad al base c k s :
  index_of c al = Some 0 -> val al base (repeat c k ++ s) = val al base s.
Proof.
  intros Hc. induction k as [|k IH]; cbn [repeat app val]; [reflexivity|].
  rewrite Hc, IH. destruct (val al base s) as [v|]; [|reflexivity]. f_equal; lia.
Qed.

(** * to_loop *)
Lemma to_loop_spec al base :
  NoDup al -> 2 <= base <= zlen al ->
  forall f num arr, 0 <= num < 2 ^ Z.of_nat f ->
  exists s, to_loop f al base num arr = Ok (s ++ arr)
            /\ val al base s = Some num
            /\ (forall k, num < base ^ Z.of_nat k -> (length s <= k)%nat)
            /\ (0 < num -> (1 <= length s)%nat)
            /\ Forall (fun c => In c al) s.
Proof.
  intros Hnd Hb. induction f as [|f IH]; intros num arr Hn.
  - assert (num = 0) by (change (2 ^ Z.of_nat 0) with 1 in Hn; lia). subst num.
    exists []. cbn. repeat split; try lia; try constructor.
  - cbn [to_loop]. destruct (num =? 0) eqn:E0.
    + apply Z.eqb_eq in E0. subst num. exists []. cbn. repeat split; try lia; try constructor.
    + apply Z.eqb_neq in E0.
      assert (Hr : 0 <= num mod base < base) by (apply Z.mod_pos_bound; lia).
      destruct (nth_z_some al (num mod base)) as [ch [Hch Hne]]; [lia|].
      rewrite Hch.
      assert (Hpow : 2 ^ Z.of_nat (S f) = 2 * 2 ^ Z.of_nat f).
      { rewrite Nat2Z.inj_succ. rewrite Z.pow_succ_r by lia. reflexivity. }
      assert (Hq : 0 <= num / base < 2 ^ Z.of_nat f).
      { split; [apply Z.div_pos; lia|]. apply Z.div_lt_upper_bound; [lia|].
        assert (0 < 2 ^ Z.of_nat f) by (apply Z.pow_pos_nonneg; lia). nia. }
      destruct (IH (num / base) (ch :: arr) Hq) as [s' [Hs' [Hv' [Hlen' [_ Hall']]]]].
      exists (s' ++ [ch]). rewrite <- app_assoc. cbn [app]. split; [exact Hs'|].
      split.
      { rewrite val_snoc, Hv'. rewrite (index_of_nth al Hnd _ _ Hne).
        f_equal. rewrite Z2Nat.id by lia. pose proof (Z.div_mod num base). lia. }
      split.
      { intros k Hk. rewrite app_length. cbn [length].
        destruct k as [|k].
        - change (base ^ Z.of_nat 0) with 1 in Hk. lia.
        - assert (Hk' : num / base < base ^ Z.of_nat k).
          { apply Z.div_lt_upper_bound; [lia|].
            rewrite Nat2Z.inj_succ, Z.pow_succ_r in Hk by lia. exact Hk. }
          specialize (Hlen' k Hk'). lia. }
      split.
      { intros _. rewrite app_length. cbn [length]. lia. }
      apply Forall_app. split; [exact Hall'|]. constructor; [|constructor].
      eapply nth_error_In. exact Hne.
Qed.

Lemma fuel_for_enough num : 0 < num -> 0 <= num < 2 ^ Z.of_nat (fuel_for num).
Proof.
  intros Hn. unfold fuel_for. rewrite Nat2Z.inj_succ.
  rewrite Z2Nat.id by (apply Z.log2_nonneg).
  pose proof (Z.log2_spec num Hn). lia.
Qed.

Lemma base_check_true al base : 0 <= base <= zlen al -> base_check al base = true.
Proof. intros H. unfold base_check. lia. Qed.

(** the structured statement everything else follows from *)
Lemma to_base_n_spec al base n :
  NoDup al -> 2 <= base <= zlen al -> 0 <= n ->
  exists s, to_base_n al base n = Ok s
            /\ val al base s = Some n
            /\ (1 <= length s)%nat
            /\ (forall k, (1 <= k)%nat -> n < base ^ Z.of_nat k -> (length s <= k)%nat)
            /\ Forall (fun c => In c al) s.
Proof.
  intros Hnd Hb Hn. unfold to_base_n. rewrite base_check_true by lia. cbn [negb].
  destruct (n =? 0) eqn:E0.
  - apply Z.eqb_eq in E0. subst n. destruct al as [|c t].
    + unfold zlen in Hb. cbn in Hb. lia.
    + exists [c]. split; [reflexivity|]. split.
      { cbn [val index_of]. rewrite Z.eqb_refl. cbn. reflexivity. }
      split; [cbn; lia|]. split; [intros k Hk _; cbn; lia|].
      constructor; [left; reflexivity|constructor].
  - apply Z.eqb_neq in E0. destruct (base =? 0) eqn:Eb; [lia|].
    destruct (to_loop_spec al base Hnd Hb (fuel_for n) n [] (fuel_for_enough n ltac:(lia)))
      as [s [Hs [Hv [Hlen [Hpos Hall]]]]].
    exists s. rewrite app_nil_r in Hs. split; [exact Hs|]. split; [exact Hv|].
    split; [apply Hpos; lia|]. split; [intros k _ Hk; apply Hlen; exact Hk|exact Hall].
Qed.

Lemma from_base_n_val al base s :
  0 <= base <= zlen al ->
  from_base_n al base s = match val al base s with Some n => Ok n | None => Err E_VALUE end.
Proof.
  intros Hb. unfold from_base_n. rewrite base_check_true by lia. cbn [negb].
  rewrite from_loop_val. destruct (val al base s) as [v|]; cbn [option_map]; reflexivity.
Qed.

(** * Base-N round trip, injectivity *)
Theorem base_n_roundtrip al base n :
  nodupb al = true -> 2 <= base <= zlen al -> 0 <= n ->
  exists s, to_base_n al base n = Ok s /\ from_base_n al base s = Ok n.
Proof.
  intros Hnd Hb Hn. apply nodupb_NoDup in Hnd.
  destruct (to_base_n_spec al base n Hnd Hb Hn) as [s [Hs [Hv _]]].
  exists s. split; [exact Hs|]. rewrite from_base_n_val by lia. rewrite Hv. reflexivity.
Qed.

Theorem base_n_decode_encode al base n s :
  nodupb al = true -> 2 <= base <= zlen al -> 0 <= n ->
  to_base_n al base n = Ok s -> from_base_n al base s = Ok n.
Proof.
  intros Hnd Hb Hn Hs. destruct (base_n_roundtrip al base n Hnd Hb Hn) as [s' [Hs' Hd]].
  rewrite Hs in Hs'. inversion Hs'; subst. exact Hd.
Qed.

Theorem base_n_injective al base n m s :
  nodupb al = true -> 2 <= base <= zlen al -> 0 <= n -> 0 <= m ->
  to_base_n al base n = Ok s -> to_base_n al base m = Ok s -> n = m.
Proof.
  intros Hnd Hb Hn Hm H1 H2.
  pose proof (base_n_decode_encode al base n s Hnd Hb Hn H1) as D1.
  pose proof (base_n_decode_encode al base m s Hnd Hb Hm H2) as D2.
  rewrite D1 in D2. inversion D2. reflexivity.
Qed.

(** * Unique ids *)
Lemma tables_ok_fields t : uid_tables_ok t = true ->
  NoDup (ut_default_alphabet t) /\ 2 <= zlen (ut_default_alphabet t) /\
  NoDup (ut_alphabet t) /\ 2 <= zlen (ut_alphabet t) /\
  ut_uid_width t = 13 /\ 0 <= ut_seed_bits t /\
  2 ^ ut_seed_bits t <= zlen (ut_alphabet t) ^ ut_uid_width t /\
  (exists rest, ut_alphabet t = ut_uid_fill t :: rest) /\
  ut_name_sep t = [ut_split_sep t] /\ ut_name_to t = ut_split_sep t /\
  ut_name_from t = ut_join_sep t /\ ut_join_sep t <> ut_split_sep t /\
  ~ In (ut_split_sep t) (ut_alphabet t) /\ ut_name_fill t <> ut_split_sep t /\
  ut_name_width t = ut_uid_width t.
Proof.
  unfold uid_tables_ok, alphabet_ok. intros H.
  repeat match goal with
         | X : _ && _ = true |- _ => apply andb_true_iff in X; destruct X
         end.
  repeat match goal with
         | X : nodupb _ = true |- _ => apply nodupb_NoDup in X
         | X : str_eqb _ _ = true |- _ => apply str_eqb_eq in X
         | X : negb (memb _ _) = true |- _ => apply negb_true_iff, memb_false_notin in X
         end.
  destruct (ut_alphabet t) as [|c rest] eqn:Eal; [discriminate|].
  repeat split; try assumption; try lia.
  exists rest. f_equal. lia.
Qed.

Theorem base_n_default t n :
  uid_tables_ok t = true -> 0 <= n ->
  exists s, to_base_n (ut_default_alphabet t) (zlen (ut_default_alphabet t)) n = Ok s
            /\ from_base_n (ut_default_alphabet t) (zlen (ut_default_alphabet t)) s = Ok n.
Proof.
  intros Hok Hn. destruct (tables_ok_fields t Hok) as [Hnd [Hlen _]].
  apply base_n_roundtrip; [apply nodupb_NoDup; exact Hnd | lia | exact Hn].
Qed.

Lemma pad_left_length fill width s :
  zlen s <= width -> zlen (pad_left fill width s) = width.
Proof.
  intros H. unfold pad_left. rewrite zlen_app. unfold zlen in *. rewrite repeat_length. lia.
Qed.

Lemma pad_left_long fill width s : width <= zlen s -> pad_left fill width s = s.
Proof.
  intros H. unfold pad_left. replace (Z.to_nat (width - zlen s)) with 0%nat by lia. reflexivity.
Qed.

Lemma pad_left_notin fill width s c : fill <> c -> ~ In c s -> ~ In c (pad_left fill width s).
Proof.
  intros Hf Hs Hin. unfold pad_left in Hin. apply in_app_or in Hin as [Hin|Hin].
  - apply repeat_spec in Hin. congruence.
  - contradiction.
Qed.

Lemma uid_seed_range t ino ctime_us inst :
  0 <= ut_seed_bits t -> 0 <= uid_seed t ino ctime_us inst < 2 ^ ut_seed_bits t.
Proof.
  intros Hb. unfold uid_seed.
  replace (2 ^ ut_seed_bits t - 1) with (Z.ones (ut_seed_bits t)) by (rewrite Z.ones_equiv; lia).
  rewrite Z.land_ones by exact Hb.
  apply Z.mod_pos_bound. apply Z.pow_pos_nonneg; lia.
Qed.

(** every seed below 2^bits yields exactly 13 characters of the alphabet which decode to the seed *)
Theorem uid_of_seed_spec t seed :
  uid_tables_ok t = true -> 0 <= seed < 2 ^ ut_seed_bits t ->
  exists s, uid_of_seed t seed = Ok s /\ length s = 13%nat
            /\ from_base_n (ut_alphabet t) (zlen (ut_alphabet t)) s = Ok seed
            /\ Forall (fun c => In c (ut_alphabet t)) s.
Proof.
  intros Hok Hseed.
  destruct (tables_ok_fields t Hok) as
    [_ [_ [Hnd [Hlen [Hw [Hbits [Hcap [[rest Hal] _]]]]]]]].
  destruct (to_base_n_spec (ut_alphabet t) (zlen (ut_alphabet t)) seed Hnd ltac:(lia) ltac:(lia))
    as [s [Hs [Hv [Hpos [Hk Hall]]]]].
  unfold uid_of_seed. rewrite Hs.
  exists (pad_left (ut_uid_fill t) (ut_uid_width t) s). split; [reflexivity|].
  assert (Hls : (length s <= 13)%nat).
  { apply Hk; [lia|]. rewrite Hw in Hcap. change (Z.of_nat 13) with 13. lia. }
  split.
  { pose proof (pad_left_length (ut_uid_fill t) (ut_uid_width t) s) as Hp.
    unfold zlen in Hp. rewrite Hw in *. lia. }
  split.
  { rewrite from_base_n_val by lia. unfold pad_left. rewrite val_pad.
    - rewrite Hv. reflexivity.
    - rewrite Hal. cbn [index_of]. rewrite Z.eqb_refl. reflexivity. }
  unfold pad_left. apply Forall_app. split; [|exact Hall].
  apply Forall_forall. intros c Hc. apply repeat_spec in Hc. subst c. rewrite Hal. left. reflexivity.
Qed.

Theorem gen_uniqueid_spec t ino ctime_us inst :
  uid_tables_ok t = true ->
  exists s, gen_uniqueid t ino ctime_us inst = Ok s /\ length s = 13%nat
            /\ from_base_n (ut_alphabet t) (zlen (ut_alphabet t)) s = Ok (uid_seed t ino ctime_us inst)
            /\ ~ In (ut_split_sep t) s.
Proof.
  intros Hok. pose proof (tables_ok_fields t Hok) as F.
  destruct F as [_ [_ [_ [_ [_ [Hbits [_ [_ [_ [_ [_ [_ [Hsep _]]]]]]]]]]]]].
  destruct (uid_of_seed_spec t (uid_seed t ino ctime_us inst) Hok (uid_seed_range t ino ctime_us inst Hbits))
    as [s [Hs [Hl [Hd Hall]]]].
  exists s. unfold gen_uniqueid. repeat split; try assumption.
  intros Hin. rewrite Forall_forall in Hall. apply Hsep. apply Hall. exact Hin.
Qed.

Theorem uid_of_seed_injective t a b s :
  uid_tables_ok t = true -> 0 <= a < 2 ^ ut_seed_bits t -> 0 <= b < 2 ^ ut_seed_bits t ->
  uid_of_seed t a = Ok s -> uid_of_seed t b = Ok s -> a = b.
Proof.
  intros Hok Ha Hb H1 H2.
  destruct (uid_of_seed_spec t a Hok Ha) as [s1 [E1 [_ [D1 _]]]].
  destruct (uid_of_seed_spec t b Hok Hb) as [s2 [E2 [_ [D2 _]]]].
  rewrite H1 in E1. rewrite H2 in E2. inversion E1; inversion E2; subst.
  rewrite D1 in D2. inversion D2. reflexivity.
Qed.

(** * rsplit *)
Lemma rsplit1_none sep s : ~ In sep s -> rsplit1 sep s = None.
Proof.
  induction s as [|c t IH]; intros Hn; cbn [rsplit1]; [reflexivity|].
  rewrite IH by (intros Hin; apply Hn; right; exact Hin).
  destruct (c =? sep) eqn:E; [|reflexivity].
  apply Z.eqb_eq in E. exfalso. apply Hn. left. exact E.
Qed.

Lemma rsplit1_last sep h tl : ~ In sep tl -> rsplit1 sep (h ++ sep :: tl) = Some (h, tl).
Proof.
  intros Hn. induction h as [|c h IH]; cbn [app rsplit1].
  - rewrite (rsplit1_none sep tl Hn). rewrite Z.eqb_refl. reflexivity.
  - rewrite IH. reflexivity.
Qed.

Lemma replace_char_notin a b s : ~ In a s -> replace_char a b s = s.
Proof.
  induction s as [|c t IH]; intros Hn; cbn [replace_char map]; [reflexivity|].
  destruct (c =? a) eqn:E.
  - apply Z.eqb_eq in E. exfalso. apply Hn. left. exact E.
  - f_equal. apply IH. intros Hin. apply Hn. right. exact Hin.
Qed.

Lemma replace_char_app a b s1 s2 : replace_char a b (s1 ++ s2) = replace_char a b s1 ++ replace_char a b s2.
Proof. unfold replace_char. apply map_app. Qed.

(** * Unique names *)
(** instance names are  base ++ '#' ++ inst  with no '#' in base, no '#' and no '-' in inst; uid has no '-' *)
Definition name_domain (t : uid_tables) (base inst uid : str) : Prop :=
  ~ In (ut_join_sep t) base /\ ~ In (ut_join_sep t) inst /\ ~ In (ut_split_sep t) inst
  /\ ~ In (ut_split_sep t) uid.

Definition inst_name (t : uid_tables) (base inst : str) : str := base ++ ut_join_sep t :: inst.

Lemma fmt_unique_name_shape t base inst uid :
  uid_tables_ok t = true -> ~ In (ut_join_sep t) base -> ~ In (ut_join_sep t) inst ->
  fmt_unique_name t (inst_name t base inst) uid =
  (base ++ ut_split_sep t :: inst) ++ ut_split_sep t :: pad_left (ut_name_fill t) (ut_name_width t) uid.
Proof.
  intros Hok Hb Hi. pose proof (tables_ok_fields t Hok) as F.
  destruct F as [_ [_ [_ [_ [_ [_ [_ [_ [Hsep [Hto [Hfrom _]]]]]]]]]]].
  unfold fmt_unique_name, inst_name. rewrite Hsep, Hto, Hfrom.
  rewrite replace_char_app. cbn [replace_char map]. rewrite Z.eqb_refl.
  fold (replace_char (ut_join_sep t) (ut_split_sep t) inst).
  rewrite !replace_char_notin by assumption. cbn [app]. reflexivity.
Qed.

Theorem unique_name_roundtrip t base inst uid :
  uid_tables_ok t = true -> name_domain t base inst uid ->
  app_name t (fmt_unique_name t (inst_name t base inst) uid) = inst_name t base inst
  /\ app_unique_id t (fmt_unique_name t (inst_name t base inst) uid)
     = Ok (pad_left (ut_name_fill t) (ut_name_width t) uid).
Proof.
  intros Hok [Hb [Hi [Hi2 Hu]]]. pose proof (tables_ok_fields t Hok) as F.
  destruct F as [_ [_ [_ [_ [_ [_ [_ [_ [_ [_ [_ [_ [_ [Hfill _]]]]]]]]]]]]]].
  rewrite (fmt_unique_name_shape t base inst uid Hok Hb Hi).
  assert (Hp : ~ In (ut_split_sep t) (pad_left (ut_name_fill t) (ut_name_width t) uid))
    by (apply pad_left_notin; assumption).
  unfold app_name, app_unique_id. rewrite (rsplit1_last _ _ _ Hp).
  rewrite (rsplit1_last _ _ _ Hi2). split; reflexivity.
Qed.

Corollary unique_name_roundtrip_13 t base inst uid :
  uid_tables_ok t = true -> name_domain t base inst uid -> length uid = 13%nat ->
  app_unique_id t (fmt_unique_name t (inst_name t base inst) uid) = Ok uid.
Proof.
  intros Hok Hd Hl. destruct (unique_name_roundtrip t base inst uid Hok Hd) as [_ H].
  rewrite H. f_equal. apply pad_left_long.
  pose proof (tables_ok_fields t Hok) as F.
  destruct F as [_ [_ [_ [_ [Hw [_ [_ [_ [_ [_ [_ [_ [_ [_ Hnw]]]]]]]]]]]]]].
  unfold zlen. lia.
Qed.

Theorem unique_name_injective t base inst uid base' inst' uid' :
  uid_tables_ok t = true -> name_domain t base inst uid -> name_domain t base' inst' uid' ->
  fmt_unique_name t (inst_name t base inst) uid = fmt_unique_name t (inst_name t base' inst') uid' ->
  inst_name t base inst = inst_name t base' inst'
  /\ pad_left (ut_name_fill t) (ut_name_width t) uid = pad_left (ut_name_fill t) (ut_name_width t) uid'.
Proof.
  intros Hok D1 D2 Heq.
  destruct (unique_name_roundtrip t base inst uid Hok D1) as [N1 U1].
  destruct (unique_name_roundtrip t base' inst' uid' Hok D2) as [N2 U2].
  rewrite Heq in N1, U1. split; [congruence|]. rewrite U1 in U2. inversion U2. reflexivity.
Qed.

(** the unique name always ends in separator + exactly 13 characters when the id is a generated one *)
Theorem eventfile_unique_name_spec t base inst ino ctime_us i :
  uid_tables_ok t = true ->
  ~ In (ut_join_sep t) base -> ~ In (ut_join_sep t) inst -> ~ In (ut_split_sep t) inst ->
  exists uid, gen_uniqueid t ino ctime_us i = Ok uid /\ length uid = 13%nat
    /\ eventfile_unique_name t (inst_name t base inst) ino ctime_us i
       = Ok ((base ++ ut_split_sep t :: inst) ++ ut_split_sep t :: uid)
    /\ app_name t ((base ++ ut_split_sep t :: inst) ++ ut_split_sep t :: uid) = inst_name t base inst
    /\ app_unique_id t ((base ++ ut_split_sep t :: inst) ++ ut_split_sep t :: uid) = Ok uid.
Proof.
  intros Hok Hb Hi Hi2.
  destruct (gen_uniqueid_spec t ino ctime_us i Hok) as [uid [Hg [Hl [_ Hsep]]]].
  exists uid. split; [exact Hg|]. split; [exact Hl|].
  assert (D : name_domain t base inst uid) by (repeat split; assumption).
  pose proof (fmt_unique_name_shape t base inst uid Hok Hb Hi) as Hshape.
  pose proof (tables_ok_fields t Hok) as F.
  destruct F as [_ [_ [_ [_ [Hw [_ [_ [_ [_ [_ [_ [_ [_ [_ Hnw]]]]]]]]]]]]]].
  rewrite pad_left_long in Hshape by (unfold zlen; lia).
  destruct (unique_name_roundtrip t base inst uid Hok D) as [N U].
  rewrite Hshape in N, U. rewrite pad_left_long in U by (unfold zlen; lia).
  unfold eventfile_unique_name. rewrite Hg, Hshape. repeat split; assumption.
Qed.
