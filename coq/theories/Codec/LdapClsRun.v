(** C15 (LDAP per-class wrappers) correspondence runner.  [lcls_tables] is assembled here from the plain
    definitions that harness/tables_ldapcls.py regenerates into Gen/Tables.v on every run (section c15_ldapcls);
    [run_case] flattens the model's observables to [list Z] exactly like harness/props/c15ldap.py flattens the
    implementation's.  No proofs here. *)
From Coq Require Import ZArith List Bool.
From TM Require Import Codec.BaseN Codec.Dec Codec.Json Codec.Ldap Codec.LdapCls Gen.Tables.
Import ListNotations.
Open Scope Z_scope.

Definition rows_t := list (list Z * (option (list Z) * Z)).
Definition sch_of (rows : rows_t) : schema := match conv_schema rows with Some s => s | None => [] end.
Definition conv_ok (rows : rows_t) : bool := match conv_schema rows with Some _ => true | None => false end.

(** every generated schema table carries known type codes *)
Definition lcls_conv_ok : bool :=
  forallb conv_ok
    [lcls_sch_Server_combined; lcls_sch_DNS_combined; lcls_sch_AppGroup_combined; lcls_sch_Tenant_combined;
     lcls_sch_Allocation_combined; lcls_sch_Cell_combined; lcls_sch_Cell_master_host_schema;
     lcls_sch_CellAllocation_combined; lcls_sch_CellAllocation_assign_schema; lcls_sch_Partition_combined;
     lcls_sch_Partition_limit_schema; lcls_sch_Application_combined; lcls_sch_Application_svc_schema;
     lcls_sch_Application_svc_restart_schema; lcls_sch_Application_endpoint_schema;
     lcls_sch_Application_environ_schema; lcls_sch_Application_affinity_schema; lcls_sch_Application_vring_schema;
     lcls_sch_Application_vring_rule_schema].

Definition lcls_tables : ltables := {|
  lt_opt_format := lcls_opt_format; lt_opt_sep := lcls_opt_sep;
  lt_ts_create := lcls_ts_create; lt_ts_modify := lcls_ts_modify;
  lt_default_partition := lcls_default_partition;
  lt_server := sch_of lcls_sch_Server_combined; lt_dns := sch_of lcls_sch_DNS_combined;
  lt_appgroup := sch_of lcls_sch_AppGroup_combined; lt_tenant := sch_of lcls_sch_Tenant_combined;
  lt_allocation := sch_of lcls_sch_Allocation_combined;
  lt_cell := sch_of lcls_sch_Cell_combined; lt_ca := sch_of lcls_sch_CellAllocation_combined;
  lt_pt := sch_of lcls_sch_Partition_combined; lt_app := sch_of lcls_sch_Application_combined;
  lt_srv_partition := lcls_srv_partition;
  lt_cell_masters := {| ls_key := lcls_cell_idx; ls_prefix := lcls_cell_prefix; ls_lprefix := lcls_cell_lprefix;
                        ls_schema := sch_of lcls_sch_Cell_master_host_schema |};
  lt_ca_list := {| ls_key := lcls_ca_key; ls_prefix := lcls_ca_prefix; ls_lprefix := lcls_ca_lprefix;
                   ls_schema := sch_of lcls_sch_CellAllocation_assign_schema |};
  lt_ca_defaults := [(lcls_ca_d1_field, lcls_ca_d1_value); (lcls_ca_d2_field, lcls_ca_d2_value);
                     (lcls_ca_d3_field, lcls_ca_d3_value)];
  lt_ca_partition := lcls_ca_partition; lt_ca_maxutil := lcls_ca_maxutil;
  lt_pt_list := {| ls_key := lcls_pt_key; ls_prefix := lcls_pt_prefix; ls_lprefix := lcls_pt_lprefix;
                   ls_schema := sch_of lcls_sch_Partition_limit_schema |};
  lt_pt_defaults := [(lcls_pt_d1_field, lcls_pt_d1_value); (lcls_pt_d2_field, lcls_pt_d2_value);
                     (lcls_pt_d3_field, lcls_pt_d3_value)];
  lt_app_svc := {| ls_key := lcls_app_svc_key; ls_prefix := lcls_app_svc_prefix; ls_lprefix := lcls_app_svc_lprefix;
                   ls_schema := sch_of lcls_sch_Application_svc_schema |};
  lt_app_rst_schema := sch_of lcls_sch_Application_svc_restart_schema;
  lt_app_rst_limit := lcls_app_rst_limit; lt_app_rst_interval := lcls_app_rst_interval;
  lt_app_default_restart := lcls_default_restart;
  lt_app_ep := {| ls_key := lcls_app_ep_key; ls_prefix := lcls_app_ep_prefix; ls_lprefix := lcls_app_ep_lprefix;
                  ls_schema := sch_of lcls_sch_Application_endpoint_schema |};
  lt_app_env := {| ls_key := lcls_app_env_key; ls_prefix := lcls_app_env_prefix; ls_lprefix := lcls_app_env_lprefix;
                   ls_schema := sch_of lcls_sch_Application_environ_schema |};
  lt_app_aff := {| ls_key := lcls_app_aff_key; ls_prefix := lcls_app_aff_prefix; ls_lprefix := lcls_app_aff_lprefix;
                   ls_schema := sch_of lcls_sch_Application_affinity_schema |};
  lt_app_aff_level := lcls_app_aff_level; lt_app_aff_limit := lcls_app_aff_limit;
  lt_app_eph_tcpf := lcls_app_eph_tcpf; lt_app_eph_tcp := lcls_app_eph_tcp;
  lt_app_eph_udpf := lcls_app_eph_udpf; lt_app_eph_udp := lcls_app_eph_udp;
  lt_app_eph_default := lcls_app_eph_default;
  lt_app_vr_schema := sch_of lcls_sch_Application_vring_schema; lt_app_vr_cells := lcls_app_vr_cells;
  lt_app_vr := {| ls_key := lcls_app_vr_key; ls_prefix := lcls_app_vr_prefix; ls_lprefix := lcls_app_vr_lprefix;
                  ls_schema := sch_of lcls_sch_Application_vring_rule_schema |}
|}.

(** * Flattening (dict keys in code-point order) *)
Definition fstr (s : str) : list Z := Z.of_nat (length s) :: s.
Definition flen {A} (l : list A) : Z := Z.of_nat (length l).
Fixpoint fvalue (v : value) : list Z :=
  match v with
  | VNull => [0]
  | VBool b => [1; if b then 1 else 0]
  | VInt z => [2; z]
  | VStr s => 3 :: fstr s
  | VList l => 4 :: flen l :: flat_map fvalue l
  | VDict d => 5 :: flen d :: flat_map (fun kv => fstr (fst kv) ++ fvalue (snd kv)) d
  end.
Definition ffval (v : fval) : list Z :=
  match v with
  | FNone => [0]
  | FStr s => 1 :: fstr s
  | FInt z => [2; z]
  | FBool b => [3; if b then 1 else 0]
  | FStrs l => 4 :: flen l :: flat_map (fun s => 1 :: fstr s) l
  | FInts l => 4 :: flen l :: flat_map (fun z => [2; z]) l
  | FDict d => 5 :: fvalue (VDict d)
  end.
Definition fobj (o : obj) : list Z :=
  let s := sort_keys o in flen s :: flat_map (fun kv => fstr (fst kv) ++ ffval (snd kv)) s.
Definition feval (v : eval) : list Z := match v with EStr s => 1 :: fstr s | EBool b => [3; if b then 1 else 0] end.
Definition fentry (e : entry) : list Z :=
  let s := sort_keys e in
  flen s :: flat_map (fun kv => fstr (fst kv) ++ flen (snd kv) :: flat_map feval (snd kv)) s.
Definition fopt {A} (f : A -> list Z) (x : option A) : list Z := match x with None => [0] | Some a => 1 :: f a end.
Definition flist {A} (f : A -> list Z) (l : list A) : list Z := flen l :: flat_map f l.
(** [None]: outside the model *)
Definition fores {A} (f : A -> list Z) (x : ores A) : option (list Z) :=
  match x with None => None | Some (Err c) => Some [c] | Some (Ok a) => Some (0 :: f a) end.
Definition outside : list Z := [-1].
Definition one {A} (f : A -> list Z) (x : ores A) : list Z := match fores f x with Some l => l | None => outside end.
Definition flobj (o : lobj) : list Z := fobj (lo_base o) ++ fopt (flist fobj) (lo_items o).
Definition fsvc (s : svc) : list Z := fobj (sv_fields s) ++ fopt fobj (sv_restart s).
Definition fvring (v : vring) : list Z := fopt ffval (vr_cells v) ++ fopt (flist fobj) (vr_rules v).
Definition fapp (a : appo) : list Z :=
  fobj (ap_base a) ++ fopt fobj (ap_eph a) ++ fopt (flist fsvc) (ap_services a) ++ fopt (flist fobj) (ap_endpoints a)
  ++ fopt (flist fobj) (ap_environ a) ++ fopt fobj (ap_affinity a) ++ fopt fvring (ap_vring a).

(** * Cases *)
(** classes: 0 Server 1 DNS 2 AppGroup 3 Tenant 4 Allocation | 5 Cell 6 CellAllocation 7 Partition *)
Inductive lcase :=
| LPlain (cls : Z) (o : obj)         (* to_entry; from_entry(_remove_empty(to_entry)); from_entry(to_entry) *)
| LPlainDec (cls : Z) (e : entry)    (* from_entry on an arbitrary entry *)
| LList (cls : Z) (o : lobj)
| LListDec (cls : Z) (e : entry)
| LApp (a : appo)
| LAppDec (e : entry).

Definition plain_schema (T : ltables) (cls : Z) : schema :=
  if cls =? 0 then lt_server T else if cls =? 1 then lt_dns T else if cls =? 2 then lt_appgroup T
  else if cls =? 3 then lt_tenant T else lt_allocation T.
Definition plain_from (T : ltables) (cls : Z) (e : entry) : ores obj :=
  if cls =? 0 then rlift (server_from_entry T e) else rlift (base_from_entry T (plain_schema T cls) e).
Definition list_to (T : ltables) (cls : Z) (o : lobj) : ores entry :=
  if cls =? 5 then cell_to_entry T o else if cls =? 6 then ca_to_entry T o else pt_to_entry T o.
Definition list_from (T : ltables) (cls : Z) (e : entry) : ores lobj :=
  if cls =? 5 then cell_from_entry T e else if cls =? 6 then ca_from_entry T e else pt_from_entry T e.

(** the whole case is outside the model as soon as one of the three results is *)
Definition three {A} (fa : A -> list Z) (te : ores entry) (from : entry -> ores A) : list Z :=
  match fores fentry te, fores fa (obind te (fun e => from (remove_empty e))), fores fa (obind te from) with
  | Some a, Some b, Some c => a ++ b ++ c
  | _, _, _ => outside
  end.

Definition run_case (T : ltables) (c : lcase) : list Z :=
  match c with
  | LPlain cls o => three fobj (base_to_entry (plain_schema T cls) o) (plain_from T cls)
  | LPlainDec cls e => one fobj (plain_from T cls e)
  | LList cls o => three flobj (list_to T cls o) (list_from T cls)
  | LListDec cls e => one flobj (list_from T cls e)
  | LApp a => three fapp (app_to_entry T a) (app_from_entry T)
  | LAppDec e => one fapp (app_from_entry T e)
  end.
