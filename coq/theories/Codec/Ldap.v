(** C15, codec 5: admin objects as LDAP entries.  admin/_ldap.py _dict_2_entry / _entry_2_dict over a
    schema table, _remove_empty (what create() stores), and _diff_entries (what update() sends).

    Executable model ONLY (proofs in LdapP.v).

    The schema tables ((ldap attribute, object field | None, type)) are parameters, regenerated from
    the classes of admin/_ldap.py.  Objects and entries are Python dicts: association lists with the
    update-in-place semantics of dict assignment.  Entry values are lists of str or bool (the code
    stores Python bools for bool-typed fields).  The LDAP server itself is not modelled beyond
    (i) create() stores _remove_empty(entry) and (ii) the modify operations ADD / REPLACE / DELETE
    of [apply_mod] (modelled, not verified). *)
From Coq Require Import ZArith List Bool.
From TM Require Import Codec.BaseN Codec.Dec Codec.Json.
Import ListNotations.
Open Scope Z_scope.

(** * Python dicts with str keys *)
Fixpoint alookup {A} (d : list (str * A)) (k : str) : option A :=
  match d with
  | [] => None
  | (k', v) :: t => if str_eqb k' k then Some v else alookup t k
  end.

Fixpoint aset {A} (d : list (str * A)) (k : str) (v : A) : list (str * A) :=
  match d with
  | [] => [(k, v)]
  | (k', v') :: t => if str_eqb k' k then (k', v) :: t else (k', v') :: aset t k v
  end.

Fixpoint aremove {A} (d : list (str * A)) (k : str) : list (str * A) :=
  match d with
  | [] => []
  | (k', v') :: t => if str_eqb k' k then t else (k', v') :: aremove t k
  end.

(** * Schemas *)
Inductive ftype := TStr | TInt | TBool | TListStr | TListInt | TDict.
Definition ftype_of_code (c : Z) : option ftype :=
  if c =? 0 then Some TStr else if c =? 1 then Some TInt else if c =? 2 then Some TBool
  else if c =? 3 then Some TListStr else if c =? 4 then Some TListInt else if c =? 5 then Some TDict
  else None.
Definition is_list_type (t : ftype) : bool := match t with TListStr | TListInt => true | _ => false end.

(** (ldap attribute, (object field or None, type)) ; a name-only row has no object field *)
Definition schema := list (str * (option str * ftype)).

(** * Object field values and entry values *)
Inductive fval :=
| FNone
| FStr (s : str)
| FInt (z : Z)
| FBool (b : bool)
| FStrs (l : list str)
| FInts (l : list Z)
| FDict (d : list (str * value)).
Definition obj := list (str * fval).

Inductive eval := EStr (s : str) | EBool (b : bool).
Definition entry := list (str * list eval).

(** * _dict_2_entry (without attribute option) *)
(** [None] = the (type, value) combination is outside this model; [Some None] = no assignment;
    [Some (Some vs)] = entry[ldap_field] = vs *)
Definition enc_field (t : ftype) (v : fval) : option (option (list eval)) :=
  match v with
  | FNone => Some (Some [])
  | _ =>
      match t, v with
      | TStr, FStr s => Some (Some [EStr s])
      | TStr, FInt z => Some (Some [EStr (str_of_Z z)])              (* six.text_type(value) *)
      | TInt, FInt z => Some (Some [EStr (str_of_Z z)])
      | TInt, FStr s => Some (Some [EStr s])
      | TBool, FBool b => Some (Some [EBool b])                       (* [_to_bool(value)] *)
      | TListStr, FStrs l => Some (match l with [] => None | _ => Some (map EStr l) end)   (* if value: ... *)
      | TListInt, FInts l => Some (match l with [] => None | _ => Some (map (fun z => EStr (str_of_Z z)) l) end)
      | TDict, FDict d => Some (Some [EStr (print_value (VDict (sort_keys d)))])
      | _, _ => None
      end
  end.

Fixpoint dict_2_entry (sch : schema) (o : obj) (acc : entry) : option entry :=
  match sch with
  | [] => Some acc
  | (a, (None, _)) :: r => dict_2_entry r o acc                  (* None is never a key of obj *)
  | (a, (Some f, t)) :: r =>
      match alookup o f with
      | None => dict_2_entry r o acc                             (* obj_field not in obj *)
      | Some v =>
          match enc_field t v with
          | None => None
          | Some None => dict_2_entry r o acc
          | Some (Some vs) => dict_2_entry r o (aset acc a vs)
          end
      end
  end.

(** _remove_empty: what LdapObject.create stores *)
Definition remove_empty (e : entry) : entry :=
  filter (fun kv => match snd kv with [] => false | _ => true end) e.

(** * _entry_2_dict *)
Definition lower_char (c : Z) : Z := if (65 <=? c) && (c <=? 90) then c + 32 else c.
Definition lower (s : str) : str := map lower_char s.
Definition s_0 : str := [48].
Definition s_false_l : str := [102; 97; 108; 115; 101].
Definition s_True : str := [84; 114; 117; 101].
Definition s_False : str := [70; 97; 108; 115; 101].

(** _to_bool *)
Definition to_bool (v : eval) : bool :=
  match v with
  | EBool b => b
  | EStr s => negb (str_eqb (lower s) s_0 || str_eqb (lower s) s_false_l)
  end.

Definition eval_int (v : eval) : option Z :=
  match v with EStr s => py_int s | EBool b => Some (if b then 1 else 0) end.

Fixpoint all_some {A} (l : list (option A)) : option (list A) :=
  match l with
  | [] => Some []
  | None :: _ => None
  | Some x :: t => match all_some t with Some r => Some (x :: r) | None => None end
  end.

(** [Err]: IndexError on an empty value list, ValueError from int() / json.loads; E_OTHER: outside the model *)
Definition dec_field (t : ftype) (vs : list eval) : res fval :=
  match t with
  | TListStr =>
      match all_some (map (fun v => match v with EStr s => Some s | EBool _ => None end) vs) with
      | Some l => Ok (FStrs l) | None => Err E_OTHER
      end
  | TListInt =>
      match all_some (map eval_int vs) with Some l => Ok (FInts l) | None => Err E_VALUE end
  | TBool => match vs with v :: _ => Ok (FBool (to_bool v)) | [] => Err E_INDEX end
  | TDict =>
      match vs with
      | EStr s :: _ =>
          match json_loads s with
          | POk (VDict d) _ => Ok (FDict d)
          | POk _ _ => Err E_OTHER
          | PFail => Err E_VALUE
          | PUnmodelled => Err E_OTHER
          end
      | EBool _ :: _ => Err E_TYPE
      | [] => Err E_INDEX
      end
  | TStr => match vs with EStr s :: _ => Ok (FStr s) | EBool b :: _ => Ok (FBool b) | [] => Err E_INDEX end
  | TInt => match vs with
            | v :: _ => match eval_int v with Some z => Ok (FInt z) | None => Err E_VALUE end
            | [] => Err E_INDEX
            end
  end.

Fixpoint entry_2_dict_loop (sch : schema) (e : entry) (acc : obj) : res obj :=
  match sch with
  | [] => Ok acc
  | (a, (None, _)) :: r => entry_2_dict_loop r e acc
  | (a, (Some f, t)) :: r =>
      match alookup e a with
      | None => entry_2_dict_loop r e (aset acc f (if is_list_type t then FStrs [] else FNone))
      | Some vs =>
          match dec_field t vs with
          | Ok v => entry_2_dict_loop r e (aset acc f v)
          | Err c => Err c
          end
      end
  end.

Definition entry_2_dict (sch : schema) (e : entry) : res obj :=
  match entry_2_dict_loop sch e [] with
  | Ok o => Ok (filter (fun kv => match snd kv with FNone => false | _ => true end) o)
  | Err c => Err c
  end.

(** the pipeline of LdapObject.create followed by get: to_entry, _remove_empty, from_entry *)
Definition ldap_store_load (sch : schema) (o : obj) : option (res obj) :=
  match dict_2_entry sch o [] with
  | None => None
  | Some e => Some (entry_2_dict sch (remove_empty e))
  end.

(** * What the round trip may change: the expected field value *)
(** for the row (a, Some f, t) of the schema: what obj'[f] is after store + load, given obj.get(f) *)
Definition expected_field (t : ftype) (v : option fval) : option fval :=
  match v with
  | None | Some FNone => if is_list_type t then Some (FStrs []) else None
  | Some (FStrs []) | Some (FInts []) => Some (FStrs [])           (* an absent list reads as [] *)
  | Some (FInt z) => match t with TStr => Some (FStr (str_of_Z z)) | _ => Some (FInt z) end
  | Some (FDict d) => Some (FDict (sort_keys d))
  | Some x => Some x
  end.

(** well-typed field: the value has the type of its row (None allowed) *)
Definition field_typed (t : ftype) (v : fval) : bool :=
  match v with
  | FNone => true
  | FStr _ => match t with TStr => true | _ => false end
  | FInt _ => match t with TInt | TStr => true | _ => false end
  | FBool _ => match t with TBool => true | _ => false end
  | FStrs _ => match t with TListStr => true | _ => false end
  | FInts _ => match t with TListInt => true | _ => false end
  | FDict d => match t with TDict => wf_value (VDict d) | _ => false end
  end.

Definition obj_typed (sch : schema) (o : obj) : bool :=
  forallb (fun row => match row with
                      | (_, (Some f, t)) => match alookup o f with Some v => field_typed t v | None => true end
                      | (_, (None, _)) => true
                      end) sch.

Definition no_semicolon (s : str) : bool := negb (memb 59 s).
Definition active (sch : schema) : list (str * (str * ftype)) :=
  flat_map (fun row => match row with (a, (Some f, t)) => [(a, (f, t))] | (_, (None, _)) => [] end) sch.
Definition wf_schema (sch : schema) : bool :=
  keys_nodup (map fst (active sch))
  && keys_nodup (map (fun r => fst (snd r)) (active sch))
  && forallb (fun r => no_semicolon (fst r) && str_eqb (lower (fst r)) (fst r)) (active sch).

(** * _diff_entries and LDAP modify *)
Inductive modop := MAdd (vs : list eval) | MReplace (vs : list eval) | MDelete.
Definition mods := list (str * modop).

Definition eval_eqb (a b : eval) : bool :=
  match a, b with
  | EStr s, EStr t => str_eqb s t
  | EBool x, EBool y => Bool.eqb x y
  | _, _ => false
  end.
Definition emem (v : eval) (l : list eval) : bool := existsb (eval_eqb v) l.

(** _diff_attribute_values *)
Definition values_differ (old new : list eval) : bool :=
  negb (length old =? length new)%nat
  || negb (forallb (fun v => emem v new) old)
  || negb (forallb (fun v => emem v old) new).

Definition eget (e : entry) (a : str) : list eval := match alookup e a with Some vs => vs | None => [] end.

(** the loop over new_entry: [m] is attrtype_lower_map *)
Fixpoint diff_new (old : entry) (m : list (str * str)) (new : entry) : mods * list (str * str) :=
  match new with
  | [] => ([], m)
  | (a, nv) :: r =>
      let la := lower a in
      let ovm := match alookup m la with
                 | Some orig => (eget old orig, aremove m la)
                 | None => ([], m)
                 end in
      let ops := match fst ovm, nv with
                 | [], [] => []
                 | [], _ :: _ => [(a, MAdd nv)]
                 | _ :: _, [] => [(a, MDelete)]
                 | _ :: _, _ :: _ => if values_differ (fst ovm) nv then [(a, MReplace nv)] else []
                 end in
      let rest := diff_new old (snd ovm) r in
      (ops ++ fst rest, snd rest)
  end.

Definition lower_map (old : entry) : list (str * str) :=
  fold_left (fun m kv => aset m (lower (fst kv)) (fst kv)) old [].

Definition diff_entries (old new : entry) : mods :=
  let r := diff_new old (lower_map old) new in
  fst r ++ map (fun lo => (snd lo, MDelete)) (snd r).

(** LDAP modify (modelled): ADD adds values (creating the attribute), REPLACE sets them, DELETE removes
    the attribute *)
Definition apply_mod (e : entry) (m : str * modop) : entry :=
  match snd m with
  | MAdd vs => aset e (fst m) (eget e (fst m) ++ vs)
  | MReplace vs => aset e (fst m) vs
  | MDelete => aremove e (fst m)
  end.
Definition apply_mods (e : entry) (ms : mods) : entry := fold_left apply_mod ms e.

Definition same_values (a b : list eval) : Prop :=
  (forall v, emem v a = true -> emem v b = true) /\ (forall v, emem v b = true -> emem v a = true).

Definition entry_ok (e : entry) : bool :=
  keys_nodup (map fst e) && forallb (fun kv => str_eqb (lower (fst kv)) (fst kv)) e.

(** * The update path: LdapObject.create (store _remove_empty(to_entry(o1))), then LdapObject.update(o2):
      new_entry = to_entry(o2); old_entry = the stored attributes named in new_entry (Admin.get with
      _entry_plain_keys(new_entry); no attribute options here); modify(_diff_entries(old_entry, new_entry));
      then read back with from_entry.  [None] = a (type, value) combination outside the model. *)
Definition ldap_update_mods (sch : schema) (o1 o2 : obj) : option (entry * mods) :=
  match dict_2_entry sch o1 [] , dict_2_entry sch o2 [] with
  | Some e1, Some new =>
      let stored := remove_empty e1 in
      let fetched := filter (fun kv => existsb (fun k => str_eqb k (fst kv)) (map fst new)) stored in
      Some (stored, diff_entries fetched new)
  | _, _ => None
  end.

Definition ldap_create_update_load (sch : schema) (o1 o2 : obj) : option (res obj) :=
  match ldap_update_mods sch o1 o2 with
  | Some (stored, ms) => Some (entry_2_dict sch (apply_mods stored ms))
  | None => None
  end.

(** generated schema rows carry a type code *)
Definition conv_schema (rows : list (str * (option str * Z))) : option schema :=
  all_some (map (fun r => match ftype_of_code (snd (snd r)) with
                          | Some t => Some (fst r, (fst (snd r), t))
                          | None => None
                          end) rows).
