(** Proofs about Codec/Dec.v: split/join/split1 algebra, int(str(z)) = z. *)
From Coq Require Import ZArith List Bool Lia ZifyBool.
From TM Require Import Codec.BaseN Codec.BaseNP Codec.Dec.
Import ListNotations.
Open Scope Z_scope.

(** * split / join *)
Lemma split_nonempty sep s : split sep s <> [].
Proof.
  destruct s as [|c t]; cbn [split]; [discriminate|].
  destruct (c =? sep); [discriminate|]. destruct (split sep t); discriminate.
Qed.

Lemma split_notin sep s : ~ In sep s -> split sep s = [s].
Proof.
  induction s as [|c t IH]; intros Hn; cbn [split]; [reflexivity|].
  destruct (c =? sep) eqn:E.
  - apply Z.eqb_eq in E. exfalso. apply Hn. left. exact E.
  - rewrite IH by (intros Hin; apply Hn; right; exact Hin). reflexivity.
Qed.

Lemma split_app sep a b : split sep (a ++ sep :: b) = split sep a ++ split sep b.
Proof.
  induction a as [|c a IH]; cbn [app split].
  - rewrite Z.eqb_refl. reflexivity.
  - destruct (c =? sep) eqn:E.
    + rewrite IH. reflexivity.
    + rewrite IH. destruct (split sep a) as [|p ps] eqn:Es.
      * exfalso. exact (split_nonempty sep a Es).
      * reflexivity.
Qed.

Lemma join_split sep s : join sep (split sep s) = s.
Proof.
  induction s as [|c t IH]; cbn [split]; [reflexivity|].
  destruct (c =? sep) eqn:E.
  - apply Z.eqb_eq in E. subst c.
    destruct (split sep t) as [|p ps] eqn:Es; [exfalso; exact (split_nonempty sep t Es)|].
    cbn [join app]. cbn [join] in IH. rewrite IH. reflexivity.
  - destruct (split sep t) as [|p ps] eqn:Es; [exfalso; exact (split_nonempty sep t Es)|].
    destruct ps as [|q qs]; cbn [join] in *.
    + rewrite IH. reflexivity.
    + rewrite <- IH. reflexivity.
Qed.

Lemma split_join sep l :
  l <> [] -> Forall (fun s => ~ In sep s) l -> split sep (join sep l) = l.
Proof.
  induction l as [|x t IH]; intros Hne Hall; [congruence|].
  inversion Hall as [|y l' Hx Ht]; subst.
  destruct t as [|y t'].
  - cbn [join]. apply split_notin. exact Hx.
  - change (join sep (x :: y :: t')) with (x ++ sep :: join sep (y :: t')).
    rewrite split_app, (split_notin sep x Hx), IH; [reflexivity|discriminate|exact Ht].
Qed.

Lemma join_notin sep c l : c <> sep -> Forall (fun s => ~ In c s) l -> ~ In c (join sep l).
Proof.
  intros Hc. induction l as [|x t IH]; intros Hall; [intros []|].
  inversion Hall as [|y l' Hx Ht]; subst. destruct t as [|y t'].
  - exact Hx.
  - change (join sep (x :: y :: t')) with (x ++ sep :: join sep (y :: t')).
    intros Hin. apply in_app_or in Hin as [Hin|[Hin|Hin]]; [contradiction|congruence|].
    exact (IH Ht Hin).
Qed.

Lemma split1_first sep a b : ~ In sep a -> split1 sep (a ++ sep :: b) = Some (a, b).
Proof.
  induction a as [|c a IH]; intros Hn; cbn [app split1].
  - rewrite Z.eqb_refl. reflexivity.
  - destruct (c =? sep) eqn:E.
    + apply Z.eqb_eq in E. exfalso. apply Hn. left. exact E.
    + rewrite IH by (intros Hin; apply Hn; right; exact Hin). reflexivity.
Qed.

Lemma split1_none sep s : ~ In sep s -> split1 sep s = None.
Proof.
  induction s as [|c t IH]; intros Hn; cbn [split1]; [reflexivity|].
  destruct (c =? sep) eqn:E.
  - apply Z.eqb_eq in E. exfalso. apply Hn. left. exact E.
  - rewrite IH by (intros Hin; apply Hn; right; exact Hin). reflexivity.
Qed.

(** * Decimal digits *)
Lemma digit_cases c : In c digits10 ->
  c = 48 \/ c = 49 \/ c = 50 \/ c = 51 \/ c = 52 \/ c = 53 \/ c = 54 \/ c = 55 \/ c = 56 \/ c = 57.
Proof. unfold digits10. cbn [In]. intuition. Qed.

Lemma digit_props c : In c digits10 ->
  is_digit c = true /\ index_of c digits10 = Some (c - 48) /\ is_ws c = false /\ c <> 45 /\ c <> 43
  /\ c <> 46 /\ c <> 44 /\ c <> 58 /\ c <> 95.
Proof.
  intros H. apply digit_cases in H.
  repeat (destruct H as [H|H]; [subst c; vm_compute; repeat split; discriminate|]).
  subst c; vm_compute; repeat split; discriminate.
Qed.

Lemma digits10_nodup : NoDup digits10.
Proof. apply nodupb_NoDup. reflexivity. Qed.

Lemma str_of_nonneg_spec n : 0 <= n ->
  exists s, to_base_n digits10 10 n = Ok s /\ str_of_nonneg n = s /\ val digits10 10 s = Some n
            /\ (1 <= length s)%nat /\ Forall (fun c => In c digits10) s.
Proof.
  intros Hn.
  destruct (to_base_n_spec digits10 10 n digits10_nodup) as [s [Hs [Hv [Hl [_ Hall]]]]];
    [change (zlen digits10) with 10; lia | exact Hn|].
  exists s. unfold str_of_nonneg. rewrite Hs. repeat split; assumption.
Qed.

Lemma str_of_nonneg_length n k : 0 <= n < 10 ^ Z.of_nat k -> (1 <= k)%nat ->
  (1 <= length (str_of_nonneg n) <= k)%nat /\ Forall (fun c => In c digits10) (str_of_nonneg n).
Proof.
  intros Hn Hk.
  destruct (to_base_n_spec digits10 10 n digits10_nodup) as [s [Hs [Hv [Hl [Hlen Hall]]]]];
    [change (zlen digits10) with 10; lia | lia|].
  unfold str_of_nonneg. rewrite Hs. split; [split; [exact Hl|apply Hlen; [exact Hk|lia]]|exact Hall].
Qed.

Lemma int_digits_val s : Forall (fun c => In c digits10) s ->
  forall v acc prev, val digits10 10 s = Some v -> (s <> [] \/ prev = true) ->
  int_digits s acc prev = Some (acc * 10 ^ zlen s + v).
Proof.
  induction s as [|c t IH]; intros Hall v acc prev Hv Hp.
  - destruct Hp as [Hp|Hp]; [congruence|]. subst prev. cbn in Hv. inversion Hv; subst.
    cbn. f_equal. lia.
  - inversion Hall as [|y l' Hc Ht]; subst.
    destruct (digit_props c Hc) as [Hd [Hi _]].
    cbn [int_digits]. rewrite Hd. cbn [val] in Hv. rewrite Hi in Hv.
    destruct (val digits10 10 t) as [v'|] eqn:Ev; [|discriminate]. inversion Hv; subst v.
    rewrite (IH Ht v' _ true eq_refl) by (right; reflexivity).
    f_equal. rewrite zlen_cons. rewrite Z.pow_add_r by (pose proof (zlen_nonneg t); lia).
    rewrite Z.pow_1_r. ring.
Qed.

Lemma lstrip_id s : match s with c :: _ => is_ws c = false | [] => True end -> lstrip s = s.
Proof. destruct s as [|c t]; intros H; cbn [lstrip]; [reflexivity|]. rewrite H. reflexivity. Qed.

Lemma strip_id s : Forall (fun c => is_ws c = false) s -> strip s = s.
Proof.
  intros Hall. unfold strip.
  rewrite (lstrip_id s) by (destruct s; [exact I|inversion Hall; assumption]).
  rewrite lstrip_id.
  - apply rev_involutive.
  - destruct (rev s) as [|c t] eqn:Er; [exact I|].
    rewrite Forall_forall in Hall. apply Hall. apply in_rev. rewrite Er. left. reflexivity.
Qed.

Lemma py_int_nonneg n : 0 <= n -> py_int (str_of_nonneg n) = Some n.
Proof.
  intros Hn. destruct (str_of_nonneg_spec n Hn) as [s [_ [Es [Hv [Hl Hall]]]]]. rewrite Es.
  unfold py_int. rewrite strip_id.
  - destruct s as [|c t]; [cbn in Hl; lia|].
    inversion Hall as [|y l' Hc Ht]; subst.
    destruct (digit_props c Hc) as [_ [_ [_ [H45 [H43 _]]]]].
    destruct (c =? 45) eqn:E1; [lia|]. destruct (c =? 43) eqn:E2; [lia|].
    rewrite (int_digits_val (c :: t) Hall n 0 false Hv) by (left; discriminate). f_equal; lia.
  - eapply Forall_impl; [|exact Hall]. intros c Hc. apply digit_props. exact Hc.
Qed.

Theorem py_int_str_of_Z z : py_int (str_of_Z z) = Some z.
Proof.
  unfold str_of_Z. destruct (z <? 0) eqn:E.
  - assert (Hn : 0 <= - z) by lia.
    destruct (str_of_nonneg_spec (- z) Hn) as [s [_ [Es [Hv [Hl Hall]]]]]. rewrite Es.
    unfold py_int. rewrite strip_id.
    + rewrite Z.eqb_refl.
      rewrite (int_digits_val s Hall (- z) 0 false Hv) by (left; destruct s; [cbn in Hl; lia|discriminate]).
      cbn [option_map]. f_equal; lia.
    + constructor; [reflexivity|].
      eapply Forall_impl; [|exact Hall]. intros c Hc. apply digit_props. exact Hc.
  - apply py_int_nonneg. lia.
Qed.

(** str(int) contains only digits and '-' *)
Lemma str_of_Z_chars z c : In c (str_of_Z z) -> In c digits10 \/ c = 45.
Proof.
  unfold str_of_Z. destruct (z <? 0) eqn:E; intros Hin.
  - destruct Hin as [Hin|Hin]; [right; congruence|]. left.
    destruct (str_of_nonneg_spec (- z) ltac:(lia)) as [s [_ [Es [_ [_ Hall]]]]].
    rewrite Es in Hin. rewrite Forall_forall in Hall. apply Hall. exact Hin.
  - left. destruct (str_of_nonneg_spec z ltac:(lia)) as [s [_ [Es [_ [_ Hall]]]]].
    rewrite Es in Hin. rewrite Forall_forall in Hall. apply Hall. exact Hin.
Qed.

Lemma str_of_Z_notin z c : c <> 45 -> ~ In c digits10 -> ~ In c (str_of_Z z).
Proof. intros H1 H2 Hin. apply str_of_Z_chars in Hin as [Hin|Hin]; [contradiction|congruence]. Qed.

Lemma str_of_Z_no_dot z : ~ In 46 (str_of_Z z).
Proof. apply str_of_Z_notin; [discriminate|]. intros H. apply digit_props in H. intuition. Qed.

Lemma str_of_Z_no_comma z : ~ In 44 (str_of_Z z).
Proof. apply str_of_Z_notin; [discriminate|]. intros H. apply digit_props in H. intuition. Qed.
