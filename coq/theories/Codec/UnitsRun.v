(** C01 (unit spellings) correspondence runner.  [units_tables] is assembled here from the plain
    definitions that harness/tables_units.py regenerates into Gen/Tables.v on every run; [run_case]
    flattens the model's observables to [list Z] exactly like harness/props/c01units.py flattens the
    implementation's. *)
From Coq Require Import ZArith List Bool.
From TM Require Import Codec.BaseN Codec.Dec Codec.Units Gen.Tables.
Import ListNotations.
Open Scope Z_scope.

Definition units_tables : utables := {|
  un_scale := units_size_scale;
  un_unit_bin := units_unit_bin;
  un_unit_dec := units_unit_dec;
  un_mod := units_mod;
  un_kb_zero := units_kb_zero;
  un_kb_div := units_kb_div;
  un_mb_div := units_mb_div;
  un_pct := units_pct;
  un_res_parsers := units_res_parsers;
  un_res_order := units_res_order;
  un_res_default := units_res_default
|}.

(** 0 z = returned z; 1 ValueError; 2 IndexError; 3 Exception (the harness maps anything else to 4) *)
Definition fres (r : ures Z) : list Z :=
  match r with UOk z => [0; z] | UValueError => [1] | UIndexError => [2] | UException => [3] end.
Definition fresl (r : ures (list Z)) : list Z :=
  match r with UOk l => 0 :: l | UValueError => [1] | UIndexError => [2] | UException => [3] end.

Inductive ucase :=
  | CVal (v : pyval)       (* size_to_bytes, kilobytes, megabytes, cpu_units on one value *)
  | CRes (d : rspec)       (* loader.resources *)
  | CStr (z : Z).          (* str(z) *)

Definition run_case (T : utables) (c : ucase) : list Z :=
  match c with
  | CVal v => fres (size_to_bytes T v) ++ fres (kilobytes T v) ++ fres (megabytes T v)
              ++ fres (cpu_units T v)
  | CRes d => fresl (resources T d)
  | CStr z => str_of_Z z
  end.
