(** C15, codec 5b: the per-class LDAP wrappers of admin/_ldap.py and the option-indexed list codec.

    Executable model ONLY (proofs in LdapClsP.v).

    On top of _dict_2_entry / _entry_2_dict / _remove_empty (Codec/Ldap.v) this file models
      - the attribute-option codec: _dict_2_entry(obj, schema, option, option_idx) writes
        '<attribute>;<prefix>-<idx in lower-case hex>'; _to_obj_list sorts the items by a key field (stable),
        numbers them 0, 1, .. and writes _empty_list_entry (every attribute of the item schema := []) for an empty
        list; _group_entry_by_opt splits every entry key that contains ';' at ';' and groups by the option
        (sorted by option, then attribute); _grouped_to_list_of_dict keeps the groups whose option starts with the
        prefix, decodes each with _entry_2_dict and returns them sorted by sorted(item.items());
      - LdapObject.from_entry / to_entry and the overrides of Server, Application, Cell, Tenant, CellAllocation,
        Partition (DNS, AppGroup, Allocation inherit LdapObject's), called WITHOUT a dn.
    Schemas, object keys, sort keys, option prefixes and defaults are the fields of [ltables], regenerated from the
    source (harness/tables_ldapcls.py, section c15_ldapcls).

    Objects: a class object is a Python dict; the model keeps the keys that the class schema describes in an [obj]
    (association list, Codec/Ldap.v) and the structured keys (lists of item dicts, nested dicts) in record fields;
    [None] in a record field = the key is absent.  [ores]: [None] = outside the model (a value/type combination
    that is not modelled), [Some (Err c)] = the Python code raises (c as in Codec/BaseN.v, [E_KEY] = KeyError). *)
From Coq Require Import ZArith List Bool.
From TM Require Import Codec.BaseN Codec.Dec Codec.Json Codec.Ldap.
Import ListNotations.
Open Scope Z_scope.

Definition E_KEY : Z := 6.      (* KeyError *)

Definition ores (A : Type) := option (res A).
Definition oret {A} (a : A) : ores A := Some (Ok a).
Definition oerr {A} (c : Z) : ores A := Some (Err c).
Definition obind {A B} (x : ores A) (f : A -> ores B) : ores B :=
  match x with None => None | Some (Err c) => Some (Err c) | Some (Ok a) => f a end.
Definition olift {A} (x : option A) : ores A := match x with Some a => oret a | None => None end.
(** results of Codec/Ldap.v: [Err E_OTHER] is its "outside the model" *)
Definition rlift {A} (x : res A) : ores A :=
  match x with Ok a => Some (Ok a) | Err c => if c =? E_OTHER then None else Some (Err c) end.

(** * '{:x}'.format(int): lower-case hexadecimal, '-' for negative numbers *)
Definition digits16 : str := [48; 49; 50; 51; 52; 53; 54; 55; 56; 57; 97; 98; 99; 100; 101; 102].
Definition hex_of_nonneg (n : Z) : str := match to_base_n digits16 16 n with Ok s => s | Err _ => [] end.
Definition hex_of_Z (z : Z) : str := if z <? 0 then 45 :: hex_of_nonneg (- z) else hex_of_nonneg z.

(** '{attribute};{option_prefix}-{option_idx:x}' *)
Definition opt_format : str :=
  [123; 97; 116; 116; 114; 105; 98; 117; 116; 101; 125; 59; 123; 111; 112; 116; 105; 111; 110; 95; 112; 114; 101; 102;
   105; 120; 125; 45; 123; 111; 112; 116; 105; 111; 110; 95; 105; 100; 120; 58; 120; 125].
Definition opt_name (prefix : str) (idx : Z) : str := prefix ++ 45 :: hex_of_Z idx.
Definition opt_attr (a opt : str) : str := a ++ 59 :: opt.
Definition rename_opt (sch : schema) (opt : str) : schema := map (fun r => (opt_attr (fst r) opt, snd r)) sch.

(** * _dict_2_entry, with an empty list accepted in an [int]-list field (Codec/Ldap.v tags every empty list FStrs []) *)
Definition enc_field2 (t : ftype) (v : fval) : option (option (list eval)) :=
  match t, v with
  | TListInt, FStrs [] => Some None
  | _, _ => enc_field t v
  end.

Fixpoint d2e_loop (sch : schema) (o : obj) (acc : entry) : option entry :=
  match sch with
  | [] => Some acc
  | (a, (None, _)) :: r => d2e_loop r o acc
  | (a, (Some f, t)) :: r =>
      match alookup o f with
      | None => d2e_loop r o acc
      | Some v =>
          match enc_field2 t v with
          | None => None
          | Some None => d2e_loop r o acc
          | Some (Some vs) => d2e_loop r o (aset acc a vs)
          end
      end
  end.
Definition d2e (sch : schema) (o : obj) : option entry := d2e_loop sch o [].

(** dict.update *)
Definition eupdate {A} (e d : list (str * A)) : list (str * A) := fold_left (fun acc kv => aset acc (fst kv) (snd kv)) d e.

(** _empty_list_entry *)
Definition empty_list_entry (sch : schema) : entry := fold_left (fun acc r => aset acc (fst r) []) sch [].

(** * sorted(): stable insertion sort; [lt y x] = y < x *)
Fixpoint ins_by {A} (lt : A -> A -> bool) (x : A) (l : list A) : list A :=
  match l with
  | [] => [x]
  | y :: r => if lt y x then y :: ins_by lt x r else x :: y :: r
  end.
Fixpoint sort_by {A} (lt : A -> A -> bool) (l : list A) : list A :=
  match l with
  | [] => []
  | x :: r => ins_by lt x (sort_by lt r)
  end.

(** * _to_obj_list *)
Definition key_of (key : str) (o : obj) : ores str :=
  match alookup o key with
  | None => oerr E_KEY
  | Some (FStr s) => oret s
  | Some _ => None                                   (* keys of other types: not modelled *)
  end.

Fixpoint keys_of (key : str) (l : list obj) : ores (list str) :=
  match l with
  | [] => oret []
  | x :: r => obind (key_of key x) (fun k => obind (keys_of key r) (fun ks => oret (k :: ks)))
  end.

Definition key_lt {A} (a b : str * A) : bool := str_ltb (fst a) (fst b).
Definition sort_by_key {A} (ks : list str) (items : list A) : list A := map snd (sort_by key_lt (combine ks items)).

Fixpoint item_blocks (sch : schema) (prefix : str) (idx : Z) (items : list obj) (acc : entry) : option entry :=
  match items with
  | [] => Some acc
  | x :: r =>
      match d2e (rename_opt sch (opt_name prefix idx)) x with
      | None => None
      | Some d => item_blocks sch prefix (idx + 1) r (eupdate acc d)
      end
  end.

Definition to_obj_list (items : list obj) (key prefix : str) (sch : schema) : ores entry :=
  obind (keys_of key items) (fun ks =>
    match sort_by_key ks items with
    | [] => oret (empty_list_entry sch)
    | sorted => olift (item_blocks sch prefix 0 sorted [])
    end).

(** * _group_entry_by_opt / _grouped_to_list_of_dict *)
Definition has_opt (k : str) : bool := memb 59 k.
Definition key_parts (k : str) : list str := split 59 k.
Definition opt_of (k : str) : str := nth 1 (key_parts k) [].

(** the distinct options, in ascending code-point order *)
Fixpoint ins_opt (o : str) (l : list str) : list str :=
  match l with
  | [] => [o]
  | x :: r => if str_eqb x o then l else if str_ltb x o then x :: ins_opt o r else o :: l
  end.
Definition opts_of (e : entry) : list str :=
  fold_right (fun kv acc => if has_opt (fst kv) then ins_opt (opt_of (fst kv)) acc else acc) [] e.

(** a member of the group with more than one ';' : "for k, _, v in values" raises ValueError *)
Definition bad_group (e : entry) (opt : str) : bool :=
  existsb (fun kv => has_opt (fst kv) && (2 <? zlen (key_parts (fst kv))) && str_eqb (opt_of (fst kv)) opt) e.

(** {k: v for k, _, v in group} read through the item schema = the entry read at '<attribute>;<option>' *)
Definition group_dict (e : entry) (isch : schema) (opt : str) : res obj :=
  if bad_group e opt then Err E_VALUE else entry_2_dict (rename_opt isch opt) e.

Fixpoint mapM {A B} (f : A -> res B) (l : list A) : res (list B) :=
  match l with
  | [] => Ok []
  | x :: r => match f x with
              | Err c => Err c
              | Ok y => match mapM f r with Err c => Err c | Ok ys => Ok (y :: ys) end
              end
  end.

Definition is_prefix (p s : str) : bool := match starts_with p s with Some _ => true | None => false end.

(** Python's order on the decoded items: sorted(item.items()) compared as lists of (key, value) tuples *)
Fixpoint list_cmp {A} (c : A -> A -> comparison) (a b : list A) : comparison :=
  match a, b with
  | [], [] => Eq
  | [], _ :: _ => Lt
  | _ :: _, [] => Gt
  | x :: a', y :: b' => match c x y with Eq => list_cmp c a' b' | r => r end
  end.
Definition str_cmp : str -> str -> comparison := list_cmp Z.compare.
Definition bool_cmp (a b : bool) : comparison :=
  match a, b with false, true => Lt | true, false => Gt | _, _ => Eq end.
Definition fval_rank (v : fval) : Z :=
  match v with FNone => 0 | FStr _ => 1 | FInt _ => 2 | FBool _ => 3 | FStrs _ => 4 | FInts _ => 5 | FDict _ => 6 end.
(** values of one kind: Python's order; values of different kinds (a TypeError in Python, see [same_kind]): by rank,
    only to keep the function total *)
Definition fval_cmp (a b : fval) : comparison :=
  match a, b with
  | FStr x, FStr y => str_cmp x y
  | FInt x, FInt y => Z.compare x y
  | FBool x, FBool y => bool_cmp x y
  | FStrs x, FStrs y => list_cmp str_cmp x y
  | FInts x, FInts y => list_cmp Z.compare x y
  | _, _ => Z.compare (fval_rank a) (fval_rank b)
  end.
Definition same_kind (a b : fval) : bool :=
  match a, b with
  | FStr _, FStr _ | FInt _, FInt _ | FBool _, FBool _ | FStrs _, FStrs _ | FInts _, FInts _ => true
  | _, _ => false
  end.
Definition pair_cmp (a b : str * fval) : comparison :=
  match str_cmp (fst a) (fst b) with Eq => fval_cmp (snd a) (snd b) | r => r end.
Definition item_cmp (a b : obj) : comparison := list_cmp pair_cmp (sort_keys a) (sort_keys b).
Definition item_lt (a b : obj) : bool := match item_cmp a b with Lt => true | _ => false end.

(** would Python compare the two sorted item lists without a TypeError? *)
Fixpoint comparable_s (a b : list (str * fval)) : bool :=
  match a, b with
  | x :: a', y :: b' =>
      if str_eqb (fst x) (fst y) then
        if same_kind (snd x) (snd y) then
          match fval_cmp (snd x) (snd y) with Eq => comparable_s a' b' | _ => true end
        else false
      else true
  | _, _ => true
  end.
Definition comparable (a b : obj) : bool := comparable_s (sort_keys a) (sort_keys b).
Fixpoint all_comparable (l : list obj) : bool :=
  match l with
  | [] => true
  | x :: r => forallb (comparable x) r && all_comparable r
  end.

Definition grouped_list (e : entry) (lprefix : str) (isch : schema) : res (list obj) :=
  match mapM (group_dict e isch) (filter (is_prefix lprefix) (opts_of e)) with
  | Err c => Err c
  | Ok ds => if all_comparable ds then Ok (sort_by item_lt ds) else Err E_TYPE
  end.

(** * Tables (regenerated from the source) *)
Record list_spec := {
  ls_key : str;          (* the field _to_obj_list sorts by / Cell: the field that carries the index *)
  ls_prefix : str;       (* option prefix on the way in:  'tm-endpoint' *)
  ls_lprefix : str;      (* option prefix on the way out: 'tm-endpoint-' *)
  ls_schema : schema     (* the item schema *)
}.

Record ltables := {
  lt_opt_format : str; lt_opt_sep : str;
  lt_ts_create : str; lt_ts_modify : str;
  lt_default_partition : str;
  (* combined schema() of every class *)
  lt_server : schema; lt_dns : schema; lt_appgroup : schema; lt_tenant : schema; lt_allocation : schema;
  lt_cell : schema; lt_ca : schema; lt_pt : schema; lt_app : schema;
  lt_srv_partition : str;
  lt_cell_masters : list_spec;
  lt_ca_list : list_spec; lt_ca_defaults : list (str * str); lt_ca_partition : str; lt_ca_maxutil : str;
  lt_pt_list : list_spec; lt_pt_defaults : list (str * str);
  lt_app_svc : list_spec; lt_app_rst_schema : schema;
  lt_app_rst_limit : str; lt_app_rst_interval : str; lt_app_default_restart : list (str * Z);
  lt_app_ep : list_spec; lt_app_env : list_spec;
  lt_app_aff : list_spec; lt_app_aff_level : str; lt_app_aff_limit : str;
  lt_app_eph_tcpf : str; lt_app_eph_tcp : str; lt_app_eph_udpf : str; lt_app_eph_udp : str; lt_app_eph_default : Z;
  lt_app_vr_schema : schema; lt_app_vr_cells : str; lt_app_vr : list_spec
}.

(** * LdapObject.from_entry / to_entry *)
Definition nonempty_attr (e : entry) (a : str) : bool := match alookup e a with Some (_ :: _) => true | _ => false end.

(** entry['createTimestamp'].timestamp() on a list of values: AttributeError *)
Definition base_from_entry (T : ltables) (sch : schema) (e : entry) : res obj :=
  match entry_2_dict sch e with
  | Err c => Err c
  | Ok o => if nonempty_attr e (lt_ts_create T) || nonempty_attr e (lt_ts_modify T) then Err E_TYPE else Ok o
  end.

Definition base_to_entry (sch : schema) (o : obj) : ores entry := olift (d2e sch o).

Definition plain_store_load (T : ltables) (sch : schema) (o : obj) : ores obj :=
  obind (base_to_entry sch o) (fun e => rlift (base_from_entry T sch (remove_empty e))).

(** "if f not in obj: obj[f] = v" *)
Definition set_default (o : obj) (f : str) (v : fval) : obj :=
  match alookup o f with Some _ => o | None => o ++ [(f, v)] end.
Definition set_defaults (o : obj) (ds : list (str * str)) : obj :=
  fold_left (fun acc d => set_default acc (fst d) (FStr (snd d))) ds o.

(** * Server *)
Definition server_from_entry (T : ltables) (e : entry) : res obj :=
  match base_from_entry T (lt_server T) e with
  | Err c => Err c
  | Ok o => Ok (set_default o (lt_srv_partition T) (FStr (lt_default_partition T)))
  end.
Definition server_store_load (T : ltables) (o : obj) : ores obj :=
  obind (base_to_entry (lt_server T) o) (fun e => rlift (server_from_entry T (remove_empty e))).

(** * Classes with one list of item dicts: Cell (masters), CellAllocation (assignments), Partition (limits) *)
Record lobj := { lo_base : obj; lo_items : option (list obj) }.
Definition items_or_nil {A} (l : option (list A)) : list A := match l with Some x => x | None => [] end.

Definition listobj_to_entry (sch : schema) (ls : list_spec) (o : lobj) : ores entry :=
  obind (base_to_entry sch (lo_base o)) (fun e =>
  obind (to_obj_list (items_or_nil (lo_items o)) (ls_key ls) (ls_prefix ls) (ls_schema ls)) (fun d =>
  oret (eupdate e d))).

(** ** CellAllocation *)
Definition ca_to_entry (T : ltables) (o : lobj) : ores entry := listobj_to_entry (lt_ca T) (lt_ca_list T) o.

(** float(s): only plain decimal numerals are modelled; the result keeps the text s, standing for float(s) *)
Definition simple_float (s : str) : bool :=
  match split 46 s with
  | [a] => negb (zlen a =? 0) && forallb is_digit a
  | [a; b] => negb (zlen a =? 0) && forallb is_digit a && negb (zlen b =? 0) && forallb is_digit b
  | _ => false
  end.

Definition ca_from_entry (T : ltables) (e : entry) : ores lobj :=
  obind (rlift (base_from_entry T (lt_ca T) e)) (fun o =>
  obind (rlift (grouped_list e (ls_lprefix (lt_ca_list T)) (ls_schema (lt_ca_list T)))) (fun items =>
    let o1 := set_defaults o (lt_ca_defaults T) in
    let o2 := set_default o1 (lt_ca_partition T) (FStr (lt_default_partition T)) in
    match alookup o2 (lt_ca_maxutil T) with
    | None => oret {| lo_base := o2; lo_items := Some items |}
    | Some (FStr s) => if simple_float s then oret {| lo_base := o2; lo_items := Some items |} else None
    | Some _ => None
    end)).
Definition ca_store_load (T : ltables) (o : lobj) : ores lobj :=
  obind (ca_to_entry T o) (fun e => ca_from_entry T (remove_empty e)).

(** ** Partition *)
Definition pt_to_entry (T : ltables) (o : lobj) : ores entry := listobj_to_entry (lt_pt T) (lt_pt_list T) o.
Definition pt_from_entry (T : ltables) (e : entry) : ores lobj :=
  obind (rlift (base_from_entry T (lt_pt T) e)) (fun o =>
  obind (rlift (grouped_list e (ls_lprefix (lt_pt_list T)) (ls_schema (lt_pt_list T)))) (fun items =>
    oret {| lo_base := set_defaults o (lt_pt_defaults T); lo_items := Some items |})).
Definition pt_store_load (T : ltables) (o : lobj) : ores lobj :=
  obind (pt_to_entry T o) (fun e => pt_from_entry T (remove_empty e)).

(** ** Cell: the option index is master['idx'], the masters are neither sorted nor numbered *)
Fixpoint cell_blocks (ls : list_spec) (ms : list obj) (acc : entry) : ores entry :=
  match ms with
  | [] => oret acc
  | m :: r =>
      match alookup m (ls_key ls) with
      | None => oerr E_KEY
      | Some (FInt z) =>
          match d2e (rename_opt (ls_schema ls) (opt_name (ls_prefix ls) z)) m with
          | None => None
          | Some d => cell_blocks ls r (eupdate acc d)
          end
      | Some (FStr _) => oerr E_VALUE                  (* format code 'x' on a str *)
      | Some FNone => oerr E_OTHER                     (* assert option_idx is not None *)
      | Some _ => None
      end
  end.
Definition cell_to_entry (T : ltables) (o : lobj) : ores entry :=
  obind (base_to_entry (lt_cell T) (lo_base o)) (fun e => cell_blocks (lt_cell_masters T) (items_or_nil (lo_items o)) e).
Definition cell_from_entry (T : ltables) (e : entry) : ores lobj :=
  obind (rlift (base_from_entry T (lt_cell T) e)) (fun o =>
  obind (rlift (grouped_list e (ls_lprefix (lt_cell_masters T)) (ls_schema (lt_cell_masters T)))) (fun items =>
    oret {| lo_base := o; lo_items := Some items |})).
Definition cell_store_load (T : ltables) (o : lobj) : ores lobj :=
  obind (cell_to_entry T o) (fun e => cell_from_entry T (remove_empty e)).

(** * Application *)
Record svc := { sv_fields : obj; sv_restart : option obj }.
Record vring := { vr_cells : option fval; vr_rules : option (list obj) }.
Record appo := {
  ap_base : obj;                          (* the keys of Application._schema (and anything else: ignored) *)
  ap_eph : option obj;                    (* 'ephemeral_ports' *)
  ap_services : option (list svc);
  ap_endpoints : option (list obj);
  ap_environ : option (list obj);
  ap_affinity : option obj;               (* 'affinity_limits': level -> limit *)
  ap_vring : option vring
}.

Definition get_default (d : obj) (k : str) (v : fval) : fval := match alookup d k with Some x => x | None => v end.

Definition app_base (T : ltables) (a : appo) : obj :=
  match ap_eph a with
  | Some d => aset (aset (ap_base a) (lt_app_eph_tcpf T) (get_default d (lt_app_eph_tcp T) (FInt (lt_app_eph_default T))))
                   (lt_app_eph_udpf T) (get_default d (lt_app_eph_udp T) (FInt (lt_app_eph_default T)))
  | None => ap_base a
  end.

Definition default_restart (T : ltables) : obj := map (fun kv => (fst kv, FInt (snd kv))) (lt_app_default_restart T).

Fixpoint svc_blocks (T : ltables) (idx : Z) (ss : list svc) (acc : entry) : option entry :=
  match ss with
  | [] => Some acc
  | s :: r =>
      let opt := opt_name (ls_prefix (lt_app_svc T)) idx in
      match d2e (rename_opt (ls_schema (lt_app_svc T)) opt) (sv_fields s) with
      | None => None
      | Some se =>
          let rst := eupdate (default_restart T) (match sv_restart s with Some d => d | None => [] end) in
          match d2e (rename_opt (lt_app_rst_schema T) opt) rst with
          | None => None
          | Some re => svc_blocks T (idx + 1) r (eupdate acc (eupdate se re))
          end
      end
  end.

Definition app_services_entry (T : ltables) (ss : list svc) (e : entry) : ores entry :=
  obind (keys_of (ls_key (lt_app_svc T)) (map sv_fields ss)) (fun ks =>
    match sort_by_key ks ss with
    | [] => oret (eupdate e (empty_list_entry (ls_schema (lt_app_svc T) ++ lt_app_rst_schema T)))
    | sorted => olift (svc_blocks T 0 sorted e)
    end).

Definition update_obj_list (ls : list_spec) (items : option (list obj)) (e : entry) : ores entry :=
  obind (to_obj_list (items_or_nil items) (ls_key ls) (ls_prefix ls) (ls_schema ls)) (fun d => oret (eupdate e d)).

Definition affinity_items (T : ltables) (d : obj) : list obj :=
  map (fun kv => [(lt_app_aff_level T, FStr (fst kv)); (lt_app_aff_limit T, snd kv)]) d.

Definition vring_obj (T : ltables) (v : vring) : obj :=
  match vr_cells v with Some c => [(lt_app_vr_cells T, c)] | None => [] end.
Definition vring_truthy (v : vring) : bool :=
  match vr_cells v, vr_rules v with None, None => false | _, _ => true end.

Definition app_to_entry (T : ltables) (a : appo) : ores entry :=
  obind (base_to_entry (lt_app T) (app_base T a)) (fun e0 =>
  obind (app_services_entry T (items_or_nil (ap_services a)) e0) (fun e1 =>
  obind (update_obj_list (lt_app_ep T) (ap_endpoints a) e1) (fun e2 =>
  obind (update_obj_list (lt_app_env T) (ap_environ a) e2) (fun e3 =>
  obind (update_obj_list (lt_app_aff T) (Some (affinity_items T (items_or_nil (ap_affinity a)))) e3) (fun e4 =>
  match ap_vring a with
  | None => oret e4
  | Some v =>
      if vring_truthy v then
        obind (olift (d2e (lt_app_vr_schema T) (vring_obj T v))) (fun dv =>
        update_obj_list (lt_app_vr T) (vr_rules v) (eupdate e4 dv))
      else oret e4
  end))))).

(** Python == on decoded values *)
Definition fval_eqb (a b : fval) : bool :=
  same_kind a b && match fval_cmp a b with Eq => true | _ => false end.

(** for service_restart in service_restarts: if service_restart['name'] == service['name']: service['restart'] = ... *)
Fixpoint merge_one (T : ltables) (fields : obj) (rsts : list obj) (cur : option obj) : ores (option obj) :=
  match rsts with
  | [] => oret cur
  | r :: rest =>
      match alookup r (ls_key (lt_app_svc T)) with
      | None => oerr E_KEY
      | Some rn =>
          match alookup fields (ls_key (lt_app_svc T)) with
          | None => oerr E_KEY
          | Some sn =>
              if fval_eqb rn sn then
                match alookup r (lt_app_rst_limit T) with
                | None => oerr E_KEY
                | Some l =>
                    match alookup r (lt_app_rst_interval T) with
                    | None => oerr E_KEY
                    | Some i => merge_one T fields rest (Some [(lt_app_rst_limit T, l); (lt_app_rst_interval T, i)])
                    end
                end
              else merge_one T fields rest cur
          end
      end
  end.

Fixpoint merge_restarts (T : ltables) (ss rsts : list obj) : ores (list svc) :=
  match ss with
  | [] => oret []
  | s :: r => obind (merge_one T s rsts None) (fun rs =>
              obind (merge_restarts T r rsts) (fun out => oret ({| sv_fields := s; sv_restart := rs |} :: out)))
  end.

(** {affinity['level']: affinity['limit'] for affinity in affinity_limits} *)
Fixpoint affinity_map (T : ltables) (items : list obj) (acc : obj) : ores obj :=
  match items with
  | [] => oret acc
  | x :: r =>
      match alookup x (lt_app_aff_level T) with
      | None => oerr E_KEY
      | Some lv =>
          match alookup x (lt_app_aff_limit T) with
          | None => oerr E_KEY
          | Some lim => match lv with FStr k => affinity_map T r (aset acc k lim) | _ => None end
          end
      end
  end.

Definition fval_truthy (v : fval) : bool :=
  match v with
  | FNone | FStr [] | FStrs [] | FInts [] | FBool false | FDict [] => false
  | FInt z => negb (z =? 0)
  | _ => true
  end.

Definition move_field (o : obj) (f k : str) : obj := match alookup o f with Some v => [(k, v)] | None => [] end.

Definition app_from_entry (T : ltables) (e : entry) : ores appo :=
  obind (rlift (base_from_entry T (lt_app T) e)) (fun o =>
  obind (rlift (grouped_list e (ls_lprefix (lt_app_svc T)) (ls_schema (lt_app_svc T)))) (fun svcs =>
  obind (rlift (grouped_list e (ls_lprefix (lt_app_svc T)) (lt_app_rst_schema T))) (fun rsts =>
  obind (rlift (grouped_list e (ls_lprefix (lt_app_ep T)) (ls_schema (lt_app_ep T)))) (fun eps =>
  obind (rlift (grouped_list e (ls_lprefix (lt_app_env T)) (ls_schema (lt_app_env T)))) (fun envs =>
  obind (rlift (grouped_list e (ls_lprefix (lt_app_aff T)) (ls_schema (lt_app_aff T)))) (fun affs =>
  obind (rlift (grouped_list e (ls_lprefix (lt_app_vr T)) (ls_schema (lt_app_vr T)))) (fun vrs =>
  let eph := move_field o (lt_app_eph_tcpf T) (lt_app_eph_tcp T) ++ move_field o (lt_app_eph_udpf T) (lt_app_eph_udp T) in
  let o' := aremove (aremove o (lt_app_eph_tcpf T)) (lt_app_eph_udpf T) in
  obind (merge_restarts T svcs rsts) (fun services =>
  obind (affinity_map T affs []) (fun aff =>
  obind (rlift (entry_2_dict (lt_app_vr_schema T) e)) (fun vd =>
  match alookup vd (lt_app_vr_cells T) with
  | None => oerr E_KEY
  | Some c =>
      oret {| ap_base := o'; ap_eph := Some eph; ap_services := Some services; ap_endpoints := Some eps;
              ap_environ := Some envs; ap_affinity := Some aff;
              ap_vring := if fval_truthy c || negb (zlen vrs =? 0)
                          then Some {| vr_cells := Some c; vr_rules := Some vrs |} else None |}
  end)))))))))).

Definition app_store_load (T : ltables) (a : appo) : ores appo :=
  obind (app_to_entry T a) (fun e => app_from_entry T (remove_empty e)).

(** * Typed objects (the domain of the round-trip theorems) *)
Definition ftyped2 (t : ftype) (v : fval) : bool :=
  match t, v with
  | TListInt, FStrs [] => true
  | _, _ => field_typed t v
  end.
Definition obj_typed2 (sch : schema) (o : obj) : bool :=
  forallb (fun row => match row with
                      | (_, (Some f, t)) => match alookup o f with Some v => ftyped2 t v | None => true end
                      | (_, (None, _)) => true
                      end) sch.

Definition has_str_key (key : str) (x : obj) : bool := match alookup x key with Some (FStr _) => true | _ => false end.
Definition item_typed (ls : list_spec) (x : obj) : bool := obj_typed2 (ls_schema ls) x && has_str_key (ls_key ls) x.
Definition items_typed (ls : list_spec) (l : option (list obj)) : bool := forallb (item_typed ls) (items_or_nil l).

Definition absent_or_none (o : obj) (f : str) : bool := match alookup o f with None | Some FNone => true | _ => false end.

Definition ca_typed (T : ltables) (o : lobj) : bool :=
  obj_typed2 (lt_ca T) (lo_base o) && items_typed (lt_ca_list T) (lo_items o) && absent_or_none (lo_base o) (lt_ca_maxutil T).
Definition pt_typed (T : ltables) (o : lobj) : bool :=
  obj_typed2 (lt_pt T) (lo_base o) && items_typed (lt_pt_list T) (lo_items o).

(** Cell: every master carries an int idx, and no two masters the same one *)
Definition idx_of (key : str) (x : obj) : option Z := match alookup x key with Some (FInt z) => Some z | _ => None end.
Fixpoint z_nodup (l : list Z) : bool :=
  match l with [] => true | x :: r => negb (existsb (Z.eqb x) r) && z_nodup r end.
Definition cell_typed (T : ltables) (o : lobj) : bool :=
  let ls := lt_cell_masters T in
  let ms := items_or_nil (lo_items o) in
  obj_typed2 (lt_cell T) (lo_base o) && forallb (obj_typed2 (ls_schema ls)) ms
  && match all_some (map (idx_of (ls_key ls)) ms) with Some zs => z_nodup zs | None => false end.

(** Application *)
Definition restart_typed (T : ltables) (r : option obj) : bool :=
  match r with
  | None => true
  | Some d =>
      keys_nodup (map fst d)
      && forallb (fun kv => (str_eqb (fst kv) (lt_app_rst_limit T) || str_eqb (fst kv) (lt_app_rst_interval T))
                            && match snd kv with FInt _ => true | _ => false end) d
  end.
Definition svc_typed (T : ltables) (s : svc) : bool :=
  item_typed (lt_app_svc T) (sv_fields s) && restart_typed T (sv_restart s).
Definition svc_name (T : ltables) (s : svc) : str :=
  match alookup (sv_fields s) (ls_key (lt_app_svc T)) with Some (FStr n) => n | _ => [] end.
Definition int_map (d : obj) : bool :=
  keys_nodup (map fst d) && forallb (fun kv => match snd kv with FInt _ => true | _ => false end) d.
Definition vring_typed (T : ltables) (v : option vring) : bool :=
  match v with
  | None => true
  | Some w => match vr_cells w with None | Some FNone | Some (FStrs _) => true | _ => false end
              && items_typed (lt_app_vr T) (vr_rules w)
  end.
Definition eph_typed (T : ltables) (d : option obj) : bool :=
  match d with
  | None => true
  | Some m => forallb (fun k => match alookup m k with None | Some FNone | Some (FInt _) => true | _ => false end)
                      [lt_app_eph_tcp T; lt_app_eph_udp T]
  end.
Definition app_typed (T : ltables) (a : appo) : bool :=
  obj_typed2 (lt_app T) (ap_base a) && eph_typed T (ap_eph a)
  && forallb (svc_typed T) (items_or_nil (ap_services a))
  && keys_nodup (map (svc_name T) (items_or_nil (ap_services a)))
  && items_typed (lt_app_ep T) (ap_endpoints a) && items_typed (lt_app_env T) (ap_environ a)
  && int_map (items_or_nil (ap_affinity a))
  && vring_typed T (ap_vring a).

(** * Normal forms: what store + load returns *)
Definition nf_base (sch : schema) (o : obj) : obj :=
  flat_map (fun r => match expected_field (snd (snd r)) (alookup o (fst (snd r))) with
                     | Some v => [(fst (snd r), v)]
                     | None => []
                     end) (active sch).
Definition nf_items (isch : schema) (items : list obj) : list obj := sort_by item_lt (map (nf_base isch) items).

Definition server_nf (T : ltables) (o : obj) : obj :=
  set_default (nf_base (lt_server T) o) (lt_srv_partition T) (FStr (lt_default_partition T)).

Definition ca_nf (T : ltables) (o : lobj) : lobj :=
  {| lo_base := set_default (set_defaults (nf_base (lt_ca T) (lo_base o)) (lt_ca_defaults T))
                            (lt_ca_partition T) (FStr (lt_default_partition T));
     lo_items := Some (nf_items (ls_schema (lt_ca_list T)) (items_or_nil (lo_items o))) |}.
Definition pt_nf (T : ltables) (o : lobj) : lobj :=
  {| lo_base := set_defaults (nf_base (lt_pt T) (lo_base o)) (lt_pt_defaults T);
     lo_items := Some (nf_items (ls_schema (lt_pt_list T)) (items_or_nil (lo_items o))) |}.
Definition cell_nf (T : ltables) (o : lobj) : lobj :=
  {| lo_base := nf_base (lt_cell T) (lo_base o);
     lo_items := Some (nf_items (ls_schema (lt_cell_masters T)) (items_or_nil (lo_items o))) |}.

Definition svc_lt (a b : svc) : bool := item_lt (sv_fields a) (sv_fields b).
Definition nf_restart (T : ltables) (s : svc) : obj :=
  let rst := eupdate (default_restart T) (match sv_restart s with Some d => d | None => [] end) in
  [(lt_app_rst_limit T, get_default rst (lt_app_rst_limit T) FNone);
   (lt_app_rst_interval T, get_default rst (lt_app_rst_interval T) FNone)].
Definition nf_svc (T : ltables) (s : svc) : svc :=
  {| sv_fields := nf_base (ls_schema (lt_app_svc T)) (sv_fields s); sv_restart := Some (nf_restart T s) |}.

Definition app_nf (T : ltables) (a : appo) : appo :=
  let b := nf_base (lt_app T) (app_base T a) in
  let cells := match ap_vring a with
               | Some v => if vring_truthy v
                           then match vr_cells v with Some (FStrs l) => l | _ => [] end
                           else []
               | None => []
               end in
  let rules := match ap_vring a with
               | Some v => if vring_truthy v then nf_items (ls_schema (lt_app_vr T)) (items_or_nil (vr_rules v)) else []
               | None => []
               end in
  {| ap_base := aremove (aremove b (lt_app_eph_tcpf T)) (lt_app_eph_udpf T);
     ap_eph := Some (move_field b (lt_app_eph_tcpf T) (lt_app_eph_tcp T) ++ move_field b (lt_app_eph_udpf T) (lt_app_eph_udp T));
     ap_services := Some (sort_by svc_lt (map (nf_svc T) (items_or_nil (ap_services a))));
     ap_endpoints := Some (nf_items (ls_schema (lt_app_ep T)) (items_or_nil (ap_endpoints a)));
     ap_environ := Some (nf_items (ls_schema (lt_app_env T)) (items_or_nil (ap_environ a)));
     ap_affinity := Some (map (fun x => (match alookup x (lt_app_aff_level T) with Some (FStr k) => k | _ => [] end,
                                         get_default x (lt_app_aff_limit T) FNone))
                              (nf_items (ls_schema (lt_app_aff T)) (affinity_items T (items_or_nil (ap_affinity a)))));
     ap_vring := match cells, rules with
                 | [], [] => None
                 | _, _ => Some {| vr_cells := Some (FStrs cells); vr_rules := Some rules |}
                 end |}.

(** * What the generated tables must satisfy (checked by vm_compute in Props/C15Ldap.v) *)
Definition item_type_ok (t : ftype) : bool := match t with TStr | TInt | TBool | TListStr => true | _ => false end.
Definition row_is (sch : schema) (f : str) (t : ftype) : bool :=
  existsb (fun r => match r with (_, (Some f', t')) => str_eqb f' f && match t, t' with
                                                                     | TStr, TStr | TInt, TInt | TBool, TBool
                                                                     | TListStr, TListStr | TListInt, TListInt
                                                                     | TDict, TDict => true
                                                                     | _, _ => false end
                                  | _ => false end) sch.
Definition all_active (sch : schema) : bool := forallb (fun r => match fst (snd r) with Some _ => true | None => false end) sch.
(** no attribute of [a] is the attribute of an active row (one with an object field) of [b] *)
Definition disjoint_attrs (a b : schema) : bool :=
  forallb (fun r => negb (existsb (fun q => str_eqb (fst q) (fst r)) (active b))) a.

Definition list_spec_ok (base : schema) (key_t : ftype) (ls : list_spec) : bool :=
  wf_schema (ls_schema ls) && all_active (ls_schema ls)
  && forallb (fun r => item_type_ok (snd (snd r))) (ls_schema ls)
  && row_is (ls_schema ls) (ls_key ls) key_t
  && str_eqb (ls_lprefix ls) (ls_prefix ls ++ [45])
  && no_semicolon (ls_prefix ls)
  && disjoint_attrs (ls_schema ls) base.

Definition ts_ok (a : str) : bool := no_semicolon a && negb (str_eqb (lower a) a).
Definition defaults_ok (sch : schema) (ds : list (str * str)) : bool :=
  forallb (fun d => row_is sch (fst d) TStr) ds.
Definition no_prefix_clash (a b : list_spec) : bool :=
  negb (is_prefix (ls_lprefix a) (ls_lprefix b)) && negb (is_prefix (ls_lprefix b) (ls_lprefix a)).
Fixpoint pairwise {A} (p : A -> A -> bool) (l : list A) : bool :=
  match l with [] => true | x :: r => forallb (p x) r && pairwise p r end.

Definition base_tables_ok (T : ltables) : bool :=
  str_eqb (lt_opt_format T) opt_format && str_eqb (lt_opt_sep T) [59]
  && ts_ok (lt_ts_create T) && ts_ok (lt_ts_modify T).

Definition plain_tables_ok (T : ltables) : bool :=
  ts_ok (lt_ts_create T) && ts_ok (lt_ts_modify T)
  && forallb wf_schema [lt_server T; lt_dns T; lt_appgroup T; lt_tenant T; lt_allocation T]
  && row_is (lt_server T) (lt_srv_partition T) TStr.

Definition ca_tables_ok (T : ltables) : bool :=
  ts_ok (lt_ts_create T) && ts_ok (lt_ts_modify T) && wf_schema (lt_ca T) && list_spec_ok (lt_ca T) TStr (lt_ca_list T)
  && defaults_ok (lt_ca T) (lt_ca_defaults T) && row_is (lt_ca T) (lt_ca_partition T) TStr
  && row_is (lt_ca T) (lt_ca_maxutil T) TStr
  && negb (existsb (fun d => str_eqb (fst d) (lt_ca_maxutil T)) (lt_ca_defaults T))
  && negb (str_eqb (lt_ca_partition T) (lt_ca_maxutil T)).

Definition pt_tables_ok (T : ltables) : bool :=
  ts_ok (lt_ts_create T) && ts_ok (lt_ts_modify T) && wf_schema (lt_pt T) && list_spec_ok (lt_pt T) TStr (lt_pt_list T)
  && defaults_ok (lt_pt T) (lt_pt_defaults T).

Definition cell_tables_ok (T : ltables) : bool :=
  ts_ok (lt_ts_create T) && ts_ok (lt_ts_modify T) && wf_schema (lt_cell T) && list_spec_ok (lt_cell T) TInt (lt_cell_masters T).

(** Application: the combined item schema of a service: the service rows, then restart limit / interval *)
Definition app_csch (T : ltables) : schema := ls_schema (lt_app_svc T) ++ tl (lt_app_rst_schema T).

Definition app_lists (T : ltables) : list list_spec := [lt_app_svc T; lt_app_ep T; lt_app_env T; lt_app_aff T; lt_app_vr T].

Definition app_tables_ok (T : ltables) : bool :=
  ts_ok (lt_ts_create T) && ts_ok (lt_ts_modify T) && wf_schema (lt_app T)
  && forallb (list_spec_ok (lt_app T) TStr) (app_lists T)
  && pairwise no_prefix_clash (app_lists T)
  (* every attribute written without an option belongs to exactly one table *)
  && pairwise disjoint_attrs [app_csch T; ls_schema (lt_app_ep T); ls_schema (lt_app_env T);
                              ls_schema (lt_app_aff T); ls_schema (lt_app_vr T); lt_app_vr_schema T]
  && wf_schema (app_csch T) && all_active (app_csch T) && disjoint_attrs (app_csch T) (lt_app T)
  && forallb (fun r => item_type_ok (snd (snd r))) (app_csch T)
  (* the restart schema: the service's name row, then limit and interval (ints) *)
  && match lt_app_rst_schema T, ls_schema (lt_app_svc T) with
     | (a0, (Some f0, TStr)) :: (a1, (Some f1, TInt)) :: (a2, (Some f2, TInt)) :: [], (b0, (Some g0, TStr)) :: rest =>
         str_eqb a0 b0 && str_eqb f0 g0 && str_eqb f0 (ls_key (lt_app_svc T))
         && str_eqb f1 (lt_app_rst_limit T) && str_eqb f2 (lt_app_rst_interval T)
     | _, _ => false
     end
  && match lt_app_default_restart T with
     | [(a, _); (b, _)] => str_eqb a (lt_app_rst_limit T) && str_eqb b (lt_app_rst_interval T)
     | _ => false
     end
  (* affinity items: {level: str, limit: int}, sorted by level *)
  && match ls_schema (lt_app_aff T) with
     | (_, (Some f0, TStr)) :: (_, (Some f1, TInt)) :: [] =>
         str_eqb f0 (lt_app_aff_level T) && str_eqb f1 (lt_app_aff_limit T) && str_eqb f0 (ls_key (lt_app_aff T))
     | _ => false
     end
  (* ephemeral ports: two int fields of the schema *)
  && row_is (lt_app T) (lt_app_eph_tcpf T) TInt && row_is (lt_app T) (lt_app_eph_udpf T) TInt
  && negb (str_eqb (lt_app_eph_tcpf T) (lt_app_eph_udpf T)) && negb (str_eqb (lt_app_eph_tcp T) (lt_app_eph_udp T))
  (* vring: one [str] field *)
  && match lt_app_vr_schema T with
     | (a, (Some f, TListStr)) :: [] => str_eqb f (lt_app_vr_cells T) && no_semicolon a && str_eqb (lower a) a
     | _ => false
     end
  && disjoint_attrs (lt_app_vr_schema T) (lt_app T).

Definition ltables_ok (T : ltables) : bool :=
  base_tables_ok T && plain_tables_ok T && ca_tables_ok T && pt_tables_ok T && cell_tables_ok T && app_tables_ok T.
