(** Proofs about Codec/Rule.v: get_rule (filenameify chain r) = (chain, r) on the domain the
    regular expressions accept; injectivity. *)
From Coq Require Import ZArith List Bool Lia ZifyBool.
From TM Require Import Codec.BaseN Codec.BaseNP Codec.Dec Codec.DecP Codec.Rule.
Import ListNotations.
Open Scope Z_scope.

(** * Scanning *)
Lemma span_until_stop c tok rest : ~ In c tok -> span_until c (tok ++ c :: rest) = (tok, c :: rest).
Proof.
  induction tok as [|x t IH]; intros Hn; cbn [app span_until].
  - rewrite Z.eqb_refl. reflexivity.
  - destruct (x =? c) eqn:E.
    + apply Z.eqb_eq in E. exfalso. apply Hn. left. exact E.
    + rewrite IH by (intros Hin; apply Hn; right; exact Hin). reflexivity.
Qed.

Lemma strip_prefix_app l s : strip_prefix l (l ++ s) = Some s.
Proof. induction l as [|c l IH]; cbn [app strip_prefix]; [reflexivity|]. rewrite Z.eqb_refl. exact IH. Qed.

Lemma chomp_id s : ~ In 10 s -> chomp s = s.
Proof.
  intros Hn. unfold chomp. destruct (rev s) as [|c r] eqn:E; [reflexivity|].
  destruct (c =? 10) eqn:Ec; [|reflexivity].
  apply Z.eqb_eq in Ec. subst c. exfalso. apply Hn. apply in_rev. rewrite E. left. reflexivity.
Qed.

(** * Field classes contain no separator *)
Definition plain (c : Z) : Prop := c <> 58 /\ c <> 45 /\ c <> 10.

Lemma is_word_plain c : is_word c = true -> plain c.
Proof. unfold is_word, is_digit, plain. lia. Qed.

Lemma is_digit_plain c : is_digit c = true -> plain c /\ c <> 46 /\ c <> 42.
Proof. unfold is_digit, plain. lia. Qed.

Lemma forallb_Forall {A} (f : A -> bool) l : forallb f l = true -> Forall (fun x => f x = true) l.
Proof. intros H. apply Forall_forall. apply forallb_forall. exact H. Qed.

Lemma all_digits_plain s : all_digits s = true -> Forall plain s.
Proof.
  intros H. apply forallb_Forall in H. eapply Forall_impl; [|exact H].
  intros c Hc. apply is_digit_plain. exact Hc.
Qed.

Lemma valid_octet_plain s : valid_octet s = true -> Forall plain s.
Proof. unfold valid_octet. intros H. apply andb_true_iff in H as [_ H]. apply all_digits_plain. exact H. Qed.

Lemma valid_ip_plain s : valid_ip s = true -> Forall plain s.
Proof.
  unfold valid_ip. intros H. rewrite <- (join_split 46 s).
  destruct (split 46 s) as [|a [|b [|c [|d [|e t]]]]]; try discriminate.
  apply andb_true_iff in H as [H Hd]. apply andb_true_iff in H as [H Hc].
  apply andb_true_iff in H as [Ha Hb].
  apply valid_octet_plain in Ha, Hb, Hc, Hd.
  cbn [join]. repeat (apply Forall_app; split; [assumption|]; constructor; [unfold plain; lia|]).
  assumption.
Qed.

Lemma valid_port_plain s : valid_port s = true -> Forall plain s.
Proof. unfold valid_port. intros H. apply andb_true_iff in H as [_ H]. apply all_digits_plain. exact H. Qed.

Lemma star_plain : Forall plain star.
Proof. repeat constructor; discriminate. Qed.

Lemma valid_plain k s : valid k s = true -> Forall plain s.
Proof.
  destruct k; cbn [valid]; intros H.
  - apply andb_true_iff in H as [_ H]. apply forallb_Forall in H.
    eapply Forall_impl; [|exact H]. intros c Hc. apply is_word_plain. exact Hc.
  - apply orb_true_iff in H as [H|H]; apply str_eqb_eq in H; subst s;
      repeat constructor; discriminate.
  - apply orb_true_iff in H as [H|H]; [apply valid_ip_plain; exact H|].
    apply str_eqb_eq in H. subst s. exact star_plain.
  - apply orb_true_iff in H as [H|H]; [apply valid_port_plain; exact H|].
    apply str_eqb_eq in H. subst s. exact star_plain.
  - apply valid_ip_plain. exact H.
  - apply valid_port_plain. exact H.
Qed.

Lemma plain_notin s c : Forall plain s -> c = 58 \/ c = 45 \/ c = 10 -> ~ In c s.
Proof.
  intros Hall Hc Hin. rewrite Forall_forall in Hall. specialize (Hall c Hin). unfold plain in Hall. lia.
Qed.

(** * parse_items inverts render on well-formed patterns *)
Fixpoint fields_env (items : list item) (e : env) : env :=
  match items with
  | [] => []
  | Lit _ :: r => fields_env r e
  | Fld n :: r => match env_get e n with Some v => (n, v) :: fields_env r e | None => fields_env r e end
  end.

Definition env_valid (K : kinds) (items : list item) (e : env) : Prop :=
  forall n, In (Fld n) items ->
  exists k v, kind_get K n = Some k /\ env_get e n = Some v /\ valid k v = true.

Lemma parse_render K items e :
  wf_items K items = true -> env_valid K items e ->
  exists s, render items e = Some s /\ parse_items K items s = Some (fields_env items e).
Proof.
  induction items as [|it r IH]; intros Hwf Hv.
  - exists []. split; reflexivity.
  - assert (Hv' : env_valid K r e) by (intros n Hin; apply Hv; right; exact Hin).
    destruct it as [l|n].
    + cbn [wf_items] in Hwf. destruct l as [|c l]; [discriminate|].
      destruct (IH Hwf Hv') as [s [Hs Hp]].
      exists ((c :: l) ++ s). cbn [render fields_env]. rewrite Hs. split; [reflexivity|].
      cbn [parse_items]. rewrite strip_prefix_app. exact Hp.
    + destruct (Hv n (or_introl eq_refl)) as [k [v [Hk [He Hval]]]].
      pose proof (valid_plain k v Hval) as Hplain.
      cbn [wf_items] in Hwf. rewrite Hk in Hwf.
      cbn [render fields_env parse_items]. rewrite He, Hk.
      destruct r as [|[l|m] r'].
      * exists v. cbn [render]. rewrite app_nil_r. split; [reflexivity|].
        rewrite chomp_id by (apply (plain_notin v 10 Hplain); lia). rewrite Hval. reflexivity.
      * destruct l as [|c l]; [discriminate|].
        apply andb_true_iff in Hwf as [Hc Hwf].
        destruct (IH Hwf Hv') as [s [Hs Hp]].
        rewrite Hs. exists (v ++ s). split; [reflexivity|].
        cbn [render] in Hs. destruct (render r' e) as [s'|]; [|discriminate].
        cbn [option_map] in Hs. inversion Hs; subst s. cbn [app].
        rewrite span_until_stop by (apply (plain_notin v c Hplain); lia).
        rewrite Hval. cbn [app] in Hp. rewrite Hp. reflexivity.
      * discriminate.
Qed.

(** * The concrete patterns *)
Definition items_of (p : str) : list item := match template_items p with Some i => i | None => [] end.

Lemma patterns_ok :
  template_items p_dnat = Some (items_of p_dnat) /\ wf_items nat_kinds (items_of p_dnat) = true /\
  template_items p_snat = Some (items_of p_snat) /\ wf_items nat_kinds (items_of p_snat) = true /\
  template_items p_pt = Some (items_of p_pt) /\ wf_items pt_kinds (items_of p_pt) = true.
Proof. vm_compute. repeat split; reflexivity. Qed.

Lemma tables_fields R : rule_tables_ok R = true ->
  rt_dnat R = p_dnat /\ rt_snat R = p_snat /\ rt_pt R = p_pt /\ rt_any R = star /\ rt_any_port R = 0.
Proof.
  unfold rule_tables_ok. intros H.
  repeat match goal with
         | X : _ && _ = true |- _ => apply andb_true_iff in X; destruct X
         end.
  repeat match goal with X : str_eqb _ _ = true |- _ => apply str_eqb_eq in X end.
  repeat split; try assumption. lia.
Qed.

(** * Field texts of a rule in the domain are valid and decode back *)
Lemma valid_ip_not_star s : valid_ip s = true -> str_eqb s star = false.
Proof.
  intros H. destruct (str_eqb s star) eqn:E; [|reflexivity].
  apply str_eqb_eq in E. subst s. vm_compute in H. discriminate.
Qed.

Lemma digits_all s : Forall (fun c => In c digits10) s -> all_digits s = true.
Proof.
  intros H. unfold all_digits. apply forallb_forall. rewrite Forall_forall in H.
  intros c Hc. apply digit_props. apply H. exact Hc.
Qed.

Lemma port_str_valid p : 0 <= p <= 99999 -> valid_port (str_of_Z p) = true /\ str_eqb (str_of_Z p) star = false.
Proof.
  intros Hp. unfold str_of_Z. destruct (p <? 0) eqn:E; [lia|].
  destruct (str_of_nonneg_length p 5) as [[Hl1 Hl2] Hall]; [change (10 ^ Z.of_nat 5) with 100000; lia|lia|].
  split.
  - unfold valid_port, len_between, zlen. rewrite (digits_all _ Hall). lia.
  - destruct (str_eqb (str_of_nonneg p) star) eqn:Es; [|reflexivity].
    apply str_eqb_eq in Es. rewrite Es in Hall. inversion Hall as [|x l Hx _]; subst.
    apply digit_props in Hx. vm_compute in Hx. destruct Hx as [Hx _]. discriminate.
Qed.

Section WithTables.
  Variable R : rule_tables.
  Hypothesis Hany : rt_any R = star.
  Hypothesis Hport : rt_any_port R = 0.

  Lemma ip_text_spec o : valid_oip o = true ->
    valid KIpWild (ip_text R o) = true /\ dec_ip R (ip_text R o) = o.
  Proof.
    unfold ip_text, dec_ip. rewrite Hany. destruct o as [s|]; cbn [valid_oip valid]; intros H.
    - rewrite H. rewrite (valid_ip_not_star s H). split; reflexivity.
    - split; reflexivity.
  Qed.

  Lemma port_text_spec p : valid_port_num p = true ->
    valid KPortWild (port_text R p) = true /\ dec_port R (port_text R p) = Some p.
  Proof.
    unfold port_text, dec_port, valid_port_num. rewrite Hany, Hport. intros H.
    destruct (p =? 0) eqn:E.
    - split; [reflexivity|]. cbn. f_equal. lia.
    - destruct (port_str_valid p ltac:(lia)) as [Hv Hs]. cbn [valid]. rewrite Hv, Hs.
      split; [reflexivity|]. apply py_int_str_of_Z.
  Qed.

  Lemma new_port_spec p : valid_port_num p = true ->
    valid KPort (str_of_Z p) = true /\ py_int (str_of_Z p) = Some p.
  Proof.
    unfold valid_port_num. intros H. destruct (port_str_valid p ltac:(lia)) as [Hv _].
    split; [exact Hv|apply py_int_str_of_Z].
  Qed.
End WithTables.

(** a name whose literal after the chain is not the pattern's literal is rejected by that pattern *)
Lemma other_literal_rejected K items chain lit rest :
  valid KChain chain = true ->
  match items with
  | Fld n :: Lit (c :: l) :: _ =>
      kind_get K n = Some KChain /\ c = 58 /\ strip_prefix (c :: l) (lit ++ rest) = None
  | _ => False
  end ->
  hd 0 lit = 58 ->
  parse_items K items (chain ++ lit ++ rest) = None.
Proof.
  intros Hc Hit Hhd. destruct items as [|[l0|n] [|[[|c l]|m] r]]; try contradiction.
  destruct Hit as [Hk [Hc58 Hstrip]]. subst c.
  destruct lit as [|c0 lit']; [cbn in Hhd; discriminate|]. cbn in Hhd. subst c0.
  cbn [parse_items]. rewrite Hk. cbn [app].
  rewrite span_until_stop by (apply (plain_notin chain 58 (valid_plain KChain chain Hc)); lia).
  rewrite Hc. cbn [app] in Hstrip.
  change (parse_items K (Lit (58 :: l) :: r) (58 :: lit' ++ rest))
    with (match strip_prefix (58 :: l) (58 :: lit' ++ rest) with
          | Some s' => parse_items K r s' | None => None end).
  rewrite Hstrip. reflexivity.
Qed.

Definition l_dnat : str := [58; 100; 110; 97; 116; 58].
Definition l_snat : str := [58; 115; 110; 97; 116; 58].
Definition l_pt : str := [58; 112; 97; 115; 115; 116; 104; 114; 111; 117; 103; 104; 58].

Lemma dnat_rejects_snat chain rest : valid KChain chain = true ->
  parse_items nat_kinds (items_of p_dnat) (chain ++ l_snat ++ rest) = None.
Proof. intros H. apply other_literal_rejected; [exact H| |reflexivity]. vm_compute. repeat split. Qed.

Lemma dnat_rejects_pt chain rest : valid KChain chain = true ->
  parse_items nat_kinds (items_of p_dnat) (chain ++ l_pt ++ rest) = None.
Proof. intros H. apply other_literal_rejected; [exact H| |reflexivity]. vm_compute. repeat split. Qed.

Lemma snat_rejects_pt chain rest : valid KChain chain = true ->
  parse_items nat_kinds (items_of p_snat) (chain ++ l_pt ++ rest) = None.
Proof. intros H. apply other_literal_rejected; [exact H| |reflexivity]. vm_compute. repeat split. Qed.

(** * Round trip *)
Lemma nat_env_valid R items chain pr si sp di dp ni np :
  rt_any R = star -> rt_any_port R = 0 ->
  (forall n, In (Fld n) items ->
     In n [f_chain; f_proto; f_src_ip; f_src_port; f_dst_ip; f_dst_port; f_new_ip; f_new_port]) ->
  valid KChain chain = true -> valid KProto pr = true -> valid_oip si = true -> valid_port_num sp = true ->
  valid_oip di = true -> valid_port_num dp = true -> valid_ip ni = true -> valid_port_num np = true ->
  env_valid nat_kinds items (nat_env R chain pr si sp di dp ni np).
Proof.
  intros Hany Hport Hnames Hc Hpr Hsi Hsp Hdi Hdp Hni Hnp n Hin.
  specialize (Hnames n Hin). cbn [In] in Hnames.
  destruct Hnames as [<-|[<-|[<-|[<-|[<-|[<-|[<-|[<-|[]]]]]]]]]; eexists; eexists;
    (split; [vm_compute; reflexivity|]); (split; [cbn; reflexivity|]).
  - exact Hc.
  - exact Hpr.
  - apply (ip_text_spec R Hany si Hsi).
  - apply (port_text_spec R Hany Hport sp Hsp).
  - apply (ip_text_spec R Hany di Hdi).
  - apply (port_text_spec R Hany Hport dp Hdp).
  - exact Hni.
  - apply (new_port_spec np Hnp).
Qed.

Lemma nat_names p : p = p_dnat \/ p = p_snat ->
  forall n, In (Fld n) (items_of p) ->
  In n [f_chain; f_proto; f_src_ip; f_src_port; f_dst_ip; f_dst_port; f_new_ip; f_new_port].
Proof.
  intros [->| ->] n Hin; vm_compute in Hin;
    repeat (destruct Hin as [Hin|Hin]; [try discriminate; inversion Hin; subst; vm_compute; tauto|]);
    contradiction.
Qed.

Lemma build_nat_spec R mk items chain pr si sp di dp ni np :
  rt_any R = star -> rt_any_port R = 0 ->
  items = items_of p_dnat \/ items = items_of p_snat ->
  valid_oip si = true -> valid_port_num sp = true -> valid_oip di = true -> valid_port_num dp = true ->
  valid_port_num np = true ->
  build_nat R mk (fields_env items (nat_env R chain pr si sp di dp ni np))
  = Some (chain, mk pr si sp di dp ni np).
Proof.
  intros Hany Hport Hitems Hsi Hsp Hdi Hdp Hnp.
  assert (E : fields_env items (nat_env R chain pr si sp di dp ni np) = nat_env R chain pr si sp di dp ni np).
  { destruct Hitems as [-> | ->]; reflexivity. }
  rewrite E. unfold build_nat, nat_env.
  change (env_get _ f_chain) with (Some chain).
  cbn [env_get str_eqb f_chain f_proto f_src_ip f_src_port f_dst_ip f_dst_port f_new_ip f_new_port
       Z.eqb Pos.eqb andb].
  destruct (ip_text_spec R Hany si Hsi) as [_ ->].
  destruct (ip_text_spec R Hany di Hdi) as [_ ->].
  destruct (port_text_spec R Hany Hport sp Hsp) as [_ ->].
  destruct (port_text_spec R Hany Hport dp Hdp) as [_ ->].
  destruct (new_port_spec np Hnp) as [_ ->].
  reflexivity.
Qed.

Lemma render_shape_snat e s : render (items_of p_snat) e = Some s ->
  exists chain rest, env_get e f_chain = Some chain /\ s = chain ++ l_snat ++ rest.
Proof.
  change (items_of p_snat) with (Fld f_chain :: Lit l_snat :: tl (tl (items_of p_snat))).
  cbn [render]. destruct (env_get e f_chain) as [c|]; [|discriminate].
  destruct (render (tl (tl (items_of p_snat))) e) as [r|]; [|discriminate].
  cbn [option_map]. intros H. inversion H. exists c, r. split; reflexivity.
Qed.

Lemma render_shape_pt e s : render (items_of p_pt) e = Some s ->
  exists chain rest, env_get e f_chain = Some chain /\ s = chain ++ l_pt ++ rest.
Proof.
  change (items_of p_pt) with (Fld f_chain :: Lit l_pt :: tl (tl (items_of p_pt))).
  cbn [render]. destruct (env_get e f_chain) as [c|]; [|discriminate].
  destruct (render (tl (tl (items_of p_pt))) e) as [r|]; [|discriminate].
  cbn [option_map]. intros H. inversion H. exists c, r. split; reflexivity.
Qed.

Theorem rule_roundtrip R chain r :
  rule_tables_ok R = true -> valid KChain chain = true -> rule_domain r = true ->
  exists name, filenameify R chain r = Some name /\ get_rule R name = Some (chain, r).
Proof.
  intros HR Hc Hd. destruct (tables_fields R HR) as [Ed [Es [Ep [Hany Hport]]]].
  destruct patterns_ok as [Td [Wd [Ts [Ws [Tp Wp]]]]].
  destruct r as [pr si sp di dp ni np|pr si sp di dp ni np|si di]; cbn [rule_domain] in Hd;
    repeat (apply andb_true_iff in Hd; destruct Hd as [Hd ?]).
  - (* DNAT *)
    destruct (parse_render nat_kinds (items_of p_dnat) (nat_env R chain pr si sp di dp ni np) Wd)
      as [s [Hs Hp]].
    { apply nat_env_valid; try assumption. apply nat_names. left. reflexivity. }
    exists s. unfold filenameify, render_pattern. rewrite Ed, Td. split; [exact Hs|].
    unfold get_rule, match_pattern. rewrite Ed, Td, Hp.
    apply build_nat_spec; try assumption. left. reflexivity.
  - (* SNAT *)
    destruct (parse_render nat_kinds (items_of p_snat) (nat_env R chain pr si sp di dp ni np) Ws)
      as [s [Hs Hp]].
    { apply nat_env_valid; try assumption. apply nat_names. right. reflexivity. }
    exists s. unfold filenameify, render_pattern. rewrite Es, Ts. split; [exact Hs|].
    unfold get_rule, match_pattern. rewrite Ed, Td, Es, Ts.
    destruct (render_shape_snat _ _ Hs) as [c [rest [Hc' ->]]].
    cbn in Hc'. inversion Hc'; subst c.
    rewrite (dnat_rejects_snat chain rest Hc). rewrite Hp.
    apply build_nat_spec; try assumption. right. reflexivity.
  - (* PassThrough *)
    set (e := [(f_chain, chain); (f_src_ip, si); (f_dst_ip, di)]).
    destruct (parse_render pt_kinds (items_of p_pt) e Wp) as [s [Hs Hp]].
    { intros n Hin. vm_compute in Hin.
      repeat (destruct Hin as [Hin|Hin]; [try discriminate; inversion Hin; subst|]); try contradiction;
        eexists; eexists; (split; [vm_compute; reflexivity|]); (split; [cbn; reflexivity|]); assumption. }
    exists s. unfold filenameify, render_pattern. rewrite Ep, Tp. split; [exact Hs|].
    unfold get_rule, match_pattern. rewrite Ed, Td, Es, Ts, Ep, Tp.
    destruct (render_shape_pt _ _ Hs) as [c [rest [Hc' ->]]].
    cbn in Hc'. inversion Hc'; subst c.
    rewrite (dnat_rejects_pt chain rest Hc), (snat_rejects_pt chain rest Hc). rewrite Hp.
    reflexivity.
Qed.

Theorem rule_injective R chain r chain' r' name :
  rule_tables_ok R = true ->
  valid KChain chain = true -> rule_domain r = true ->
  valid KChain chain' = true -> rule_domain r' = true ->
  filenameify R chain r = Some name -> filenameify R chain' r' = Some name ->
  (chain, r) = (chain', r').
Proof.
  intros HR Hc Hd Hc' Hd' E1 E2.
  destruct (rule_roundtrip R chain r HR Hc Hd) as [n1 [F1 G1]].
  destruct (rule_roundtrip R chain' r' HR Hc' Hd') as [n2 [F2 G2]].
  rewrite E1 in F1. rewrite E2 in F2. inversion F1; inversion F2; subst.
  rewrite G1 in G2. inversion G2. reflexivity.
Qed.
