(** C15, codec 2: trace events.  trace/app/events.py and trace/server/events.py
    (to_data / from_data of every event class) and the event-node names of trace/app/zk.py
    ('instanceid,when,host,type,data', decoded by split(',')).

    Executable model ONLY (proofs in EventP.v).

    The header fields (timestamp, source, instanceid/servername, payload) are passed through
    untouched by both directions; they are an opaque [H].  String-valued event fields are
    [option str] ([None] = Python None).  The enum tables  member name -> class name -> slots
    are parameters, regenerated from the source (AppTraceEventTypes / ServerTraceEventTypes). *)
From Coq Require Import ZArith List Bool.
From TM Require Import Codec.BaseN Codec.Dec.
Import ListNotations.
Open Scope Z_scope.

Inductive body :=
| Scheduled (where_ why : option str)
| Pending (why : option str)
| PendingDelete (why : option str)
| Configured (uniqueid : option str)
| Deleted
| Finished (rc signal : Z)
| Aborted (why : option str)
| Killed (is_oom : bool)
| ServiceRunning (uniqueid service : option str)
| ServiceExited (uniqueid service : option str) (rc signal : Z)
| ServerState (state : option str)
| ServerBlackout
| ServerBlackoutCleared.

(** class identifiers (positions in [class_names]) *)
Inductive cls := KScheduled | KPending | KPendingDelete | KConfigured | KDeleted | KFinished | KAborted
               | KKilled | KServiceRunning | KServiceExited | KServerState | KServerBlackout
               | KServerBlackoutCleared.

Definition all_cls : list cls :=
  [KScheduled; KPending; KPendingDelete; KConfigured; KDeleted; KFinished; KAborted; KKilled;
   KServiceRunning; KServiceExited; KServerState; KServerBlackout; KServerBlackoutCleared].

Definition cls_of (b : body) : cls :=
  match b with
  | Scheduled _ _ => KScheduled | Pending _ => KPending | PendingDelete _ => KPendingDelete
  | Configured _ => KConfigured | Deleted => KDeleted | Finished _ _ => KFinished
  | Aborted _ => KAborted | Killed _ => KKilled | ServiceRunning _ _ => KServiceRunning
  | ServiceExited _ _ _ _ => KServiceExited | ServerState _ => KServerState
  | ServerBlackout => KServerBlackout | ServerBlackoutCleared => KServerBlackoutCleared
  end.

Definition cls_id (k : cls) : Z :=
  match k with
  | KScheduled => 0 | KPending => 1 | KPendingDelete => 2 | KConfigured => 3 | KDeleted => 4
  | KFinished => 5 | KAborted => 6 | KKilled => 7 | KServiceRunning => 8 | KServiceExited => 9
  | KServerState => 10 | KServerBlackout => 11 | KServerBlackoutCleared => 12
  end.
Definition cls_eqb (a b : cls) : bool := cls_id a =? cls_id b.

(** whether the class belongs to the server enum (ServerTraceEventTypes) *)
Definition is_server (k : cls) : bool :=
  match k with KServerState | KServerBlackout | KServerBlackoutCleared => true | _ => false end.

(** The Python class name (ASCII), and the slots the model's constructor carries.  These are
    compared with the generated tables by [event_tables_ok]. *)
Definition class_name (k : cls) : str :=
  match k with
  | KScheduled => [83;99;104;101;100;117;108;101;100;84;114;97;99;101;69;118;101;110;116]   (* ScheduledTraceEvent *)
  | KPending => [80;101;110;100;105;110;103;84;114;97;99;101;69;118;101;110;116]   (* PendingTraceEvent *)
  | KPendingDelete => [80;101;110;100;105;110;103;68;101;108;101;116;101;84;114;97;99;101;69;118;101;110;116]   (* PendingDeleteTraceEvent *)
  | KConfigured => [67;111;110;102;105;103;117;114;101;100;84;114;97;99;101;69;118;101;110;116]   (* ConfiguredTraceEvent *)
  | KDeleted => [68;101;108;101;116;101;100;84;114;97;99;101;69;118;101;110;116]   (* DeletedTraceEvent *)
  | KFinished => [70;105;110;105;115;104;101;100;84;114;97;99;101;69;118;101;110;116]   (* FinishedTraceEvent *)
  | KAborted => [65;98;111;114;116;101;100;84;114;97;99;101;69;118;101;110;116]   (* AbortedTraceEvent *)
  | KKilled => [75;105;108;108;101;100;84;114;97;99;101;69;118;101;110;116]   (* KilledTraceEvent *)
  | KServiceRunning => [83;101;114;118;105;99;101;82;117;110;110;105;110;103;84;114;97;99;101;69;118;101;110;116]   (* ServiceRunningTraceEvent *)
  | KServiceExited => [83;101;114;118;105;99;101;69;120;105;116;101;100;84;114;97;99;101;69;118;101;110;116]   (* ServiceExitedTraceEvent *)
  | KServerState => [83;101;114;118;101;114;83;116;97;116;101;84;114;97;99;101;69;118;101;110;116]   (* ServerStateTraceEvent *)
  | KServerBlackout => [83;101;114;118;101;114;66;108;97;99;107;111;117;116;84;114;97;99;101;69;118;101;110;116]   (* ServerBlackoutTraceEvent *)
  | KServerBlackoutCleared => [83;101;114;118;101;114;66;108;97;99;107;111;117;116;67;108;101;97;114;101;100;84;114;97;99;101;69;118;101;110;116]   (* ServerBlackoutClearedTraceEvent *)
  end.

(* slot names *)
Definition n_where : str := [119;104;101;114;101].   (* where *)
Definition n_why : str := [119;104;121].   (* why *)
Definition n_uniqueid : str := [117;110;105;113;117;101;105;100].   (* uniqueid *)
Definition n_rc : str := [114;99].   (* rc *)
Definition n_signal : str := [115;105;103;110;97;108].   (* signal *)
Definition n_is_oom : str := [105;115;95;111;111;109].   (* is_oom *)
Definition n_service : str := [115;101;114;118;105;99;101].   (* service *)
Definition n_state : str := [115;116;97;116;101].   (* state *)

Definition class_slots (k : cls) : list str :=
  match k with
  | KScheduled => [n_where; n_why]
  | KPending | KPendingDelete | KAborted => [n_why]
  | KConfigured => [n_uniqueid]
  | KDeleted | KServerBlackout | KServerBlackoutCleared => []
  | KFinished => [n_rc; n_signal]
  | KKilled => [n_is_oom]
  | KServiceRunning => [n_uniqueid; n_service]
  | KServiceExited => [n_uniqueid; n_service; n_rc; n_signal]
  | KServerState => [n_state]
  end.

(** * Generated enum table:  (member name, class name, slots) in definition order *)
Definition etable := list (str * (str * list str)).

Fixpoint lookup_by_name (t : etable) (name : str) : option (str * list str) :=
  match t with
  | [] => None
  | (n, v) :: r => if str_eqb n name then Some v else lookup_by_name r name
  end.

(** Enum(value).name : the first member whose value is the class *)
Fixpoint lookup_by_class (t : etable) (cname : str) : option str :=
  match t with
  | [] => None
  | (n, (c, _)) :: r => if str_eqb c cname then Some n else lookup_by_class r cname
  end.

Definition cls_of_name (cname : str) : option cls :=
  find (fun k => str_eqb (class_name k) cname) all_cls.

Record event_tables := { et_app : etable; et_server : etable }.

Definition table_for (T : event_tables) (k : cls) : etable :=
  if is_server k then et_server T else et_app T.

(** * event_data of every class *)
Definition colon : Z := 58.
Definition dot : Z := 46.
Definition comma : Z := 44.
Definition oom_str : str := [111; 111; 109].

(** the property [event_data]; [None] = Python None (to_data turns it into '') *)
Definition event_data (b : body) : option str :=
  match b with
  | Scheduled w None => Some (pystr w)                                      (* why is None: '%s' % where *)
  | Scheduled w (Some y) => Some (pystr w ++ colon :: y)                    (* '%s:%s' % (where, why) *)
  | Pending y | PendingDelete y | Aborted y => y
  | Configured u => u
  | Deleted | ServerBlackout | ServerBlackoutCleared => None
  | Finished rc sg => Some (str_of_Z rc ++ dot :: str_of_Z sg)               (* '{rc}.{signal}' *)
  | Killed o => Some (if o then oom_str else [])
  | ServiceRunning u s => Some (pystr u ++ dot :: pystr s)
  | ServiceExited u s rc sg =>
      Some (pystr u ++ dot :: pystr s ++ dot :: str_of_Z rc ++ dot :: str_of_Z sg)
  | ServerState s => s
  end.

(** to_data: (header, event_type, event_data).  [None]: the class is not a member of its enum
    (the constructor's Enum lookup raises). *)
Definition to_data {H} (T : event_tables) (e : H * body) : option (H * str * str) :=
  let (h, b) := e in
  match lookup_by_class (table_for T (cls_of b)) (class_name (cls_of b)) with
  | None => None
  | Some ty => Some (h, ty, match event_data b with Some d => d | None => [] end)
  end.

(** * from_data of every class; [None] = an exception inside the class decoder (caught: returns None) *)
Fixpoint last2 (l : list str) : option (list str * str * str) :=   (* signal = parts.pop(); rc = parts.pop() *)
  match l with
  | [] | [_] => None
  | [a; b] => Some ([], a, b)
  | x :: t => match last2 t with Some (m, a, b) => Some (x :: m, a, b) | None => None end
  end.

Definition class_from_data (k : cls) (d : str) : option body :=
  match k with
  | KScheduled =>
      match split1 colon d with
      | Some (w, y) => Some (Scheduled (Some w) (Some y))
      | None => Some (Scheduled (Some d) None)
      end
  | KPending => Some (Pending (Some d))
  | KPendingDelete => Some (PendingDelete (Some d))
  | KConfigured => Some (Configured (Some d))
  | KDeleted => Some Deleted
  | KFinished =>
      match split dot d with
      | [a; b] => match py_int a, py_int b with
                  | Some rc, Some sg => Some (Finished rc sg)
                  | _, _ => None
                  end
      | _ => None       (* split('.', 2) gives 1 or 3 parts: unpacking fails *)
      end
  | KAborted => Some (Aborted (Some d))
  | KKilled => Some (Killed (str_eqb d oom_str))
  | KServiceRunning =>
      match split dot d with
      | u :: rest => Some (ServiceRunning (Some u) (Some (join dot rest)))
      | [] => None
      end
  | KServiceExited =>
      match split dot d with
      | u :: rest =>
          match last2 rest with
          | Some (mid, a, b) =>
              match py_int a, py_int b with
              | Some rc, Some sg => Some (ServiceExited (Some u) (Some (join dot mid)) rc sg)
              | _, _ => None
              end
          | None => None
          end
      | [] => None
      end
  | KServerState => Some (ServerState (Some d))
  | KServerBlackout => Some ServerBlackout
  | KServerBlackoutCleared => Some ServerBlackoutCleared
  end.

(** AppTraceEvent.from_data / ServerTraceEvent.from_data: [server] selects the enum *)
Definition from_data {H} (T : event_tables) (server : bool) (h : H) (ty d : str) : option (H * body) :=
  match lookup_by_name (if server then et_server T else et_app T) ty with
  | None => None                                   (* unknown event type *)
  | Some (cname, _) =>
      match cls_of_name cname with
      | None => None                               (* a class the model does not know: excluded by event_tables_ok *)
      | Some k => match class_from_data k d with
                  | Some b => Some (h, b)
                  | None => None
                  end
      end
  end.

(** * Event-node names.
      trace/app/zk.py publish:        eventnode = '%s,%s,%s,%s' % (when, _HOSTNAME, event_type, event_data)
      zknamespace._path_trace_shard:  node_name = '%s,%s' % (object_name, event)
      trace/_zk.py _process_events:   object_name, timestamp, source, event_type, event_data = event.split(',')
    Templates, separator and arity are generated from the source. *)
Record node_tables := {
  nt_template : str; nt_args : list str;
  nt_prefix_template : str; nt_prefix_args : list str;
  nt_sep : Z; nt_fields : list str
}.

(** template % (args...) with %s conversions only; [None] = TypeError (argument count) / unsupported conversion *)
Fixpoint pct_format (tmpl : str) (args : list str) : option str :=
  match tmpl with
  | [] => match args with [] => Some [] | _ :: _ => None end
  | c :: t =>
      if c =? 37 then
        match t with
        | d :: t' =>
            if d =? 115 then
              match args with
              | a :: r => option_map (app a) (pct_format t' r)
              | [] => None
              end
            else None
        | [] => None
        end
      else option_map (cons c) (pct_format t args)
  end.

Definition node_name (N : node_tables) (id when host ty d : str) : option str :=
  match pct_format (nt_template N) [when; host; ty; d] with
  | Some ev => pct_format (nt_prefix_template N) [id; ev]
  | None => None
  end.

Definition node_fields (N : node_tables) (name : str) : option (list str) :=
  let parts := split (nt_sep N) name in
  if (length parts =? length (nt_fields N))%nat then Some parts else None.   (* ValueError on unpacking otherwise *)

(** * What the generated tables must be *)
Fixpoint strs_eqb (a b : list str) : bool :=
  match a, b with
  | [], [] => true
  | x :: a', y :: b' => str_eqb x y && strs_eqb a' b'
  | _, _ => false
  end.

Fixpoint nodup_strs (l : list str) : bool :=
  match l with
  | [] => true
  | x :: t => negb (existsb (str_eqb x) t) && nodup_strs t
  end.

Definition table_ok (t : etable) (server : bool) : bool :=
  nodup_strs (map fst t) && nodup_strs (map (fun e => fst (snd e)) t) &&
  (* every class of the table is one the model knows, on the right side, with the slots the model carries *)
  forallb (fun e => match cls_of_name (fst (snd e)) with
                    | Some k => Bool.eqb (is_server k) server && strs_eqb (snd (snd e)) (class_slots k)
                    | None => false
                    end) t &&
  (* every class of the model on this side is in the table *)
  forallb (fun k => negb (Bool.eqb (is_server k) server)
                    || existsb (fun e => str_eqb (fst (snd e)) (class_name k)) t) all_cls &&
  (* member names contain no ',' (they are a field of event-node names) *)
  forallb (fun e => negb (memb comma (fst e))) t.

Definition event_tables_ok (T : event_tables) : bool :=
  table_ok (et_app T) false && table_ok (et_server T) true.

(** * Domain on which every class round-trips *)
Definition some_without (c : Z) (v : option str) : bool :=
  match v with Some s => negb (memb c s) | None => false end.
Definition is_some {A} (v : option A) : bool := match v with Some _ => true | None => false end.

Definition body_domain (b : body) : bool :=
  match b with
  | Scheduled w _ => some_without colon w
  | Pending y | PendingDelete y | Aborted y => is_some y
  | Configured u => is_some u
  | ServerState s => is_some s
  | Deleted | ServerBlackout | ServerBlackoutCleared | Finished _ _ | Killed _ => true
  | ServiceRunning u s => some_without dot u && is_some s
  | ServiceExited u s _ _ => some_without dot u && is_some s
  end.

Definition node_tables_ok (N : node_tables) : bool :=
  str_eqb (nt_template N) [37;115;44;37;115;44;37;115;44;37;115] &&                                  (* '%s,%s,%s,%s' *)
  strs_eqb (nt_args N) [[119;104;101;110]; [95;72;79;83;84;78;65;77;69]; [101;118;101;110;116;95;116;121;112;101]; [101;118;101;110;116;95;100;97;116;97]] &&                       (* when, _HOSTNAME, event_type, event_data *)
  str_eqb (nt_prefix_template N) [37;115;44;37;115] &&                           (* '%s,%s' *)
  strs_eqb (nt_prefix_args N) [[111;98;106;101;99;116;95;110;97;109;101]; [101;118;101;110;116]] &&                        (* object_name, event *)
  (nt_sep N =? comma) &&
  strs_eqb (nt_fields N) [[111;98;106;101;99;116;95;110;97;109;101]; [116;105;109;101;115;116;97;109;112]; [115;111;117;114;99;101]; [101;118;101;110;116;95;116;121;112;101]; [101;118;101;110;116;95;100;97;116;97]].                   (* object_name, timestamp, source, event_type, event_data *)
