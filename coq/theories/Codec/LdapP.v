(** Proofs about Codec/Ldap.v: store + load of an object gives, field by field, [expected_field];
    _diff_entries old new applied to old yields new. *)
From Coq Require Import ZArith List Bool Lia ZifyBool Permutation.
From TM Require Import Codec.BaseN Codec.BaseNP Codec.Dec Codec.DecP Codec.Json Codec.JsonP Codec.Ldap.
Import ListNotations.
Open Scope Z_scope.

(** * Association lists *)
Lemma str_eqb_refl s : str_eqb s s = true.
Proof. apply str_eqb_eq. reflexivity. Qed.

Lemma str_eqb_neq a b : a <> b -> str_eqb a b = false.
Proof. intros H. destruct (str_eqb a b) eqn:E; [apply str_eqb_eq in E; contradiction|reflexivity]. Qed.

Lemma str_eq_dec (a b : str) : {a = b} + {a <> b}.
Proof. apply (list_eq_dec Z.eq_dec). Qed.

Lemma alookup_aset {A} (d : list (str * A)) k v k' :
  alookup (aset d k v) k' = if str_eqb k k' then Some v else alookup d k'.
Proof.
  induction d as [|[k0 v0] t IH]; cbn [aset alookup].
  - destruct (str_eqb k k'); reflexivity.
  - destruct (str_eqb k0 k) eqn:E0; cbn [alookup].
    + apply str_eqb_eq in E0. subst k0. destruct (str_eqb k k'); reflexivity.
    + rewrite IH. destruct (str_eqb k0 k') eqn:E1; [|reflexivity].
      apply str_eqb_eq in E1. subst k0. destruct (str_eqb k k') eqn:E2; [|reflexivity].
      apply str_eqb_eq in E2. subst k'. rewrite str_eqb_refl in E0. discriminate.
Qed.

Lemma aset_keys {A} (d : list (str * A)) k v :
  map fst (aset d k v) = if existsb (str_eqb k) (map fst d) then map fst d else map fst d ++ [k].
Proof.
  induction d as [|[k0 v0] t IH]; cbn [aset map fst existsb]; [reflexivity|].
  destruct (str_eqb k0 k) eqn:E0.
  - apply str_eqb_eq in E0. subst k0. rewrite str_eqb_refl. reflexivity.
  - cbn [map fst]. rewrite IH. rewrite (str_eqb_neq k k0).
    + cbn [orb]. destruct (existsb (str_eqb k) (map fst t)); reflexivity.
    + intros ->. rewrite str_eqb_refl in E0. discriminate.
Qed.

Lemma nodup_snoc {A} (l : list A) k : NoDup l -> ~ In k l -> NoDup (l ++ [k]).
Proof.
  induction l as [|x t IH]; intros Hnd Hn; cbn [app]; [constructor; [intros []|constructor]|].
  inversion Hnd as [|y l' Hx Ht]; subst. constructor.
  - intros Hin. apply in_app_or in Hin as [Hin|[Hin|[]]]; [contradiction|]. subst. apply Hn. left. reflexivity.
  - apply IH; [exact Ht|]. intros Hin. apply Hn. right. exact Hin.
Qed.

Lemma aset_nodup {A} (d : list (str * A)) k v : NoDup (map fst d) -> NoDup (map fst (aset d k v)).
Proof.
  intros H. rewrite aset_keys. destruct (existsb (str_eqb k) (map fst d)) eqn:E; [exact H|].
  apply nodup_snoc; [exact H|]. intros Hin.
  assert (existsb (str_eqb k) (map fst d) = true)
    by (apply existsb_exists; exists k; split; [exact Hin|apply str_eqb_refl]).
  congruence.
Qed.

Lemma alookup_in_keys {A} (d : list (str * A)) k v : alookup d k = Some v -> In k (map fst d).
Proof.
  induction d as [|[k0 v0] t IH]; cbn [alookup map fst]; intros H; [discriminate|].
  destruct (str_eqb k0 k) eqn:E; [apply str_eqb_eq in E; left; exact E|right; apply IH; exact H].
Qed.

Lemma alookup_filter {A} (q : A -> bool) (d : list (str * A)) k :
  NoDup (map fst d) ->
  alookup (filter (fun kv => q (snd kv)) d) k
  = match alookup d k with Some v => if q v then Some v else None | None => None end.
Proof.
  induction d as [|[k0 v0] t IH]; intros Hnd; cbn [filter alookup snd]; [reflexivity|].
  inversion Hnd as [|x l Hx Ht]; subst. specialize (IH Ht).
  destruct (str_eqb k0 k) eqn:E.
  - apply str_eqb_eq in E. subst k0. destruct (q v0) eqn:Eq.
    + cbn [alookup]. rewrite str_eqb_refl. reflexivity.
    + rewrite IH. destruct (alookup t k) as [v|] eqn:El; [|reflexivity].
      exfalso. apply Hx. eapply alookup_in_keys. exact El.
  - destruct (q v0); [cbn [alookup]; rewrite E|]; exact IH.
Qed.

(** * The encoder: which value list is assigned to an attribute (last assignment wins) *)
Fixpoint assigned (sch : schema) (o : obj) (a : str) : option (list eval) :=
  match sch with
  | [] => None
  | (a0, (None, _)) :: r => assigned r o a
  | (a0, (Some f, t)) :: r =>
      match assigned r o a with
      | Some vs => Some vs
      | None =>
          if str_eqb a0 a then
            match alookup o f with
            | Some v => match enc_field t v with Some (Some vs) => Some vs | _ => None end
            | None => None
            end
          else None
      end
  end.

Lemma dict_2_entry_lookup sch o : forall acc e, dict_2_entry sch o acc = Some e ->
  NoDup (map fst acc) ->
  NoDup (map fst e) /\
  forall a, alookup e a = match assigned sch o a with Some vs => Some vs | None => alookup acc a end.
Proof.
  induction sch as [|[a0 [[f|] t]] r IH]; intros acc e He Hnd; cbn [dict_2_entry assigned] in *.
  - inversion He; subst. split; [exact Hnd|reflexivity].
  - destruct (alookup o f) as [v|] eqn:Ev.
    + destruct (enc_field t v) as [[vs|]|] eqn:Een; [| |discriminate].
      * destruct (IH _ _ He (aset_nodup acc a0 vs Hnd)) as [Hnd' Hl]. split; [exact Hnd'|].
        intros a. rewrite Hl. destruct (assigned r o a); [reflexivity|].
        rewrite alookup_aset. destruct (str_eqb a0 a); reflexivity.
      * destruct (IH _ _ He Hnd) as [Hnd' Hl]. split; [exact Hnd'|].
        intros a. rewrite Hl. destruct (assigned r o a); [reflexivity|]. destruct (str_eqb a0 a); reflexivity.
    + destruct (IH _ _ He Hnd) as [Hnd' Hl]. split; [exact Hnd'|].
      intros a. rewrite Hl. destruct (assigned r o a); [reflexivity|]. destruct (str_eqb a0 a); reflexivity.
  - apply IH; assumption.
Qed.

(** * The decoder: which value is assigned to an object field (last assignment wins) *)
Fixpoint decoded (sch : schema) (e : entry) (f : str) : option fval :=
  match sch with
  | [] => None
  | (a0, (None, _)) :: r => decoded r e f
  | (a0, (Some f0, t)) :: r =>
      match decoded r e f with
      | Some v => Some v
      | None =>
          if str_eqb f0 f then
            match alookup e a0 with
            | None => Some (if is_list_type t then FStrs [] else FNone)
            | Some vs => match dec_field t vs with Ok v => Some v | Err _ => None end
            end
          else None
      end
  end.

Definition decodable (sch : schema) (e : entry) : Prop :=
  forall a f t, In (a, (f, t)) (active sch) ->
  match alookup e a with Some vs => exists v, dec_field t vs = Ok v | None => True end.

Lemma in_active_cons a0 f0 t0 r x : In x (active r) -> In x (active ((a0, (f0, t0)) :: r)).
Proof. intros H. cbn [active flat_map]. apply in_or_app. right. exact H. Qed.

Lemma entry_2_dict_loop_lookup sch e : decodable sch e -> forall acc, NoDup (map fst acc) ->
  exists o', entry_2_dict_loop sch e acc = Ok o' /\ NoDup (map fst o') /\
  forall f, alookup o' f = match decoded sch e f with Some v => Some v | None => alookup acc f end.
Proof.
  induction sch as [|[a0 [[f0|] t]] r IH]; intros Hdec acc Hnd; cbn [entry_2_dict_loop decoded].
  - exists acc. split; [reflexivity|]. split; [exact Hnd|reflexivity].
  - assert (Hdec' : decodable r e) by (intros a f t' Hin; apply (Hdec a f t'); apply in_active_cons; exact Hin).
    pose proof (Hdec a0 f0 t (or_introl eq_refl)) as H0. cbn beta in H0.
    destruct (alookup e a0) as [vs|] eqn:El.
    + destruct H0 as [v Hv]. rewrite Hv.
      destruct (IH Hdec' (aset acc f0 v) (aset_nodup acc f0 v Hnd)) as [o' [Ho' [Hnd' Hl]]].
      exists o'. split; [exact Ho'|]. split; [exact Hnd'|].
      intros f. rewrite Hl. destruct (decoded r e f); [reflexivity|].
      rewrite alookup_aset. destruct (str_eqb f0 f); reflexivity.
    + destruct (IH Hdec' (aset acc f0 (if is_list_type t then FStrs [] else FNone))
                    (aset_nodup acc f0 _ Hnd)) as [o' [Ho' [Hnd' Hl]]].
      exists o'. split; [exact Ho'|]. split; [exact Hnd'|].
      intros f. rewrite Hl. destruct (decoded r e f); [reflexivity|].
      rewrite alookup_aset. destruct (str_eqb f0 f); reflexivity.
  - apply IH; [|exact Hnd]. intros a f t' Hin. apply (Hdec a f t'). apply in_active_cons. exact Hin.
Qed.

(** * With distinct attribute names / field names each row is decided by itself *)
Definition row_assigned (o : obj) (f : str) (t : ftype) : option (list eval) :=
  match alookup o f with
  | Some v => match enc_field t v with Some (Some vs) => Some vs | _ => None end
  | None => None
  end.

Lemma assigned_in sch o a vs : assigned sch o a = Some vs -> In a (map fst (active sch)).
Proof.
  revert vs.
  induction sch as [|[a0 [[f0|] t0]] r IH]; cbn [assigned active flat_map app map fst]; intros vs H.
  - discriminate.
  - destruct (assigned r o a) as [vs'|] eqn:E; [right; eapply IH; reflexivity|].
    destruct (str_eqb a0 a) eqn:Ea; [apply str_eqb_eq in Ea; left; exact Ea|discriminate].
  - eapply IH. exact H.
Qed.

Lemma assigned_unique sch o a f t :
  NoDup (map fst (active sch)) -> In (a, (f, t)) (active sch) -> assigned sch o a = row_assigned o f t.
Proof.
  induction sch as [|[a0 [[f0|] t0]] r IH]; cbn [assigned active flat_map app map fst]; intros Hnd Hin.
  - contradiction.
  - inversion Hnd as [|x l Hx Hr]; subst. destruct Hin as [Heq|Hin].
    + inversion Heq; subst. destruct (assigned r o a) as [vs|] eqn:E.
      * exfalso. apply Hx. eapply assigned_in. exact E.
      * rewrite str_eqb_refl. reflexivity.
    + rewrite (IH Hr Hin). destruct (row_assigned o f t); [reflexivity|].
      rewrite str_eqb_neq; [reflexivity|]. intros ->. apply Hx.
      apply in_map_iff. exists (a, (f, t)). split; [reflexivity|exact Hin].
  - apply IH; assumption.
Qed.

Definition row_decoded (e : entry) (a : str) (t : ftype) : option fval :=
  match alookup e a with
  | None => Some (if is_list_type t then FStrs [] else FNone)
  | Some vs => match dec_field t vs with Ok v => Some v | Err _ => None end
  end.

Definition fields (sch : schema) : list str := map (fun r => fst (snd r)) (active sch).

Lemma decoded_in sch e f v : decoded sch e f = Some v -> In f (fields sch).
Proof.
  unfold fields. revert v.
  induction sch as [|[a0 [[f0|] t0]] r IH]; cbn [decoded active flat_map app map fst snd]; intros v H.
  - discriminate.
  - destruct (decoded r e f) as [v'|] eqn:E; [right; eapply IH; reflexivity|].
    destruct (str_eqb f0 f) eqn:Ea; [apply str_eqb_eq in Ea; left; exact Ea|discriminate].
  - eapply IH. exact H.
Qed.

Lemma decoded_unique sch e a f t :
  NoDup (fields sch) -> In (a, (f, t)) (active sch) -> decoded sch e f = row_decoded e a t.
Proof.
  unfold fields.
  induction sch as [|[a0 [[f0|] t0]] r IH]; cbn [decoded active flat_map app map fst snd]; intros Hnd Hin.
  - contradiction.
  - inversion Hnd as [|x l Hx Hr]; subst. destruct Hin as [Heq|Hin].
    + inversion Heq; subst. destruct (decoded r e f) as [v|] eqn:E.
      * exfalso. apply Hx. eapply decoded_in. exact E.
      * rewrite str_eqb_refl. reflexivity.
    + rewrite (IH Hr Hin).
      assert (Hne : f0 <> f).
      { intros ->. apply Hx. apply in_map_iff. exists (a, (f, t)). split; [reflexivity|exact Hin]. }
      destruct (row_decoded e a t) eqn:Er; [reflexivity|]. rewrite (str_eqb_neq f0 f Hne). reflexivity.
  - apply IH; assumption.
Qed.

(** * One field through encode, remove_empty, decode *)
Definition stored (r : option (list eval)) : option (list eval) :=
  match r with Some (x :: l) => Some (x :: l) | _ => None end.

Lemma all_some_map_some {A B} (f : A -> option B) (g : A -> B) l :
  (forall x, f x = Some (g x)) -> all_some (map f l) = Some (map g l).
Proof. intros H. induction l as [|x t IH]; cbn [map all_some]; [reflexivity|]. rewrite H, IH. reflexivity. Qed.

Lemma sort_keys_wf d : wf_value (VDict d) = true -> wf_value (VDict (sort_keys d)) = true.
Proof.
  cbn [wf_value]. intros H. apply andb_true_iff in H as [Hnd Hall]. apply andb_true_iff. split.
  - apply keys_nodup_NoDup. apply keys_nodup_NoDup in Hnd.
    eapply Permutation_NoDup; [|exact Hnd]. apply Permutation_map. apply Permutation_sym. apply sort_keys_perm.
  - eapply forallb_perm; [apply Permutation_sym; apply sort_keys_perm|exact Hall].
Qed.

Lemma stored_map {A} (g : A -> eval) x l : stored (Some (map g (x :: l))) = Some (map g (x :: l)).
Proof. reflexivity. Qed.

Lemma field_roundtrip t v : field_typed t v = true ->
  exists r, enc_field t v = Some r /\
  match stored r with
  | None => expected_field t (Some v) = (if is_list_type t then Some (FStrs []) else None)
  | Some vs => exists w, dec_field t vs = Ok w /\ expected_field t (Some v) = Some w /\ w <> FNone
  end.
Proof.
  destruct v as [|s|z|b|l|l|d]; destruct t; cbn [field_typed]; intros H; try discriminate;
    try (eexists; split; [reflexivity|]; cbn; reflexivity).
  - (* TStr, FStr *) eexists; split; [reflexivity|]. cbn. eexists. repeat split; discriminate.
  - (* TStr, FInt *) eexists; split; [reflexivity|]. cbn. eexists. repeat split; discriminate.
  - (* TInt, FInt *) eexists; split; [reflexivity|]. cbn [stored dec_field eval_int].
    rewrite py_int_str_of_Z. eexists. repeat split; discriminate.
  - (* TBool *) eexists; split; [reflexivity|]. cbn. eexists. repeat split; discriminate.
  - (* TListStr *) destruct l as [|x l'].
    + eexists; split; [reflexivity|]. reflexivity.
    + exists (Some (map EStr (x :: l'))). split; [reflexivity|]. rewrite stored_map. cbn [dec_field].
      rewrite map_map. rewrite (all_some_map_some _ (fun s => s)) by reflexivity. rewrite map_id.
      eexists. repeat split; discriminate.
  - (* TListInt *) destruct l as [|x l'].
    + eexists; split; [reflexivity|]. reflexivity.
    + exists (Some (map (fun z => EStr (str_of_Z z)) (x :: l'))). split; [reflexivity|].
      rewrite stored_map. cbn [dec_field]. rewrite map_map.
      rewrite (all_some_map_some _ (fun z => z)) by (intros z; cbn [eval_int]; apply py_int_str_of_Z).
      rewrite map_id. eexists. repeat split; discriminate.
  - (* TDict *) eexists; split; [reflexivity|]. cbn [stored dec_field].
    rewrite (json_loads_print (VDict (sort_keys d)) (sort_keys_wf d H)).
    eexists. repeat split; discriminate.
Qed.

(** * Store + load *)
Lemma alookup_remove_empty e a : NoDup (map fst e) -> alookup (remove_empty e) a = stored (alookup e a).
Proof.
  intros Hnd. unfold remove_empty.
  rewrite (alookup_filter (fun vs : list eval => match vs with [] => false | _ :: _ => true end) e a Hnd).
  destruct (alookup e a) as [[|x l]|]; reflexivity.
Qed.

Definition drop_none (v : option fval) : option fval := match v with Some FNone => None | x => x end.

Lemma alookup_drop_none (o : obj) f : NoDup (map fst o) ->
  alookup (filter (fun kv => match snd kv with FNone => false | _ => true end) o) f = drop_none (alookup o f).
Proof.
  intros Hnd.
  rewrite (alookup_filter (fun v : fval => match v with FNone => false | _ => true end) o f Hnd).
  destruct (alookup o f) as [[| | | | | |]|]; reflexivity.
Qed.

Lemma dict_2_entry_total sch o : obj_typed sch o = true -> forall acc, exists e, dict_2_entry sch o acc = Some e.
Proof.
  induction sch as [|[a0 [[f0|] t]] r IH]; intros Ht acc; cbn [dict_2_entry].
  - exists acc. reflexivity.
  - cbn [obj_typed forallb] in Ht. apply andb_true_iff in Ht as [Hrow Hr]. fold (obj_typed r o) in Hr.
    destruct (alookup o f0) as [v|] eqn:Ev; [|apply IH; exact Hr].
    destruct (field_roundtrip t v Hrow) as [rr [Hen _]]. rewrite Hen.
    destruct rr as [vs|]; apply IH; exact Hr.
  - cbn [obj_typed forallb] in Ht. fold (obj_typed r o) in Ht. apply IH. exact Ht.
Qed.

Lemma obj_typed_row sch o a f t v :
  obj_typed sch o = true -> In (a, (f, t)) (active sch) -> alookup o f = Some v -> field_typed t v = true.
Proof.
  induction sch as [|[a0 [[f0|] t0]] r IH]; cbn [active flat_map app]; intros Ht Hin Hv.
  - contradiction.
  - cbn [obj_typed forallb] in Ht. apply andb_true_iff in Ht as [Hrow Hr]. fold (obj_typed r o) in Hr.
    destruct Hin as [Heq|Hin]; [|apply IH; assumption].
    inversion Heq; subst. rewrite Hv in Hrow. exact Hrow.
  - cbn [obj_typed forallb] in Ht. fold (obj_typed r o) in Ht. apply IH; assumption.
Qed.

Theorem ldap_roundtrip sch o : wf_schema sch = true -> obj_typed sch o = true ->
  exists o', ldap_store_load sch o = Some (Ok o') /\
    (forall a f t, In (a, (f, t)) (active sch) -> alookup o' f = expected_field t (alookup o f)) /\
    (forall f, ~ In f (fields sch) -> alookup o' f = None).
Proof.
  intros Hwf Ht. unfold wf_schema in Hwf.
  apply andb_true_iff in Hwf as [Hwf _]. apply andb_true_iff in Hwf as [Hna Hnf].
  apply keys_nodup_NoDup in Hna, Hnf. fold (fields sch) in Hnf.
  destruct (dict_2_entry_total sch o Ht []) as [e He].
  destruct (dict_2_entry_lookup sch o [] e He (NoDup_nil _)) as [Hnde Hle].
  (* what the stored entry holds for every active row *)
  assert (Hstored : forall a f t, In (a, (f, t)) (active sch) ->
            alookup (remove_empty e) a = stored (row_assigned o f t)).
  { intros a f t Hin. rewrite (alookup_remove_empty e a Hnde), Hle.
    rewrite (assigned_unique sch o a f t Hna Hin). destruct (row_assigned o f t); reflexivity. }
  (* per row: decodable, and the decoded value *)
  assert (Hrow : forall a f t, In (a, (f, t)) (active sch) ->
            (match alookup (remove_empty e) a with Some vs => exists v, dec_field t vs = Ok v | None => True end)
            /\ drop_none (row_decoded (remove_empty e) a t) = expected_field t (alookup o f)).
  { intros a f t Hin. unfold row_decoded. rewrite (Hstored a f t Hin). unfold row_assigned.
    destruct (alookup o f) as [v|] eqn:Ev.
    - destruct (field_roundtrip t v (obj_typed_row sch o a f t v Ht Hin Ev)) as [rr [Hen Hrr]].
      rewrite Hen.
      assert (Est : stored (match rr with Some vs => Some vs | None => None end) = stored rr)
        by (destruct rr; reflexivity).
      rewrite Est. destruct (stored rr) as [vs|].
      + destruct Hrr as [w [Hw [Hexp Hnn]]]. rewrite Hw. split; [exists w; reflexivity|].
        rewrite Hexp. destruct w; try reflexivity. congruence.
      + split; [exact I|]. rewrite Hrr. destruct (is_list_type t); reflexivity.
    - cbn [stored]. split; [exact I|]. cbn [expected_field]. destruct (is_list_type t); reflexivity. }
  assert (Hdec : decodable sch (remove_empty e)) by (intros a f t Hin; apply (Hrow a f t Hin)).
  destruct (entry_2_dict_loop_lookup sch (remove_empty e) Hdec [] (NoDup_nil _)) as [o1 [Ho1 [Hnd1 Hl1]]].
  exists (filter (fun kv => match snd kv with FNone => false | _ => true end) o1).
  split; [unfold ldap_store_load, entry_2_dict; rewrite He, Ho1; reflexivity|]. split.
  - intros a f t Hin. rewrite (alookup_drop_none o1 f Hnd1), Hl1.
    rewrite (decoded_unique sch (remove_empty e) a f t Hnf Hin).
    destruct (Hrow a f t Hin) as [_ Hexp]. rewrite <- Hexp.
    destruct (row_decoded (remove_empty e) a t); reflexivity.
  - intros f Hnin. rewrite (alookup_drop_none o1 f Hnd1), Hl1.
    destruct (decoded sch (remove_empty e) f) as [v|] eqn:Ed; [|reflexivity].
    exfalso. apply Hnin. eapply decoded_in. exact Ed.
Qed.

(** * _diff_entries: applying the diff to the old entry yields the new entry *)
Definition kmem (k : str) (ks : list str) : bool := existsb (fun x => str_eqb x k) ks.
Definition idmap (ks : list str) : list (str * str) := map (fun k => (k, k)) ks.
Fixpoint kremove (k : str) (ks : list str) : list str :=
  match ks with [] => [] | x :: t => if str_eqb x k then t else x :: kremove k t end.

Lemma kmem_In k ks : kmem k ks = true <-> In k ks.
Proof.
  unfold kmem. rewrite existsb_exists. split.
  - intros [x [Hin Heq]]. apply str_eqb_eq in Heq. subst. exact Hin.
  - intros Hin. exists k. split; [exact Hin|apply str_eqb_refl].
Qed.

Lemma kmem_false k ks : kmem k ks = false <-> ~ In k ks.
Proof.
  split.
  - intros H Hin. apply kmem_In in Hin. congruence.
  - intros H. destruct (kmem k ks) eqn:E; [apply kmem_In in E; contradiction|reflexivity].
Qed.

Lemma alookup_idmap ks a : alookup (idmap ks) a = if kmem a ks then Some a else None.
Proof.
  induction ks as [|x t IH]; cbn [idmap map alookup kmem existsb]; [reflexivity|].
  destruct (str_eqb x a) eqn:E; [apply str_eqb_eq in E; subst; reflexivity|]. cbn [orb]. exact IH.
Qed.

Lemma aremove_idmap ks a : aremove (idmap ks) a = idmap (kremove a ks).
Proof.
  induction ks as [|x t IH]; cbn [idmap map aremove kremove]; [reflexivity|].
  destruct (str_eqb x a); [reflexivity|]. cbn [map]. f_equal. exact IH.
Qed.

Lemma kmem_kremove_other a b ks : a <> b -> kmem a (kremove b ks) = kmem a ks.
Proof.
  intros Hne. induction ks as [|x t IH]; cbn [kremove kmem existsb]; [reflexivity|].
  destruct (str_eqb x b) eqn:E.
  - apply str_eqb_eq in E. subst x. rewrite (str_eqb_neq b a) by congruence. reflexivity.
  - cbn [kmem existsb]. fold (kmem a (kremove b t)). rewrite IH. reflexivity.
Qed.

Lemma kmem_kremove_same a ks : NoDup ks -> kmem a (kremove a ks) = false.
Proof.
  induction ks as [|x t IH]; intros Hnd; cbn [kremove]; [reflexivity|].
  inversion Hnd as [|y l Hx Ht]; subst. destruct (str_eqb x a) eqn:E.
  - apply str_eqb_eq in E. subst x. apply kmem_false. exact Hx.
  - cbn [kmem existsb]. rewrite E. cbn [orb]. apply IH. exact Ht.
Qed.

Lemma kremove_nodup a ks : NoDup ks -> NoDup (kremove a ks).
Proof.
  induction ks as [|x t IH]; intros Hnd; cbn [kremove]; [constructor|].
  inversion Hnd as [|y l Hx Ht]; subst. destruct (str_eqb x a); [exact Ht|].
  constructor; [|apply IH; exact Ht]. intros Hin. apply Hx.
  clear -Hin. induction t as [|y t IH]; cbn [kremove] in Hin; [contradiction|].
  destruct (str_eqb y a); [right; exact Hin|]. destruct Hin as [->|Hin]; [left; reflexivity|right; apply IH; exact Hin].
Qed.

Definition ops_for (old : entry) (ks : list str) (a : str) (nv : list eval) : mods :=
  let ov := if kmem a ks then eget old a else [] in
  match ov, nv with
  | [], [] => []
  | [], _ :: _ => [(a, MAdd nv)]
  | _ :: _, [] => [(a, MDelete)]
  | _ :: _, _ :: _ => if values_differ ov nv then [(a, MReplace nv)] else []
  end.

Definition leftover (ks : list str) (new : entry) : list str :=
  fold_left (fun ks kv => kremove (fst kv) ks) new ks.

Definition lowercase_keys {A} (e : list (str * A)) : Prop := forall kv, In kv e -> lower (fst kv) = fst kv.

Lemma ops_for_kremove old a ks (r : entry) : ~ In a (map fst r) ->
  flat_map (fun kv => ops_for old (kremove a ks) (fst kv) (snd kv)) r
  = flat_map (fun kv => ops_for old ks (fst kv) (snd kv)) r.
Proof.
  induction r as [|[b bv] r' IH]; intros Hn; [reflexivity|]. cbn [flat_map fst snd].
  rewrite IH by (intros Hin; apply Hn; right; exact Hin).
  unfold ops_for. rewrite kmem_kremove_other; [reflexivity|].
  intros ->. apply Hn. left. reflexivity.
Qed.

Lemma diff_new_spec old new : NoDup (map fst new) -> lowercase_keys new -> forall ks,
  diff_new old (idmap ks) new
  = (flat_map (fun kv => ops_for old ks (fst kv) (snd kv)) new, idmap (leftover ks new)).
Proof.
  induction new as [|[a nv] r IH]; intros Hnd Hlow ks; [reflexivity|].
  inversion Hnd as [|x l Ha Hr]; subst.
  assert (Hlow' : lowercase_keys r) by (intros kv Hin; apply Hlow; right; exact Hin).
  pose proof (Hlow (a, nv) (or_introl eq_refl)) as Hla. cbn [fst] in Hla.
  cbn [diff_new flat_map leftover fold_left fst snd]. rewrite Hla, alookup_idmap.
  pose proof (ops_for_kremove old a ks r Ha) as Hsame.
  destruct (kmem a ks) eqn:Ek.
  - cbn [fst snd]. rewrite aremove_idmap, (IH Hr Hlow' (kremove a ks)). cbn [fst snd].
    rewrite Hsame. unfold ops_for at 2. rewrite Ek. cbv zeta.
    destruct (eget old a); destruct nv; reflexivity.
  - cbn [fst snd]. rewrite (IH Hr Hlow' ks). cbn [fst snd].
    unfold ops_for at 2. rewrite Ek. cbv zeta.
    assert (Hk : kremove a ks = ks).
    { apply kmem_false in Ek. clear -Ek. induction ks as [|x t IHk]; [reflexivity|]. cbn [kremove].
      rewrite str_eqb_neq by (intros ->; apply Ek; left; reflexivity).
      f_equal. apply IHk. intros Hin. apply Ek. right. exact Hin. }
    rewrite Hk. reflexivity.
Qed.

Lemma aset_fresh {A} (d : list (str * A)) k v : ~ In k (map fst d) -> aset d k v = d ++ [(k, v)].
Proof.
  induction d as [|[k0 v0] t IH]; intros Hn; cbn [aset app]; [reflexivity|].
  rewrite str_eqb_neq by (intros ->; apply Hn; left; reflexivity).
  f_equal. apply IH. intros Hin. apply Hn. right. exact Hin.
Qed.

Lemma lower_map_spec old : NoDup (map fst old) -> lowercase_keys old -> lower_map old = idmap (map fst old).
Proof.
  intros Hnd Hlow. unfold lower_map.
  assert (H : forall m ks, m = idmap ks -> (forall k, In k ks -> ~ In k (map fst old)) -> NoDup (map fst old) ->
              lowercase_keys old ->
              fold_left (fun m kv => aset m (lower (fst kv)) (fst kv)) old m = idmap (ks ++ map fst old)).
  { clear. induction old as [|[a v] r IH]; intros m ks -> Hdis Hnd Hlow.
    - cbn. rewrite app_nil_r. reflexivity.
    - inversion Hnd as [|x l Ha Hr]; subst. cbn [fold_left fst map].
      pose proof (Hlow (a, v) (or_introl eq_refl)) as Hla. cbn [fst] in Hla. rewrite Hla.
      rewrite aset_fresh.
      + rewrite (IH (idmap ks ++ [(a, a)]) (ks ++ [a])).
        * rewrite <- app_assoc. reflexivity.
        * unfold idmap. rewrite map_app. reflexivity.
        * intros k Hin Hin'. apply in_app_or in Hin as [Hin|[<-|[]]]; [|contradiction].
          apply (Hdis k Hin). right. exact Hin'.
        * exact Hr.
        * intros kv Hin. apply Hlow. right. exact Hin.
      + unfold idmap. rewrite map_map. cbn [fst]. rewrite map_id. intros Hin.
        apply (Hdis a Hin). left. reflexivity. }
  apply (H [] [] eq_refl); [intros k []|exact Hnd|exact Hlow].
Qed.

(** ** LDAP modify on association lists *)
Definition effect (op : modop) (cur : list eval) : list eval :=
  match op with MAdd vs => cur ++ vs | MReplace vs => vs | MDelete => [] end.

Lemma alookup_none_notin {A} (d : list (str * A)) k : ~ In k (map fst d) -> alookup d k = None.
Proof.
  intros Hn. destruct (alookup d k) as [v|] eqn:E; [|reflexivity].
  exfalso. apply Hn. eapply alookup_in_keys. exact E.
Qed.

Lemma alookup_aremove {A} (d : list (str * A)) k a : NoDup (map fst d) ->
  alookup (aremove d k) a = if str_eqb k a then None else alookup d a.
Proof.
  induction d as [|[k0 v0] t IH]; intros Hnd; cbn [aremove alookup]; [destruct (str_eqb k a); reflexivity|].
  inversion Hnd as [|x l Hx Ht]; subst. destruct (str_eqb k0 k) eqn:E0.
  - apply str_eqb_eq in E0. subst k0. destruct (str_eqb k a) eqn:E1; [|reflexivity].
    apply str_eqb_eq in E1. subst a. apply alookup_none_notin. exact Hx.
  - cbn [alookup]. rewrite (IH Ht). destruct (str_eqb k0 a) eqn:E2; [|reflexivity].
    apply str_eqb_eq in E2. subst a. rewrite str_eqb_neq; [reflexivity|].
    intros ->. rewrite str_eqb_refl in E0. discriminate.
Qed.

Lemma aremove_keys_incl {A} (d : list (str * A)) k x : In x (map fst (aremove d k)) -> In x (map fst d).
Proof.
  induction d as [|[k0 v0] t IH]; cbn [aremove map fst]; [intros []|].
  destruct (str_eqb k0 k); [intros H; right; exact H|]. cbn [map fst].
  intros [H|H]; [left; exact H|right; apply IH; exact H].
Qed.

Lemma aremove_nodup {A} (d : list (str * A)) k : NoDup (map fst d) -> NoDup (map fst (aremove d k)).
Proof.
  induction d as [|[k0 v0] t IH]; intros Hnd; cbn [aremove]; [constructor|].
  inversion Hnd as [|x l Hx Ht]; subst. destruct (str_eqb k0 k); [exact Ht|].
  cbn [map fst]. constructor; [|apply IH; exact Ht]. intros Hin. apply Hx. eapply aremove_keys_incl. exact Hin.
Qed.

Lemma apply_mod_spec e m a : NoDup (map fst e) ->
  NoDup (map fst (apply_mod e m)) /\
  eget (apply_mod e m) a = if str_eqb (fst m) a then effect (snd m) (eget e (fst m)) else eget e a.
Proof.
  intros Hnd. destruct m as [k op]. unfold apply_mod, eget. cbn [fst snd].
  destruct op as [vs|vs|]; cbn [effect].
  - split; [apply aset_nodup; exact Hnd|]. rewrite alookup_aset. destruct (str_eqb k a); reflexivity.
  - split; [apply aset_nodup; exact Hnd|]. rewrite alookup_aset. destruct (str_eqb k a); reflexivity.
  - split; [apply aremove_nodup; exact Hnd|]. rewrite (alookup_aremove e k a Hnd).
    destruct (str_eqb k a); reflexivity.
Qed.

Lemma apply_mods_spec ms a : NoDup (map fst ms) -> forall e, NoDup (map fst e) ->
  eget (apply_mods e ms) a = match alookup ms a with Some op => effect op (eget e a) | None => eget e a end.
Proof.
  induction ms as [|[k op] r IH]; intros Hnd e Hnde; [reflexivity|].
  inversion Hnd as [|x l Hk Hr]; subst. unfold apply_mods. cbn [fold_left alookup].
  destruct (apply_mod_spec e (k, op) a Hnde) as [Hnd' Hget]. cbn [fst snd] in Hget.
  fold (apply_mods (apply_mod e (k, op)) r). rewrite (IH Hr _ Hnd'). rewrite Hget.
  destruct (str_eqb k a) eqn:E.
  - apply str_eqb_eq in E. subst a. rewrite (alookup_none_notin r k Hk). reflexivity.
  - reflexivity.
Qed.

(** ** The shape of the diff *)
Definition op_of (old : entry) (ks : list str) (a : str) (nv : list eval) : option modop :=
  let ov := if kmem a ks then eget old a else [] in
  match ov, nv with
  | [], [] => None
  | [], _ :: _ => Some (MAdd nv)
  | _ :: _, [] => Some MDelete
  | _ :: _, _ :: _ => if values_differ ov nv then Some (MReplace nv) else None
  end.

Lemma ops_for_op_of old ks a nv :
  ops_for old ks a nv = match op_of old ks a nv with Some op => [(a, op)] | None => [] end.
Proof.
  unfold ops_for, op_of. cbv zeta. destruct (if kmem a ks then eget old a else []) as [|x l]; destruct nv as [|y t];
    try reflexivity. destruct (values_differ (x :: l) (y :: t)); reflexivity.
Qed.

Lemma alookup_app {A} (l1 l2 : list (str * A)) a :
  alookup (l1 ++ l2) a = match alookup l1 a with Some v => Some v | None => alookup l2 a end.
Proof.
  induction l1 as [|[k v] t IH]; cbn [app alookup]; [reflexivity|]. destruct (str_eqb k a); [reflexivity|exact IH].
Qed.

Lemma part1_keys old ks (new : entry) x :
  In x (map fst (flat_map (fun kv => ops_for old ks (fst kv) (snd kv)) new)) -> In x (map fst new).
Proof.
  induction new as [|[b bv] r IH]; cbn [flat_map map fst snd]; [intros []|].
  rewrite map_app. intros Hin. apply in_app_or in Hin as [Hin|Hin]; [|right; apply IH; exact Hin].
  rewrite ops_for_op_of in Hin. destruct (op_of old ks b bv); [|contradiction].
  destruct Hin as [<-|[]]. left. reflexivity.
Qed.

Lemma part1_nodup old ks (new : entry) : NoDup (map fst new) ->
  NoDup (map fst (flat_map (fun kv => ops_for old ks (fst kv) (snd kv)) new)).
Proof.
  induction new as [|[b bv] r IH]; intros Hnd; cbn [flat_map map fst snd]; [constructor|].
  inversion Hnd as [|x l Hb Hr]; subst. rewrite map_app. rewrite ops_for_op_of.
  destruct (op_of old ks b bv); cbn [map fst app]; [|apply IH; exact Hr].
  constructor; [|apply IH; exact Hr]. intros Hin. apply Hb. eapply part1_keys. exact Hin.
Qed.

Lemma part1_lookup old ks (new : entry) a : NoDup (map fst new) ->
  alookup (flat_map (fun kv => ops_for old ks (fst kv) (snd kv)) new) a
  = match alookup new a with Some nv => op_of old ks a nv | None => None end.
Proof.
  induction new as [|[b bv] r IH]; intros Hnd; cbn [flat_map alookup fst snd]; [reflexivity|].
  inversion Hnd as [|x l Hb Hr]; subst. rewrite alookup_app, ops_for_op_of, (IH Hr).
  destruct (str_eqb b a) eqn:E.
  - apply str_eqb_eq in E. subst b. rewrite (alookup_none_notin r a Hb).
    destruct (op_of old ks a bv); cbn [alookup]; [rewrite str_eqb_refl|]; reflexivity.
  - destruct (op_of old ks b bv); cbn [alookup]; [rewrite E|]; reflexivity.
Qed.

Lemma leftover_spec (new : entry) : forall ks, NoDup ks ->
  NoDup (leftover ks new) /\
  forall b, kmem b (leftover ks new) = kmem b ks && negb (kmem b (map fst new)).
Proof.
  induction new as [|[a nv] r IH]; intros ks Hnd.
  - split; [exact Hnd|]. intros b. cbn. rewrite andb_true_r. reflexivity.
  - unfold leftover. cbn [fold_left fst]. fold (leftover (kremove a ks) r).
    destruct (IH (kremove a ks) (kremove_nodup a ks Hnd)) as [Hnd' Hk]. split; [exact Hnd'|].
    intros b. rewrite Hk. cbn [map fst kmem existsb]. fold (kmem b (map fst r)).
    destruct (str_eqb a b) eqn:E.
    + apply str_eqb_eq in E. subst b. rewrite (kmem_kremove_same a ks Hnd). cbn. rewrite andb_false_r. reflexivity.
    + rewrite kmem_kremove_other; [reflexivity|]. intros ->. rewrite str_eqb_refl in E. discriminate.
Qed.

Lemma part2_lookup L a :
  alookup (map (fun k : str => (k, MDelete)) L) a = if kmem a L then Some MDelete else None.
Proof.
  induction L as [|x t IH]; cbn [map alookup kmem existsb]; [reflexivity|].
  destruct (str_eqb x a); [reflexivity|]. cbn [orb]. exact IH.
Qed.

Lemma nodup_app_intro {A} (l1 l2 : list A) :
  NoDup l1 -> NoDup l2 -> (forall x, In x l1 -> ~ In x l2) -> NoDup (l1 ++ l2).
Proof.
  induction l1 as [|x t IH]; intros H1 H2 Hd; cbn [app]; [exact H2|].
  inversion H1 as [|y l Hx Ht]; subst. constructor.
  - intros Hin. apply in_app_or in Hin as [Hin|Hin]; [contradiction|]. apply (Hd x (or_introl eq_refl) Hin).
  - apply IH; [exact Ht|exact H2|]. intros z Hz. apply Hd. right. exact Hz.
Qed.

Lemma values_same ov nv : values_differ ov nv = false -> same_values ov nv.
Proof.
  unfold values_differ. intros H. apply orb_false_iff in H as [H H3]. apply orb_false_iff in H as [_ H2].
  apply negb_false_iff in H2, H3. rewrite forallb_forall in H2, H3. split.
  - intros v Hv. unfold emem in Hv. apply existsb_exists in Hv as [w [Hin Heq]].
    assert (v = w).
    { destruct v, w; cbn in Heq; try discriminate; [apply str_eqb_eq in Heq|apply eqb_prop in Heq]; congruence. }
    subst w. apply H2. exact Hin.
  - intros v Hv. unfold emem in Hv. apply existsb_exists in Hv as [w [Hin Heq]].
    assert (v = w).
    { destruct v, w; cbn in Heq; try discriminate; [apply str_eqb_eq in Heq|apply eqb_prop in Heq]; congruence. }
    subst w. apply H3. exact Hin.
Qed.

Lemma same_values_refl l : same_values l l.
Proof. split; intros v H; exact H. Qed.

Lemma entry_ok_spec e : entry_ok e = true -> NoDup (map fst e) /\ lowercase_keys e.
Proof.
  unfold entry_ok. intros H. apply andb_true_iff in H as [H1 H2]. split.
  - apply keys_nodup_NoDup. exact H1.
  - intros kv Hin. rewrite forallb_forall in H2. apply str_eqb_eq. apply H2. exact Hin.
Qed.

Theorem diff_applied_yields_new old new : entry_ok old = true -> entry_ok new = true ->
  forall a, same_values (eget (apply_mods old (diff_entries old new)) a) (eget new a).
Proof.
  intros Hold Hnew a.
  destruct (entry_ok_spec old Hold) as [Hndo Hlowo]. destruct (entry_ok_spec new Hnew) as [Hndn Hlown].
  set (K := map fst old).
  assert (HK : NoDup K) by exact Hndo.
  unfold diff_entries. rewrite (lower_map_spec old Hndo Hlowo). fold K.
  rewrite (diff_new_spec old new Hndn Hlown K). cbn [fst snd].
  unfold idmap. rewrite map_map. cbn [snd].
  destruct (leftover_spec new K HK) as [HndL HL].
  set (P1 := flat_map (fun kv => ops_for old K (fst kv) (snd kv)) new).
  set (L := leftover K new) in *.
  assert (HndD : NoDup (map fst (P1 ++ map (fun k : str => (k, MDelete)) L))).
  { rewrite map_app. apply nodup_app_intro.
    - apply part1_nodup. exact Hndn.
    - rewrite map_map. cbn [fst]. rewrite map_id. exact HndL.
    - intros x Hx Hx2. rewrite map_map in Hx2. cbn [fst] in Hx2. rewrite map_id in Hx2.
      apply part1_keys in Hx. apply kmem_In in Hx, Hx2. rewrite HL in Hx2. rewrite Hx in Hx2.
      rewrite andb_false_r in Hx2. discriminate. }
  rewrite (apply_mods_spec _ a HndD old Hndo). rewrite alookup_app.
  unfold P1. rewrite (part1_lookup old K new a Hndn), part2_lookup. fold L. rewrite HL.
  assert (HKa : (if kmem a K then eget old a else []) = eget old a).
  { destruct (kmem a K) eqn:E; [reflexivity|]. unfold eget. rewrite alookup_none_notin; [reflexivity|].
    apply kmem_false. exact E. }
  unfold eget at 3. destruct (alookup new a) as [nv|] eqn:En.
  - (* the attribute is in the new entry *)
    assert (Hin : kmem a (map fst new) = true) by (apply kmem_In; eapply alookup_in_keys; exact En).
    rewrite Hin. cbn [negb]. rewrite andb_false_r.
    unfold op_of. rewrite HKa. cbv zeta.
    destruct (eget old a) as [|x l] eqn:Eo; destruct nv as [|y t]; cbn [effect app].
    + apply same_values_refl.
    + apply same_values_refl.
    + apply same_values_refl.
    + destruct (values_differ (x :: l) (y :: t)) eqn:Ed; cbn [effect].
      * apply same_values_refl.
      * apply values_same. exact Ed.
  - (* not in the new entry: deleted if the old entry has it *)
    assert (Hnin : kmem a (map fst new) = false).
    { apply kmem_false. intros Hin. apply in_map_iff in Hin as [[k v] [Hk Hin]]. cbn [fst] in Hk. subst k.
      clear -Hin En Hndn. induction new as [|[b bv] r IH]; [contradiction|].
      cbn [alookup] in En. inversion Hndn as [|x l Hb Hr]; subst. destruct (str_eqb b a) eqn:E; [discriminate|].
      destruct Hin as [Heq|Hin]; [inversion Heq; subst; rewrite str_eqb_refl in E; discriminate|].
      apply (IH Hr En Hin). }
    rewrite Hnin. cbn [negb]. rewrite andb_true_r. destruct (kmem a K) eqn:Ek; cbn [effect].
    + apply same_values_refl.
    + rewrite <- HKa. apply same_values_refl.
Qed.

(** every schema of a checked table *)
Theorem ldap_roundtrip_table (tbl : str -> schema) (names : list str) :
  forallb (fun n => wf_schema (tbl n)) names = true ->
  forall n, In n names -> forall o, obj_typed (tbl n) o = true ->
  exists o', ldap_store_load (tbl n) o = Some (Ok o') /\
    (forall a f t, In (a, (f, t)) (active (tbl n)) -> alookup o' f = expected_field t (alookup o f)) /\
    (forall f, ~ In f (fields (tbl n)) -> alookup o' f = None).
Proof.
  intros Hall n Hin o Ht. rewrite forallb_forall in Hall. apply ldap_roundtrip; [apply Hall; exact Hin|exact Ht].
Qed.
