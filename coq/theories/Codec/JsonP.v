(** Proofs about Codec/Json.v: json.loads (json.dumps v) = canon v, the ZooKeeper payload round trip,
    None <-> empty payload, injectivity. *)
From Coq Require Import ZArith List Bool Lia ZifyBool Permutation.
From TM Require Import Codec.BaseN Codec.BaseNP Codec.Dec Codec.DecP Codec.Json.
Import ListNotations.
Open Scope Z_scope.

(** * Hex escapes *)
Lemma unhexchar_hexchar d : 0 <= d < 16 -> unhexchar (hexchar d) = Some d.
Proof.
  intros H. unfold hexchar, unhexchar. destruct (d <? 10) eqn:E.
  - replace ((48 <=? 48 + d) && (48 + d <=? 57)) with true by lia. f_equal. lia.
  - replace ((48 <=? 87 + d) && (87 + d <=? 57)) with false by lia.
    replace ((97 <=? 87 + d) && (87 + d <=? 102)) with true by lia. f_equal. lia.
Qed.

Lemma unhex4_hex4 c : 0 <= c < 65536 ->
  unhex4 (hexchar (c / 4096)) (hexchar ((c / 256) mod 16)) (hexchar ((c / 16) mod 16)) (hexchar (c mod 16))
  = Some c.
Proof.
  intros H. unfold unhex4.
  assert (H1 : 0 <= c / 4096 < 16) by (split; [apply Z.div_pos; lia|apply Z.div_lt_upper_bound; lia]).
  assert (H2 : 0 <= (c / 256) mod 16 < 16) by (apply Z.mod_pos_bound; lia).
  assert (H3 : 0 <= (c / 16) mod 16 < 16) by (apply Z.mod_pos_bound; lia).
  assert (H4 : 0 <= c mod 16 < 16) by (apply Z.mod_pos_bound; lia).
  rewrite !unhexchar_hexchar by assumption. f_equal.
  pose proof (Z.div_mod c 16 ltac:(lia)) as E1.
  pose proof (Z.div_mod (c / 16) 16 ltac:(lia)) as E2.
  pose proof (Z.div_mod (c / 16 / 16) 16 ltac:(lia)) as E3.
  rewrite Z.div_div in E2, E3 by lia. rewrite Z.div_div in E3 by lia.
  change (16 * 16) with 256 in *. change (256 * 16) with 4096 in *.
  assert (E4 : (c / 4096) mod 16 = c / 4096) by (apply Z.mod_small; lia).
  lia.
Qed.

(** * Strings *)
Lemma char_ok_range c : char_ok c = true -> 0 <= c < 55296.
Proof. unfold char_ok. lia. Qed.

Lemma parse_string_esc s : str_ok s = true -> forall acc rest,
  parse_string_body (flat_map esc_char s ++ 34 :: rest) acc = POk (rev acc ++ s) rest.
Proof.
  induction s as [|c s IH]; intros Hok acc rest.
  - cbn. rewrite app_nil_r. reflexivity.
  - cbn [str_ok forallb] in Hok. apply andb_true_iff in Hok as [Hc Hs]. apply char_ok_range in Hc.
    specialize (IH Hs). cbn [flat_map]. rewrite <- app_assoc.
    assert (Hstep : forall x, rev (x :: acc) ++ s = rev acc ++ x :: s)
      by (intros x; cbn [rev]; rewrite <- app_assoc; reflexivity).
    unfold esc_char.
    destruct (c =? 34) eqn:E34; [apply Z.eqb_eq in E34; subst c; cbn; rewrite IH, Hstep; reflexivity|].
    destruct (c =? 92) eqn:E92; [apply Z.eqb_eq in E92; subst c; cbn; rewrite IH, Hstep; reflexivity|].
    destruct (c =? 10) eqn:E10; [apply Z.eqb_eq in E10; subst c; cbn; rewrite IH, Hstep; reflexivity|].
    destruct (c =? 13) eqn:E13; [apply Z.eqb_eq in E13; subst c; cbn; rewrite IH, Hstep; reflexivity|].
    destruct (c =? 9) eqn:E9; [apply Z.eqb_eq in E9; subst c; cbn; rewrite IH, Hstep; reflexivity|].
    destruct (c =? 8) eqn:E8; [apply Z.eqb_eq in E8; subst c; cbn; rewrite IH, Hstep; reflexivity|].
    destruct (c =? 12) eqn:E12; [apply Z.eqb_eq in E12; subst c; cbn; rewrite IH, Hstep; reflexivity|].
    destruct ((32 <=? c) && (c <=? 126)) eqn:Ep.
    + cbn [app parse_string_body]. rewrite E34, E92.
      replace (c <? 32) with false by lia. rewrite IH, Hstep. reflexivity.
    + unfold hex4. cbn [app parse_string_body].
      change (92 =? 34) with false. change (92 =? 92) with true. cbv iota.
      change (117 =? 34) with false. change (117 =? 92) with false. change (117 =? 47) with false.
      change (117 =? 98) with false. change (117 =? 102) with false. change (117 =? 110) with false.
      change (117 =? 114) with false. change (117 =? 116) with false. change (117 =? 117) with true.
      cbv iota. rewrite unhex4_hex4 by lia.
      replace ((55296 <=? c) && (c <=? 57343)) with false by lia. rewrite IH, Hstep. reflexivity.
Qed.

Lemma parse_print_string s rest : str_ok s = true ->
  exists t, print_string s ++ rest = 34 :: t /\ parse_string_body t [] = POk s rest.
Proof.
  intros Hok. exists (flat_map esc_char s ++ 34 :: rest). split.
  - unfold print_string. cbn [app]. rewrite <- app_assoc. reflexivity.
  - rewrite parse_string_esc by exact Hok. reflexivity.
Qed.

(** * Numbers *)
(** what may follow a printed value: nothing, ',', ']' or '}' *)
Definition after_ok (rest : str) : bool :=
  match rest with [] => true | c :: _ => (c =? 44) || (c =? 93) || (c =? 125) end.

Lemma after_ok_float rest : after_ok rest = true -> float_follows rest = false.
Proof.
  destruct rest as [|e r]; [reflexivity|]. cbn [after_ok float_follows]. intros H.
  destruct (e =? 46) eqn:E1; [lia|]. destruct ((e =? 101) || (e =? 69)) eqn:E2; [lia|reflexivity].
Qed.

Lemma take_digits_app ds rest :
  Forall (fun c => In c digits10) ds -> after_ok rest = true -> take_digits (ds ++ rest) = (ds, rest).
Proof.
  intros Hall Hr. induction ds as [|c t IH]; cbn [app take_digits].
  - destruct rest as [|e r]; [reflexivity|]. cbn [take_digits after_ok] in *.
    replace (is_digit e) with false by (unfold is_digit; lia). reflexivity.
  - inversion Hall as [|x l Hc Ht]; subst. destruct (digit_props c Hc) as [Hd _]. rewrite Hd.
    rewrite (IH Ht). reflexivity.
Qed.

Lemma digits_value_val ds : Forall (fun c => In c digits10) ds ->
  forall v acc, val digits10 10 ds = Some v -> digits_value ds acc = acc * 10 ^ zlen ds + v.
Proof.
  induction ds as [|c t IH]; intros Hall v acc Hv.
  - cbn in Hv. inversion Hv; subst. cbn. lia.
  - inversion Hall as [|x l Hc Ht]; subst. destruct (digit_props c Hc) as [_ [Hi _]].
    cbn [val] in Hv. rewrite Hi in Hv. destruct (val digits10 10 t) as [v'|] eqn:Ev; [|discriminate].
    inversion Hv; subst v. cbn [digits_value]. rewrite (IH Ht v' _ eq_refl).
    rewrite zlen_cons. rewrite Z.pow_add_r by (pose proof (zlen_nonneg t); lia). rewrite Z.pow_1_r. ring.
Qed.

Lemma val_bound ds : Forall (fun c => In c digits10) ds ->
  forall v, val digits10 10 ds = Some v -> 0 <= v < 10 ^ zlen ds.
Proof.
  induction ds as [|c t IH]; intros Hall v Hv.
  - cbn in Hv. inversion Hv; subst. cbn. lia.
  - inversion Hall as [|x l Hc Ht]; subst. destruct (digit_props c Hc) as [Hd [Hi _]].
    cbn [val] in Hv. rewrite Hi in Hv. destruct (val digits10 10 t) as [v'|] eqn:Ev; [|discriminate].
    inversion Hv; subst v. specialize (IH Ht v' eq_refl).
    rewrite zlen_cons. rewrite Z.pow_add_r by (pose proof (zlen_nonneg t); lia). rewrite Z.pow_1_r.
    unfold is_digit in Hd. nia.
Qed.

Lemma str_of_nonneg_shape n : 0 <= n ->
  exists c t, str_of_nonneg n = c :: t /\ In c digits10 /\ Forall (fun x => In x digits10) t
              /\ val digits10 10 (c :: t) = Some n /\ (n = 0 -> c = 48 /\ t = []) /\ (0 < n -> c <> 48).
Proof.
  intros Hn.
  destruct (to_base_n_spec digits10 10 n digits10_nodup) as [s [Hs [Hv [Hl [Hlen Hall]]]]];
    [change (zlen digits10) with 10; lia | exact Hn|].
  assert (Es : str_of_nonneg n = s) by (unfold str_of_nonneg; rewrite Hs; reflexivity).
  destruct s as [|c t]; [cbn in Hl; lia|]. inversion Hall as [|x l Hc Ht]; subst.
  exists c, t. split; [exact Es|]. split; [exact Hc|]. split; [exact Ht|]. split; [exact Hv|]. split.
  - intros ->. vm_compute in Es. inversion Es. split; reflexivity.
  - intros Hpos Hc48. subst c. cbn [val index_of digits10] in Hv. cbn in Hv.
    destruct (val digits10 10 t) as [v'|] eqn:Ev; [|discriminate].
    pose proof (val_bound t Ht v' Ev) as Hb.
    assert (v' = n) by (inversion Hv; lia). subst v'.
    destruct t as [|d t'].
    + cbn in Ev. inversion Ev. lia.
    + pose proof (Hlen (length (d :: t')) ltac:(cbn; lia) ltac:(unfold zlen in Hb; lia)) as Hk.
      cbn in Hk. lia.
Qed.

Lemma parse_nat_print n rest : 0 <= n -> after_ok rest = true ->
  parse_nat (str_of_nonneg n ++ rest) = POk n rest.
Proof.
  intros Hn Hr. destruct (str_of_nonneg_shape n Hn) as [c [t [Es [Hc [Ht [Hv [H0 Hpos]]]]]]].
  rewrite Es. cbn [app parse_nat]. destruct (c =? 48) eqn:E.
  - assert (n = 0) by (destruct (Z.eq_dec n 0); [assumption|exfalso; apply Hpos; lia]).
    destruct (H0 H) as [_ ->]. cbn [app]. rewrite (after_ok_float rest Hr). subst n. reflexivity.
  - destruct (digit_props c Hc) as [Hd [Hi _]]. rewrite Hd.
    rewrite (take_digits_app t rest Ht Hr). rewrite (after_ok_float rest Hr).
    cbn [val] in Hv. rewrite Hi in Hv. destruct (val digits10 10 t) as [v'|] eqn:Ev; [|discriminate].
    rewrite (digits_value_val t Ht v' _ Ev). inversion Hv. reflexivity.
Qed.

(** * Values: induction principle, fuel measure, first character *)
Section ValueInd.
  Variable P : value -> Prop.
  Hypothesis Hnull : P VNull.
  Hypothesis Hbool : forall b, P (VBool b).
  Hypothesis Hint : forall z, P (VInt z).
  Hypothesis Hstr : forall s, P (VStr s).
  Hypothesis Hlist : forall l, Forall P l -> P (VList l).
  Hypothesis Hdict : forall d, Forall (fun kv => P (snd kv)) d -> P (VDict d).

  Fixpoint value_ind' (v : value) : P v :=
    match v with
    | VNull => Hnull
    | VBool b => Hbool b
    | VInt z => Hint z
    | VStr s => Hstr s
    | VList l =>
        Hlist l ((fix go (l : list value) : Forall P l :=
                    match l with
                    | [] => Forall_nil P
                    | x :: t => Forall_cons x (value_ind' x) (go t)
                    end) l)
    | VDict d =>
        Hdict d ((fix go (d : list (str * value)) : Forall (fun kv => P (snd kv)) d :=
                    match d with
                    | [] => Forall_nil _
                    | (k, x) :: t => @Forall_cons _ (fun kv => P (snd kv)) (k, x) t (value_ind' x) (go t)
                    end) d)
    end.
End ValueInd.

Fixpoint need (v : value) : nat :=
  match v with
  | VList l => S (fold_right (fun n acc => S (Nat.max n acc)) 0%nat (map need l))
  | VDict d => S (fold_right (fun n acc => S (Nat.max n acc)) 0%nat
                             (map (fun kv => match kv with (_, x) => need x end) d))
  | _ => 1%nat
  end.
Definition need_seq (ns : list nat) : nat := fold_right (fun n acc => S (Nat.max n acc)) 0%nat ns.

Definition head_ok (s : str) : Prop :=
  exists c t, s = c :: t /\ is_jws c = false /\ c <> 93 /\ c <> 125.

Lemma print_string_head s : head_ok (print_string s).
Proof. unfold print_string. exists 34, (flat_map esc_char s ++ [34]). repeat split; discriminate. Qed.

Lemma print_head v : head_ok (print_value v).
Proof.
  destruct v as [|b|z|s|l|d]; cbn [print_value].
  - eexists; eexists; split; [reflexivity|]. repeat split; discriminate.
  - destruct b; eexists; eexists; (split; [reflexivity|]); repeat split; discriminate.
  - unfold str_of_Z. destruct (z <? 0) eqn:Ez.
    + eexists; eexists; split; [reflexivity|]. repeat split; discriminate.
    + destruct (str_of_nonneg_shape z) as [c [t [Es [Hc _]]]]; [lia|]. rewrite Es.
      exists c, t. split; [reflexivity|]. destruct (digit_props c Hc) as [Hd _].
      unfold is_digit in Hd. unfold is_jws. repeat split; lia.
  - apply print_string_head.
  - eexists; eexists; split; [reflexivity|]. repeat split; discriminate.
  - eexists; eexists; split; [reflexivity|]. repeat split; discriminate.
Qed.

Lemma head_ok_app s r : head_ok s -> head_ok (s ++ r).
Proof. intros [c [t [-> H]]]. exists c, (t ++ r). split; [reflexivity|exact H]. Qed.

Lemma skip_ws_head s : head_ok s -> skip_ws s = s.
Proof. intros [c [t [-> [H _]]]]. cbn [skip_ws]. rewrite H. reflexivity. Qed.

Lemma join_with_head sep x t : head_ok x -> head_ok (join_with sep (x :: t)).
Proof. intros H. destruct t; cbn [join_with]; [exact H|apply head_ok_app; exact H]. Qed.

(** * parse_value inverts print_value *)
Definition parses (v : value) : Prop :=
  wf_value v = true -> forall fuel rest, (need v <= fuel)%nat -> after_ok rest = true ->
  parse_value fuel (print_value v ++ rest) = POk v rest.

Ltac not_char H c k := replace (c =? k) with false by (unfold is_digit in H; lia).

Lemma parses_int z : parses (VInt z).
Proof.
  intros _ fuel rest Hf Hr. destruct fuel as [|f]; [cbn in Hf; lia|].
  cbn [print_value]. unfold str_of_Z. destruct (z <? 0) eqn:Ez.
  - destruct (str_of_nonneg_shape (- z)) as [c [t [Es [Hc _]]]]; [lia|].
    cbn [app parse_value].
    change (45 =? 34) with false. change (45 =? 91) with false. change (45 =? 123) with false.
    change (45 =? 110) with false. change (45 =? 116) with false. change (45 =? 102) with false.
    change (45 =? 45) with true. cbv iota.
    pose proof (parse_nat_print (- z) rest ltac:(lia) Hr) as Hp. rewrite Es in Hp |- *. cbn [app] in Hp |- *.
    destruct (digit_props c Hc) as [Hd _]. not_char Hd c 73. rewrite Hp. rewrite Z.opp_involutive. reflexivity.
  - destruct (str_of_nonneg_shape z) as [c [t [Es [Hc _]]]]; [lia|].
    pose proof (parse_nat_print z rest ltac:(lia) Hr) as Hp. rewrite Es in Hp |- *. cbn [app] in Hp |- *.
    destruct (digit_props c Hc) as [Hd _]. cbn [parse_value].
    not_char Hd c 34. not_char Hd c 91. not_char Hd c 123. not_char Hd c 110. not_char Hd c 116.
    not_char Hd c 102. not_char Hd c 45. rewrite Hd. rewrite Hp. reflexivity.
Qed.

Lemma parses_str s : parses (VStr s).
Proof.
  intros Hwf fuel rest Hf Hr. destruct fuel as [|f]; [cbn in Hf; lia|].
  cbn [wf_value] in Hwf. cbn [print_value].
  destruct (parse_print_string s rest Hwf) as [t [Et Hp]]. rewrite Et.
  cbn [parse_value]. change (34 =? 34) with true. cbv iota. rewrite Hp. reflexivity.
Qed.

Lemma after_ok_cons c r : (c =? 44) || (c =? 93) || (c =? 125) = true -> after_ok (c :: r) = true.
Proof. intros H. exact H. Qed.

Lemma parse_elems_print l : l <> [] -> Forall parses l -> forallb wf_value l = true ->
  forall acc fuel rest, (need_seq (map need l) <= fuel)%nat -> after_ok rest = true ->
  parse_elems fuel (join_with sep_item (map print_value l) ++ 93 :: rest) acc
  = POk (VList (rev acc ++ l)) rest.
Proof.
  induction l as [|x t IH]; intros Hne Hall Hwf acc fuel rest Hf Hr; [congruence|].
  inversion Hall as [|y l' Hx Ht]; subst. cbn [forallb] in Hwf. apply andb_true_iff in Hwf as [Hwx Hwt].
  cbn [map need_seq fold_right] in Hf. fold (need_seq (map need t)) in Hf.
  destruct fuel as [|f]; [lia|]. cbn [parse_elems].
  destruct t as [|y t'].
  - cbn [map join_with].
    rewrite (Hx Hwx f (93 :: rest)) by (try lia; reflexivity).
    cbn [skip_ws is_jws]. change (is_jws 93) with false. cbv iota.
    change (93 =? 44) with false. change (93 =? 93) with true. cbv iota.
    cbn [rev]. reflexivity.
  - change (map print_value (x :: y :: t')) with (print_value x :: map print_value (y :: t')).
    change (join_with sep_item (print_value x :: map print_value (y :: t')))
      with (print_value x ++ sep_item ++ join_with sep_item (map print_value (y :: t'))).
    rewrite <- !app_assoc.
    change (sep_item ++ join_with sep_item (map print_value (y :: t')) ++ 93 :: rest)
      with (44 :: 32 :: (join_with sep_item (map print_value (y :: t')) ++ 93 :: rest)).
    rewrite (Hx Hwx f _) by (try lia; reflexivity).
    assert (Hh : head_ok (join_with sep_item (map print_value (y :: t')) ++ 93 :: rest)).
    { apply head_ok_app. cbn [map]. apply join_with_head. apply print_head. }
    cbn [skip_ws]. change (is_jws 44) with false. change (is_jws 32) with true. cbv iota.
    change (44 =? 44) with true. cbv iota. cbn [skip_ws]. change (is_jws 32) with true. cbv iota. rewrite (skip_ws_head _ Hh).
    rewrite (IH ltac:(discriminate) Ht Hwt (x :: acc) f rest) by (try lia; assumption).
    cbn [rev]. rewrite <- app_assoc. reflexivity.
Qed.

(** * Objects *)
Definition print_member (kv : str * value) : str :=
  match kv with (k, x) => print_string k ++ sep_key ++ print_value x end.
Definition need_member (kv : str * value) : nat := match kv with (_, x) => need x end.

Lemma keys_nodup_NoDup ks : keys_nodup ks = true <-> NoDup ks.
Proof.
  induction ks as [|k t IH]; cbn [keys_nodup].
  - split; [constructor|reflexivity].
  - rewrite andb_true_iff, negb_true_iff, IH. split.
    + intros [Hk Ht]. constructor; [|exact Ht]. intros Hin.
      assert (existsb (str_eqb k) t = true) by (apply existsb_exists; exists k; split; [exact Hin|apply str_eqb_eq; reflexivity]).
      congruence.
    + intros Hnd. inversion Hnd as [|x l Hk Ht]; subst. split; [|exact Ht].
      destruct (existsb (str_eqb k) t) eqn:E; [|reflexivity].
      apply existsb_exists in E as [y [Hin Heq]]. apply str_eqb_eq in Heq. subst y. contradiction.
Qed.

Lemma dict_set_fresh acc k x : ~ In k (map fst acc) -> dict_set acc k x = acc ++ [(k, x)].
Proof.
  induction acc as [|[k' v'] t IH]; intros Hn; cbn [dict_set app]; [reflexivity|].
  destruct (str_eqb k' k) eqn:E.
  - apply str_eqb_eq in E. subst k'. exfalso. apply Hn. left. reflexivity.
  - rewrite IH; [reflexivity|]. intros Hin. apply Hn. right. exact Hin.
Qed.

Lemma parse_members_print d : d <> [] ->
  Forall (fun kv => parses (snd kv)) d ->
  forallb (fun kv => str_ok (fst kv) && wf_value (snd kv)) d = true ->
  forall acc fuel rest, NoDup (map fst (acc ++ d)) ->
  (need_seq (map need_member d) <= fuel)%nat -> after_ok rest = true ->
  parse_members fuel (join_with sep_item (map print_member d) ++ 125 :: rest) acc
  = POk (VDict (acc ++ d)) rest.
Proof.
  induction d as [|[k x] t IH]; intros Hne Hall Hwf acc fuel rest Hnd Hf Hr; [congruence|].
  inversion Hall as [|y l' Hx Ht]; subst. cbn [snd] in Hx.
  cbn [forallb fst snd] in Hwf. apply andb_true_iff in Hwf as [Hw Hwt]. apply andb_true_iff in Hw as [Hk Hwx].
  cbn [map need_seq fold_right need_member] in Hf. fold (need_seq (map need_member t)) in Hf.
  destruct fuel as [|f]; [lia|].
  assert (Hfresh : ~ In k (map fst acc)).
  { rewrite map_app in Hnd. cbn [map fst] in Hnd. apply NoDup_remove_2 in Hnd.
    intros Hin. apply Hnd. apply in_or_app. left. exact Hin. }
  assert (Hnd' : NoDup (map fst ((acc ++ [(k, x)]) ++ t))) by (rewrite <- app_assoc; exact Hnd).
  assert (Hmember : forall tail, after_ok tail = true ->
            parse_members (S f) (print_member (k, x) ++ tail) acc
            = match skip_ws tail with
              | c2 :: r3 => if c2 =? 44 then parse_members f (skip_ws r3) (acc ++ [(k, x)])
                            else if c2 =? 125 then POk (VDict (acc ++ [(k, x)])) r3 else PFail
              | [] => PFail
              end).
  { intros tail Htail. cbn [print_member]. rewrite <- !app_assoc.
    destruct (parse_print_string k (sep_key ++ print_value x ++ tail) Hk) as [tk [Etk Hpk]].
    rewrite Etk. cbn [parse_members]. change (34 =? 34) with true. cbv iota. rewrite Hpk.
    change (sep_key ++ print_value x ++ tail) with (58 :: 32 :: (print_value x ++ tail)).
    cbn [skip_ws]. change (is_jws 58) with false. cbv iota. change (58 =? 58) with true. cbv iota.
    cbn [skip_ws]. change (is_jws 32) with true. cbv iota.
    rewrite (skip_ws_head _ (head_ok_app _ tail (print_head x))).
    rewrite (Hx Hwx f tail) by (try lia; exact Htail).
    rewrite (dict_set_fresh acc k x Hfresh). reflexivity. }
  destruct t as [|[k2 x2] t'].
  - cbn [map join_with]. rewrite (Hmember (125 :: rest)) by reflexivity.
    cbn [skip_ws]. change (is_jws 125) with false. cbv iota.
    change (125 =? 44) with false. change (125 =? 125) with true. cbv iota. reflexivity.
  - change (map print_member ((k, x) :: (k2, x2) :: t'))
      with (print_member (k, x) :: map print_member ((k2, x2) :: t')).
    change (join_with sep_item (print_member (k, x) :: map print_member ((k2, x2) :: t')))
      with (print_member (k, x) ++ sep_item ++ join_with sep_item (map print_member ((k2, x2) :: t'))).
    rewrite <- !app_assoc.
    change (sep_item ++ join_with sep_item (map print_member ((k2, x2) :: t')) ++ 125 :: rest)
      with (44 :: 32 :: (join_with sep_item (map print_member ((k2, x2) :: t')) ++ 125 :: rest)).
    rewrite Hmember by reflexivity.
    assert (Hh : head_ok (join_with sep_item (map print_member ((k2, x2) :: t')) ++ 125 :: rest)).
    { apply head_ok_app. cbn [map]. apply join_with_head. cbn [print_member].
      apply head_ok_app. apply print_string_head. }
    cbn [skip_ws]. change (is_jws 44) with false. cbv iota. change (44 =? 44) with true. cbv iota.
    cbn [skip_ws]. change (is_jws 32) with true. cbv iota. rewrite (skip_ws_head _ Hh).
    rewrite (IH ltac:(discriminate) Ht Hwt (acc ++ [(k, x)]) f rest Hnd') by (try lia; assumption).
    rewrite <- app_assoc. reflexivity.
Qed.

(** * Main lemma *)
Lemma print_dict_eq d : print_value (VDict d) = 123 :: join_with sep_item (map print_member d) ++ [125].
Proof. reflexivity. Qed.

Lemma need_dict_eq d : need (VDict d) = S (need_seq (map need_member d)).
Proof. reflexivity. Qed.

Theorem parse_print v : parses v.
Proof.
  induction v as [|b|z|s|l IHl|d IHd] using value_ind'.
  - intros _ fuel rest Hf Hr. destruct fuel as [|f]; [cbn in Hf; lia|]. reflexivity.
  - intros _ fuel rest Hf Hr. destruct fuel as [|f]; [cbn in Hf; lia|]. destruct b; reflexivity.
  - apply parses_int.
  - apply parses_str.
  - intros Hwf fuel rest Hf Hr. cbn [wf_value] in Hwf. cbn [need] in Hf. fold (need_seq (map need l)) in Hf.
    destruct fuel as [|f]; [lia|]. cbn [print_value]. cbn [app parse_value].
    change (91 =? 34) with false. change (91 =? 91) with true. cbv iota.
    destruct l as [|x t].
    + cbn [map join_with app skip_ws]. change (is_jws 93) with false. cbv iota.
      change (93 =? 93) with true. cbv iota. reflexivity.
    + rewrite <- app_assoc. cbn [app].
      assert (Hh : head_ok (join_with sep_item (map print_value (x :: t)) ++ 93 :: rest)).
      { apply head_ok_app. cbn [map]. apply join_with_head. apply print_head. }
      rewrite (skip_ws_head _ Hh). destruct Hh as [c [r [Ec [_ [Hc93 _]]]]]. rewrite Ec.
      replace (c =? 93) with false by lia. rewrite <- Ec.
      rewrite (parse_elems_print (x :: t) ltac:(discriminate) IHl Hwf [] f rest) by (try lia; assumption).
      reflexivity.
  - intros Hwf fuel rest Hf Hr. cbn [wf_value] in Hwf. apply andb_true_iff in Hwf as [Hnd Hwf].
    rewrite need_dict_eq in Hf. destruct fuel as [|f]; [lia|].
    rewrite print_dict_eq. cbn [app parse_value].
    change (123 =? 34) with false. change (123 =? 91) with false. change (123 =? 123) with true. cbv iota.
    destruct d as [|kv t].
    + cbn [map join_with app skip_ws]. change (is_jws 125) with false. cbv iota.
      change (125 =? 125) with true. cbv iota. reflexivity.
    + rewrite <- app_assoc. cbn [app].
      assert (Hh : head_ok (join_with sep_item (map print_member (kv :: t)) ++ 125 :: rest)).
      { apply head_ok_app. cbn [map]. apply join_with_head. destruct kv as [k x]. cbn [print_member].
        apply head_ok_app. apply print_string_head. }
      rewrite (skip_ws_head _ Hh). destruct Hh as [c [r [Ec [_ [_ Hc125]]]]]. rewrite Ec.
      replace (c =? 125) with false by lia. rewrite <- Ec.
      apply keys_nodup_NoDup in Hnd.
      rewrite (parse_members_print (kv :: t) ltac:(discriminate) IHd Hwf [] f rest Hnd) by (try lia; assumption).
      reflexivity.
Qed.

(** * Fuel: 2 * length of the text is always enough *)
Lemma need_seq_bound ns ps :
  Forall2 (fun n p => (n <= 2 * length p)%nat) ns ps ->
  (need_seq ns <= 2 * length (join_with sep_item ps) + 1)%nat.
Proof.
  induction 1 as [|n p ns' ps' Hnp Hrest IH]; [cbn; lia|].
  cbn [need_seq fold_right]. fold (need_seq ns').
  destruct ps' as [|q ps''].
  - inversion Hrest; subst. cbn [need_seq fold_right join_with]. lia.
  - change (join_with sep_item (p :: q :: ps'')) with (p ++ sep_item ++ join_with sep_item (q :: ps'')).
    rewrite !app_length. cbn [length sep_item]. lia.
Qed.

Lemma head_ok_length s : head_ok s -> (1 <= length s)%nat.
Proof. intros [c [t [-> _]]]. cbn. lia. Qed.

Lemma need_le v : (need v <= 2 * length (print_value v))%nat.
Proof.
  induction v as [|b|z|s|l IHl|d IHd] using value_ind';
    try (pose proof (head_ok_length _ (print_head VNull)); cbn [need]; cbn; lia).
  - destruct b; cbn; lia.
  - pose proof (head_ok_length _ (print_head (VInt z))). cbn [need]. lia.
  - cbn [need print_value]. fold (need_seq (map need l)).
    assert (H2 : Forall2 (fun n p => (n <= 2 * length p)%nat) (map need l) (map print_value l)).
    { induction IHl as [|x t Hx Ht IH]; cbn [map]; constructor; assumption. }
    pose proof (need_seq_bound _ _ H2). cbn [length]. rewrite app_length. cbn [length]. lia.
  - rewrite need_dict_eq, print_dict_eq.
    assert (H2 : Forall2 (fun n p => (n <= 2 * length p)%nat) (map need_member d) (map print_member d)).
    { induction IHd as [|[k x] t Hx Ht IH]; cbn [map]; constructor; [|assumption].
      cbn [need_member print_member snd] in *. rewrite !app_length. lia. }
    pose proof (need_seq_bound _ _ H2). cbn [length]. rewrite app_length. cbn [length]. lia.
Qed.

Theorem json_loads_print v : wf_value v = true -> json_loads (print_value v) = POk v [].
Proof.
  intros Hwf. unfold json_loads. rewrite (skip_ws_head _ (print_head v)).
  pose proof (parse_print v Hwf (2 * length (print_value v) + 2)%nat []) as Hp.
  rewrite app_nil_r in Hp. rewrite Hp; [reflexivity| |reflexivity].
  pose proof (need_le v). lia.
Qed.

(** * sort_keys / canon *)
Lemma insert_key_perm {A} k (v : A) d : Permutation (insert_key k v d) ((k, v) :: d).
Proof.
  induction d as [|[k' v'] t IH]; cbn [insert_key]; [apply Permutation_refl|].
  destruct (str_ltb k' k).
  - eapply Permutation_trans; [apply perm_skip; exact IH|apply perm_swap].
  - apply Permutation_refl.
Qed.

Lemma sort_keys_perm {A} (d : list (str * A)) : Permutation (sort_keys d) d.
Proof.
  induction d as [|[k v] t IH]; cbn [sort_keys]; [apply Permutation_refl|].
  eapply Permutation_trans; [apply insert_key_perm|apply perm_skip; exact IH].
Qed.

Lemma forallb_perm {A} (f : A -> bool) l l' : Permutation l l' -> forallb f l = true -> forallb f l' = true.
Proof.
  intros Hp H. apply forallb_forall. intros x Hin. rewrite forallb_forall in H. apply H.
  eapply Permutation_in; [apply Permutation_sym; exact Hp|exact Hin].
Qed.

Lemma canon_wf v : wf_value v = true -> wf_value (canon v) = true.
Proof.
  induction v as [|b|z|s|l IHl|d IHd] using value_ind'; intros Hwf; try exact Hwf.
  - cbn [canon wf_value] in *. induction IHl as [|x t Hx Ht IH]; [reflexivity|].
    cbn [forallb map] in *. apply andb_true_iff in Hwf as [H1 H2]. rewrite (Hx H1), (IH H2). reflexivity.
  - cbn [canon wf_value] in *. apply andb_true_iff in Hwf as [Hnd Hall].
    set (d1 := map (fun kv => (fst kv, canon (snd kv))) d).
    assert (Hk : map fst d1 = map fst d).
    { unfold d1. rewrite map_map. cbn [fst]. reflexivity. }
    assert (Hall1 : forallb (fun kv => str_ok (fst kv) && wf_value (snd kv)) d1 = true).
    { unfold d1. clear Hnd Hk d1. induction IHd as [|[k x] t Hx Ht IH]; [reflexivity|].
      cbn [forallb map fst snd] in *. apply andb_true_iff in Hall as [H1 H2].
      apply andb_true_iff in H1 as [Hs Hw]. rewrite Hs, (Hx Hw), (IH H2). reflexivity. }
    apply andb_true_iff. split.
    + apply keys_nodup_NoDup. apply keys_nodup_NoDup in Hnd. rewrite <- Hk in Hnd.
      eapply Permutation_NoDup; [|exact Hnd]. apply Permutation_map. apply Permutation_sym. apply sort_keys_perm.
    + eapply forallb_perm; [apply Permutation_sym; apply sort_keys_perm|exact Hall1].
Qed.

Theorem json_roundtrip v : wf_value v = true -> json_loads (json_dumps v) = POk (canon v) [].
Proof. intros Hwf. unfold json_dumps. apply json_loads_print. apply canon_wf. exact Hwf. Qed.

(** equality of Python values: dict entries in any order *)
Inductive veq : value -> value -> Prop :=
| veq_null : veq VNull VNull
| veq_bool b : veq (VBool b) (VBool b)
| veq_int z : veq (VInt z) (VInt z)
| veq_str s : veq (VStr s) (VStr s)
| veq_list l l' : Forall2 veq l l' -> veq (VList l) (VList l')
| veq_dict d d1 d' :
    Forall2 (fun a b => fst a = fst b /\ veq (snd a) (snd b)) d d1 -> Permutation d1 d' ->
    veq (VDict d) (VDict d').

Theorem canon_veq v : veq v (canon v).
Proof.
  induction v as [|b|z|s|l IHl|d IHd] using value_ind'.
  - constructor.
  - constructor.
  - constructor.
  - constructor.
  - cbn [canon]. constructor. induction IHl; cbn [map]; constructor; assumption.
  - cbn [canon]. apply (veq_dict d (map (fun kv => (fst kv, canon (snd kv))) d)).
    + induction IHd as [|[k x] t Hx Ht IH]; cbn [map]; constructor; [|assumption].
      cbn [fst snd] in *. split; [reflexivity|exact Hx].
    + apply Permutation_sym. apply sort_keys_perm.
Qed.

(** * ZooKeeper payloads *)
Theorem zk_roundtrip v : wf_value v = true ->
  exists p, zk_payload (ZObj v) = Some p /\ p <> [] /\ zk_decode p = DVal (canon v) /\ veq v (canon v).
Proof.
  intros Hwf. exists (json_dumps v). split; [reflexivity|]. split.
  - unfold json_dumps. destruct (print_head (canon v)) as [c [t [-> _]]]. discriminate.
  - split; [|apply canon_veq]. unfold zk_decode. rewrite (json_roundtrip v Hwf). reflexivity.
Qed.

Theorem zk_none : zk_payload ZNone = Some [] /\ zk_decode [] = DVal VNull.
Proof. split; reflexivity. Qed.

Theorem zk_injective v1 v2 : wf_value v1 = true -> wf_value v2 = true ->
  zk_payload (ZObj v1) = zk_payload (ZObj v2) -> canon v1 = canon v2.
Proof.
  intros H1 H2 Heq. cbn [zk_payload] in Heq. inversion Heq as [E].
  pose proof (json_roundtrip v1 H1) as R1. pose proof (json_roundtrip v2 H2) as R2.
  rewrite E in R1. rewrite R1 in R2. inversion R2. reflexivity.
Qed.
