(** C15 correspondence runner: one case type with a constructor per codec operation;
    [run_case] flattens the model's observables to [list Z] exactly like
    harness/props/c15.py flattens the implementation's.

    The tables ([c15_uid_tables], ...) are assembled here from the plain definitions that
    harness/tables_c15.py regenerates into Gen/Tables.v on every run. *)
From Coq Require Import ZArith List Bool.
From TM Require Import Codec.BaseN Codec.Dec Codec.Event Codec.Rule Codec.Json Codec.Ldap Gen.Tables.
Import ListNotations.
Open Scope Z_scope.

Definition c15_uid_tables : uid_tables := {|
  ut_default_alphabet := c15_default_alphabet;
  ut_alphabet := c15_uid_alphabet;
  ut_uid_template := c15_uid_template;
  ut_uid_fill := c15_uid_fill;
  ut_uid_width := c15_uid_width;
  ut_time_scale := c15_uid_time_scale;
  ut_time_shift := c15_uid_time_shift;
  ut_inst_shift := c15_uid_inst_shift;
  ut_data_bits := c15_uid_data_bits;
  ut_seed_bits := c15_uid_seed_bits;
  ut_name_template := c15_name_template;
  ut_name_sep := c15_name_sep;
  ut_name_fill := c15_name_fill;
  ut_name_width := c15_name_width;
  ut_name_from := c15_name_from;
  ut_name_to := c15_name_to;
  ut_split_sep := c15_split_sep;
  ut_join_sep := c15_join_sep
|}.

Definition c15_event_tables : event_tables :=
  {| et_app := c15_app_event_types; et_server := c15_server_event_types |}.

Definition c15_node_tables : node_tables := {|
  nt_template := c15_node_template; nt_args := c15_node_args;
  nt_prefix_template := c15_node_prefix_template; nt_prefix_args := c15_node_prefix_args;
  nt_sep := c15_node_sep; nt_fields := c15_node_fields
|}.

Definition c15_rule_tables : rule_tables := {|
  rt_dnat := c15_rule_dnat_pattern; rt_snat := c15_rule_snat_pattern; rt_pt := c15_rule_pt_pattern;
  rt_dnat_re := c15_rule_dnat_re; rt_snat_re := c15_rule_snat_re; rt_pt_re := c15_rule_pt_re;
  rt_any := c15_rule_any; rt_any_port := c15_rule_any_port
|}.

(** * Flattening *)
Definition fstr (s : str) : list Z := zlen s :: s.
Definition fres {A} (f : A -> list Z) (r : res A) : list Z :=
  match r with Ok a => 0 :: f a | Err e => [e] end.
Definition fz (n : Z) : list Z := [n].

Definition fostr (v : option str) : list Z := match v with None => [0] | Some s => 1 :: fstr s end.
Definition fbool (b : bool) : list Z := [if b then 1 else 0].
Definition fbody (b : body) : list Z :=
  cls_id (cls_of b) ::
  match b with
  | Scheduled w y => fostr w ++ fostr y
  | Pending y | PendingDelete y | Aborted y => fostr y
  | Configured u => fostr u
  | Deleted | ServerBlackout | ServerBlackoutCleared => []
  | Finished rc sg => [rc; sg]
  | Killed o => fbool o
  | ServiceRunning u sv => fostr u ++ fostr sv
  | ServiceExited u sv rc sg => fostr u ++ fostr sv ++ [rc; sg]
  | ServerState st => fostr st
  end.
Definition fopt {A} (f : A -> list Z) (o : option A) : list Z :=
  match o with None => [0] | Some a => 1 :: f a end.

Definition frule (r : rule) : list Z :=
  match r with
  | DNAT pr si sp di dp ni np => 0 :: fstr pr ++ fostr si ++ [sp] ++ fostr di ++ [dp] ++ fstr ni ++ [np]
  | SNAT pr si sp di dp ni np => 1 :: fstr pr ++ fostr si ++ [sp] ++ fostr di ++ [dp] ++ fstr ni ++ [np]
  | PassThrough si di => 2 :: fstr si ++ fstr di
  end.
Definition fchain_rule (cr : str * rule) : list Z := fstr (fst cr) ++ frule (snd cr).

Fixpoint fvalue (v : value) : list Z :=
  match v with
  | VNull => [0]
  | VBool b => [1; if b then 1 else 0]
  | VInt z => [2; z]
  | VStr s => 3 :: fstr s
  | VList l => 4 :: zlen l :: flat_map fvalue l
  | VDict d => 5 :: zlen d :: flat_map (fun kv => fstr (fst kv) ++ fvalue (snd kv)) d
  end.
Definition fdecoded (d : zdecoded) : list Z :=
  match d with DVal v => 0 :: fvalue v | DYaml => [1] | DUnmodelled => [2] end.

(** the generated LDAP schema of the given name ([] if absent or with an unknown type code) *)
Definition c15_ldap_schema (name : str) : schema :=
  match alookup c15_ldap_schemas name with
  | Some rows => match conv_schema rows with Some s => s | None => [] end
  | None => []
  end.

Definition ffval (v : fval) : list Z :=
  match v with
  | FNone => [0]
  | FStr s => 1 :: fstr s
  | FInt z => [2; z]
  | FBool b => [3; if b then 1 else 0]
  | FStrs l => 4 :: zlen l :: flat_map (fun s => 1 :: fstr s) l
  | FInts l => 4 :: zlen l :: flat_map (fun z => [2; z]) l
  | FDict d => 5 :: fvalue (VDict d)
  end.
Definition fobj (o : obj) : list Z := zlen o :: flat_map (fun kv => fstr (fst kv) ++ ffval (snd kv)) o.
Definition feval (v : eval) : list Z := match v with EStr s => 1 :: fstr s | EBool b => [3; if b then 1 else 0] end.
Definition fentry (e : entry) : list Z :=
  zlen e :: flat_map (fun kv => fstr (fst kv) ++ zlen (snd kv) :: flat_map feval (snd kv)) e.
Definition fmods (ms : mods) : list Z :=
  zlen ms :: flat_map (fun m => fstr (fst m) ++ match snd m with
                                                 | MAdd vs => 0 :: zlen vs :: flat_map feval vs
                                                 | MReplace vs => 1 :: zlen vs :: flat_map feval vs
                                                 | MDelete => [2]
                                                 end) ms.

Inductive c15case :=
| CBaseN (al : option str) (base : option Z) (n : Z)       (* to_base_n, then from_base_n of its result *)
| CBaseNDec (al : option str) (base : option Z) (s : str)  (* from_base_n on an arbitrary string *)
| CGenUid (ino ctime_us inst : Z)                          (* gen_uniqueid with os.stat supplied *)
| CUniq (name uid : str)                                   (* _fmt_unique_name, then app_name / app_unique_id *)
| CUniqDec (u : str)                                       (* app_name / app_unique_id on an arbitrary string *)
| CEvent (hdr : list Z) (b : body)                         (* to_data, then <family>TraceEvent.from_data of its result *)
| CEventDec (server : bool) (ty d : str)                   (* from_data on arbitrary (event_type, event_data) *)
| CNode (id when host ty d : str)                          (* publish -> node name -> TraceLoop._process_events *)
| CNodeDec (name : str)                                    (* TraceLoop._process_events on an arbitrary node name *)
| CRule (chain : str) (r : rule)                           (* RuleMgr._filenameify, then get_rule of its result *)
| CRuleDec (name : str)                                    (* RuleMgr.get_rule on an arbitrary file name *)
| CZk (d : zdata)                                          (* zkutils._payload, then get_with_metadata of it *)
| CZkDec (payload : str)                                   (* get_with_metadata on arbitrary (ASCII) bytes *)
| CLdap (schema_name : str) (o : obj)                      (* _dict_2_entry, _remove_empty, _entry_2_dict *)
| CLdapDec (schema_name : str) (e : entry)                 (* _entry_2_dict on an arbitrary entry *)
| CDiff (old new : entry)                                  (* _diff_entries *)
| CLdapUpdate (schema_name : str) (o1 o2 : obj).           (* create o1, update with o2 (diff + modify), read back *)

Definition run_case (c : c15case) : list Z :=
  let T := c15_uid_tables in
  match c with
  | CBaseN al base n =>
      let al := match al with Some a => a | None => ut_default_alphabet T end in
      let base := match base with Some b => b | None => zlen al end in
      let e := to_base_n al base n in
      fres fstr e ++ match e with Ok s => fres fz (from_base_n al base s) | Err _ => [] end
  | CBaseNDec al base s =>
      let al := match al with Some a => a | None => ut_default_alphabet T end in
      let base := match base with Some b => b | None => zlen al end in
      fres fz (from_base_n al base s)
  | CGenUid ino ctime_us inst => fres fstr (gen_uniqueid T ino ctime_us inst)
  | CUniq name uid =>
      let u := fmt_unique_name T name uid in
      fstr u ++ fstr (app_name T u) ++ fres fstr (app_unique_id T u)
  | CUniqDec u => fstr (app_name T u) ++ fres fstr (app_unique_id T u)
  | CEvent hdr b =>
      match to_data c15_event_tables (hdr, b) with
      | None => [E_VALUE]
      | Some (h, ty, d) =>
          0 :: fstr ty ++ fstr d ++
          fopt (fun e => fstr (fst e) ++ fbody (snd e))
               (from_data c15_event_tables (is_server (cls_of b)) h ty d)
      end
  | CEventDec server ty d =>
      fopt (fun e => fbody (snd e)) (from_data c15_event_tables server tt ty d)
  | CNode id when host ty d =>
      match node_name c15_node_tables id when host ty d with
      | None => [E_TYPE]
      | Some name => 0 :: fstr name ++ fopt (fun ps => concat (map fstr ps)) (node_fields c15_node_tables name)
      end
  | CNodeDec name => fopt (fun ps => concat (map fstr ps)) (node_fields c15_node_tables name)
  | CRule chain r =>
      match filenameify c15_rule_tables chain r with
      | None => [E_OTHER]
      | Some name => 0 :: fstr name ++ fopt fchain_rule (get_rule c15_rule_tables name)
      end
  | CRuleDec name => fopt fchain_rule (get_rule c15_rule_tables name)
  | CZk d =>
      match zk_payload d with
      | None => [E_OTHER]
      | Some p => 0 :: fstr p ++ fdecoded (zk_decode p)
      end
  | CZkDec p => fdecoded (zk_decode p)
  | CLdap name o =>
      let sch := c15_ldap_schema name in
      match dict_2_entry sch o [] with
      | None => [E_OTHER]
      | Some e => 0 :: fentry e ++ fres fobj (entry_2_dict sch (remove_empty e))
      end
  | CLdapDec name e => fres fobj (entry_2_dict (c15_ldap_schema name) e)
  | CDiff old new => fmods (diff_entries old new)
  | CLdapUpdate name o1 o2 =>
      let sch := c15_ldap_schema name in
      match ldap_update_mods sch o1 o2 with
      | None => [E_OTHER]
      | Some (stored, ms) => 0 :: fmods ms ++ fres fobj (entry_2_dict sch (apply_mods stored ms))
      end
  end.
