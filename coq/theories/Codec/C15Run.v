(** C15 correspondence runner: one case type with a constructor per codec operation;
    [run_case] flattens the model's observables to [list Z] exactly like
    harness/props/c15.py flattens the implementation's.

    The tables ([c15_uid_tables], ...) are assembled here from the plain definitions that
    harness/tables_c15.py regenerates into Gen/Tables.v on every run. *)
From Coq Require Import ZArith List Bool.
From TM Require Import Codec.BaseN Codec.Dec Codec.Event Codec.Rule Gen.Tables.
Import ListNotations.
Open Scope Z_scope.

Definition c15_uid_tables : uid_tables := {|
  ut_default_alphabet := c15_default_alphabet;
  ut_alphabet := c15_uid_alphabet;
  ut_uid_template := c15_uid_template;
  ut_uid_fill := c15_uid_fill;
  ut_uid_width := c15_uid_width;
  ut_time_scale := c15_uid_time_scale;
  ut_time_shift := c15_uid_time_shift;
  ut_inst_shift := c15_uid_inst_shift;
  ut_data_bits := c15_uid_data_bits;
  ut_seed_bits := c15_uid_seed_bits;
  ut_name_template := c15_name_template;
  ut_name_sep := c15_name_sep;
  ut_name_fill := c15_name_fill;
  ut_name_width := c15_name_width;
  ut_name_from := c15_name_from;
  ut_name_to := c15_name_to;
  ut_split_sep := c15_split_sep;
  ut_join_sep := c15_join_sep
|}.

Definition c15_event_tables : event_tables :=
  {| et_app := c15_app_event_types; et_server := c15_server_event_types |}.

Definition c15_node_tables : node_tables := {|
  nt_template := c15_node_template; nt_args := c15_node_args;
  nt_prefix_template := c15_node_prefix_template; nt_prefix_args := c15_node_prefix_args;
  nt_sep := c15_node_sep; nt_fields := c15_node_fields
|}.

Definition c15_rule_tables : rule_tables := {|
  rt_dnat := c15_rule_dnat_pattern; rt_snat := c15_rule_snat_pattern; rt_pt := c15_rule_pt_pattern;
  rt_dnat_re := c15_rule_dnat_re; rt_snat_re := c15_rule_snat_re; rt_pt_re := c15_rule_pt_re;
  rt_any := c15_rule_any; rt_any_port := c15_rule_any_port
|}.

(** * Flattening *)
Definition fstr (s : str) : list Z := zlen s :: s.
Definition fres {A} (f : A -> list Z) (r : res A) : list Z :=
  match r with Ok a => 0 :: f a | Err e => [e] end.
Definition fz (n : Z) : list Z := [n].

Definition fostr (v : option str) : list Z := match v with None => [0] | Some s => 1 :: fstr s end.
Definition fbool (b : bool) : list Z := [if b then 1 else 0].
Definition fbody (b : body) : list Z :=
  cls_id (cls_of b) ::
  match b with
  | Scheduled w y => fostr w ++ fostr y
  | Pending y | PendingDelete y | Aborted y => fostr y
  | Configured u => fostr u
  | Deleted | ServerBlackout | ServerBlackoutCleared => []
  | Finished rc sg => [rc; sg]
  | Killed o => fbool o
  | ServiceRunning u sv => fostr u ++ fostr sv
  | ServiceExited u sv rc sg => fostr u ++ fostr sv ++ [rc; sg]
  | ServerState st => fostr st
  end.
Definition fopt {A} (f : A -> list Z) (o : option A) : list Z :=
  match o with None => [0] | Some a => 1 :: f a end.

Definition frule (r : rule) : list Z :=
  match r with
  | DNAT pr si sp di dp ni np => 0 :: fstr pr ++ fostr si ++ [sp] ++ fostr di ++ [dp] ++ fstr ni ++ [np]
  | SNAT pr si sp di dp ni np => 1 :: fstr pr ++ fostr si ++ [sp] ++ fostr di ++ [dp] ++ fstr ni ++ [np]
  | PassThrough si di => 2 :: fstr si ++ fstr di
  end.
Definition fchain_rule (cr : str * rule) : list Z := fstr (fst cr) ++ frule (snd cr).

Inductive c15case :=
| CBaseN (al : option str) (base : option Z) (n : Z)       (* to_base_n, then from_base_n of its result *)
| CBaseNDec (al : option str) (base : option Z) (s : str)  (* from_base_n on an arbitrary string *)
| CGenUid (ino ctime_us inst : Z)                          (* gen_uniqueid with os.stat supplied *)
| CUniq (name uid : str)                                   (* _fmt_unique_name, then app_name / app_unique_id *)
| CUniqDec (u : str)                                       (* app_name / app_unique_id on an arbitrary string *)
| CEvent (hdr : list Z) (b : body)                         (* to_data, then <family>TraceEvent.from_data of its result *)
| CEventDec (server : bool) (ty d : str)                   (* from_data on arbitrary (event_type, event_data) *)
| CNode (id when host ty d : str)                          (* publish -> node name -> TraceLoop._process_events *)
| CNodeDec (name : str)                                    (* TraceLoop._process_events on an arbitrary node name *)
| CRule (chain : str) (r : rule)                           (* RuleMgr._filenameify, then get_rule of its result *)
| CRuleDec (name : str).                                   (* RuleMgr.get_rule on an arbitrary file name *)

Definition run_case (c : c15case) : list Z :=
  let T := c15_uid_tables in
  match c with
  | CBaseN al base n =>
      let al := match al with Some a => a | None => ut_default_alphabet T end in
      let base := match base with Some b => b | None => zlen al end in
      let e := to_base_n al base n in
      fres fstr e ++ match e with Ok s => fres fz (from_base_n al base s) | Err _ => [] end
  | CBaseNDec al base s =>
      let al := match al with Some a => a | None => ut_default_alphabet T end in
      let base := match base with Some b => b | None => zlen al end in
      fres fz (from_base_n al base s)
  | CGenUid ino ctime_us inst => fres fstr (gen_uniqueid T ino ctime_us inst)
  | CUniq name uid =>
      let u := fmt_unique_name T name uid in
      fstr u ++ fstr (app_name T u) ++ fres fstr (app_unique_id T u)
  | CUniqDec u => fstr (app_name T u) ++ fres fstr (app_unique_id T u)
  | CEvent hdr b =>
      match to_data c15_event_tables (hdr, b) with
      | None => [E_VALUE]
      | Some (h, ty, d) =>
          0 :: fstr ty ++ fstr d ++
          fopt (fun e => fstr (fst e) ++ fbody (snd e))
               (from_data c15_event_tables (is_server (cls_of b)) h ty d)
      end
  | CEventDec server ty d =>
      fopt (fun e => fbody (snd e)) (from_data c15_event_tables server tt ty d)
  | CNode id when host ty d =>
      match node_name c15_node_tables id when host ty d with
      | None => [E_TYPE]
      | Some name => 0 :: fstr name ++ fopt (fun ps => concat (map fstr ps)) (node_fields c15_node_tables name)
      end
  | CNodeDec name => fopt (fun ps => concat (map fstr ps)) (node_fields c15_node_tables name)
  | CRule chain r =>
      match filenameify c15_rule_tables chain r with
      | None => [E_OTHER]
      | Some name => 0 :: fstr name ++ fopt fchain_rule (get_rule c15_rule_tables name)
      end
  | CRuleDec name => fopt fchain_rule (get_rule c15_rule_tables name)
  end.
