(** Proofs about Codec/Units.v: every unit spelling of a quantity is parsed to that quantity. *)
From Coq Require Import ZArith List Bool Lia ZifyBool.
From TM Require Import Codec.BaseN Codec.BaseNP Codec.Dec Codec.DecP Codec.Units.
Import ListNotations.
Open Scope Z_scope.

(** * Tables: the check pins the canonical tables *)
Lemma zz_eqb_eq a b : zz_eqb a b = true -> a = b.
Proof.
  revert b; induction a as [|[x1 x2] a IH]; intros [|[y1 y2] b] H; cbn [zz_eqb] in H;
    try reflexivity; try discriminate.
  apply andb_true_iff in H as [H H3]. apply andb_true_iff in H as [H1 H2].
  apply Z.eqb_eq in H1. apply Z.eqb_eq in H2. rewrite (IH b H3). subst. reflexivity.
Qed.

Lemma tables_ok_canon T : units_tables_ok T = true -> T = utables_canon.
Proof.
  destruct T as [sc ub ud md kz kd mbd pc rp ro rd]. unfold units_tables_ok.
  cbn [un_scale un_unit_bin un_unit_dec un_mod un_kb_zero un_kb_div un_mb_div un_pct
       un_res_parsers un_res_order un_res_default].
  intros H.
  repeat match type of H with _ && _ = true => let H' := fresh "H" in apply andb_true_iff in H as [H H'] end.
  repeat match goal with
         | X : zz_eqb _ _ = true |- _ => apply zz_eqb_eq in X
         | X : str_eqb _ _ = true |- _ => apply str_eqb_eq in X
         | X : (_ =? _) = true |- _ => apply Z.eqb_eq in X
         end.
  subst. reflexivity.
Qed.

(** * List plumbing: s[-1], s[:-1], endswith *)
Lemma unsnoc_app s c : unsnoc (s ++ [c]) = Some (s, c).
Proof. induction s as [|a s IH]; cbn [app unsnoc]; [reflexivity|]. rewrite IH. reflexivity. Qed.

Lemma endswith_last s c : endswith (s ++ [c]) [c] = true.
Proof. unfold endswith. rewrite rev_app_distr. cbn [rev app prefixb]. rewrite Z.eqb_refl. reflexivity. Qed.

Lemma endswith_other s d c : d <> c -> endswith (s ++ [d]) [c] = false.
Proof.
  intros Hd. unfold endswith. rewrite rev_app_distr. cbn [rev app prefixb].
  destruct (c =? d) eqn:E; [lia|reflexivity].
Qed.

(** * upper / lower *)
Lemma upper_app a b : upper (a ++ b) = upper a ++ upper b.
Proof. apply map_app. Qed.

Lemma upper_lower_c c : upper_c (lower_c c) = upper_c c.
Proof.
  unfold upper_c, lower_c.
  destruct ((65 <=? c) && (c <=? 90)) eqn:E1.
  - destruct ((97 <=? c + 32) && (c + 32 <=? 122)) eqn:E2; destruct ((97 <=? c) && (c <=? 122)) eqn:E3; lia.
  - reflexivity.
Qed.

Lemma upper_lower s : upper (lower s) = upper s.
Proof. unfold upper, lower. rewrite map_map. apply map_ext. exact upper_lower_c. Qed.

Lemma upper_id s : Forall (fun c => upper_c c = c) s -> upper s = s.
Proof.
  induction s as [|c t IH]; intros H; [reflexivity|]. inversion H as [|x l Hc Ht]; subst.
  unfold upper in *. cbn [map]. rewrite Hc, (IH Ht). reflexivity.
Qed.

Lemma space_upper c : is_space c = true -> upper_c c = c.
Proof. unfold is_space, upper_c. intros H. destruct ((97 <=? c) && (c <=? 122)) eqn:E; [lia|reflexivity]. Qed.

Lemma upper_blank l : blank l = true -> upper l = l.
Proof.
  intros H. apply upper_id. unfold blank in H. rewrite forallb_forall in H. apply Forall_forall.
  intros c Hc. apply space_upper. exact (H c Hc).
Qed.

(** * strip *)
Lemma lstrip_sp_blank l x : blank l = true -> lstrip_sp (l ++ x) = lstrip_sp x.
Proof.
  induction l as [|c t IH]; intros H; [reflexivity|]. cbn [blank forallb] in H.
  apply andb_true_iff in H as [Hc Ht]. cbn [app lstrip_sp]. rewrite Hc. exact (IH Ht).
Qed.

Lemma lstrip_sp_all_blank r : blank r = true -> lstrip_sp r = [].
Proof. intros H. rewrite <- (app_nil_r r). rewrite lstrip_sp_blank by exact H. reflexivity. Qed.

Lemma lstrip_sp_app_blank_r s r : blank r = true ->
  lstrip_sp (s ++ r) = match lstrip_sp s with [] => [] | x => x ++ r end.
Proof.
  intros Hr. induction s as [|c t IH]; cbn [app lstrip_sp].
  - apply lstrip_sp_all_blank. exact Hr.
  - destruct (is_space c); [exact IH|reflexivity].
Qed.

Lemma blank_rev r : blank r = true -> blank (rev r) = true.
Proof.
  unfold blank. rewrite !forallb_forall. intros H c Hc. apply H. apply in_rev. exact Hc.
Qed.

Lemma pstrip_blanks l s r : blank l = true -> blank r = true -> pstrip (l ++ s ++ r) = pstrip s.
Proof.
  intros Hl Hr. unfold pstrip. rewrite lstrip_sp_blank by exact Hl.
  rewrite lstrip_sp_app_blank_r by exact Hr.
  destruct (lstrip_sp s) as [|x xs] eqn:E; [reflexivity|].
  rewrite rev_app_distr. rewrite lstrip_sp_blank by (apply blank_rev; exact Hr). reflexivity.
Qed.

Lemma lstrip_sp_id s : match s with c :: _ => is_space c = false | [] => True end -> lstrip_sp s = s.
Proof. destruct s as [|c t]; intros H; cbn [lstrip_sp]; [reflexivity|]. rewrite H. reflexivity. Qed.

Lemma pstrip_id s : Forall (fun c => is_space c = false) s -> pstrip s = s.
Proof.
  intros Hall. unfold pstrip.
  rewrite (lstrip_sp_id s) by (destruct s; [exact I|inversion Hall; assumption]).
  rewrite lstrip_sp_id.
  - apply rev_involutive.
  - destruct (rev s) as [|c t] eqn:Er; [exact I|].
    rewrite Forall_forall in Hall. apply Hall. apply in_rev. rewrite Er. left. reflexivity.
Qed.

(** the normal form the parsers work on: value.upper().strip() *)
Definition norm (s : str) : str := pstrip (upper s).

Lemma norm_blanks l s r : blank l = true -> blank r = true -> norm (l ++ s ++ r) = norm s.
Proof.
  intros Hl Hr. unfold norm. rewrite !upper_app, (upper_blank l Hl), (upper_blank r Hr).
  apply pstrip_blanks; assumption.
Qed.

Lemma norm_lower s : norm (lower s) = norm s.
Proof. unfold norm. rewrite upper_lower. reflexivity. Qed.

Lemma norm_same_upper s1 s2 : upper s1 = upper s2 -> norm s1 = norm s2.
Proof. unfold norm. intros H. rewrite H. reflexivity. Qed.

(** characters that upper() and strip() leave alone *)
Definition plain_c (c : Z) : bool := negb (is_space c) && (upper_c c =? c).

Lemma norm_plain s : forallb plain_c s = true -> norm s = s.
Proof.
  intros H. rewrite forallb_forall in H. unfold norm. rewrite upper_id.
  - apply pstrip_id. apply Forall_forall. intros c Hc. specialize (H c Hc). unfold plain_c in H.
    apply andb_true_iff in H as [H _]. destruct (is_space c); [discriminate|reflexivity].
  - apply Forall_forall. intros c Hc. specialize (H c Hc). unfold plain_c in H.
    apply andb_true_iff in H as [_ H]. apply Z.eqb_eq in H. exact H.
Qed.

(** * str(n): digits and '-' only, never empty, ends with a digit *)
Lemma digit_plain c : In c digits10 -> plain_c c = true /\ assoc c canon_scale = None /\ c <> 37.
Proof.
  intros H. apply digit_cases in H.
  repeat (destruct H as [H|H]; [subst c; vm_compute; repeat split; discriminate|]).
  subst c; vm_compute; repeat split; discriminate.
Qed.

Lemma str_of_Z_plain z : forallb plain_c (str_of_Z z) = true.
Proof.
  apply forallb_forall. intros c Hc. apply str_of_Z_chars in Hc as [Hc|Hc].
  - apply digit_plain. exact Hc.
  - subst c. reflexivity.
Qed.

Lemma str_of_Z_last z : exists i d, str_of_Z z = i ++ [d] /\ In d digits10.
Proof.
  assert (H : forall n, 0 <= n -> exists i d, str_of_nonneg n = i ++ [d] /\ In d digits10).
  { intros n Hn. destruct (str_of_nonneg_spec n Hn) as [s [_ [Es [_ [Hl Hall]]]]]. rewrite Es.
    destruct (exists_last (l := s)) as [i [d Hd]]; [intros E; rewrite E in Hl; cbn in Hl; lia|].
    exists i, d. split; [exact Hd|]. rewrite Forall_forall in Hall. apply Hall. rewrite Hd.
    apply in_or_app. right. left. reflexivity. }
  unfold str_of_Z. destruct (z <? 0) eqn:E.
  - destruct (H (- z) ltac:(lia)) as [i [d [Hi Hd]]]. exists (45 :: i), d. rewrite Hi. split; [reflexivity|exact Hd].
  - apply H. lia.
Qed.

Lemma uint_str z : uint (str_of_Z z) = UOk z.
Proof. unfold uint. rewrite py_int_str_of_Z. reflexivity. Qed.

Lemma norm_str_sfx z sfx : forallb plain_c sfx = true -> norm (str_of_Z z ++ sfx) = str_of_Z z ++ sfx.
Proof. intros H. apply norm_plain. rewrite forallb_app, str_of_Z_plain, H. reflexivity. Qed.

Lemma str_of_Z_zero z : str_of_Z z = [48] -> z = 0.
Proof.
  intros H. pose proof (py_int_str_of_Z z) as Hp. rewrite H in Hp. vm_compute in Hp. inversion Hp. reflexivity.
Qed.

Lemma scale_plain c e : assoc c canon_scale = Some e -> plain_c c = true /\ 0 <= e.
Proof.
  unfold canon_scale. cbn [assoc]. intros H.
  repeat match type of H with
         | (if ?k =? c then _ else _) = _ =>
             let E := fresh "E" in destruct (k =? c) eqn:E;
             [apply Z.eqb_eq in E; subst c; inversion H; subst e; split; [reflexivity|lia]|]
         end.
  discriminate.
Qed.

(** * size_to_bytes / kilobytes / megabytes on a spelling in normal form *)
Section Canon.
  Variable T : utables.
  Hypothesis HT : T = utables_canon.

  (** <n><c> and <n><c>B : n * 1024^e and n * 1000^e bytes *)
  Lemma size_to_bytes_spelled s n c e dec :
    norm s = spell n c dec -> assoc c canon_scale = Some e ->
    size_to_bytes T (VStr s) = UOk (denote n e dec).
  Proof.
    intros Hn Hc. subst T. unfold size_to_bytes. fold (norm s). rewrite Hn. unfold spell, denote.
    cbn [un_mod un_unit_dec un_unit_bin un_scale utables_canon].
    destruct dec.
    - (* modifier: size[-1] == 'B', unit = 1000, then the suffix proper *)
      change (str_of_Z n ++ [c; 66]) with (str_of_Z n ++ [c] ++ [66]). rewrite app_assoc, unsnoc_app.
      rewrite Z.eqb_refl, unsnoc_app, Hc, uint_str. reflexivity.
    - rewrite unsnoc_app. destruct (c =? 66) eqn:E.
      + (* "<n>B": the modifier branch is taken and the remaining numeral has no suffix *)
        apply Z.eqb_eq in E. subst c. vm_compute in Hc. inversion Hc; subst e.
        destruct (str_of_Z_last n) as [i [d [Hi Hd]]]. rewrite Hi at 1. rewrite unsnoc_app.
        destruct (digit_plain d Hd) as [_ [Hs _]]. rewrite Hs, uint_str. f_equal. rewrite Z.pow_0_r. lia.
      + rewrite unsnoc_app, Hc, uint_str. reflexivity.
  Qed.

  Lemma spell_not_zero n c dec : str_eqb (spell n c dec) [48] = false.
  Proof.
    unfold spell. destruct (str_of_Z_last n) as [i [d [Hi _]]]. rewrite Hi.
    destruct i as [|a i]; cbn [app str_eqb]; [|destruct i; cbn [app str_eqb]]; apply andb_false_r.
  Qed.

  Lemma kilobytes_spelled s n c e dec :
    norm s = spell n c dec -> assoc c canon_scale = Some e ->
    kilobytes T (VStr s) = UOk (denote n e dec / 1024).
  Proof.
    intros Hn Hc. unfold kilobytes. cbn [py_str]. fold (norm s).
    rewrite (size_to_bytes_spelled s n c e dec Hn Hc). rewrite Hn. subst T.
    cbn [un_kb_zero un_scale un_kb_div utables_canon]. rewrite spell_not_zero.
    unfold spell. destruct dec.
    - change (str_of_Z n ++ [c; 66]) with (str_of_Z n ++ [c] ++ [66]). rewrite app_assoc, unsnoc_app.
      reflexivity.
    - rewrite unsnoc_app, Hc. reflexivity.
  Qed.

  Lemma megabytes_spelled s n c e dec :
    norm s = spell n c dec -> assoc c canon_scale = Some e ->
    megabytes T (VStr s) = UOk (denote n e dec / 1048576).
  Proof.
    intros Hn Hc. unfold megabytes. rewrite (kilobytes_spelled s n c e dec Hn Hc). subst T.
    cbn [ubind un_mb_div utables_canon]. f_equal. rewrite Z.div_div by lia. reflexivity.
  Qed.

  (** unit-less values: only a spelling of "0" is accepted, anything else is the generic Exception *)
  Lemma kilobytes_unitless_val v n :
    norm (py_str v) = str_of_Z n -> kilobytes T v = if n =? 0 then UOk 0 else UException.
  Proof.
    intros Hn. unfold kilobytes. fold (norm (py_str v)). rewrite Hn. subst T.
    cbn [un_kb_zero un_scale utables_canon].
    destruct (str_eqb (str_of_Z n) [48]) eqn:E.
    - apply str_eqb_eq in E. apply str_of_Z_zero in E. subst n. reflexivity.
    - destruct (n =? 0) eqn:E0.
      + apply Z.eqb_eq in E0. subst n. vm_compute in E. discriminate.
      + destruct (str_of_Z_last n) as [i [d [Hi Hd]]]. rewrite Hi, unsnoc_app.
        destruct (digit_plain d Hd) as [_ [Hs _]]. rewrite Hs. reflexivity.
  Qed.

  Lemma kilobytes_unitless s n :
    norm s = str_of_Z n -> kilobytes T (VStr s) = if n =? 0 then UOk 0 else UException.
  Proof. intros Hn. apply kilobytes_unitless_val. exact Hn. Qed.

  Lemma kilobytes_int n : kilobytes T (VInt n) = if n =? 0 then UOk 0 else UException.
  Proof. apply kilobytes_unitless_val. cbn [py_str]. apply norm_plain, str_of_Z_plain. Qed.

  (** cpu_units: "<n>%", "<n>" and the int n *)
  Lemma cpu_units_spelled s n (pct : bool) :
    norm s = str_of_Z n ++ (if pct then [37] else []) -> cpu_units T (VStr s) = UOk n.
  Proof.
    intros Hn. unfold cpu_units. cbn [py_str]. fold (norm s). rewrite Hn. subst T. cbn [un_pct utables_canon].
    destruct pct.
    - rewrite endswith_last, removelast_last. apply uint_str.
    - rewrite app_nil_r. destruct (str_of_Z_last n) as [i [d [Hi Hd]]]. rewrite Hi at 1.
      destruct (digit_plain d Hd) as [_ [_ H37]]. rewrite endswith_other by exact H37. apply uint_str.
  Qed.

  Lemma cpu_units_int n : cpu_units T (VInt n) = UOk n.
  Proof.
    pose proof (cpu_units_spelled (str_of_Z n) n false) as H. rewrite app_nil_r in H.
    specialize (H (norm_plain _ (str_of_Z_plain n))). exact H.
  Qed.

  (** * resources *)
  Lemma resources_unfold d :
    resources T d =
    ubind (megabytes T (fval (r_memory d))) (fun m =>
    ubind (cpu_units T (fval (r_cpu d))) (fun c =>
    ubind (megabytes T (fval (r_disk d))) (fun k => UOk [m; c; k]))).
  Proof.
    subst T. unfold resources. cbn [un_res_order utables_canon res_list un_res_parsers assoc].
    change (1 =? 1) with true. change (2 =? 2) with true. change (3 =? 3) with true.
    change (1 =? 2) with false. change (1 =? 3) with false. change (2 =? 3) with false. cbv iota.
    unfold apply_parser, P_MEGABYTES, P_CPU_UNITS.
    change (1 =? 1) with true. change (2 =? 2) with true. change (2 =? 1) with false. cbv iota.
    unfold rget, K_MEMORY, K_CPU, K_DISK. change (un_res_default utables_canon) with 0.
    change (1 =? 1) with true. change (2 =? 2) with true. change (3 =? 3) with true.
    change (2 =? 1) with false. change (3 =? 1) with false. change (3 =? 2) with false. cbv iota.
    unfold fval.
    destruct (megabytes utables_canon match r_memory d with Some v => v | None => VInt 0 end); cbn [ubind];
      try reflexivity.
    destruct (cpu_units utables_canon match r_cpu d with Some v => v | None => VInt 0 end); cbn [ubind];
      try reflexivity.
    destruct (megabytes utables_canon match r_disk d with Some v => v | None => VInt 0 end); cbn [ubind];
      reflexivity.
  Qed.

  Lemma resources_vector d m c k :
    megabytes T (fval (r_memory d)) = UOk m -> cpu_units T (fval (r_cpu d)) = UOk c ->
    megabytes T (fval (r_disk d)) = UOk k -> resources T d = UOk [m; c; k].
  Proof. intros H1 H2 H3. rewrite resources_unfold, H1, H2, H3. reflexivity. Qed.

  Lemma resources_ok_inv d l :
    resources T d = UOk l ->
    exists m c k, l = [m; c; k] /\ megabytes T (fval (r_memory d)) = UOk m /\
                  cpu_units T (fval (r_cpu d)) = UOk c /\ megabytes T (fval (r_disk d)) = UOk k.
  Proof.
    rewrite resources_unfold. intros H.
    destruct (megabytes T (fval (r_memory d))) as [m| | |]; cbn [ubind] in H; try discriminate.
    destruct (cpu_units T (fval (r_cpu d))) as [c| | |]; cbn [ubind] in H; try discriminate.
    destruct (megabytes T (fval (r_disk d))) as [k| | |]; cbn [ubind] in H; try discriminate.
    inversion H; subst. exists m, c, k. repeat split; reflexivity.
  Qed.

  Lemma megabytes_zero_str s : norm s = [48] -> megabytes T (VStr s) = UOk 0.
  Proof.
    intros Hn. unfold megabytes. rewrite (kilobytes_unitless s 0 Hn). subst T. reflexivity.
  Qed.

  Lemma megabytes_field f sp :
    fspells f sp = true -> fwf sp = true -> megabytes T (fval f) = UOk (fbytes sp / 1048576).
  Proof.
    intros Hs Hw. destruct sp as [| |n c dec]; cbn [fbytes].
    - destruct f as [v|]; [destruct v; discriminate|]. cbn [fval]. unfold megabytes.
      rewrite kilobytes_int. subst T. reflexivity.
    - destruct f as [[z|s]|]; cbn [fspells] in Hs; [| |discriminate]; cbn [fval].
      + apply Z.eqb_eq in Hs. subst z. unfold megabytes. rewrite kilobytes_int. subst T. reflexivity.
      + unfold spells in Hs. apply str_eqb_eq in Hs. apply megabytes_zero_str. exact Hs.
    - destruct f as [[z|s]|]; cbn [fspells] in Hs; try discriminate. cbn [fval].
      unfold spells in Hs. apply str_eqb_eq in Hs. cbn [fwf] in Hw.
      destruct (assoc c canon_scale) as [e|] eqn:Ec; [|discriminate].
      exact (megabytes_spelled s n c e dec Hs Ec).
  Qed.

  Lemma cpu_field f sp : cspells f sp = true -> cpu_units T (fval f) = UOk (cval sp).
  Proof.
    intros Hs. destruct sp as [|n|n pct]; cbn [cval].
    - destruct f as [v|]; [destruct v; discriminate|]. cbn [fval]. apply cpu_units_int.
    - destruct f as [[z|s]|]; cbn [cspells] in Hs; try discriminate. apply Z.eqb_eq in Hs. subst z.
      cbn [fval]. apply cpu_units_int.
    - destruct f as [[z|s]|]; cbn [cspells] in Hs; try discriminate. cbn [fval].
      unfold spells in Hs. apply str_eqb_eq in Hs. exact (cpu_units_spelled s n pct Hs).
  Qed.

  Lemma resources_wellformed d sm sc sd :
    fspells (r_memory d) sm = true -> fwf sm = true ->
    cspells (r_cpu d) sc = true ->
    fspells (r_disk d) sd = true -> fwf sd = true ->
    resources T d = UOk [fbytes sm / 1048576; cval sc; fbytes sd / 1048576].
  Proof.
    intros H1 W1 H2 H3 W3. apply resources_vector.
    - exact (megabytes_field _ _ H1 W1).
    - exact (cpu_field _ _ H2).
    - exact (megabytes_field _ _ H3 W3).
  Qed.
End Canon.

(** * Statements over the generated tables (premise: the check pins them) *)
Section Ok.
  Variable T : utables.
  Hypothesis Hok : units_tables_ok T = true.
  Let HT : T = utables_canon := tables_ok_canon T Hok.

  (** the general form: any suffix of the table, with or without the modifier, in any letter case, with blanks *)
  Lemma spelled_all s n c e dec :
    spells s (spell n c dec) = true -> assoc c canon_scale = Some e ->
    size_to_bytes T (VStr s) = UOk (denote n e dec) /\
    kilobytes T (VStr s) = UOk (denote n e dec / 1024) /\
    megabytes T (VStr s) = UOk (denote n e dec / 1048576).
  Proof.
    intros Hs Hc. unfold spells in Hs. apply str_eqb_eq in Hs. fold (norm s) in Hs.
    repeat split.
    - exact (size_to_bytes_spelled T HT s n c e dec Hs Hc).
    - exact (kilobytes_spelled T HT s n c e dec Hs Hc).
    - exact (megabytes_spelled T HT s n c e dec Hs Hc).
  Qed.

  (** a canonical string spells itself; so does every re-casing of it between blanks *)
  Lemma spells_canon n c e dec : assoc c canon_scale = Some e -> spells (spell n c dec) (spell n c dec) = true.
  Proof.
    intros Hc. unfold spells. apply str_eqb_eq. fold (norm (spell n c dec)). unfold spell.
    apply norm_str_sfx. destruct (scale_plain c e Hc) as [Hp _]. destruct dec; cbn [forallb]; rewrite Hp; reflexivity.
  Qed.

  Lemma spells_recased l r s t :
    blank l = true -> blank r = true -> upper s = upper t -> spells t t = true -> spells (l ++ s ++ r) t = true.
  Proof.
    intros Hl Hr Hu Ht. unfold spells in *. fold (norm (l ++ s ++ r)). fold (norm t) in Ht.
    rewrite norm_blanks by assumption. rewrite (norm_same_upper s t Hu). exact Ht.
  Qed.

  (** two spellings of the same number of bytes / kilobytes / megabytes are interchangeable *)
  Lemma same_quantity s1 n1 c1 e1 d1 s2 n2 c2 e2 d2 :
    spells s1 (spell n1 c1 d1) = true -> assoc c1 canon_scale = Some e1 ->
    spells s2 (spell n2 c2 d2) = true -> assoc c2 canon_scale = Some e2 ->
    (denote n1 e1 d1 = denote n2 e2 d2 -> size_to_bytes T (VStr s1) = size_to_bytes T (VStr s2)) /\
    (denote n1 e1 d1 / 1024 = denote n2 e2 d2 / 1024 -> kilobytes T (VStr s1) = kilobytes T (VStr s2)) /\
    (denote n1 e1 d1 / 1048576 = denote n2 e2 d2 / 1048576 -> megabytes T (VStr s1) = megabytes T (VStr s2)).
  Proof.
    intros H1 C1 H2 C2.
    destruct (spelled_all s1 n1 c1 e1 d1 H1 C1) as [A1 [B1 M1]].
    destruct (spelled_all s2 n2 c2 e2 d2 H2 C2) as [A2 [B2 M2]].
    rewrite A1, A2, B1, B2, M1, M2. repeat split; intros E; rewrite E; reflexivity.
  Qed.

  (** the parsers depend on their argument only through value.upper().strip() *)
  Lemma normal_form s1 s2 :
    pstrip (upper s1) = pstrip (upper s2) ->
    size_to_bytes T (VStr s1) = size_to_bytes T (VStr s2) /\ kilobytes T (VStr s1) = kilobytes T (VStr s2) /\
    megabytes T (VStr s1) = megabytes T (VStr s2) /\ cpu_units T (VStr s1) = cpu_units T (VStr s2).
  Proof.
    intros H.
    assert (Hs : size_to_bytes T (VStr s1) = size_to_bytes T (VStr s2)).
    { unfold size_to_bytes. rewrite H. reflexivity. }
    assert (Hk : kilobytes T (VStr s1) = kilobytes T (VStr s2)).
    { unfold kilobytes. cbn [py_str]. rewrite H, Hs. reflexivity. }
    repeat split; [exact Hs|exact Hk| |].
    - unfold megabytes. rewrite Hk. reflexivity.
    - unfold cpu_units. cbn [py_str]. rewrite H. reflexivity.
  Qed.

  Lemma case_and_blanks l r s1 s2 :
    blank l = true -> blank r = true -> upper s1 = upper s2 ->
    size_to_bytes T (VStr (l ++ s1 ++ r)) = size_to_bytes T (VStr s2) /\
    kilobytes T (VStr (l ++ s1 ++ r)) = kilobytes T (VStr s2) /\
    megabytes T (VStr (l ++ s1 ++ r)) = megabytes T (VStr s2) /\
    cpu_units T (VStr (l ++ s1 ++ r)) = cpu_units T (VStr s2).
  Proof.
    intros Hl Hr Hu. apply normal_form. fold (norm (l ++ s1 ++ r)). fold (norm s2).
    rewrite norm_blanks by assumption. apply norm_same_upper. exact Hu.
  Qed.

  Lemma lower_case l r s :
    blank l = true -> blank r = true ->
    size_to_bytes T (VStr (l ++ lower s ++ r)) = size_to_bytes T (VStr s) /\
    kilobytes T (VStr (l ++ lower s ++ r)) = kilobytes T (VStr s) /\
    megabytes T (VStr (l ++ lower s ++ r)) = megabytes T (VStr s) /\
    cpu_units T (VStr (l ++ lower s ++ r)) = cpu_units T (VStr s).
  Proof. intros Hl Hr. apply case_and_blanks; [exact Hl|exact Hr|apply upper_lower]. Qed.

  (** concrete suffixes *)
  Lemma canon_all n c e dec : assoc c canon_scale = Some e ->
    size_to_bytes T (VStr (spell n c dec)) = UOk (denote n e dec) /\
    kilobytes T (VStr (spell n c dec)) = UOk (denote n e dec / 1024) /\
    megabytes T (VStr (spell n c dec)) = UOk (denote n e dec / 1048576).
  Proof. intros Hc. exact (spelled_all _ n c e dec (spells_canon n c e dec Hc) Hc). Qed.

  Lemma G_is_1024M n :
    megabytes T (VStr (str_of_Z n ++ [71])) = UOk (1024 * n) /\
    megabytes T (VStr (str_of_Z (1024 * n) ++ [77])) = UOk (1024 * n).
  Proof.
    destruct (canon_all n 71 3 false eq_refl) as [_ [_ HG]].
    destruct (canon_all (1024 * n) 77 2 false eq_refl) as [_ [_ HM]].
    unfold spell in *. rewrite HG, HM. unfold denote. cbv iota. change (1024 ^ 3) with 1073741824.
    change (1024 ^ 2) with 1048576. split; f_equal.
    - replace (n * 1073741824) with (1024 * n * 1048576) by lia. apply Z.div_mul. lia.
    - apply Z.div_mul. lia.
  Qed.

  Lemma T_is_1024G n :
    megabytes T (VStr (str_of_Z n ++ [84])) = UOk (1024 * 1024 * n) /\
    megabytes T (VStr (str_of_Z (1024 * n) ++ [71])) = UOk (1024 * 1024 * n).
  Proof.
    destruct (canon_all n 84 4 false eq_refl) as [_ [_ HT']].
    destruct (canon_all (1024 * n) 71 3 false eq_refl) as [_ [_ HG]].
    unfold spell in *. rewrite HT', HG. unfold denote. cbv iota. change (1024 ^ 4) with 1099511627776.
    change (1024 ^ 3) with 1073741824. split; f_equal.
    - replace (n * 1099511627776) with (1024 * 1024 * n * 1048576) by lia. apply Z.div_mul. lia.
    - replace (1024 * n * 1073741824) with (1024 * 1024 * n * 1048576) by lia. apply Z.div_mul. lia.
  Qed.

  Lemma K_floor n :
    size_to_bytes T (VStr (str_of_Z n ++ [75])) = UOk (1024 * n) /\
    kilobytes T (VStr (str_of_Z n ++ [75])) = UOk n /\
    megabytes T (VStr (str_of_Z n ++ [75])) = UOk (n / 1024).
  Proof.
    destruct (canon_all n 75 1 false eq_refl) as [HB [HK HM]].
    unfold spell in *. rewrite HB, HK, HM. unfold denote. cbv iota. change (1024 ^ 1) with 1024.
    repeat split; f_equal.
    - lia.
    - apply Z.div_mul. lia.
    - change 1048576 with (1024 * 1024). apply Z.div_mul_cancel_r; lia.
  Qed.

  Lemma M_exact n :
    kilobytes T (VStr (str_of_Z n ++ [77])) = UOk (1024 * n) /\
    megabytes T (VStr (str_of_Z n ++ [77])) = UOk n.
  Proof.
    destruct (canon_all n 77 2 false eq_refl) as [_ [HK HM]].
    unfold spell in *. rewrite HK, HM. unfold denote. cbv iota. change (1024 ^ 2) with 1048576.
    split; f_equal.
    - replace (n * 1048576) with (1024 * n * 1024) by lia. apply Z.div_mul. lia.
    - apply Z.div_mul. lia.
  Qed.

  Lemma B_is_bytes n :
    size_to_bytes T (VStr (str_of_Z n ++ [66])) = UOk n /\
    kilobytes T (VStr (str_of_Z n ++ [66])) = UOk (n / 1024) /\
    megabytes T (VStr (str_of_Z n ++ [66])) = UOk (n / 1048576).
  Proof.
    destruct (canon_all n 66 0 false eq_refl) as [HB [HK HM]].
    unfold spell in *. rewrite HB, HK, HM. unfold denote. cbv iota. change (1024 ^ 0) with 1.
    rewrite Z.mul_1_r. repeat split; reflexivity.
  Qed.

  Lemma decimal_modifier n :
    size_to_bytes T (VStr (str_of_Z n ++ [75; 66])) = UOk (n * 1000) /\
    size_to_bytes T (VStr (str_of_Z n ++ [77; 66])) = UOk (n * 1000000) /\
    size_to_bytes T (VStr (str_of_Z n ++ [71; 66])) = UOk (n * 1000000000) /\
    megabytes T (VStr (str_of_Z n ++ [77; 66])) = UOk (n * 1000000 / 1048576) /\
    megabytes T (VStr (str_of_Z n ++ [71; 66])) = UOk (n * 1000000000 / 1048576).
  Proof.
    destruct (canon_all n 75 1 true eq_refl) as [HK _].
    destruct (canon_all n 77 2 true eq_refl) as [HM [_ HMm]].
    destruct (canon_all n 71 3 true eq_refl) as [HG [_ HGm]].
    unfold spell, denote in *. cbv iota in *. change (1000 ^ 1) with 1000 in *. change (1000 ^ 2) with 1000000 in *.
    change (1000 ^ 3) with 1000000000 in *.
    repeat split; assumption.
  Qed.

  Lemma cpu_percent n :
    cpu_units T (VStr (str_of_Z n ++ [37])) = UOk n /\ cpu_units T (VStr (str_of_Z n)) = UOk n /\
    cpu_units T (VInt n) = UOk n.
  Proof.
    repeat split.
    - apply (cpu_units_spelled T HT _ n true). apply norm_str_sfx. reflexivity.
    - apply (cpu_units_spelled T HT _ n false). rewrite app_nil_r. apply norm_plain, str_of_Z_plain.
    - apply (cpu_units_int T HT).
  Qed.

  Lemma cpu_spelled s n (pct : bool) :
    spells s (str_of_Z n ++ (if pct then [37] else [])) = true -> cpu_units T (VStr s) = UOk n.
  Proof.
    intros Hs. unfold spells in Hs. apply str_eqb_eq in Hs. exact (cpu_units_spelled T HT s n pct Hs).
  Qed.

  Lemma unitless n :
    kilobytes T (VStr (str_of_Z n)) = (if n =? 0 then UOk 0 else UException) /\
    kilobytes T (VInt n) = (if n =? 0 then UOk 0 else UException) /\
    size_to_bytes T (VStr (str_of_Z n)) = UOk n.
  Proof.
    repeat split.
    - apply (kilobytes_unitless T HT). apply norm_plain, str_of_Z_plain.
    - apply (kilobytes_int T HT).
    - rewrite HT. unfold size_to_bytes. fold (norm (str_of_Z n)).
      rewrite (norm_plain _ (str_of_Z_plain n)).
      destruct (str_of_Z_last n) as [i [d [Hi Hd]]]. rewrite Hi at 1. rewrite unsnoc_app.
      cbn [un_mod un_scale utables_canon].
      destruct (digit_plain d Hd) as [_ [Hs _]].
      assert (Hd66 : (d =? 66) = false).
      { destruct (d =? 66) eqn:E; [|reflexivity]. apply Z.eqb_eq in E. subst d. vm_compute in Hs. discriminate. }
      rewrite Hd66. rewrite Hi at 1. rewrite unsnoc_app, Hs. apply uint_str.
  Qed.

  Lemma res_vector d m c k :
    megabytes T (fval (r_memory d)) = UOk m -> cpu_units T (fval (r_cpu d)) = UOk c ->
    megabytes T (fval (r_disk d)) = UOk k -> resources T d = UOk [m; c; k].
  Proof. exact (resources_vector T HT d m c k). Qed.

  Lemma res_inv d l :
    resources T d = UOk l ->
    exists m c k, l = [m; c; k] /\ megabytes T (fval (r_memory d)) = UOk m /\
                  cpu_units T (fval (r_cpu d)) = UOk c /\ megabytes T (fval (r_disk d)) = UOk k.
  Proof. exact (resources_ok_inv T HT d l). Qed.

  Lemma res_total d sm sc sd :
    fspells (r_memory d) sm = true -> fwf sm = true ->
    cspells (r_cpu d) sc = true ->
    fspells (r_disk d) sd = true -> fwf sd = true ->
    resources T d = UOk [fbytes sm / 1048576; cval sc; fbytes sd / 1048576].
  Proof. exact (resources_wellformed T HT d sm sc sd). Qed.

  Lemma res_same d1 sm1 sc1 sd1 d2 sm2 sc2 sd2 :
    fspells (r_memory d1) sm1 = true -> fwf sm1 = true -> cspells (r_cpu d1) sc1 = true ->
    fspells (r_disk d1) sd1 = true -> fwf sd1 = true ->
    fspells (r_memory d2) sm2 = true -> fwf sm2 = true -> cspells (r_cpu d2) sc2 = true ->
    fspells (r_disk d2) sd2 = true -> fwf sd2 = true ->
    fbytes sm1 / 1048576 = fbytes sm2 / 1048576 -> cval sc1 = cval sc2 ->
    fbytes sd1 / 1048576 = fbytes sd2 / 1048576 ->
    resources T d1 = resources T d2 /\
    resources T d1 = UOk [fbytes sm1 / 1048576; cval sc1; fbytes sd1 / 1048576].
  Proof.
    intros A1 A2 A3 A4 A5 B1 B2 B3 B4 B5 E1 E2 E3.
    rewrite (resources_wellformed T HT d1 sm1 sc1 sd1 A1 A2 A3 A4 A5).
    rewrite (resources_wellformed T HT d2 sm2 sc2 sd2 B1 B2 B3 B4 B5).
    rewrite E1, E2, E3. split; reflexivity.
  Qed.
End Ok.
