(** C15, codec 4: resource objects as ZooKeeper payloads.  zkutils._payload (json.dumps with
    sort_keys=True) and the deserialisation of get_with_metadata (json.loads, YAML fallback).

    Executable model ONLY (proofs in JsonP.v).

    Value universe: null | bool | int | str | list | dict with str keys (floats are not modelled;
    string characters are code points below the surrogate range).  json.dumps is modelled with
    its default ensure_ascii=True escapes and ', ' / ': ' separators; json.loads with the JSON
    grammar Python accepts (whitespace, escapes, duplicate keys: last value wins at the first
    position).  The YAML fallback is modelled only for the empty payload (yaml.load(b'') = None);
    any other fallback is an explicit [DYaml]. *)
From Coq Require Import ZArith List Bool.
From TM Require Import Codec.BaseN Codec.Dec.
Import ListNotations.
Open Scope Z_scope.

Inductive value :=
| VNull
| VBool (b : bool)
| VInt (z : Z)
| VStr (s : str)
| VList (l : list value)
| VDict (d : list (str * value)).

(** * json.dumps *)
Definition hexchar (d : Z) : Z := if d <? 10 then 48 + d else 87 + d.        (* lowercase *)
Definition hex4 (c : Z) : str :=
  [hexchar (c / 4096); hexchar ((c / 256) mod 16); hexchar ((c / 16) mod 16); hexchar (c mod 16)].

(** ESCAPE_ASCII: anything outside ' '..'~', and the double quote and '\' *)
Definition esc_char (c : Z) : str :=
  if c =? 34 then [92; 34]
  else if c =? 92 then [92; 92]
  else if c =? 10 then [92; 110]
  else if c =? 13 then [92; 114]
  else if c =? 9 then [92; 116]
  else if c =? 8 then [92; 98]
  else if c =? 12 then [92; 102]
  else if (32 <=? c) && (c <=? 126) then [c]
  else 92 :: 117 :: hex4 c.

Definition print_string (s : str) : str := 34 :: flat_map esc_char s ++ [34].

Definition s_null : str := [110; 117; 108; 108].
Definition s_true : str := [116; 114; 117; 101].
Definition s_false : str := [102; 97; 108; 115; 101].
Definition sep_item : str := [44; 32].      (* ', ' *)
Definition sep_key : str := [58; 32].       (* ': ' *)

(** sep.join(parts) for a string separator *)
Fixpoint join_with (sep : str) (parts : list str) : str :=
  match parts with
  | [] => []
  | [x] => x
  | x :: t => x ++ sep ++ join_with sep t
  end.

Fixpoint print_value (v : value) : str :=
  match v with
  | VNull => s_null
  | VBool true => s_true
  | VBool false => s_false
  | VInt z => str_of_Z z
  | VStr s => print_string s
  | VList l => 91 :: join_with sep_item (map print_value l) ++ [93]
  | VDict d =>
      123 :: join_with sep_item
               (map (fun kv => match kv with (k, x) => print_string k ++ sep_key ++ print_value x end) d)
          ++ [125]
  end.

(** sort_keys=True: code-point lexicographic order of the keys *)
Fixpoint str_ltb (a b : str) : bool :=
  match a, b with
  | [], [] => false
  | [], _ :: _ => true
  | _ :: _, [] => false
  | x :: a', y :: b' => (x <? y) || ((x =? y) && str_ltb a' b')
  end.

Fixpoint insert_key {A} (k : str) (v : A) (d : list (str * A)) : list (str * A) :=
  match d with
  | [] => [(k, v)]
  | (k', v') :: t => if str_ltb k' k then (k', v') :: insert_key k v t else (k, v) :: d
  end.

Fixpoint sort_keys {A} (d : list (str * A)) : list (str * A) :=
  match d with
  | [] => []
  | (k, v) :: t => insert_key k v (sort_keys t)
  end.

Fixpoint canon (v : value) : value :=
  match v with
  | VList l => VList (map canon l)
  | VDict d => VDict (sort_keys (map (fun kv => (fst kv, canon (snd kv))) d))
  | _ => v
  end.

Definition json_dumps (v : value) : str := print_value (canon v).

(** * json.loads *)
Inductive presult (A : Type) :=
| POk (a : A) (rest : str)
| PFail                       (* ValueError (JSONDecodeError) *)
| PUnmodelled.                (* float / surrogate escape / model fuel: outside this model *)
Arguments POk {A} a rest.
Arguments PFail {A}.
Arguments PUnmodelled {A}.

Definition is_jws (c : Z) : bool := (c =? 32) || (c =? 9) || (c =? 10) || (c =? 13).
Fixpoint skip_ws (s : str) : str :=
  match s with
  | c :: t => if is_jws c then skip_ws t else s
  | [] => []
  end.

Definition unhexchar (c : Z) : option Z :=
  if (48 <=? c) && (c <=? 57) then Some (c - 48)
  else if (97 <=? c) && (c <=? 102) then Some (c - 87)
  else if (65 <=? c) && (c <=? 70) then Some (c - 55)
  else None.

Definition unhex4 (a b c d : Z) : option Z :=
  match unhexchar a, unhexchar b, unhexchar c, unhexchar d with
  | Some x, Some y, Some z, Some w => Some (x * 4096 + y * 256 + z * 16 + w)
  | _, _, _, _ => None
  end.

(** the characters after the opening quote, up to and including the closing quote *)
Fixpoint parse_string_body (s : str) (acc : str) : presult str :=
  match s with
  | [] => PFail                                               (* unterminated *)
  | c :: t =>
      if c =? 34 then POk (rev acc) t
      else if c =? 92 then
        match t with
        | [] => PFail
        | e :: t' =>
            if e =? 34 then parse_string_body t' (34 :: acc)
            else if e =? 92 then parse_string_body t' (92 :: acc)
            else if e =? 47 then parse_string_body t' (47 :: acc)
            else if e =? 98 then parse_string_body t' (8 :: acc)
            else if e =? 102 then parse_string_body t' (12 :: acc)
            else if e =? 110 then parse_string_body t' (10 :: acc)
            else if e =? 114 then parse_string_body t' (13 :: acc)
            else if e =? 116 then parse_string_body t' (9 :: acc)
            else if e =? 117 then
              match t' with
              | a :: b :: c' :: d :: t'' =>
                  match unhex4 a b c' d with
                  | None => PFail
                  | Some u => if (55296 <=? u) && (u <=? 57343) then PUnmodelled
                              else parse_string_body t'' (u :: acc)
                  end
              | _ => PFail
              end
            else PFail                                        (* invalid \escape *)
        end
      else if c <? 32 then PFail                              (* invalid control character (strict) *)
      else parse_string_body t (c :: acc)
  end.

(** maximal run of digits *)
Fixpoint take_digits (s : str) : str * str :=
  match s with
  | c :: t => if is_digit c then let (a, b) := take_digits t in (c :: a, b) else ([], s)
  | [] => ([], [])
  end.

Fixpoint digits_value (ds : str) (acc : Z) : Z :=
  match ds with
  | [] => acc
  | c :: t => digits_value t (acc * 10 + (c - 48))
  end.

(** NUMBER_RE of json.scanner: optional minus, 0 or a non-zero digit followed by digits, then an optional
    fraction (dot, digits) and exponent (e or E, optional sign, digits); [s] starts at the first digit *)
Definition float_follows (rest : str) : bool :=
  match rest with
  | [] => false
  | e :: r =>
      if e =? 46 then match r with c :: _ => is_digit c | [] => false end
      else if (e =? 101) || (e =? 69) then
        match r with
        | c :: r' => is_digit c || (((c =? 43) || (c =? 45)) && match r' with c' :: _ => is_digit c' | [] => false end)
        | [] => false
        end
      else false
  end.

Definition parse_nat (s : str) : presult Z :=
  match s with
  | [] => PFail
  | c :: t =>
      if c =? 48 then (if float_follows t then PUnmodelled else POk 0 t)
      else if is_digit c then
        let (ds, rest) := take_digits t in
        if float_follows rest then PUnmodelled else POk (digits_value ds (c - 48)) rest
      else PFail
  end.

Fixpoint dict_set (d : list (str * value)) (k : str) (v : value) : list (str * value) :=
  match d with
  | [] => [(k, v)]
  | (k', v') :: t => if str_eqb k' k then (k', v) :: t else (k', v') :: dict_set t k v
  end.

Definition starts_with (p s : str) : option str :=
  (fix go (p s : str) : option str :=
     match p with
     | [] => Some s
     | c :: p' => match s with d :: s' => if c =? d then go p' s' else None | [] => None end
     end) p s.

(** scan_once at the first non-blank character; arrays and objects consume fuel per element *)
Fixpoint parse_value (fuel : nat) (s : str) : presult value :=
  match fuel with
  | O => PUnmodelled
  | S f =>
      match s with
      | [] => PFail
      | c :: t =>
          if c =? 34 then
            match parse_string_body t [] with
            | POk x r => POk (VStr x) r | PFail => PFail | PUnmodelled => PUnmodelled
            end
          else if c =? 91 then
            match skip_ws t with
            | c' :: r => if c' =? 93 then POk (VList []) r else parse_elems f (c' :: r) []
            | [] => PFail
            end
          else if c =? 123 then
            match skip_ws t with
            | c' :: r => if c' =? 125 then POk (VDict []) r else parse_members f (c' :: r) []
            | [] => PFail
            end
          else if c =? 110 then
            match starts_with s_null s with Some r => POk VNull r | None => PFail end
          else if c =? 116 then
            match starts_with s_true s with Some r => POk (VBool true) r | None => PFail end
          else if c =? 102 then
            match starts_with s_false s with Some r => POk (VBool false) r | None => PFail end
          else if c =? 45 then
            match t with
            | [] => PFail
            | c' :: _ =>
                if c' =? 73 then PUnmodelled                           (* -Infinity *)
                else match parse_nat t with
                     | POk n r => POk (VInt (- n)) r | PFail => PFail | PUnmodelled => PUnmodelled
                     end
            end
          else if is_digit c then
            match parse_nat s with
            | POk n r => POk (VInt n) r | PFail => PFail | PUnmodelled => PUnmodelled
            end
          else if (c =? 78) || (c =? 73) then
            (if match starts_with [78; 97; 78] s with Some _ => true | None => false end
                || match starts_with [73; 110; 102; 105; 110; 105; 116; 121] s with Some _ => true | None => false end
             then PUnmodelled else PFail)                              (* NaN / Infinity *)
          else PFail
      end
  end
(** [s] is at the first character of an element (whitespace already skipped) *)
with parse_elems (fuel : nat) (s : str) (acc : list value) : presult value :=
  match fuel with
  | O => PUnmodelled
  | S f =>
      match parse_value f s with
      | POk v r =>
          match skip_ws r with
          | c :: r' =>
              if c =? 44 then parse_elems f (skip_ws r') (v :: acc)
              else if c =? 93 then POk (VList (rev (v :: acc))) r'
              else PFail
          | [] => PFail
          end
      | PFail => PFail
      | PUnmodelled => PUnmodelled
      end
  end
(** [s] is at the first character of a member: must be the double quote *)
with parse_members (fuel : nat) (s : str) (acc : list (str * value)) : presult value :=
  match fuel with
  | O => PUnmodelled
  | S f =>
      match s with
      | c :: t =>
          if c =? 34 then
            match parse_string_body t [] with
            | POk k r =>
                match skip_ws r with
                | c1 :: r1 =>
                    if c1 =? 58 then
                      match parse_value f (skip_ws r1) with
                      | POk v r2 =>
                          match skip_ws r2 with
                          | c2 :: r3 =>
                              if c2 =? 44 then parse_members f (skip_ws r3) (dict_set acc k v)
                              else if c2 =? 125 then POk (VDict (dict_set acc k v)) r3
                              else PFail
                          | [] => PFail
                          end
                      | PFail => PFail
                      | PUnmodelled => PUnmodelled
                      end
                    else PFail
                | [] => PFail
                end
            | PFail => PFail
            | PUnmodelled => PUnmodelled
            end
          else PFail
      | [] => PFail
      end
  end.

(** json.loads: leading whitespace, one value, trailing whitespace, nothing else *)
Definition json_loads (s : str) : presult value :=
  match parse_value (2 * length s + 2) (skip_ws s) with
  | POk v r => match skip_ws r with [] => POk v [] | _ :: _ => PFail end
  | PFail => PFail
  | PUnmodelled => PUnmodelled
  end.

(** * zkutils._payload / get_with_metadata *)
Inductive zdata :=
| ZNone                    (* data is None *)
| ZBytes (b : str)         (* bytes: stored as they are *)
| ZStr (s : str)           (* str: .encode() -- modelled for ASCII only *)
| ZObj (v : value).        (* anything else: json.dumps(data, sort_keys=True).encode() *)

Definition is_ascii (s : str) : bool := forallb (fun c => (0 <=? c) && (c <? 128)) s.

Definition zk_payload (d : zdata) : option str :=           (* [None]: non-ASCII str, not modelled *)
  match d with
  | ZNone => Some []
  | ZBytes b => Some b
  | ZStr s => if is_ascii s then Some s else None
  | ZObj v => Some (json_dumps v)
  end.

Inductive zdecoded :=
| DVal (v : value)         (* the json-parsed object; VNull = Python None *)
| DYaml                    (* not JSON and not empty: handed to yaml.load (not modelled) *)
| DUnmodelled.

Definition zk_decode (payload : str) : zdecoded :=
  match json_loads payload with
  | POk v _ => DVal v
  | PFail => match payload with [] => DVal VNull | _ :: _ => DYaml end     (* yaml.load(b'') is None *)
  | PUnmodelled => DUnmodelled
  end.

(** * Well-formed values: characters below the surrogate range, distinct keys in every dict *)
Definition char_ok (c : Z) : bool := (0 <=? c) && (c <? 55296).
Definition str_ok (s : str) : bool := forallb char_ok s.

Fixpoint keys_nodup (ks : list str) : bool :=
  match ks with
  | [] => true
  | k :: t => negb (existsb (str_eqb k) t) && keys_nodup t
  end.

Fixpoint wf_value (v : value) : bool :=
  match v with
  | VNull | VBool _ | VInt _ => true
  | VStr s => str_ok s
  | VList l => forallb wf_value l
  | VDict d => keys_nodup (map fst d) && forallb (fun kv => str_ok (fst kv) && wf_value (snd kv)) d
  end.
