(** C01 (unit spellings): utils.cpu_units / size_to_bytes / kilobytes / megabytes and
    scheduler/loader.py resources(data), at STRING level.

    Executable model ONLY (no proofs here; see UnitsP.v).

    Strings are [list Z] of code points ([Codec.BaseN.str]); int() and str() are the models of Codec/Dec.v
    ([py_int], [str_of_Z]).  The model is valid for ASCII strings: [upper] maps a-z only and [pstrip]
    strips the ASCII characters c with chr(c).isspace() (9-13, 28-32).  int() itself strips 9-13 and 32
    only (Dec.is_ws) - as CPython does ('\x1c5' is a ValueError although '\x1c5'.strip() == '5').

    A Python exception is an explicit constructor: [UValueError] (int() on a malformed numeral),
    [UIndexError] (size[-1] / norm[-1] on an empty string), [UException] (the generic
    Exception('Invalid (unitless) value ...') of kilobytes; also used for a key without parser).

    The multipliers, the suffix table, the literals and the parser assignment of [resources] are NOT
    written here: they are fields of [utables], instantiated in UnitsRun.v from the definitions that
    harness/tables_units.py regenerates from the source on every run. *)
From Coq Require Import ZArith List Bool.
From TM Require Import Codec.BaseN Codec.Dec.
Import ListNotations.
Open Scope Z_scope.

Inductive ures (A : Type) :=
  | UOk (a : A)
  | UValueError
  | UIndexError
  | UException.
Arguments UOk {A} a.
Arguments UValueError {A}.
Arguments UIndexError {A}.
Arguments UException {A}.

Definition ubind {A B} (r : ures A) (f : A -> ures B) : ures B :=
  match r with
  | UOk a => f a
  | UValueError => UValueError
  | UIndexError => UIndexError
  | UException => UException
  end.

(** the argument of the parsers: a str or an int (manifest values; the default of [data.get(k, 0)]) *)
Inductive pyval := VInt (z : Z) | VStr (s : str).

(** str(value) *)
Definition py_str (v : pyval) : str := match v with VInt z => str_of_Z z | VStr s => s end.

(** * str.upper() / str.lower() / str.strip() / s[-1], s[:-1] / str.endswith on ASCII *)
Definition upper_c (c : Z) : Z := if (97 <=? c) && (c <=? 122) then c - 32 else c.
Definition lower_c (c : Z) : Z := if (65 <=? c) && (c <=? 90) then c + 32 else c.
Definition upper (s : str) : str := map upper_c s.
Definition lower (s : str) : str := map lower_c s.
Definition is_ascii (s : str) : bool := forallb (fun c => (0 <=? c) && (c <? 128)) s.

(** chr(c).isspace() for c < 128 *)
Definition is_space (c : Z) : bool := ((9 <=? c) && (c <=? 13)) || ((28 <=? c) && (c <=? 32)).
Definition blank (s : str) : bool := forallb is_space s.

Fixpoint lstrip_sp (s : str) : str :=
  match s with
  | c :: t => if is_space c then lstrip_sp t else s
  | [] => []
  end.
Definition pstrip (s : str) : str := rev (lstrip_sp (rev (lstrip_sp s))).

(** [unsnoc s] = Some (s[:-1], s[-1]); None = s is empty (s[-1] raises IndexError) *)
Fixpoint unsnoc (s : str) : option (str * Z) :=
  match s with
  | [] => None
  | c :: t => match unsnoc t with
              | None => Some ([], c)
              | Some (i, l) => Some (c :: i, l)
              end
  end.

Fixpoint prefixb (p s : str) : bool :=
  match p, s with
  | [], _ => true
  | a :: p', b :: s' => (a =? b) && prefixb p' s'
  | _ :: _, [] => false
  end.
(** s.endswith(p) *)
Definition endswith (s p : str) : bool := prefixb (rev p) (rev s).

(** int(s): ValueError on a malformed numeral *)
Definition uint (s : str) : ures Z := match py_int s with Some z => UOk z | None => UValueError end.

(** * Tables regenerated from the source *)
Record utables := {
  un_scale : list (Z * Z);        (* utils._SIZE_SCALE: suffix code point -> exponent *)
  un_unit_bin : Z;                (* size_to_bytes: unit = 1024 *)
  un_unit_dec : Z;                (* size_to_bytes: unit = 1000 after the modifier *)
  un_mod : Z;                     (* size_to_bytes: the modifier character 'B' *)
  un_kb_zero : str;               (* kilobytes: norm == '0' *)
  un_kb_div : Z;                  (* kilobytes: // 1024 *)
  un_mb_div : Z;                  (* megabytes: // 1024 *)
  un_pct : str;                   (* cpu_units: norm.endswith('%') *)
  un_res_parsers : list (Z * Z);  (* loader.resources: key -> parser  (keys 1 memory 2 cpu 3 disk;
                                     parsers 1 megabytes 2 cpu_units 3 kilobytes 4 size_to_bytes) *)
  un_res_order : list Z;          (* loader.resources: the key order of the result vector *)
  un_res_default : Z              (* loader.resources: data.get(k, 0) *)
}.

Fixpoint assoc (k : Z) (l : list (Z * Z)) : option Z :=
  match l with
  | [] => None
  | (a, b) :: t => if a =? k then Some b else assoc k t
  end.

(** * utils.size_to_bytes *)
Definition size_to_bytes (T : utables) (v : pyval) : ures Z :=
  match v with
  | VInt z => UOk z                                            (* not a string: int(size) *)
  | VStr s0 =>
      let size := pstrip (upper s0) in
      match unsnoc size with
      | None => UIndexError                                    (* size[-1] == 'B' *)
      | Some (init, lastc) =>
          let unit := if lastc =? un_mod T then un_unit_dec T else un_unit_bin T in
          let size1 := if lastc =? un_mod T then init else size in
          match unsnoc size1 with
          | None => UIndexError                                (* size[-1] in _SIZE_SCALE *)
          | Some (init1, last1) =>
              match assoc last1 (un_scale T) with
              | Some e => ubind (uint init1) (fun z => UOk (z * unit ^ e))
              | None => uint size1
              end
          end
      end
  end.

(** * utils.kilobytes / utils.megabytes *)
Definition kilobytes (T : utables) (v : pyval) : ures Z :=
  let norm := pstrip (upper (py_str v)) in
  if str_eqb norm (un_kb_zero T) then UOk 0
  else match unsnoc norm with
       | None => UIndexError                                   (* norm[-1] *)
       | Some (_, lastc) =>
           match assoc lastc (un_scale T) with
           | None => UException                                (* 'Invalid (unitless) value' *)
           | Some _ => ubind (size_to_bytes T v) (fun b => UOk (b / un_kb_div T))
           end
       end.

Definition megabytes (T : utables) (v : pyval) : ures Z :=
  ubind (kilobytes T v) (fun k => UOk (k / un_mb_div T)).

(** * utils.cpu_units *)
Definition cpu_units (T : utables) (v : pyval) : ures Z :=
  let norm := pstrip (upper (py_str v)) in
  if endswith norm (un_pct T) then uint (removelast norm) else uint norm.

(** * scheduler/loader.py: resources(data) *)
Record rspec := { r_memory : option pyval; r_cpu : option pyval; r_disk : option pyval }.

Definition K_MEMORY : Z := 1.
Definition K_CPU : Z := 2.
Definition K_DISK : Z := 3.
Definition P_MEGABYTES : Z := 1.
Definition P_CPU_UNITS : Z := 2.
Definition P_KILOBYTES : Z := 3.
Definition P_SIZE_TO_BYTES : Z := 4.

(** data.get(k, default) *)
Definition rget (T : utables) (d : rspec) (k : Z) : pyval :=
  let f := if k =? K_MEMORY then r_memory d else if k =? K_CPU then r_cpu d
           else if k =? K_DISK then r_disk d else None in
  match f with Some v => v | None => VInt (un_res_default T) end.

Definition apply_parser (T : utables) (p : Z) (v : pyval) : ures Z :=
  if p =? P_MEGABYTES then megabytes T v
  else if p =? P_CPU_UNITS then cpu_units T v
  else if p =? P_KILOBYTES then kilobytes T v
  else if p =? P_SIZE_TO_BYTES then size_to_bytes T v
  else UException.

(** [parsers[k](data.get(k, 0)) for k in order]: left to right, the first exception propagates *)
Fixpoint res_list (T : utables) (d : rspec) (ks : list Z) : ures (list Z) :=
  match ks with
  | [] => UOk []
  | k :: t =>
      match assoc k (un_res_parsers T) with
      | None => UException                                     (* KeyError: excluded by the translator *)
      | Some p =>
          ubind (apply_parser T p (rget T d k)) (fun x =>
          ubind (res_list T d t) (fun l => UOk (x :: l)))
      end
  end.

Definition resources (T : utables) (d : rspec) : ures (list Z) := res_list T d (un_res_order T).

(** * What the tables must be for the statement to hold (checked by vm_compute on the generated tables) *)
Fixpoint zz_eqb (a b : list (Z * Z)) : bool :=
  match a, b with
  | [], [] => true
  | (x1, x2) :: a', (y1, y2) :: b' => (x1 =? y1) && (x2 =? y2) && zz_eqb a' b'
  | _, _ => false
  end.

(** B K M G T P E Z Y -> 0..8, listed by code point *)
Definition canon_scale : list (Z * Z) :=
  [(66, 0); (69, 6); (71, 3); (75, 1); (77, 2); (80, 5); (84, 4); (89, 8); (90, 7)].

Definition utables_canon : utables := {|
  un_scale := canon_scale; un_unit_bin := 1024; un_unit_dec := 1000; un_mod := 66;
  un_kb_zero := [48]; un_kb_div := 1024; un_mb_div := 1024; un_pct := [37];
  un_res_parsers := [(1, 1); (2, 2); (3, 1)]; un_res_order := [1; 2; 3]; un_res_default := 0 |}.

Definition units_tables_ok (T : utables) : bool :=
  zz_eqb (un_scale T) canon_scale &&
  (un_unit_bin T =? 1024) && (un_unit_dec T =? 1000) && (un_mod T =? 66) &&
  str_eqb (un_kb_zero T) [48] && (un_kb_div T =? 1024) && (un_mb_div T =? 1024) &&
  str_eqb (un_pct T) [37] &&
  zz_eqb (un_res_parsers T) [(1, 1); (2, 2); (3, 1)] &&
  str_eqb (un_res_order T) [1; 2; 3] && (un_res_default T =? 0).

(** * Structured spellings (the vocabulary of the theorems and of the harness generator) *)
(** "<n><c>" or "<n><c>B" in canonical form (upper case, no blanks) *)
Definition spell (n c : Z) (dec : bool) : str := str_of_Z n ++ c :: (if dec then [66] else []).
(** the number of bytes it denotes: n * 1024^e, or n * 1000^e with the 'B' modifier *)
Definition denote (n e : Z) (dec : bool) : Z := n * (if dec then 1000 else 1024) ^ e.

(** [s] is, up to letter case and surrounding blanks, the canonical string [t] *)
Definition spells (s t : str) : bool := str_eqb (pstrip (upper s)) t.

(** data.get(k, 0) with the canonical default *)
Definition fval (f : option pyval) : pyval := match f with Some v => v | None => VInt 0 end.

(** a field of a resource record, as the theorems describe it *)
Inductive fspell :=
  | FAbsent                              (* key missing: data.get(k, 0) *)
  | FZero                                (* the int 0 or a spelling of "0" *)
  | FSized (n c : Z) (dec : bool).       (* <n><c>[B] *)
Definition fspells (f : option pyval) (sp : fspell) : bool :=
  match sp, f with
  | FAbsent, None => true
  | FZero, Some (VInt z) => z =? 0
  | FZero, Some (VStr s) => spells s [48]
  | FSized n c dec, Some (VStr s) => spells s (spell n c dec)
  | _, _ => false
  end.
Definition fwf (sp : fspell) : bool :=
  match sp with FSized _ c _ => match assoc c canon_scale with Some _ => true | None => false end | _ => true end.
Definition fbytes (sp : fspell) : Z :=
  match sp with
  | FSized n c dec => match assoc c canon_scale with Some e => denote n e dec | None => 0 end
  | _ => 0
  end.

Inductive cspell :=
  | CAbsent
  | CInt (n : Z)                         (* the int n *)
  | CNum (n : Z) (pct : bool).           (* "<n>" or "<n>%" *)
Definition cspells (f : option pyval) (sp : cspell) : bool :=
  match sp, f with
  | CAbsent, None => true
  | CInt n, Some (VInt z) => z =? n
  | CNum n pct, Some (VStr s) => spells s (str_of_Z n ++ (if pct then [37] else []))
  | _, _ => false
  end.
Definition cval (sp : cspell) : Z := match sp with CAbsent => 0 | CInt n => n | CNum n _ => n end.
