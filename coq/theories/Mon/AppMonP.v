(** Proofs about Mon/AppMon.v: what one evaluation of the app monitor does to each
    monitor, the token-bucket invariant, and the budget over event sequences. *)
From Coq Require Import ZArith List Bool Lia Sorting.Sorted.
From TM Require Import Mon.AppMon.
Import ListNotations.
Open Scope Z_scope.

(** * Association lists *)
Lemma memz_In k l : memz k l = true <-> In k l.
Proof.
  induction l as [|x l IH]; cbn; [split; [discriminate | tauto]|].
  rewrite orb_true_iff, IH, Z.eqb_eq. tauto.
Qed.

Lemma lookup_In_keys {A} (l : list (Z * A)) k v : lookup l k = Some v -> In k (keys l).
Proof.
  induction l as [|[k' w] l IH]; cbn; [discriminate|].
  destruct (Z.eqb_spec k' k) as [->|Hne]; [left; reflexivity|]. intros H. right. apply IH, H.
Qed.

Lemma lookup_None {A} (l : list (Z * A)) k : ~ In k (keys l) -> lookup l k = None.
Proof.
  induction l as [|[k' w] l IH]; cbn; [reflexivity|]. intros H.
  destruct (Z.eqb_spec k' k) as [->|Hne]; [exfalso; apply H; left; reflexivity|].
  apply IH. intros Hin. apply H. right. exact Hin.
Qed.

Lemma In_keys_lookup {A} (l : list (Z * A)) k : In k (keys l) -> exists v, lookup l k = Some v.
Proof.
  induction l as [|[k' w] l IH]; cbn; [tauto|]. intros H.
  destruct (Z.eqb_spec k' k) as [->|Hne]; [eexists; reflexivity|].
  destruct H as [H|H]; [congruence|]. apply IH, H.
Qed.

Lemma lookup_In {A} (l : list (Z * A)) k v : lookup l k = Some v -> In (k, v) l.
Proof.
  induction l as [|[k' w] l IH]; cbn; [discriminate|].
  destruct (Z.eqb_spec k' k) as [->|Hne]; intros H; [left; congruence|right; apply IH, H].
Qed.

Lemma In_lookup {A} (l : list (Z * A)) k v : NoDup (keys l) -> In (k, v) l -> lookup l k = Some v.
Proof.
  induction l as [|[k' w] l IH]; cbn; [tauto|]. intros Hnd H. inversion Hnd as [|? ? Hnin Hnd']; subst.
  destruct H as [H|H].
  - inversion H; subst. rewrite Z.eqb_refl. reflexivity.
  - destruct (Z.eqb_spec k' k) as [->|Hne]; [|apply IH; assumption].
    exfalso. apply Hnin. change (In k (keys l)). apply in_map_iff. exists (k, v). split; [reflexivity|exact H].
Qed.

Lemma lookup_set_kv_same {A} (l : list (Z * A)) k v : lookup (set_kv l k v) k = Some v.
Proof.
  induction l as [|[k' w] l IH]; cbn; [rewrite Z.eqb_refl; reflexivity|].
  destruct (Z.eqb_spec k' k) as [->|Hne]; cbn; [rewrite Z.eqb_refl; reflexivity|].
  destruct (Z.eqb_spec k' k); [congruence|exact IH].
Qed.

Lemma lookup_set_kv_other {A} (l : list (Z * A)) k v k2 : k2 <> k -> lookup (set_kv l k v) k2 = lookup l k2.
Proof.
  intros Hne. induction l as [|[k' w] l IH]; cbn.
  - destruct (Z.eqb_spec k k2); [congruence|reflexivity].
  - destruct (Z.eqb_spec k' k) as [->|Hne']; cbn.
    + destruct (Z.eqb_spec k k2); [congruence|reflexivity].
    + destruct (Z.eqb_spec k' k2); [reflexivity|exact IH].
Qed.

Lemma keys_set_kv_In {A} (l : list (Z * A)) k v k2 : In k2 (keys (set_kv l k v)) <-> k2 = k \/ In k2 (keys l).
Proof.
  induction l as [|[k' w] l IH]; cbn; [intuition|].
  destruct (Z.eqb_spec k' k) as [->|Hne]; cbn; [intuition|]. rewrite IH. intuition.
Qed.

Lemma keys_set_kv_NoDup {A} (l : list (Z * A)) k v : NoDup (keys l) -> NoDup (keys (set_kv l k v)).
Proof.
  induction l as [|[k' w] l IH]; cbn; intros Hnd.
  - constructor; [intros []|constructor].
  - inversion Hnd as [|? ? Hnin Hnd']; subst.
    destruct (Z.eqb_spec k' k) as [->|Hne]; cbn; [constructor; assumption|].
    constructor; [|apply IH, Hnd'].
    intros Hin. apply keys_set_kv_In in Hin. destruct Hin as [Hin|Hin]; [congruence|apply Hnin, Hin].
Qed.

Lemma lookup_filter_key {A} (f : Z -> bool) (l : list (Z * A)) k :
  lookup (filter (fun p => f (fst p)) l) k = if f k then lookup l k else None.
Proof.
  induction l as [|[k' w] l IH]; cbn; [destruct (f k); reflexivity|].
  destruct (f k') eqn:Hf; cbn.
  - destruct (Z.eqb_spec k' k) as [->|Hne]; [rewrite Hf; reflexivity|exact IH].
  - destruct (Z.eqb_spec k' k) as [->|Hne]; [rewrite IH, Hf; reflexivity|exact IH].
Qed.

Lemma lookup_remove_k {A} (l : list (Z * A)) k k2 :
  lookup (remove_k l k) k2 = if Z.eqb k2 k then None else lookup l k2.
Proof.
  unfold remove_k. rewrite (lookup_filter_key (fun x => negb (Z.eqb x k))).
  destruct (Z.eqb k2 k); reflexivity.
Qed.

Lemma keys_filter_NoDup {A} (f : Z * A -> bool) (l : list (Z * A)) : NoDup (keys l) -> NoDup (keys (filter f l)).
Proof.
  induction l as [|[k w] l IH]; cbn; intros Hnd; [constructor|].
  inversion Hnd as [|? ? Hnin Hnd']; subst. destruct (f (k, w)); cbn; [|apply IH, Hnd'].
  constructor; [|apply IH, Hnd']. intros Hin. apply Hnin.
  unfold keys in *. apply in_map_iff in Hin as [[k2 w2] [Hk Hin]]. apply filter_In in Hin as [Hin _].
  apply in_map_iff. exists (k2, w2). split; assumption.
Qed.

(** * Parameters *)
Definition params_ok (P : params) : Prop :=
  0 < k_interval (p_k P) /\ 0 < p_tps P /\ 0 <= k_init (p_k P) <= k_cap (p_k P) /\
  0 <= k_rate (p_k P) /\ 0 <= k_delay (p_k P).

Lemma params_okb_ok P : params_okb P = true -> params_ok P.
Proof. unfold params_okb, params_ok. intros H. repeat (apply andb_true_iff in H as [H ?]). lia. Qed.

Lemma scale_pos P : params_ok P -> 0 < scale P.
Proof. unfold params_ok, scale. intros H. apply Z.mul_pos_pos; lia. Qed.

(** * One monitor *)
Definition conf_ok (P : params) (c : conf) : Prop := 0 <= m_count c /\ 0 <= m_tok c <= cap P c.

Lemma fresh_conf_ok P now count pol : params_ok P -> 0 <= count -> conf_ok P (fresh_conf P now count pol).
Proof.
  intros HP Hc. pose proof (scale_pos P HP) as HS. destruct HP as (_ & _ & Hi & _).
  unfold conf_ok, fresh_conf, cap; cbn. split; [exact Hc|]. split.
  - apply Z.mul_nonneg_nonneg; [apply Z.mul_nonneg_nonneg|]; lia.
  - apply Z.mul_le_mono_nonneg_r; [lia|]. apply Z.mul_le_mono_nonneg_r; lia.
Qed.

Lemma refill_count P now c : m_count (refill P now c) = m_count c. Proof. reflexivity. Qed.
Lemma refill_last P now c : m_last (refill P now c) = now. Proof. reflexivity. Qed.
Lemma refill_policy P now c : m_policy (refill P now c) = m_policy c. Proof. reflexivity. Qed.
Lemma refill_cap P now c : cap P (refill P now c) = cap P c. Proof. reflexivity. Qed.

(** the refill never takes tokens away, never exceeds the cap and adds at most rate * elapsed *)
Lemma refill_tok P now c : params_ok P -> conf_ok P c -> m_last c <= now ->
  m_tok c <= m_tok (refill P now c) <= cap P c /\
  m_tok (refill P now c) <= m_tok c + k_rate (p_k P) * m_count c * (now - m_last c).
Proof.
  intros HP [Hc [Ht0 Ht1]] Hl. destruct HP as (_ & _ & _ & Hr & _).
  assert (Hd : 0 <= k_rate (p_k P) * m_count c * (now - m_last c)).
  { apply Z.mul_nonneg_nonneg; [apply Z.mul_nonneg_nonneg|]; lia. }
  unfold refill; cbn [m_tok]. destruct (m_tok c <? cap P c) eqn:E.
  - apply Z.ltb_lt in E. lia.
  - apply Z.ltb_ge in E. lia.
Qed.

Lemma refill_ok P now c : params_ok P -> conf_ok P c -> m_last c <= now -> conf_ok P (refill P now c).
Proof.
  intros HP Hc Hl. pose proof (refill_tok P now c HP Hc Hl) as [[H1 H2] _].
  destruct Hc as [Hc [Ht0 _]]. unfold conf_ok. rewrite refill_count, refill_cap. lia.
Qed.

(** ** what the second loop does for one monitor: the property, locally *)
Definition is_success (r : api_result) : bool := match r with RSuccess => true | _ => false end.

Definition step_spec (P : params) (c : conf) (insts : list Z) (r : api_result) (o : step_out) : Prop :=
  m_count (so_conf o) = m_count c /\ m_last (so_conf o) = m_last c /\ m_policy (so_conf o) = m_policy c /\
  match so_act o with
  | Some (ACreate k r') =>
      r' = r /\ 1 <= k /\ k = Z.min (m_count c - zlen insts) (m_tok c / scale P) /\
      k <= m_count c - zlen insts /\ k * scale P <= m_tok c /\
      m_tok (so_conf o) = (if is_success r then m_tok c - k * scale P else m_tok c)
  | Some (ADelete ids ok) =>
      m_count c < zlen insts /\ surplus (m_policy c) insts (m_count c) = Some ids /\ ok = is_success r /\
      m_tok (so_conf o) = m_tok c
  | None => so_conf o = c
  end.

Lemma step_sound P w n c insts r : params_ok P -> step_spec P c insts r (step P w n c insts r).
Proof.
  intros HP. pose proof (scale_pos P HP) as HS. unfold step_spec, step.
  destruct (m_count c =? zlen insts) eqn:E1; [cbn; auto|].
  destruct (zlen insts <? m_count c) eqn:E2.
  - apply Z.ltb_lt in E2.
    destruct (Z.min (m_count c - zlen insts) (m_tok c / scale P) <=? 0) eqn:E3; [cbn; auto|].
    apply Z.leb_gt in E3.
    assert (Hk : Z.min (m_count c - zlen insts) (m_tok c / scale P) * scale P <= m_tok c).
    { pose proof (Z.mul_div_le (m_tok c) (scale P) HS) as Hd.
      assert (Z.min (m_count c - zlen insts) (m_tok c / scale P) * scale P <= m_tok c / scale P * scale P).
      { apply Z.mul_le_mono_nonneg_r; lia. }
      lia. }
    destruct r; cbn; repeat split; auto; lia.
  - apply Z.ltb_ge in E2. apply Z.eqb_neq in E1.
    destruct (surplus (m_policy c) insts (m_count c)) as [ids|] eqn:E3; cbn; [|auto].
    repeat split; auto. lia.
Qed.

(** completeness: a reachable, affordable shortfall is asked for; a surplus with a valid policy is deleted *)
Lemma step_creates P w n c insts r :
  zlen insts < m_count c -> 1 <= m_tok c / scale P ->
  so_act (step P w n c insts r) = Some (ACreate (Z.min (m_count c - zlen insts) (m_tok c / scale P)) r).
Proof.
  intros H1 H2. unfold step.
  destruct (Z.eqb_spec (m_count c) (zlen insts)); [lia|].
  destruct (Z.ltb_spec (zlen insts) (m_count c)); [|lia].
  destruct (Z.leb_spec (Z.min (m_count c - zlen insts) (m_tok c / scale P)) 0); [lia|].
  destruct r; reflexivity.
Qed.

Lemma step_waits P w n c insts r :
  zlen insts < m_count c -> m_tok c / scale P <= 0 ->
  so_act (step P w n c insts r) = None /\ so_wait (step P w n c insts r) = true /\ so_conf (step P w n c insts r) = c.
Proof.
  intros H1 H2. unfold step.
  destruct (Z.eqb_spec (m_count c) (zlen insts)); [lia|].
  destruct (Z.ltb_spec (zlen insts) (m_count c)); [|lia].
  destruct (Z.leb_spec (Z.min (m_count c - zlen insts) (m_tok c / scale P)) 0); [|lia].
  cbn. auto.
Qed.

Lemma step_deletes P w n c insts r ids :
  m_count c < zlen insts -> surplus (m_policy c) insts (m_count c) = Some ids ->
  so_act (step P w n c insts r) = Some (ADelete ids (is_success r)).
Proof.
  intros H1 H2. unfold step.
  destruct (Z.eqb_spec (m_count c) (zlen insts)); [lia|].
  destruct (Z.ltb_spec (zlen insts) (m_count c)); [lia|].
  rewrite H2. destruct r; reflexivity.
Qed.

Lemma step_quiet_at_target P w n c insts r :
  m_count c = zlen insts -> step P w n c insts r = quiet c.
Proof. intros H. unfold step. rewrite H, Z.eqb_refl. reflexivity. Qed.

Lemma step_ok P w n c insts r : params_ok P -> conf_ok P c -> conf_ok P (so_conf (step P w n c insts r)).
Proof.
  intros HP [Hc [Ht0 Ht1]]. pose proof (step_sound P w n c insts r HP) as (Hcount & _ & _ & Hact).
  pose proof (scale_pos P HP) as HS.
  unfold conf_ok, cap in *. rewrite Hcount.
  destruct (so_act (step P w n c insts r)) as [[k r'|ids ok]|].
  - destruct Hact as (_ & Hk1 & _ & _ & Hk3 & Htok). rewrite Htok.
    assert (0 <= k * scale P) by (apply Z.mul_nonneg_nonneg; lia).
    destruct (is_success r); lia.
  - destruct Hact as (_ & _ & _ & Htok). rewrite Htok. lia.
  - rewrite Hact. lia.
Qed.

(** ** the surplus: exactly the extra instances, from the front (fifo / none) or from the back (lifo) *)
Lemma surplus_fifo pol insts count ids :
  (pol = PNone \/ pol = PFifo) -> 0 <= count < zlen insts -> surplus pol insts count = Some ids ->
  exists kept, insts = ids ++ kept /\ zlen kept = count /\ zlen ids = zlen insts - count.
Proof.
  unfold zlen. intros Hp Hc H.
  assert (ids = firstn (Z.to_nat (Z.of_nat (length insts) - count)) insts) as ->.
  { destruct Hp as [-> | ->]; unfold surplus, zlen in H; congruence. }
  exists (skipn (Z.to_nat (Z.of_nat (length insts) - count)) insts).
  split; [symmetry; apply firstn_skipn|]. rewrite skipn_length, firstn_length. lia.
Qed.

Lemma surplus_lifo insts count ids :
  0 <= count < zlen insts -> surplus PLifo insts count = Some ids ->
  exists kept, insts = kept ++ ids /\ zlen kept = count /\ zlen ids = zlen insts - count.
Proof.
  unfold zlen. intros Hc H. unfold surplus in H. inversion H; subst. exists (firstn (Z.to_nat count) insts).
  split; [symmetry; apply firstn_skipn|]. rewrite skipn_length, firstn_length. lia.
Qed.

Lemma surplus_other insts count : surplus POther insts count = None.
Proof. reflexivity. Qed.

Lemma sorted_app_lt (a b : list Z) : StronglySorted Z.lt (a ++ b) -> forall x y, In x a -> In y b -> x < y.
Proof.
  induction a as [|h a IH]; cbn; intros Hs x y Hx Hy; [tauto|].
  inversion Hs as [|? ? Hs' Hall]; subst. destruct Hx as [->|Hx].
  - rewrite Forall_forall in Hall. apply Hall, in_or_app. right. exact Hy.
  - apply IH; assumption.
Qed.

(** * The two loops *)
Lemma is_susp_remove_past sus k now : 0 <= now -> is_susp sus k now = false ->
  forall n, is_susp (remove_k sus k) n now = is_susp sus n now.
Proof.
  intros Hn Hk n. unfold is_susp, sus_until in *. rewrite lookup_remove_k.
  destruct (Z.eqb_spec n k) as [->|Hne]; [|reflexivity].
  rewrite Hk. apply Z.ltb_ge. exact Hn.
Qed.

Lemma is_susp_set_other sus k u n now : n <> k -> is_susp (set_kv sus k u) n now = is_susp sus n now.
Proof. intros Hne. unfold is_susp, sus_until. rewrite lookup_set_kv_other by exact Hne. reflexivity. Qed.

Lemma phase1_char P now : 0 <= now -> forall ms sus ms1 sus1 al,
  phase1 P now ms sus = (ms1, sus1, al) ->
  keys ms1 = keys ms /\
  (forall n c, lookup ms n = Some c ->
               lookup ms1 n = Some (if is_susp sus n now then c else refill P now c)) /\
  (forall n, is_susp sus1 n now = is_susp sus n now).
Proof.
  intros Hnow. induction ms as [|[n0 c0] t IH]; intros sus ms1 sus1 al H; cbn in H.
  - inversion H; subst. repeat split; auto. intros n c Hl. discriminate.
  - destruct (is_susp sus n0 now) eqn:E0.
    + destruct (phase1 P now t sus) as [[t' sus'] al'] eqn:Et. inversion H; subst. clear H.
      destruct (IH _ _ _ _ Et) as (Hk & Hl & Hs). repeat split.
      * cbn. f_equal. exact Hk.
      * intros n c Hc. cbn in *. destruct (Z.eqb_spec n0 n) as [->|Hne].
        -- inversion Hc; subst. rewrite E0. reflexivity.
        -- apply Hl, Hc.
      * exact Hs.
    + set (had := match lookup sus n0 with Some _ => true | None => false end) in H.
      set (susx := if had then remove_k sus n0 else sus) in H.
      destruct (phase1 P now t susx) as [[t' sus'] al'] eqn:Et. inversion H; subst. clear H.
      destruct (IH _ _ _ _ Et) as (Hk & Hl & Hs).
      assert (Hx : forall n, is_susp susx n now = is_susp sus n now).
      { intros n. unfold susx. destruct had; [|reflexivity]. apply is_susp_remove_past; assumption. }
      repeat split.
      * cbn. f_equal. exact Hk.
      * intros n c Hc. cbn in *. destruct (Z.eqb_spec n0 n) as [->|Hne].
        -- inversion Hc; subst. rewrite E0. reflexivity.
        -- rewrite <- Hx. apply Hl, Hc.
      * intros n. rewrite Hs. apply Hx.
Qed.

(** what the second loop does with monitor [n] whose conf is [c], seen on its own *)
Definition p2_mon (P : params) (now : Z) (wprev : list Z) (sched : list (Z * list Z)) (res : list (Z * api_result))
  (sus : list (Z * Z)) (n : Z) (c : conf) : step_out :=
  if is_susp sus n now then quiet c else step P wprev n c (insts_of sched n) (res_of res n).

Lemma phase2_char P now wprev sched res : forall ms sus, NoDup (keys ms) ->
  let o := phase2 P now wprev sched res ms sus in
  keys (p2_monitors o) = keys ms /\
  (forall n c, lookup ms n = Some c ->
               lookup (p2_monitors o) n = Some (so_conf (p2_mon P now wprev sched res sus n c))) /\
  (forall n, In n (keys (p2_acts o)) -> In n (keys ms)) /\
  NoDup (keys (p2_acts o)) /\
  (forall n, lookup (p2_acts o) n =
             match lookup ms n with
             | Some c => so_act (p2_mon P now wprev sched res sus n c)
             | None => None
             end).
Proof.
  induction ms as [|[n0 c0] t IH]; intros sus Hnd; cbn zeta.
  - cbn. repeat split; auto; try constructor. intros n c H; discriminate.
  - inversion Hnd as [|? ? Hnin Hnd']; subst. cbn [phase2].
    destruct (is_susp sus n0 now) eqn:E0.
    + specialize (IH sus Hnd'). cbn zeta in IH. destruct IH as (Hk & Hl & Hsub & Hnda & Ha).
      cbn [p2_monitors p2_acts]. repeat split.
      * cbn. f_equal. exact Hk.
      * intros n c Hc. cbn in *. destruct (Z.eqb_spec n0 n) as [->|Hne].
        -- inversion Hc; subst. unfold p2_mon. rewrite E0. reflexivity.
        -- apply Hl, Hc.
      * intros n Hin. right. apply Hsub, Hin.
      * exact Hnda.
      * intros n. rewrite Ha. cbn. destruct (Z.eqb_spec n0 n) as [->|Hne]; [|reflexivity].
        rewrite (lookup_None t n Hnin). unfold p2_mon. rewrite E0. reflexivity.
    + set (s := step P wprev n0 c0 (insts_of sched n0) (res_of res n0)).
      set (sus1 := if so_suspend s then set_kv sus n0 (now + delay_ticks P) else sus).
      specialize (IH sus1 Hnd'). cbn zeta in IH. destruct IH as (Hk & Hl & Hsub & Hnda & Ha).
      assert (Hx : forall n, n <> n0 -> is_susp sus1 n now = is_susp sus n now).
      { intros n Hne. unfold sus1. destruct (so_suspend s); [|reflexivity]. apply is_susp_set_other, Hne. }
      assert (Hm : forall n c, n <> n0 -> p2_mon P now wprev sched res sus1 n c = p2_mon P now wprev sched res sus n c).
      { intros n c Hne. unfold p2_mon. rewrite Hx by exact Hne. reflexivity. }
      cbn [p2_monitors p2_acts]. repeat split.
      * cbn. f_equal. exact Hk.
      * intros n c Hc. cbn in *. destruct (Z.eqb_spec n0 n) as [->|Hne].
        -- inversion Hc; subst. unfold p2_mon. rewrite E0. reflexivity.
        -- rewrite <- Hm by congruence. apply Hl, Hc.
      * intros n Hin. destruct (so_act s); [|right; apply Hsub, Hin].
        cbn in Hin. destruct Hin as [->|Hin]; [left; reflexivity|right; apply Hsub, Hin].
      * destruct (so_act s); [|exact Hnda]. cbn. constructor; [|exact Hnda].
        intros Hin. apply Hnin, Hsub, Hin.
      * intros n. cbn [lookup]. destruct (Z.eqb_spec n0 n) as [->|Hne].
        -- unfold p2_mon. rewrite E0. fold s. destruct (so_act s) eqn:Es.
           ++ cbn. rewrite Z.eqb_refl. reflexivity.
           ++ apply lookup_None. intros Hin. apply Hnin, Hsub, Hin.
        -- assert (Hl2 : lookup (p2_acts (phase2 P now wprev sched res t sus1)) n =
                          match lookup t n with Some c => so_act (p2_mon P now wprev sched res sus n c) | None => None end).
           { rewrite Ha. destruct (lookup t n) eqn:El; [|reflexivity]. rewrite Hm by congruence. reflexivity. }
           destruct (so_act s); [|exact Hl2]. cbn. destruct (Z.eqb_spec n0 n); [congruence|exact Hl2].
Qed.

(** * One evaluation *)
(** what an evaluation does with monitor [n] (conf [c]), seen on its own *)
Definition mon_eval (P : params) (s : state) (res : list (Z * api_result)) (n : Z) (c : conf) : step_out :=
  if is_susp (st_suspended s) n (st_clock s) then quiet c
  else step P (st_waited s) n (refill P (st_clock s) c) (insts_of (st_scheduled s) n) (res_of res n).

Lemma is_susp_prune ms sus n now : In n (keys ms) -> is_susp (prune ms sus) n now = is_susp sus n now.
Proof.
  intros Hin. unfold is_susp, sus_until, prune.
  rewrite (lookup_filter_key (fun k => memz k (keys ms))).
  apply memz_In in Hin. rewrite Hin. reflexivity.
Qed.

Theorem eval_char P s res : NoDup (keys (st_monitors s)) -> 0 <= st_clock s ->
  let s' := fst (eval P s res) in let o := snd (eval P s res) in
  st_clock s' = st_clock s /\ st_scheduled s' = st_scheduled s /\ eo_monitors o = st_monitors s' /\
  keys (st_monitors s') = keys (st_monitors s) /\
  (forall n c, lookup (st_monitors s) n = Some c ->
               lookup (st_monitors s') n = Some (so_conf (mon_eval P s res n c))) /\
  NoDup (keys (eo_actions o)) /\
  (forall n, lookup (eo_actions o) n =
             match lookup (st_monitors s) n with Some c => so_act (mon_eval P s res n c) | None => None end).
Proof.
  intros Hnd Hnow. unfold eval.
  destruct (phase1 P (st_clock s) (st_monitors s) (prune (st_monitors s) (st_suspended s))) as [[ms1 sus1] al1] eqn:E1.
  cbn zeta. cbn [fst snd st_clock st_scheduled st_monitors eo_monitors eo_actions].
  destruct (phase1_char P (st_clock s) Hnow _ _ _ _ _ E1) as (Hk1 & Hl1 & Hs1).
  assert (Hnd1 : NoDup (keys ms1)) by (rewrite Hk1; exact Hnd).
  pose proof (phase2_char P (st_clock s) (st_waited s) (st_scheduled s) res ms1 sus1 Hnd1) as H2.
  cbn zeta in H2. destruct H2 as (Hk2 & Hl2 & _ & Hnda & Ha).
  assert (Hme : forall n c, lookup (st_monitors s) n = Some c ->
            exists c1, lookup ms1 n = Some c1 /\
                       p2_mon P (st_clock s) (st_waited s) (st_scheduled s) res sus1 n c1 = mon_eval P s res n c).
  { intros n c Hc. pose proof (Hl1 n c Hc) as Hc1. eexists. split; [exact Hc1|].
    unfold p2_mon, mon_eval. rewrite Hs1.
    rewrite is_susp_prune by (eapply lookup_In_keys; exact Hc).
    destruct (is_susp (st_suspended s) n (st_clock s)); reflexivity. }
  repeat split; auto.
  - congruence.
  - intros n c Hc. destruct (Hme n c Hc) as (c1 & Hc1 & Heq). rewrite (Hl2 n c1 Hc1), Heq. reflexivity.
  - intros n. rewrite Ha. destruct (lookup (st_monitors s) n) as [c|] eqn:Hc.
    + destruct (Hme n c Hc) as (c1 & Hc1 & Heq). rewrite Hc1, Heq. reflexivity.
    + rewrite lookup_None; [reflexivity|]. rewrite Hk1. intros Hin.
      apply In_keys_lookup in Hin as [v Hv]. congruence.
Qed.

(** ** consequences for one evaluation, in the property's words *)
Definition actions_of (P : params) (s : state) (res : list (Z * api_result)) := eo_actions (snd (eval P s res)).
Definition after (P : params) (s : state) (res : list (Z * api_result)) := fst (eval P s res).

Lemma action_In_lookup P s res n a : NoDup (keys (st_monitors s)) -> 0 <= st_clock s ->
  In (n, a) (actions_of P s res) -> lookup (actions_of P s res) n = Some a.
Proof.
  intros Hnd Hnow Hin. destruct (eval_char P s res Hnd Hnow) as (_ & _ & _ & _ & _ & Hnda & _).
  apply In_lookup; assumption.
Qed.

(** every REST call belongs to a configured, not suspended monitor and is what [step] decides for it *)
Lemma action_origin P s res n a : NoDup (keys (st_monitors s)) -> 0 <= st_clock s ->
  In (n, a) (actions_of P s res) ->
  exists c, lookup (st_monitors s) n = Some c /\ is_susp (st_suspended s) n (st_clock s) = false /\
            so_act (step P (st_waited s) n (refill P (st_clock s) c) (insts_of (st_scheduled s) n) (res_of res n)) = Some a.
Proof.
  intros Hnd Hnow Hin. pose proof (action_In_lookup P s res n a Hnd Hnow Hin) as Hl.
  destruct (eval_char P s res Hnd Hnow) as (_ & _ & _ & _ & _ & _ & Ha).
  unfold actions_of in Hl. rewrite Ha in Hl.
  destruct (lookup (st_monitors s) n) as [c|]; [|discriminate]. exists c. split; [reflexivity|].
  unfold mon_eval in Hl. destruct (is_susp (st_suspended s) n (st_clock s)); [discriminate|]. auto.
Qed.

(** * State invariant over event sequences *)
Definition state_inv (P : params) (s : state) : Prop :=
  NoDup (keys (st_monitors s)) /\ 0 <= st_clock s /\
  forall n c, lookup (st_monitors s) n = Some c -> conf_ok P c /\ m_last c <= st_clock s.

Definition event_ok (e : event) : Prop :=
  match e with EAdvance d => 0 <= d | EConfigure _ count _ => 0 <= count | _ => True end.

Lemma mon_eval_ok P s res n c : params_ok P -> conf_ok P c -> m_last c <= st_clock s ->
  conf_ok P (so_conf (mon_eval P s res n c)) /\ m_last (so_conf (mon_eval P s res n c)) <= st_clock s.
Proof.
  intros HP Hc Hl. unfold mon_eval. destruct (is_susp (st_suspended s) n (st_clock s)); [cbn; auto|].
  split; [apply step_ok; [exact HP|apply refill_ok; assumption]|].
  pose proof (step_sound P (st_waited s) n (refill P (st_clock s) c) (insts_of (st_scheduled s) n) (res_of res n) HP)
    as (_ & Hlast & _). rewrite Hlast, refill_last. lia.
Qed.

Lemma eval_inv P s res : params_ok P -> state_inv P s -> state_inv P (fst (eval P s res)).
Proof.
  intros HP (Hnd & Hnow & Hall). destruct (eval_char P s res Hnd Hnow) as (Hc & _ & _ & Hk & Hl & _).
  unfold state_inv. rewrite Hc, Hk. split; [exact Hnd|]. split; [exact Hnow|]. intros n c' Hc'.
  pose proof (lookup_In_keys _ _ _ Hc') as Hin. rewrite Hk in Hin. apply In_keys_lookup in Hin as [c Hcn].
  rewrite (Hl n c Hcn) in Hc'. inversion Hc'; subst. destruct (Hall n c Hcn). apply mon_eval_ok; assumption.
Qed.

Lemma apply_inv P s e : params_ok P -> state_inv P s -> event_ok e -> state_inv P (fst (apply P s e)).
Proof.
  intros HP Hinv He. destruct e as [d|n count pol|n|apps|res]; cbn [apply].
  - destruct Hinv as (Hnd & Hnow & Hall). cbn in He. unfold state_inv; cbn. split; [exact Hnd|]. split; [lia|].
    intros n c Hc. destruct (Hall n c Hc). split; [assumption|lia].
  - destruct Hinv as (Hnd & Hnow & Hall). cbn in He. unfold state_inv; cbn. split; [apply keys_set_kv_NoDup, Hnd|].
    split; [exact Hnow|]. intros n2 c Hc. destruct (Z.eq_dec n2 n) as [->|Hne].
    + rewrite lookup_set_kv_same in Hc. inversion Hc; subst. split; [apply fresh_conf_ok; assumption|cbn; lia].
    + rewrite lookup_set_kv_other in Hc by exact Hne. exact (Hall _ _ Hc).
  - destruct Hinv as (Hnd & Hnow & Hall). unfold state_inv; cbn. split; [apply keys_filter_NoDup, Hnd|].
    split; [exact Hnow|]. intros n2 c Hc. rewrite lookup_remove_k in Hc.
    destruct (Z.eqb n2 n); [discriminate|]. exact (Hall _ _ Hc).
  - exact Hinv.
  - destruct (eval P s res) as [s' o] eqn:E. cbn. change s' with (fst (s', o)). rewrite <- E. apply eval_inv; assumption.
Qed.

Lemma run_inv P evs : params_ok P -> forall s, state_inv P s -> Forall event_ok evs -> state_inv P (fst (run P s evs)).
Proof.
  intros HP. induction evs as [|e t IH]; intros s Hinv Hev; cbn; [exact Hinv|].
  inversion Hev as [|? ? He Ht]; subst.
  destruct (apply P s e) as [s1 o] eqn:E1. destruct (run P s1 t) as [s2 outs] eqn:E2. cbn.
  change s2 with (fst (s2, outs)). rewrite <- E2. apply IH; [|exact Ht].
  change s1 with (fst (s1, o)). rewrite <- E1. apply apply_inv; assumption.
Qed.

Lemma init_state_inv P clock0 w0 : 0 <= clock0 -> state_inv P (init_state clock0 w0).
Proof. intros H. unfold state_inv, init_state; cbn. split; [constructor|]. split; [exact H|]. intros n c Hc. discriminate. Qed.

(** * The budget over sequences *)
Lemma created_in_absent name acts : ~ In name (keys acts) -> created_in name acts = 0.
Proof.
  induction acts as [|[n a] t IH]; cbn; intros H; [reflexivity|].
  rewrite IH by (intros Hin; apply H; right; exact Hin).
  destruct (Z.eqb_spec n name) as [->|Hne]; [exfalso; apply H; left; reflexivity|].
  destruct a as [k []|]; reflexivity.
Qed.

Definition created_by (a : option act) : Z :=
  match a with Some (ACreate k RSuccess) => k | _ => 0 end.

Lemma created_in_lookup name acts : NoDup (keys acts) -> created_in name acts = created_by (lookup acts name).
Proof.
  induction acts as [|[n a] t IH]; cbn; intros Hnd; [reflexivity|].
  inversion Hnd as [|? ? Hnin Hnd']; subst. destruct (Z.eqb_spec n name) as [->|Hne].
  - rewrite (created_in_absent name t Hnin). destruct a as [k []|]; cbn; lia.
  - rewrite (IH Hnd'). destruct a as [k []|]; reflexivity.
Qed.

Definition no_reconf (name : Z) (e : event) : bool :=
  match e with EConfigure n _ _ | ERemove n => negb (Z.eqb n name) | _ => true end.

Definition created_opt (name : Z) (o : option eval_out) : Z :=
  match o with Some x => created_in name (eo_actions x) | None => 0 end.

(** one monitor, one evaluation: tokens spent on successful creations + tokens left <= tokens before + accrual *)
Lemma mon_eval_budget P s res n c : params_ok P -> conf_ok P c -> m_last c <= st_clock s ->
  let o := mon_eval P s res n c in
  m_count (so_conf o) = m_count c /\ m_last c <= m_last (so_conf o) /\
  scale P * created_by (so_act o) + m_tok (so_conf o)
    <= m_tok c + k_rate (p_k P) * m_count c * (m_last (so_conf o) - m_last c).
Proof.
  intros HP Hc Hl. cbn zeta. unfold mon_eval. destruct (is_susp (st_suspended s) n (st_clock s)).
  - cbn. rewrite Z.sub_diag. lia.
  - pose proof (refill_tok P (st_clock s) c HP Hc Hl) as [_ Hr].
    pose proof (step_sound P (st_waited s) n (refill P (st_clock s) c) (insts_of (st_scheduled s) n) (res_of res n) HP)
      as (Hcount & Hlast & _ & Hact).
    rewrite Hcount, Hlast, refill_count, refill_last. split; [reflexivity|]. split; [exact Hl|].
    destruct (so_act _) as [[k r'|ids ok]|].
    + destruct Hact as (-> & _ & _ & _ & _ & Htok). rewrite Htok.
      destruct (res_of res n); cbn [created_by is_success]; lia.
    + destruct Hact as (_ & _ & _ & Htok). rewrite Htok. cbn [created_by]. lia.
    + rewrite Hact. cbn [created_by]. lia.
Qed.

Lemma apply_budget P s e name c : params_ok P -> state_inv P s -> event_ok e -> no_reconf name e = true ->
  lookup (st_monitors s) name = Some c ->
  exists c', lookup (st_monitors (fst (apply P s e))) name = Some c' /\ m_count c' = m_count c /\
             m_last c <= m_last c' /\
             scale P * created_opt name (snd (apply P s e)) + m_tok c'
               <= m_tok c + k_rate (p_k P) * m_count c * (m_last c' - m_last c).
Proof.
  intros HP (Hnd & Hnow & Hall) He Hnr Hc.
  destruct e as [d|n count pol|n|apps|res]; cbn [apply fst snd created_opt st_monitors].
  - exists c. rewrite Z.sub_diag. repeat split; auto; lia.
  - cbn in Hnr. apply negb_true_iff, Z.eqb_neq in Hnr. exists c. rewrite lookup_set_kv_other by congruence.
    rewrite Z.sub_diag. repeat split; auto; lia.
  - cbn in Hnr. apply negb_true_iff, Z.eqb_neq in Hnr. exists c. rewrite lookup_remove_k.
    destruct (Z.eqb_spec name n); [congruence|]. rewrite Z.sub_diag. repeat split; auto; lia.
  - exists c. rewrite Z.sub_diag. repeat split; auto; lia.
  - destruct (eval_char P s res Hnd Hnow) as (_ & _ & _ & _ & Hl & Hnda & Ha).
    destruct (eval P s res) as [s' o] eqn:E. cbn [fst snd] in *. cbn [created_opt].
    exists (so_conf (mon_eval P s res name c)). split; [apply Hl, Hc|].
    rewrite (created_in_lookup name _ Hnda), Ha, Hc.
    destruct (Hall name c Hc) as [Hok Hlast]. apply mon_eval_budget; assumption.
Qed.

Theorem run_budget P name evs : params_ok P -> forall s c, state_inv P s -> Forall event_ok evs ->
  forallb (no_reconf name) evs = true -> lookup (st_monitors s) name = Some c ->
  exists c', lookup (st_monitors (fst (run P s evs))) name = Some c' /\ m_count c' = m_count c /\
             m_last c <= m_last c' /\
             scale P * created name (snd (run P s evs)) + m_tok c'
               <= m_tok c + k_rate (p_k P) * m_count c * (m_last c' - m_last c).
Proof.
  intros HP. induction evs as [|e t IH]; intros s c Hinv Hev Hnr Hc.
  - cbn. exists c. rewrite Z.sub_diag. repeat split; auto; lia.
  - inversion Hev as [|? ? He Ht]; subst. cbn in Hnr. apply andb_true_iff in Hnr as [Hnr1 Hnr2].
    destruct (apply_budget P s e name c HP Hinv He Hnr1 Hc) as (c1 & Hc1 & Hcount1 & Hlast1 & Hb1).
    pose proof (apply_inv P s e HP Hinv He) as Hinv1.
    cbn [run]. destruct (apply P s e) as [s1 o] eqn:E1. cbn [fst snd] in *.
    destruct (IH s1 c1 Hinv1 Ht Hnr2 Hc1) as (c2 & Hc2 & Hcount2 & Hlast2 & Hb2).
    destruct (run P s1 t) as [s2 outs] eqn:E2. cbn [fst snd] in *.
    exists c2. split; [exact Hc2|]. split; [congruence|]. split; [lia|].
    assert (Hcr : created name (match o with Some x => x :: outs | None => outs end)
                  = created_opt name o + created name outs).
    { destruct o; cbn; lia. }
    rewrite Hcr. rewrite Hcount1 in Hb2.
    rewrite Z.mul_sub_distr_l in *. rewrite Z.mul_add_distr_l. lia.
Qed.

(** the headline form: instances created over a run <= tokens at the start + rate * elapsed time *)
Theorem run_budget_clock P name evs s c : params_ok P -> state_inv P s -> Forall event_ok evs ->
  forallb (no_reconf name) evs = true -> lookup (st_monitors s) name = Some c ->
  scale P * created name (snd (run P s evs))
    <= m_tok c + k_rate (p_k P) * m_count c * (st_clock (fst (run P s evs)) - m_last c).
Proof.
  intros HP Hinv Hev Hnr Hc.
  destruct (run_budget P name evs HP s c Hinv Hev Hnr Hc) as (c' & Hc' & Hcount & Hlast & Hb).
  destruct (run_inv P evs HP s Hinv Hev) as (_ & _ & Hall). destruct (Hall name c' Hc') as [[_ [Ht0 _]] Hl'].
  destruct Hinv as (_ & _ & Hall0). destruct (Hall0 name c Hc) as [[Hcnt _] _]. destruct HP as (_ & _ & _ & Hr & _).
  assert (0 <= k_rate (p_k P) * m_count c) by (apply Z.mul_nonneg_nonneg; lia).
  assert (k_rate (p_k P) * m_count c * (m_last c' - m_last c)
          <= k_rate (p_k P) * m_count c * (st_clock (fst (run P s evs)) - m_last c)).
  { apply Z.mul_le_mono_nonneg_l; lia. }
  lia.
Qed.

(** * Removed monitors *)
Definition no_configure (name : Z) (e : event) : bool :=
  match e with EConfigure n _ _ => negb (Z.eqb n name) | _ => true end.

Lemma eval_absent P s res name : NoDup (keys (st_monitors s)) -> 0 <= st_clock s ->
  lookup (st_monitors s) name = None ->
  lookup (st_monitors (fst (eval P s res))) name = None /\ lookup (eo_actions (snd (eval P s res))) name = None.
Proof.
  intros Hnd Hnow Hc. destruct (eval_char P s res Hnd Hnow) as (_ & _ & _ & Hk & _ & _ & Ha). split.
  - apply lookup_None. rewrite Hk. intros Hin. apply In_keys_lookup in Hin as [v Hv]. congruence.
  - rewrite Ha, Hc. reflexivity.
Qed.

Definition no_action_for (name : Z) (o : eval_out) : Prop := forall a, ~ In (name, a) (eo_actions o).

Theorem run_absent P name evs : params_ok P -> forall s, state_inv P s -> Forall event_ok evs ->
  forallb (no_configure name) evs = true -> lookup (st_monitors s) name = None ->
  lookup (st_monitors (fst (run P s evs))) name = None /\ Forall (no_action_for name) (snd (run P s evs)).
Proof.
  intros HP. induction evs as [|e t IH]; intros s Hinv Hev Hnc Hc; [cbn; auto|].
  inversion Hev as [|? ? He Ht]; subst. cbn in Hnc. apply andb_true_iff in Hnc as [Hnc1 Hnc2].
  pose proof (apply_inv P s e HP Hinv He) as Hinv1.
  assert (H1 : lookup (st_monitors (fst (apply P s e))) name = None /\
               match snd (apply P s e) with Some o => no_action_for name o | None => True end).
  { destruct Hinv as (Hnd & Hnow & _). destruct e as [d|n count pol|n|apps|res]; cbn [apply fst snd st_monitors]; auto.
    - cbn in Hnc1. apply negb_true_iff, Z.eqb_neq in Hnc1. rewrite lookup_set_kv_other by congruence. auto.
    - rewrite lookup_remove_k. destruct (Z.eqb name n); auto.
    - destruct (eval_absent P s res name Hnd Hnow Hc) as [Hm Ha].
      destruct (eval_char P s res Hnd Hnow) as (_ & _ & _ & _ & _ & Hnda & _).
      destruct (eval P s res) as [s' o] eqn:E. cbn [fst snd] in *. split; [exact Hm|].
      intros a Hin. apply (In_lookup _ _ _ Hnda) in Hin. congruence. }
  cbn [run]. destruct (apply P s e) as [s1 o] eqn:E1. cbn [fst snd] in *. destruct H1 as [Hm1 Ho1].
  destruct (IH s1 Hinv1 Ht Hnc2 Hm1) as [Hm2 Hall2]. destruct (run P s1 t) as [s2 outs] eqn:E2. cbn [fst snd] in *.
  split; [exact Hm2|]. destruct o; [constructor; assumption|exact Hall2].
Qed.

(** * The property, per evaluation *)
Definition missing (s : state) (n : Z) (c : conf) : Z := m_count c - zlen (insts_of (st_scheduled s) n).
Definition active (s : state) (n : Z) (c : conf) : Prop :=
  lookup (st_monitors s) n = Some c /\ is_susp (st_suspended s) n (st_clock s) = false.
(** floor(available) once this evaluation's refill is done *)
Definition whole_tokens (P : params) (s : state) (c : conf) : Z := m_tok (refill P (st_clock s) c) / scale P.

Theorem create_bounded P s res n k r : params_ok P -> state_inv P s ->
  In (n, ACreate k r) (actions_of P s res) ->
  exists c, active s n c /\ r = res_of res n /\
            1 <= k /\ k <= missing s n c /\ k <= whole_tokens P s c /\
            k = Z.min (missing s n c) (whole_tokens P s c) /\
            k * scale P <= m_tok (refill P (st_clock s) c) /\
            0 <= m_tok (refill P (st_clock s) c) <= cap P c.
Proof.
  intros HP (Hnd & Hnow & Hall) Hin. destruct (action_origin P s res n _ Hnd Hnow Hin) as (c & Hc & Hs & Ha).
  exists c. split; [split; assumption|]. destruct (Hall n c Hc) as [Hok Hl].
  pose proof (step_sound P (st_waited s) n (refill P (st_clock s) c) (insts_of (st_scheduled s) n) (res_of res n) HP)
    as (_ & _ & _ & Hact). rewrite Ha in Hact. destruct Hact as (Hr & Hk1 & Hk & Hk2 & Hk3 & _).
  pose proof (refill_ok P (st_clock s) c HP Hok Hl) as [_ Hb]. rewrite refill_cap in Hb.
  unfold missing, whole_tokens. rewrite refill_count in *. repeat split; auto; lia.
Qed.

Theorem create_complete P s res n c : params_ok P -> state_inv P s -> active s n c ->
  (0 < missing s n c -> 1 <= whole_tokens P s c ->
   In (n, ACreate (Z.min (missing s n c) (whole_tokens P s c)) (res_of res n)) (actions_of P s res)) /\
  (0 < missing s n c -> whole_tokens P s c <= 0 -> forall a, ~ In (n, a) (actions_of P s res)) /\
  (missing s n c = 0 -> forall a, ~ In (n, a) (actions_of P s res)).
Proof.
  intros HP (Hnd & Hnow & Hall) [Hc Hs].
  destruct (eval_char P s res Hnd Hnow) as (_ & _ & _ & _ & _ & Hnda & Ha).
  specialize (Ha n). rewrite Hc in Ha. unfold mon_eval in Ha. rewrite Hs in Ha.
  unfold missing, whole_tokens, actions_of. repeat split.
  - intros Hm Hw. apply lookup_In. rewrite Ha.
    rewrite step_creates; rewrite ?refill_count; [reflexivity|lia|exact Hw].
  - intros Hm Hw a Hin. apply (In_lookup _ _ _ Hnda) in Hin. rewrite Ha in Hin.
    destruct (step_waits P (st_waited s) n (refill P (st_clock s) c) (insts_of (st_scheduled s) n) (res_of res n))
      as (Hn & _); rewrite ?refill_count; [lia|exact Hw|]. congruence.
  - intros Hm a Hin. apply (In_lookup _ _ _ Hnda) in Hin. rewrite Ha in Hin.
    rewrite step_quiet_at_target in Hin by (rewrite refill_count; lia). discriminate.
Qed.

Definition valid_policy (p : policy) : Prop := p = PNone \/ p = PFifo \/ p = PLifo.

Theorem delete_exact P s res n ids ok : params_ok P -> state_inv P s ->
  In (n, ADelete ids ok) (actions_of P s res) ->
  exists c, active s n c /\ ok = is_success (res_of res n) /\ missing s n c < 0 /\
            zlen ids = - missing s n c /\
            (((m_policy c = PNone \/ m_policy c = PFifo) /\
              exists kept, insts_of (st_scheduled s) n = ids ++ kept /\ zlen kept = m_count c) \/
             (m_policy c = PLifo /\
              exists kept, insts_of (st_scheduled s) n = kept ++ ids /\ zlen kept = m_count c)).
Proof.
  intros HP (Hnd & Hnow & Hall) Hin. destruct (action_origin P s res n _ Hnd Hnow Hin) as (c & Hc & Hs & Ha).
  exists c. split; [split; assumption|]. destruct (Hall n c Hc) as [[Hcnt _] _].
  pose proof (step_sound P (st_waited s) n (refill P (st_clock s) c) (insts_of (st_scheduled s) n) (res_of res n) HP)
    as (_ & _ & _ & Hact). rewrite Ha in Hact. rewrite refill_count, refill_policy in Hact.
  destruct Hact as (Hlt & Hsur & Hok & _). unfold missing. split; [exact Hok|]. split; [lia|].
  destruct (m_policy c) eqn:Ep.
  - destruct (surplus_fifo PNone _ _ _ (or_introl eq_refl) (conj Hcnt Hlt) Hsur) as (kept & H1 & H2 & H3).
    split; [lia|]. left. split; [auto|]. exists kept. auto.
  - destruct (surplus_fifo PFifo _ _ _ (or_intror eq_refl) (conj Hcnt Hlt) Hsur) as (kept & H1 & H2 & H3).
    split; [lia|]. left. split; [auto|]. exists kept. auto.
  - destruct (surplus_lifo _ _ _ (conj Hcnt Hlt) Hsur) as (kept & H1 & H2 & H3).
    split; [lia|]. right. split; [auto|]. exists kept. auto.
  - discriminate.
Qed.

Theorem delete_complete P s res n c : params_ok P -> state_inv P s -> active s n c -> missing s n c < 0 ->
  (valid_policy (m_policy c) -> exists ids, In (n, ADelete ids (is_success (res_of res n))) (actions_of P s res)) /\
  (m_policy c = POther -> forall a, ~ In (n, a) (actions_of P s res)).
Proof.
  intros HP (Hnd & Hnow & Hall) [Hc Hs] Hm.
  destruct (eval_char P s res Hnd Hnow) as (_ & _ & _ & _ & _ & Hnda & Ha).
  specialize (Ha n). rewrite Hc in Ha. unfold mon_eval in Ha. rewrite Hs in Ha. unfold missing in Hm. split.
  - intros Hv.
    assert (exists ids, surplus (m_policy c) (insts_of (st_scheduled s) n) (m_count c) = Some ids) as [ids Hi].
    { destruct Hv as [-> | [-> | ->]]; eexists; reflexivity. }
    exists ids. apply lookup_In. unfold actions_of. rewrite Ha. apply step_deletes.
    + rewrite refill_count. lia.
    + rewrite refill_count, refill_policy. exact Hi.
  - intros Hp a Hin. apply (In_lookup _ _ _ Hnda) in Hin. unfold actions_of in Hin. rewrite Ha in Hin.
    unfold step in Hin. rewrite refill_count, refill_policy, Hp in Hin.
    destruct (Z.eqb_spec (m_count c) (zlen (insts_of (st_scheduled s) n))); [lia|].
    destruct (Z.ltb_spec (zlen (insts_of (st_scheduled s) n)) (m_count c)); [lia|]. discriminate.
Qed.

(** with the instance list sorted by age (as _scheduled_watch leaves it): fifo deletes are older than every
    instance kept, lifo deletes are newer *)
Theorem delete_order P s res n ids ok : params_ok P -> state_inv P s ->
  StronglySorted Z.lt (insts_of (st_scheduled s) n) ->
  In (n, ADelete ids ok) (actions_of P s res) ->
  exists c kept, lookup (st_monitors s) n = Some c /\ zlen kept = m_count c /\
    (forall x, In x (insts_of (st_scheduled s) n) <-> In x ids \/ In x kept) /\
    ((m_policy c = PNone \/ m_policy c = PFifo) -> forall x y, In x ids -> In y kept -> x < y) /\
    (m_policy c = PLifo -> forall x y, In x ids -> In y kept -> y < x).
Proof.
  intros HP Hinv Hsort Hin.
  destruct (delete_exact P s res n ids ok HP Hinv Hin) as (c & [Hc _] & _ & _ & _ & Hcase).
  exists c. destruct Hcase as [[Hp (kept & Hk & Hl)] | [Hp (kept & Hk & Hl)]]; exists kept; rewrite Hk in *.
  - split; [exact Hc|]. split; [exact Hl|]. split; [intros x; rewrite in_app_iff; tauto|]. split.
    + intros _ x y Hx Hy. eapply sorted_app_lt; eassumption.
    + intros Hp2. destruct Hp as [Hp|Hp]; congruence.
  - split; [exact Hc|]. split; [exact Hl|]. split; [intros x; rewrite in_app_iff; tauto|]. split.
    + intros [Hp2|Hp2]; congruence.
    + intros _ x y Hx Hy. eapply sorted_app_lt; eassumption.
Qed.

(** at most one REST call per application and evaluation: never a create and a delete for the same application *)
Theorem one_action_per_app P s res : state_inv P s -> NoDup (keys (actions_of P s res)).
Proof. intros (Hnd & Hnow & _). destruct (eval_char P s res Hnd Hnow) as (_ & _ & _ & _ & _ & Hnda & _). exact Hnda. Qed.

Theorem never_create_and_delete P s res n k r ids ok : state_inv P s ->
  In (n, ACreate k r) (actions_of P s res) -> In (n, ADelete ids ok) (actions_of P s res) -> False.
Proof.
  intros Hinv H1 H2. pose proof (one_action_per_app P s res Hinv) as Hnd.
  apply (In_lookup _ _ _ Hnd) in H1. apply (In_lookup _ _ _ Hnd) in H2. congruence.
Qed.

(** suspended or not configured: no REST call, and the monitor's configuration and tokens are untouched *)
Theorem inactive_no_action P s res n : state_inv P s ->
  (lookup (st_monitors s) n = None \/ is_susp (st_suspended s) n (st_clock s) = true) ->
  (forall a, ~ In (n, a) (actions_of P s res)) /\
  lookup (st_monitors (after P s res)) n = lookup (st_monitors s) n.
Proof.
  intros (Hnd & Hnow & _) Hcase.
  destruct (eval_char P s res Hnd Hnow) as (_ & _ & _ & Hk & Hl & Hnda & Ha). unfold actions_of, after. split.
  - intros a Hin. apply (In_lookup _ _ _ Hnda) in Hin. rewrite Ha in Hin.
    destruct (lookup (st_monitors s) n) as [c|] eqn:Hc; [|discriminate].
    destruct Hcase as [Hcase|Hcase]; [discriminate|]. unfold mon_eval in Hin. rewrite Hcase in Hin. discriminate.
  - destruct (lookup (st_monitors s) n) as [c|] eqn:Hc.
    + destruct Hcase as [Hcase|Hcase]; [discriminate|]. rewrite (Hl n c Hc). unfold mon_eval. rewrite Hcase. reflexivity.
    + apply lookup_None. rewrite Hk. intros Hin. apply In_keys_lookup in Hin as [v Hv]. congruence.
Qed.

(** tokens after an evaluation = tokens after the refill - what was successfully created; still within [0, cap] *)
Theorem tokens_after P s res n c : params_ok P -> state_inv P s -> active s n c ->
  exists c', lookup (st_monitors (after P s res)) n = Some c' /\
             m_count c' = m_count c /\ m_policy c' = m_policy c /\ m_last c' = st_clock s /\
             m_tok c' = m_tok (refill P (st_clock s) c) - scale P * created_in n (actions_of P s res) /\
             0 <= m_tok c' <= cap P c.
Proof.
  intros HP (Hnd & Hnow & Hall) [Hc Hs]. destruct (Hall n c Hc) as [Hok Hl].
  destruct (eval_char P s res Hnd Hnow) as (_ & _ & _ & _ & Hlk & Hnda & Ha). unfold after, actions_of.
  exists (so_conf (mon_eval P s res n c)). split; [apply Hlk, Hc|].
  rewrite (created_in_lookup n _ Hnda), Ha, Hc.
  pose proof (mon_eval_ok P s res n c HP Hok Hl) as [[_ Hb] _].
  unfold mon_eval in *. rewrite Hs in *.
  pose proof (step_sound P (st_waited s) n (refill P (st_clock s) c) (insts_of (st_scheduled s) n) (res_of res n) HP)
    as (Hcount & Hlast & Hpol & Hact).
  rewrite Hcount, Hlast, Hpol, refill_count, refill_last, refill_policy. repeat split; auto.
  - destruct (so_act _) as [[k r'|ids ok]|].
    + destruct Hact as (-> & _ & _ & _ & _ & Htok). rewrite Htok.
      destruct (res_of res n); cbn [created_by is_success]; lia.
    + destruct Hact as (_ & _ & _ & Htok). rewrite Htok. cbn [created_by]. lia.
    + rewrite Hact. cbn [created_by]. lia.
  - lia.
  - unfold cap in *. rewrite Hcount, refill_count in Hb. lia.
Qed.

(** * Constants *)
Definition consts_okb (k : consts) : bool := params_okb {| p_k := k; p_tps := 1 |}.

Lemma consts_ok_params k tps : consts_okb k = true -> 0 < tps -> params_ok {| p_k := k; p_tps := tps |}.
Proof.
  intros H Ht. apply params_okb_ok in H. unfold params_ok in *. cbn in *. lia.
Qed.

Lemma canonical_values k : consts_canonical k = true ->
  k_interval k = 3600 /\ k_cap k = 2 /\ k_init k = 2 /\ k_rate k = 2 /\ 0 <= k_delay k.
Proof. unfold consts_canonical. intros H. repeat (apply andb_true_iff in H as [H ?]). lia. Qed.

(** the budget in the property's units: twice the target per hour *)
Theorem run_budget_hourly k tps name evs s c : consts_canonical k = true -> 0 < tps ->
  let P := {| p_k := k; p_tps := tps |} in
  state_inv P s -> Forall event_ok evs -> forallb (no_reconf name) evs = true ->
  lookup (st_monitors s) name = Some c ->
  3600 * tps * created name (snd (run P s evs))
    <= m_tok c + 2 * m_count c * (st_clock (fst (run P s evs)) - m_last c).
Proof.
  intros Hk Ht P Hinv Hev Hnr Hc. destruct (canonical_values k Hk) as (Hi & Hcap & Hinit & Hrate & Hd).
  assert (HP : params_ok P). { unfold params_ok, P; cbn. lia. }
  pose proof (run_budget_clock P name evs s c HP Hinv Hev Hnr Hc) as H.
  unfold scale, P in H. cbn [p_k p_tps] in H. rewrite Hi, Hrate in H. exact H.
Qed.
