(** Model of treadmill.sproc.appmonitor: one [reevaluate] evaluation, the watch
    callbacks of [_run_sync] that (re)configure / remove monitors and replace the
    scheduled-instance map, and sequences of those events under a virtual clock.

    Numbers.  The Python code keeps the token bucket in floats:
        available = 2.0 * count          rate = 2.0 * count / _INTERVAL
        available = min(available + rate * (now - last_update), count * 2)
    The model never uses floats.  Time is counted in integer *ticks*; [p_tps] ticks
    make one second (any finite set of rational instants has a common denominator,
    so this loses nothing).  Tokens are stored scaled by
        scale = _INTERVAL * tps
    i.e. [m_tok c = available * scale], which is an integer at every point of every
    run: the initial value is k_init*count*scale, a refill adds k_rate*count*dticks
    and a successful creation subtracts allowed*scale.  [math.floor(available)] is
    [m_tok / scale] (Z.div floors).  The constants (_INTERVAL, _DELAY_INTERVAL and
    the three factors 2) are NOT written here: they are the record [consts],
    instantiated by [TM.Gen.Tables.c20_consts], which harness/tables_c20.py extracts
    from the Python AST on every run.

    Python dicts (state['monitors'], state['suspended'], the returned `waited`) are
    association lists with Python's order rules (update keeps the position,
    pop + insert appends).  REST outcomes are oracle data: one [api_result] per
    application name and evaluation (an application gets at most one REST call per
    evaluation).  No proofs in this file. *)
From Coq Require Import ZArith List Bool.
Import ListNotations.
Open Scope Z_scope.

(** * Constants (generated) and parameters *)
Record consts := {
  k_interval : Z;   (* _INTERVAL, seconds                                   *)
  k_delay    : Z;   (* _DELAY_INTERVAL, seconds                              *)
  k_cap      : Z;   (* reevaluate:          max_value = conf['count'] * K    *)
  k_init     : Z;   (* _monitor_data_watch: 'available': K * count           *)
  k_rate     : Z    (* _monitor_data_watch: 'rate': K * count / _INTERVAL    *)
}.
Record params := { p_k : consts; p_tps : Z }.
Definition scale (P : params) : Z := k_interval (p_k P) * p_tps P.
Definition delay_ticks (P : params) : Z := k_delay (p_k P) * p_tps P.

(** what the property text says: twice the target per hour *)
Definition consts_canonical (k : consts) : bool :=
  (k_interval k =? 3600) && (k_cap k =? 2) && (k_init k =? 2) && (k_rate k =? 2) && (0 <=? k_delay k).
(** what the proofs need *)
Definition params_okb (P : params) : bool :=
  (0 <? k_interval (p_k P)) && (0 <? p_tps P) && (0 <=? k_init (p_k P)) && (k_init (p_k P) <=? k_cap (p_k P))
  && (0 <=? k_rate (p_k P)) && (0 <=? k_delay (p_k P)).

(** * Python dicts keyed by (the Z identifier of) a name *)
Fixpoint lookup {A} (l : list (Z * A)) (k : Z) : option A :=
  match l with [] => None | (k', v) :: r => if Z.eqb k' k then Some v else lookup r k end.
Fixpoint set_kv {A} (l : list (Z * A)) (k : Z) (v : A) : list (Z * A) :=
  match l with
  | [] => [(k, v)]
  | (k', w) :: r => if Z.eqb k' k then (k', v) :: r else (k', w) :: set_kv r k v
  end.
Definition remove_k {A} (l : list (Z * A)) (k : Z) : list (Z * A) :=
  filter (fun p => negb (Z.eqb (fst p) k)) l.
Definition keys {A} (l : list (Z * A)) : list Z := map fst l.
Fixpoint memz (k : Z) (l : list Z) : bool :=
  match l with [] => false | x :: r => Z.eqb x k || memz k r end.
Definition zlen {A} (l : list A) : Z := Z.of_nat (length l).

(** * State *)
Inductive policy := PNone | PFifo | PLifo | POther.   (* None / 'fifo' / 'lifo' / any other value *)
Record conf := { m_count : Z; m_tok : Z; m_last : Z; m_policy : policy }.

Record state := {
  st_clock     : Z;                      (* virtual time.time(), ticks *)
  st_monitors  : list (Z * conf);        (* state['monitors'] *)
  st_scheduled : list (Z * list Z);      (* state['scheduled']: app -> sorted instance ids *)
  st_suspended : list (Z * Z);           (* state['suspended']: name -> until (ticks) *)
  st_waited    : list Z                  (* keys of last_waited *)
}.

Inductive api_result := RSuccess | RNotFound | RBadRequest | RValidation | ROther.

(** * The token bucket *)
Definition cap (P : params) (c : conf) : Z := k_cap (p_k P) * m_count c * scale P.

(** _monitor_data_watch: a (re)configured monitor starts with a full bucket *)
Definition fresh_conf (P : params) (now count : Z) (pol : policy) : conf :=
  {| m_count := count; m_tok := k_init (p_k P) * count * scale P; m_last := now; m_policy := pol |}.

(** reevaluate, first loop body for a monitor that is not suspended *)
Definition refill (P : params) (now : Z) (c : conf) : conf :=
  {| m_count := m_count c;
     m_tok := if m_tok c <? cap P c
              then Z.min (m_tok c + k_rate (p_k P) * m_count c * (now - m_last c)) (cap P c)
              else m_tok c;
     m_last := now;
     m_policy := m_policy c |}.

(** suspended.get(name, 0) > now *)
Definition sus_until (sus : list (Z * Z)) (name : Z) : Z :=
  match lookup sus name with Some u => u | None => 0 end.
Definition is_susp (sus : list (Z * Z)) (name now : Z) : bool := now <? sus_until sus name.

(** alert kinds: 1 'Monitor active again' (clear), 2 'Rate limited', 3 'App not configured',
    4 'Unable to start', 5 'Invalid manifest' *)

(** ** first loop: un-suspend past-due monitors, refill *)
Fixpoint phase1 (P : params) (now : Z) (ms : list (Z * conf)) (sus : list (Z * Z))
  : list (Z * conf) * list (Z * Z) * list (Z * Z) :=
  match ms with
  | [] => ([], sus, [])
  | (n, c) :: t =>
      if is_susp sus n now then
        let '(t', sus', al) := phase1 P now t sus in ((n, c) :: t', sus', al)
      else
        let had := match lookup sus n with Some _ => true | None => false end in
        let sus1 := if had then remove_k sus n else sus in
        let '(t', sus', al) := phase1 P now t sus1 in
        ((n, refill P now c) :: t', sus', (if had then [(n, 1)] else []) ++ al)
  end.

(** ** second loop, one monitor *)
Inductive act :=
| ACreate (n : Z) (r : api_result)       (* POST /instance/<name>?count=n was issued; r = what came back *)
| ADelete (ids : list Z) (ok : bool).    (* POST /instance/_bulk/delete {instances: ids} was issued *)

Record step_out := {
  so_conf : conf; so_act : option act; so_wait : bool; so_suspend : bool; so_alerts : list Z; so_mod : bool }.

Definition quiet (c : conf) : step_out :=
  {| so_conf := c; so_act := None; so_wait := false; so_suspend := false; so_alerts := []; so_mod := false |}.

(** grouped[name][:current - count]  /  grouped[name][count - current:]  (Python slice semantics) *)
Definition surplus (pol : policy) (insts : list Z) (count : Z) : option (list Z) :=
  match pol with
  | PNone | PFifo => Some (firstn (Z.to_nat (zlen insts - count)) insts)
  | PLifo => Some (skipn (Z.to_nat count) insts)
  | POther => None
  end.

Definition spend (P : params) (c : conf) (n : Z) : conf :=
  {| m_count := m_count c; m_tok := m_tok c - n * scale P; m_last := m_last c; m_policy := m_policy c |}.

Definition step (P : params) (wprev : list Z) (name : Z) (c : conf) (insts : list Z) (r : api_result) : step_out :=
  let count := m_count c in
  let cur := zlen insts in
  if count =? cur then quiet c
  else if cur <? count then
    let needed := count - cur in
    let allowed := Z.min needed (m_tok c / scale P) in
    if allowed <=? 0 then
      {| so_conf := c; so_act := None; so_wait := true; so_suspend := false;
         so_alerts := if memz name wprev then [] else [2]; so_mod := negb (memz name wprev) |}
    else
      match r with
      | RSuccess =>
          {| so_conf := spend P c allowed; so_act := Some (ACreate allowed r); so_wait := false; so_suspend := false;
             so_alerts := if memz name wprev then [1] else []; so_mod := memz name wprev |}
      | RNotFound =>
          {| so_conf := c; so_act := Some (ACreate allowed r); so_wait := false; so_suspend := true;
             so_alerts := [3]; so_mod := true |}
      | RBadRequest =>
          {| so_conf := c; so_act := Some (ACreate allowed r); so_wait := false; so_suspend := true;
             so_alerts := [4]; so_mod := true |}
      | RValidation =>
          {| so_conf := c; so_act := Some (ACreate allowed r); so_wait := false; so_suspend := true;
             so_alerts := [5]; so_mod := true |}
      | ROther =>
          {| so_conf := c; so_act := Some (ACreate allowed r); so_wait := false; so_suspend := false;
             so_alerts := []; so_mod := false |}
      end
  else
    match surplus (m_policy c) insts count with
    | None => quiet c                                  (* 'Invalid scale policy' *)
    | Some ids =>
        let ok := match r with RSuccess => true | _ => false end in
        {| so_conf := c; so_act := Some (ADelete ids ok); so_wait := false; so_suspend := false;
           so_alerts := []; so_mod := ok |}
    end.

Definition insts_of (sched : list (Z * list Z)) (name : Z) : list Z :=
  match lookup sched name with Some l => l | None => [] end.
Definition res_of (res : list (Z * api_result)) (name : Z) : api_result :=
  match lookup res name with Some r => r | None => RSuccess end.

Record p2_out := {
  p2_monitors : list (Z * conf); p2_sus : list (Z * Z); p2_acts : list (Z * act);
  p2_waited : list Z; p2_alerts : list (Z * Z); p2_mod : bool }.

(** ** second loop *)
Fixpoint phase2 (P : params) (now : Z) (wprev : list Z) (sched : list (Z * list Z)) (res : list (Z * api_result))
  (ms : list (Z * conf)) (sus : list (Z * Z)) : p2_out :=
  match ms with
  | [] => {| p2_monitors := []; p2_sus := sus; p2_acts := []; p2_waited := []; p2_alerts := []; p2_mod := false |}
  | (n, c) :: t =>
      if is_susp sus n now then
        let o := phase2 P now wprev sched res t sus in
        {| p2_monitors := (n, c) :: p2_monitors o; p2_sus := p2_sus o; p2_acts := p2_acts o;
           p2_waited := p2_waited o; p2_alerts := p2_alerts o; p2_mod := p2_mod o |}
      else
        let s := step P wprev n c (insts_of sched n) (res_of res n) in
        let sus1 := if so_suspend s then set_kv sus n (now + delay_ticks P) else sus in
        let o := phase2 P now wprev sched res t sus1 in
        {| p2_monitors := (n, so_conf s) :: p2_monitors o;
           p2_sus := p2_sus o;
           p2_acts := match so_act s with Some a => (n, a) :: p2_acts o | None => p2_acts o end;
           p2_waited := if so_wait s then n :: p2_waited o else p2_waited o;
           p2_alerts := map (fun k => (n, k)) (so_alerts s) ++ p2_alerts o;
           p2_mod := so_mod s || p2_mod o |}
  end.

(** ** reevaluate *)
Record eval_out := {
  eo_actions : list (Z * act);      (* REST calls in the order issued *)
  eo_monitors : list (Z * conf);    (* state['monitors'] afterwards *)
  eo_suspended : list (Z * Z);      (* state['suspended'] afterwards *)
  eo_waited : list Z;               (* keys of the returned dict *)
  eo_alerts : list (Z * Z);         (* alert_f calls (name, kind) *)
  eo_updated : bool                 (* zkutils.update was called *)
}.

Definition prune (ms : list (Z * conf)) (sus : list (Z * Z)) : list (Z * Z) :=
  filter (fun p => memz (fst p) (keys ms)) sus.

Definition eval (P : params) (s : state) (res : list (Z * api_result)) : state * eval_out :=
  let now := st_clock s in
  let sus0 := prune (st_monitors s) (st_suspended s) in
  let pruned := negb (Nat.eqb (length sus0) (length (st_suspended s))) in
  let '(ms1, sus1, al1) := phase1 P now (st_monitors s) sus0 in
  let o := phase2 P now (st_waited s) (st_scheduled s) res ms1 sus1 in
  let wkeys := p2_waited o ++ filter (fun k => negb (memz k (p2_waited o))) (keys (p2_sus o)) in
  let upd := pruned || negb (Nat.eqb (length al1) 0) || p2_mod o in
  ({| st_clock := now; st_monitors := p2_monitors o; st_scheduled := st_scheduled s;
      st_suspended := p2_sus o; st_waited := wkeys |},
   {| eo_actions := p2_acts o; eo_monitors := p2_monitors o; eo_suspended := p2_sus o;
      eo_waited := wkeys; eo_alerts := al1 ++ p2_alerts o; eo_updated := upd |}).

(** * Events between (and including) evaluations *)
Inductive event :=
| EAdvance (d : Z)                                   (* the clock moves by d ticks *)
| EConfigure (name count : Z) (pol : policy)         (* monitor node created / rewritten: data watch fires *)
| ERemove (name : Z)                                 (* monitor node deleted: children watch fires *)
| EScheduled (apps : list (Z * list Z))              (* /scheduled children watch: new grouped map *)
| EEval (res : list (Z * api_result)).               (* one reevaluate(); REST outcomes per application *)

Definition apply (P : params) (s : state) (e : event) : state * option eval_out :=
  match e with
  | EAdvance d =>
      ({| st_clock := st_clock s + d; st_monitors := st_monitors s; st_scheduled := st_scheduled s;
          st_suspended := st_suspended s; st_waited := st_waited s |}, None)
  | EConfigure n count pol =>
      ({| st_clock := st_clock s;
          st_monitors := set_kv (st_monitors s) n (fresh_conf P (st_clock s) count pol);
          st_scheduled := st_scheduled s; st_suspended := st_suspended s; st_waited := st_waited s |}, None)
  | ERemove n =>
      ({| st_clock := st_clock s; st_monitors := remove_k (st_monitors s) n; st_scheduled := st_scheduled s;
          st_suspended := st_suspended s; st_waited := st_waited s |}, None)
  | EScheduled apps =>
      ({| st_clock := st_clock s; st_monitors := st_monitors s; st_scheduled := apps;
          st_suspended := st_suspended s; st_waited := st_waited s |}, None)
  | EEval res => let '(s', o) := eval P s res in (s', Some o)
  end.

Fixpoint run (P : params) (s : state) (evs : list event) : state * list eval_out :=
  match evs with
  | [] => (s, [])
  | e :: t =>
      let '(s1, o) := apply P s e in
      let '(s2, outs) := run P s1 t in
      (s2, match o with Some x => x :: outs | None => outs end)
  end.

Definition init_state (clock0 : Z) (w0 : list Z) : state :=
  {| st_clock := clock0; st_monitors := []; st_scheduled := []; st_suspended := []; st_waited := w0 |}.

(** successfully created instances of [name] in a list of evaluation outputs *)
Fixpoint created_in (name : Z) (acts : list (Z * act)) : Z :=
  match acts with
  | [] => 0
  | (n, a) :: t =>
      match a with
      | ACreate k RSuccess => if Z.eqb n name then k + created_in name t else created_in name t
      | _ => created_in name t
      end
  end.
Fixpoint created (name : Z) (outs : list eval_out) : Z :=
  match outs with [] => 0 | o :: t => created_in name (eo_actions o) + created name t end.

(** * Flattening for the correspondence check *)
Definition zb (b : bool) : Z := if b then 1 else 0.
Definition flat_act (p : Z * act) : list Z :=
  match p with
  | (n, ACreate k _) => [1; n; k]
  | (n, ADelete ids _) => [2; n; zlen ids] ++ ids
  end.
Definition flat_eval (o : eval_out) : list Z :=
  [zlen (eo_actions o)] ++ flat_map flat_act (eo_actions o)
  ++ [zlen (eo_monitors o)] ++ flat_map (fun '(n, c) => [n; m_count c; m_tok c; m_last c]) (eo_monitors o)
  ++ [zlen (eo_suspended o)] ++ flat_map (fun '(n, u) => [n; u]) (eo_suspended o)
  ++ [zlen (eo_waited o)] ++ eo_waited o
  ++ [zb (eo_updated o); zlen (eo_alerts o)] ++ flat_map (fun '(n, k) => [n; k]) (eo_alerts o).

(** a case: ticks per second, initial clock, keys of the last_waited dict loaded from ZooKeeper, events *)
Definition run_case (k : consts) (c : Z * Z * list Z * list event) : list Z :=
  let '(tps, clock0, w0, evs) := c in
  flat_map flat_eval (snd (run {| p_k := k; p_tps := tps |} (init_state clock0 w0) evs)).

(** compact instance lists for the cases files: [zrange a n] = [a; a+1; ...; a+n-1] *)
Fixpoint zrange (a : Z) (n : nat) : list Z :=
  match n with O => [] | S m => a :: zrange (a + 1) m end.
