(** Executable model of the trace archiver:
      treadmill.trace._zk.upload_batch / download_batch / cleanup
      treadmill.trace.app.zk.cleanup_trace / cleanup_finished /
                             cleanup_trace_history / cleanup_finished_history
      treadmill.trace.server.zk.cleanup_server_trace

    A ZooKeeper directory that is archived is a [store]: the live nodes (in
    [get_children] order), the history snapshots (sequence number, rows) and the
    next sequence number of the history directory.  Each archiving function is
    modelled by the ORDERED LIST OF ZooKeeper WRITES it issues on a given store
    ([Upload] = create of a sequence node holding a snapshot, [Delete] = delete of
    one live node, [Prune] = delete of one snapshot).  A crash / stop of the
    archiver after k writes is [apply_writes s (firstn k writes)].

    Modelled, not verified: sqlite + zlib are a list of rows whose order is
    irrelevant (dumps sort the rows); ZooKeeper sequence numbers increase; node
    names are unique inside a directory.  Time is in quarter seconds (exact in
    float64).  No proofs in this file. *)
From Coq Require Import ZArith List Bool.
Import ListNotations.
Open Scope Z_scope.

(** * Python's [sorted] / [list.sort] on totally ordered keys: insertion sort *)
Section Sort.
  Context {A : Type} (leb : A -> A -> bool).
  Fixpoint insert (x : A) (l : list A) : list A :=
    match l with
    | [] => [x]
    | y :: t => if leb x y then x :: l else y :: insert x t
    end.
  Fixpoint isort (l : list A) : list A :=
    match l with [] => [] | x :: t => insert x (isort t) end.
End Sort.

(** * [for idx in range(0, len(l), b): batch = l[idx:idx+b]; if len(batch) < b: break]
      = the first [len l / b] slices of length b.  (b = 0: Python raises ValueError
      before any write; [Nat.div _ 0 = 0] gives no batch.) *)
Fixpoint take_batches {A : Type} (nb b : nat) (l : list A) : list (list A) :=
  match nb with
  | O => []
  | S k => firstn b l :: take_batches k b (skipn b l)
  end.
Definition full_batches {A : Type} (b : nat) (l : list A) : list (list A) :=
  take_batches (length l / b) b l.

(** what the full batches cover, and the partial batch that is left alone *)
Definition archived_part {X} (b : nat) (l : list X) : list X := firstn (length l / b * b) l.
Definition leftover {X} (b : nat) (l : list X) : list X := skipn (length l / b * b) l.

(** number of names greater than n *)
Definition count_gt (n : Z) (names : list Z) : nat := length (filter (fun m => n <? m) names).

Fixpoint nodupb (l : list Z) : bool :=
  match l with [] => true | x :: t => negb (existsb (Z.eqb x) t) && nodupb t end.

(** * A directory with a history, and the writes of an archiver *)
Section Arch.
  Context {A R : Type} (key : A -> Z) (row_of : A -> R).

  Record store := {
    live : list A;              (* live nodes, get_children order                     *)
    hist : list (Z * list R);   (* snapshots: (sequence number of the node name, rows) *)
    seq  : Z                    (* next sequence number of the history directory       *)
  }.

  Inductive write :=
  | Upload (items : list A)     (* zkutils.create(<hist>/<prefix>-, zlib(sqlite(rows)), sequence=True) *)
  | Delete (k : Z)              (* zkutils.ensure_deleted(path of the live node with key k)            *)
  | Prune (name : Z).           (* zkutils.ensure_deleted(<hist>/<prefix>-name)                        *)

  Definition apply_write (s : store) (w : write) : store :=
    match w with
    | Upload items => {| live := live s; hist := hist s ++ [(seq s, map row_of items)]; seq := seq s + 1 |}
    | Delete k => {| live := filter (fun a => negb (key a =? k)) (live s); hist := hist s; seq := seq s |}
    | Prune n => {| live := live s; hist := filter (fun h => negb (fst h =? n)) (hist s); seq := seq s |}
    end.
  Definition apply_writes (s : store) (ws : list write) : store := fold_left apply_write ws s.

  (** _zk.upload_batch for each batch: create the snapshot, then delete the members in batch order *)
  Definition archive_writes (batches : list (list A)) : list write :=
    flat_map (fun b => Upload b :: map (fun a => Delete (key a)) b) batches.

  (** _zk.cleanup(zkclient, path, max_count): nodes = sorted(children); delete nodes[0:len-max_count] *)
  Definition prune_writes (maxc : Z) (s : store) : list write :=
    let names := isort Z.leb (map fst (hist s)) in
    map Prune (firstn (Z.to_nat (Z.of_nat (length names) - maxc)) names).

  (** the store after a run that stops after k writes *)
  Definition cut (s : store) (ws : list write) (k : nat) : store := apply_writes s (firstn k ws).

  Definition archived (s : store) (a : A) : Prop :=
    exists n rows, In (n, rows) (hist s) /\ In (row_of a) rows.
  Definition keys_unique (s : store) : bool := nodupb (map key (live s)).
End Arch.

Arguments store : clear implicits.
Arguments write : clear implicits.
Arguments Upload {A} _.
Arguments Delete {A} _.
Arguments Prune {A} _.

(** * App trace: /trace/<shard>/<instance>,<timestamp>,<source>,<type>,<data> *)
Record event := {
  e_shard : Z;   (* shard directory (int of the hex name: order preserving)                     *)
  e_inst  : Z;   (* instance id = first field of the node name                                   *)
  e_ts    : Z;   (* float(second field), in quarter seconds                                      *)
  e_key   : Z;   (* identifies the node (shard, name); order preserving on names within a shard  *)
  e_data  : Z    (* the node's payload                                                           *)
}.
(** the sqlite row (path, timestamp, data, directory, name) written by cleanup_trace: data is None *)
Record trow := { r_shard : Z; r_inst : Z; r_ts : Z; r_key : Z; r_data : option Z }.
Definition trow_of (e : event) : trow :=
  {| r_shard := e_shard e; r_inst := e_inst e; r_ts := e_ts e; r_key := e_key e; r_data := None |}.

Definition tstore := store event trow.

(** tuple comparison (timestamp, shard, event) of [traces.sort()] *)
Definition ev_leb (a b : event) : bool :=
  if e_ts a <? e_ts b then true else if e_ts b <? e_ts a then false
  else if e_shard a <? e_shard b then true else if e_shard b <? e_shard a then false
  else e_key a <=? e_key b.

Definition is_scheduled (sched : list Z) (e : event) : bool := existsb (Z.eqb (e_inst e)) sched.
Definition expired (now expires ts : Z) : bool := ts <? now - expires.
Definition trace_candidate (now expires : Z) (sched : list Z) (e : event) : bool :=
  negb (is_scheduled sched e) && expired now expires (e_ts e).

Definition trace_candidates (now expires : Z) (sched : list Z) (s : tstore) : list event :=
  isort ev_leb (filter (trace_candidate now expires sched) (live s)).
Definition trace_batches (b : nat) (now expires : Z) (sched : list Z) (s : tstore) : list (list event) :=
  full_batches b (trace_candidates now expires sched s).
Definition cleanup_trace_writes (b : nat) (now expires : Z) (sched : list Z) (s : tstore) : list (write event) :=
  archive_writes e_key (trace_batches b now expires sched s).

(** the store after cleanup_trace stopped after k writes / ran to completion *)
Definition trace_cut (b : nat) (now expires : Z) (sched : list Z) (s : tstore) (k : nat) : tstore :=
  cut e_key trow_of s (cleanup_trace_writes b now expires sched s) k.
Definition trace_done (b : nat) (now expires : Z) (sched : list Z) (s : tstore) : tstore :=
  apply_writes e_key trow_of s (cleanup_trace_writes b now expires sched s).

(** _zk.download_batch(zkclient, snapshot, 'trace', name=i): SELECT name WHERE name GLOB 'i,*' *)
Definition download (rows : list trow) (i : Z) : list Z :=
  map r_key (filter (fun r => r_inst r =? i) rows).

(** * Finished records: /finished/<instance>, data = exit summary, mtime *)
Record frec := { f_inst : Z; f_mtime : Z; f_data : Z }.
Definition fstore := store frec frec.
Definition fin_candidates (now expires : Z) (s : fstore) : list frec :=
  filter (fun f => expired now expires (f_mtime f)) (live s).
Definition fin_batches (b : nat) (now expires : Z) (s : fstore) : list (list frec) :=
  full_batches b (fin_candidates now expires s).
Definition cleanup_finished_writes (b : nat) (now expires : Z) (s : fstore) : list (write frec) :=
  archive_writes f_inst (fin_batches b now expires s).

Definition fin_row (f : frec) : frec := f.    (* the row is (path, last_modified, data, '/finished', name) *)
Definition fin_cut (b : nat) (now expires : Z) (s : fstore) (k : nat) : fstore :=
  cut f_inst fin_row s (cleanup_finished_writes b now expires s) k.

(** * Server trace: cleanup_server_trace re-lists the directory and archives the
      batch_size oldest events until fewer than batch_size are left.  [None] = fuel exhausted. *)
Fixpoint server_loop (fuel b : nat) (s : tstore) : option (list (write event)) :=
  match fuel with
  | O => None
  | S f =>
      let batch := firstn b (isort ev_leb (live s)) in
      if (length batch <? b)%nat then Some []
      else let ws := archive_writes e_key [batch] in
           match server_loop f b (apply_writes e_key trow_of s ws) with
           | Some rest => Some (ws ++ rest)
           | None => None
           end
  end.
Definition cleanup_server_trace_writes (b : nat) (s : tstore) : option (list (write event)) :=
  server_loop (S (length (live s))) b s.

(** * Correspondence: a world, a program of archiver calls, flattened observables *)
Record world := { w_sched : list Z; w_trace : tstore; w_fin : fstore; w_srv : tstore }.

Inductive op :=
| OpTrace (b : nat) (now expires : Z) (stop : option nat)
| OpFinished (b : nat) (now expires : Z) (stop : option nat)
| OpPruneTrace (maxc : Z) (stop : option nat)
| OpPruneFinished (maxc : Z) (stop : option nat)
| OpServer (b : nat) (stop : option nat)
| OpPruneServer (maxc : Z) (stop : option nat).

Definition zlen {X} (l : list X) : Z := Z.of_nat (length l).

Definition dump_hist_light {R} (rkey : R -> Z) (h : list (Z * list R)) : list Z :=
  zlen h :: flat_map (fun '(n, rows) => n :: zlen rows :: isort Z.leb (map rkey rows)) h.
Definition dump_light {A R} (key : A -> Z) (rkey : R -> Z) (s : store A R) : list Z :=
  zlen (live s) :: map key (live s) ++ dump_hist_light rkey (hist s).

Definition trow_leb (a b : trow) : bool := r_key a <=? r_key b.
Definition frec_leb (a b : frec) : bool := f_inst a <=? f_inst b.
Definition dump_trow (r : trow) : list Z :=
  [r_key r; r_shard r; r_inst r; r_ts r; match r_data r with None => 0 | Some d => 1 + d end].
Definition dump_frec (f : frec) : list Z := [f_inst f; f_mtime f; f_data f].
Definition dump_tstore (s : tstore) : list Z :=
  zlen (live s) :: map e_key (live s)
  ++ zlen (hist s) :: flat_map (fun '(n, rows) => n :: zlen rows :: flat_map dump_trow (isort trow_leb rows)) (hist s).
Definition dump_fstore (s : fstore) : list Z :=
  zlen (live s) :: map f_inst (live s)
  ++ zlen (hist s) :: flat_map (fun '(n, rows) => n :: zlen rows :: flat_map dump_frec (isort frec_leb rows)) (hist s).

(** every cut of a write list: number of writes, then the light dump after 0, 1, ..., all writes *)
Fixpoint dump_cuts {A R} (key : A -> Z) (row_of : A -> R) (rkey : R -> Z)
         (s : store A R) (ws : list (write A)) : list Z :=
  dump_light key rkey s ++
  match ws with
  | [] => []
  | w :: t => dump_cuts key row_of rkey (apply_write key row_of s w) t
  end.

Definition stop_at {A R} (key : A -> Z) (row_of : A -> R) (s : store A R) (ws : list (write A)) (stop : option nat) :=
  match stop with None => apply_writes key row_of s ws | Some k => cut key row_of s ws k end.

Definition id_frec := fin_row.

Definition run_op (w : world) (o : op) : list Z * world :=
  match o with
  | OpTrace b now ex stop =>
      let ws := cleanup_trace_writes b now ex (w_sched w) (w_trace w) in
      let s' := stop_at e_key trow_of (w_trace w) ws stop in
      (zlen ws :: dump_cuts e_key trow_of r_key (w_trace w) ws ++ dump_tstore s',
       {| w_sched := w_sched w; w_trace := s'; w_fin := w_fin w; w_srv := w_srv w |})
  | OpFinished b now ex stop =>
      let ws := cleanup_finished_writes b now ex (w_fin w) in
      let s' := stop_at f_inst id_frec (w_fin w) ws stop in
      (zlen ws :: dump_cuts f_inst id_frec f_inst (w_fin w) ws ++ dump_fstore s',
       {| w_sched := w_sched w; w_trace := w_trace w; w_fin := s'; w_srv := w_srv w |})
  | OpPruneTrace maxc stop =>
      let ws := prune_writes (A:=event) maxc (w_trace w) in
      let s' := stop_at e_key trow_of (w_trace w) ws stop in
      (zlen ws :: dump_cuts e_key trow_of r_key (w_trace w) ws,
       {| w_sched := w_sched w; w_trace := s'; w_fin := w_fin w; w_srv := w_srv w |})
  | OpPruneFinished maxc stop =>
      let ws := prune_writes (A:=frec) maxc (w_fin w) in
      let s' := stop_at f_inst id_frec (w_fin w) ws stop in
      (zlen ws :: dump_cuts f_inst id_frec f_inst (w_fin w) ws,
       {| w_sched := w_sched w; w_trace := w_trace w; w_fin := s'; w_srv := w_srv w |})
  | OpServer b stop =>
      match cleanup_server_trace_writes b (w_srv w) with
      | None => ([-1], w)
      | Some ws =>
          let s' := stop_at e_key trow_of (w_srv w) ws stop in
          (zlen ws :: dump_cuts e_key trow_of r_key (w_srv w) ws ++ dump_tstore s',
           {| w_sched := w_sched w; w_trace := w_trace w; w_fin := w_fin w; w_srv := s' |})
      end
  | OpPruneServer maxc stop =>
      let ws := prune_writes (A:=event) maxc (w_srv w) in
      let s' := stop_at e_key trow_of (w_srv w) ws stop in
      (zlen ws :: dump_cuts e_key trow_of r_key (w_srv w) ws,
       {| w_sched := w_sched w; w_trace := w_trace w; w_fin := w_fin w; w_srv := s' |})
  end.

Fixpoint run_ops (w : world) (ops : list op) : list Z * world :=
  match ops with
  | [] => ([], w)
  | o :: t => let '(out, w') := run_op w o in
              let '(out', w'') := run_ops w' t in (out ++ out', w'')
  end.

(** after the program: download_batch of every snapshot of /trace.history for each listed instance *)
Definition dump_downloads (s : tstore) (insts : list Z) : list Z :=
  flat_map (fun '(n, rows) => flat_map (fun i => let d := isort Z.leb (download rows i) in zlen d :: d) insts) (hist s).

Definition run_case (c : world * list op * list Z) : list Z :=
  let '(w, ops, insts) := c in
  let '(out, w') := run_ops w ops in
  out ++ dump_downloads (w_trace w') insts ++ dump_downloads (w_srv w') insts.
