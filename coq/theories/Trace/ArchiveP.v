(** Proofs about the trace archiver model [Trace/Archive.v]. *)
From Coq Require Import ZArith List Bool Lia Permutation Sorted ZifyBool.
From TM Require Import Trace.Archive.
Import ListNotations.
Open Scope Z_scope.

(** * Lists *)
Lemma firstn_add {X} (n m : nat) (l : list X) : firstn (n + m) l = firstn n l ++ firstn m (skipn n l).
Proof.
  revert l; induction n as [|n IH]; intros l; cbn.
  - reflexivity.
  - destruct l as [|x l]; cbn.
    + destruct m; reflexivity.
    + f_equal. apply IH.
Qed.

Lemma In_firstn {X} (n : nat) (l : list X) x : In x (firstn n l) -> In x l.
Proof. intros H. rewrite <- (firstn_skipn n l). apply in_or_app; left; exact H. Qed.

Lemma In_skipn {X} (n : nat) (l : list X) x : In x (skipn n l) -> In x l.
Proof. intros H. rewrite <- (firstn_skipn n l). apply in_or_app; right; exact H. Qed.

Lemma nodupb_NoDup l : nodupb l = true <-> NoDup l.
Proof.
  induction l as [|x l IH]; cbn.
  - split; [constructor | reflexivity].
  - rewrite andb_true_iff, negb_true_iff, IH. split.
    + intros [Hx Hl]. constructor; [|exact Hl]. intros Hin.
      assert (E : existsb (Z.eqb x) l = true) by (apply existsb_exists; exists x; split; [exact Hin | apply Z.eqb_refl]).
      congruence.
    + intros Hnd. inversion Hnd as [|? ? Hx Hl]; subst. split; [|exact Hl].
      destruct (existsb (Z.eqb x) l) eqn:E; [|reflexivity].
      apply existsb_exists in E as [y [Hy Hxy]]. apply Z.eqb_eq in Hxy. subst y. contradiction.
Qed.

Lemma NoDup_map_inj {X} (f : X -> Z) (l : list X) a b :
  NoDup (map f l) -> In a l -> In b l -> f a = f b -> a = b.
Proof.
  induction l as [|x l IH]; cbn; intros Hnd Ha Hb E; [contradiction|].
  inversion Hnd as [|? ? Hx Hl]; subst.
  destruct Ha as [Ha|Ha], Hb as [Hb|Hb]; subst.
  - reflexivity.
  - exfalso. apply Hx. rewrite E. apply in_map. exact Hb.
  - exfalso. apply Hx. rewrite <- E. apply in_map. exact Ha.
  - apply IH; assumption.
Qed.

Lemma NoDup_map_NoDup {X} (f : X -> Z) (l : list X) : NoDup (map f l) -> NoDup l.
Proof.
  induction l as [|x l IH]; cbn; intros H; [constructor|].
  inversion H as [|? ? Hx Hl]; subst. constructor; [|apply IH; exact Hl].
  intros Hin. apply Hx. apply in_map. exact Hin.
Qed.

Lemma NoDup_filter {X} (f : X -> bool) (l : list X) : NoDup l -> NoDup (filter f l).
Proof.
  induction l as [|x l IH]; cbn; intros H; [constructor|].
  inversion H as [|? ? Hx Hl]; subst.
  destruct (f x); [constructor|]; auto.
  intros Hin. apply filter_In in Hin as [Hin _]. contradiction.
Qed.

Lemma NoDup_app_disjoint {X} (l1 l2 : list X) x : NoDup (l1 ++ l2) -> In x l1 -> In x l2 -> False.
Proof.
  induction l1 as [|y l1 IH]; cbn; intros Hnd H1 H2; [contradiction|].
  inversion Hnd as [|? ? Hy Hl]; subst. destruct H1 as [->|H1].
  - apply Hy. apply in_or_app. right. exact H2.
  - apply IH; assumption.
Qed.

Lemma filter_length_le {X} (f : X -> bool) (l : list X) : (length (filter f l) <= length l)%nat.
Proof. induction l as [|x l IH]; cbn; [lia|]. destruct (f x); cbn; lia. Qed.

Lemma filter_length_lt {X} (f : X -> bool) (l : list X) a :
  In a l -> f a = false -> (length (filter f l) < length l)%nat.
Proof.
  induction l as [|x l IH]; cbn; intros Hin Hf; [contradiction|].
  destruct Hin as [->|Hin].
  - rewrite Hf. pose proof (filter_length_le f l). lia.
  - specialize (IH Hin Hf). destruct (f x); cbn; lia.
Qed.

Lemma Permutation_filter_length {X} (f : X -> bool) (l l' : list X) :
  Permutation l l' -> length (filter f l) = length (filter f l').
Proof.
  induction 1 as [|x l l' _ IH|x y l|l l' l'' _ IH1 _ IH2]; cbn.
  - reflexivity.
  - destruct (f x); cbn; congruence.
  - destruct (f x), (f y); reflexivity.
  - congruence.
Qed.

(** * Sorting *)
Section SortP.
  Context {X : Type} (leb : X -> X -> bool).

  Lemma insert_perm x l : Permutation (x :: l) (insert leb x l).
  Proof.
    induction l as [|y t IH]; cbn.
    - apply Permutation_refl.
    - destruct (leb x y).
      + apply Permutation_refl.
      + eapply Permutation_trans; [apply perm_swap|]. apply perm_skip. exact IH.
  Qed.

  Lemma isort_perm l : Permutation l (isort leb l).
  Proof.
    induction l as [|x t IH]; cbn.
    - apply Permutation_refl.
    - eapply Permutation_trans; [apply perm_skip; exact IH | apply insert_perm].
  Qed.

  Lemma isort_In l x : In x (isort leb l) <-> In x l.
  Proof.
    split; intros H.
    - eapply Permutation_in; [apply Permutation_sym, isort_perm | exact H].
    - eapply Permutation_in; [apply isort_perm | exact H].
  Qed.

  Lemma isort_length l : length (isort leb l) = length l.
  Proof. symmetry. apply Permutation_length, isort_perm. Qed.

  Lemma isort_NoDup l : NoDup l -> NoDup (isort leb l).
  Proof. intros H. eapply Permutation_NoDup; [apply isort_perm | exact H]. Qed.

  Hypothesis leb_total : forall a b, leb a b = true \/ leb b a = true.
  Hypothesis leb_trans : forall a b c, leb a b = true -> leb b c = true -> leb a c = true.

  Definition le (a b : X) : Prop := leb a b = true.

  Lemma insert_sorted x l : StronglySorted le l -> StronglySorted le (insert leb x l).
  Proof.
    induction l as [|y t IH]; cbn; intros Hs.
    - constructor; constructor.
    - inversion Hs as [|? ? Ht Hy]; subst.
      destruct (leb x y) eqn:E.
      + constructor; [exact Hs|]. constructor; [exact E|].
        rewrite Forall_forall in *. intros z Hz. eapply leb_trans; [exact E | apply Hy; exact Hz].
      + constructor; [apply IH; exact Ht|].
        assert (Hyx : leb y x = true) by (destruct (leb_total x y); congruence).
        rewrite Forall_forall in *. intros z Hz.
        eapply Permutation_in in Hz; [|apply Permutation_sym, insert_perm].
        destruct Hz as [<-|Hz]; [exact Hyx | apply Hy; exact Hz].
  Qed.

  Lemma isort_sorted l : StronglySorted le (isort leb l).
  Proof. induction l as [|x t IH]; cbn; [constructor | apply insert_sorted; exact IH]. Qed.

  (** the elements after position n of a sorted list are above the first n *)
  Lemma sorted_firstn_skipn l n a b :
    StronglySorted le l -> In a (firstn n l) -> In b (skipn n l) -> le a b.
  Proof.
    revert n; induction l as [|x t IH]; intros n Hs Ha Hb.
    - destruct n; cbn in Ha; contradiction.
    - inversion Hs as [|? ? Ht Hx]; subst. destruct n as [|n]; cbn in Ha, Hb; [contradiction|].
      destruct Ha as [<-|Ha].
      + rewrite Forall_forall in Hx. apply Hx. eapply In_skipn; exact Hb.
      + eapply IH; eassumption.
  Qed.
End SortP.

(** * Batches *)
Lemma take_batches_concat {X} (nb b : nat) (l : list X) :
  concat (take_batches nb b l) = firstn (nb * b) l.
Proof.
  revert l; induction nb as [|k IH]; intros l; cbn.
  - reflexivity.
  - rewrite IH. symmetry. apply firstn_add.
Qed.

Lemma take_batches_length {X} (nb b : nat) (l : list X) batch :
  (nb * b <= length l)%nat -> In batch (take_batches nb b l) -> length batch = b.
Proof.
  revert l; induction nb as [|k IH]; intros l Hl Hin; cbn in Hin; [contradiction|].
  destruct Hin as [<-|Hin].
  - rewrite firstn_length. cbn in Hl. lia.
  - eapply IH; [|exact Hin]. rewrite skipn_length. cbn in Hl. lia.
Qed.


Lemma full_batches_concat {X} (b : nat) (l : list X) : concat (full_batches b l) = archived_part b l.
Proof. apply take_batches_concat. Qed.

Lemma full_batches_length {X} (b : nat) (l : list X) batch :
  In batch (full_batches b l) -> length batch = b.
Proof.
  intros H. eapply take_batches_length; [|exact H].
  destruct b as [|b]; [cbn; lia|]. rewrite Nat.mul_comm. apply Nat.mul_div_le. lia.
Qed.

Lemma archived_leftover {X} (b : nat) (l : list X) : archived_part b l ++ leftover b l = l.
Proof. apply firstn_skipn. Qed.

Lemma leftover_length {X} (b : nat) (l : list X) : (0 < b)%nat -> (length (leftover b l) < b)%nat.
Proof.
  intros Hb. unfold leftover. rewrite skipn_length.
  pose proof (Nat.div_mod (length l) b ltac:(lia)) as E.
  pose proof (Nat.mod_upper_bound (length l) b ltac:(lia)). lia.
Qed.

Lemma archived_part_length {X} (b : nat) (l : list X) : length (archived_part b l) = (length l / b * b)%nat.
Proof.
  unfold archived_part. rewrite firstn_length. destruct b as [|b]; [cbn; lia|].
  pose proof (Nat.mul_div_le (length l) (S b) ltac:(lia)). lia.
Qed.

Lemma in_full_batches {X} (b : nat) (l : list X) batch x :
  In batch (full_batches b l) -> In x batch -> In x (archived_part b l).
Proof. intros Hb Hx. rewrite <- full_batches_concat. apply in_concat. exists batch. split; assumption. Qed.

(** * Stores and write lists *)
Section ArchP.
  Context {A R : Type} (key : A -> Z) (row_of : A -> R).
  Notation store := (store A R).
  Notation write := (write A).
  Notation apply_write := (apply_write key row_of).
  Notation apply_writes := (apply_writes key row_of).
  Notation archive_writes := (archive_writes key).
  Notation archived := (archived row_of).

  Fixpoint deleted (W : list write) : list Z :=
    match W with
    | [] => []
    | Delete k :: W' => k :: deleted W'
    | _ :: W' => deleted W'
    end.
  Fixpoint uploads (W : list write) : list (list A) :=
    match W with
    | [] => []
    | Upload items :: W' => items :: uploads W'
    | _ :: W' => uploads W'
    end.
  Fixpoint pruned (W : list write) : list Z :=
    match W with
    | [] => []
    | Prune n :: W' => n :: pruned W'
    | _ :: W' => pruned W'
    end.
  Fixpoint numbered (n : Z) (l : list (list A)) : list (Z * list R) :=
    match l with [] => [] | x :: t => (n, map row_of x) :: numbered (n + 1) t end.

  (** every delete is preceded by an upload containing a node with that key *)
  Fixpoint covered (up : list A) (W : list write) : Prop :=
    match W with
    | [] => True
    | Upload items :: W' => covered (items ++ up) W'
    | Delete k :: W' => (exists a, In a up /\ key a = k) /\ covered up W'
    | Prune _ :: W' => False
    end.

  Lemma apply_writes_app s W1 W2 : apply_writes s (W1 ++ W2) = apply_writes (apply_writes s W1) W2.
  Proof. apply fold_left_app. Qed.

  Lemma apply_writes_cons s w W : apply_writes s (w :: W) = apply_writes (apply_write s w) W.
  Proof. reflexivity. Qed.
  Lemma apply_writes_nil s : apply_writes s [] = s.
  Proof. reflexivity. Qed.

  Lemma In_live_apply W : forall s a,
    In a (live (apply_writes s W)) <-> In a (live s) /\ ~ In (key a) (deleted W).
  Proof.
    induction W as [|w W IH]; intros s a.
    - rewrite apply_writes_nil. cbn. tauto.
    - rewrite apply_writes_cons, IH. destruct w as [items|k|n]; cbn.
      + tauto.
      + rewrite filter_In, negb_true_iff, Z.eqb_neq. intuition congruence.
      + tauto.
  Qed.

  Lemma hist_apply W : forall s, pruned W = [] ->
    hist (apply_writes s W) = hist s ++ numbered (seq s) (uploads W) /\
    seq (apply_writes s W) = seq s + Z.of_nat (length (uploads W)).
  Proof.
    induction W as [|w W IH]; intros s HP.
    - rewrite apply_writes_nil. cbn. rewrite app_nil_r. split; [reflexivity | lia].
    - rewrite apply_writes_cons. destruct w as [items|k|n]; cbn in HP; try discriminate.
      + destruct (IH (apply_write s (Upload items)) HP) as [E1 E2]. rewrite E1, E2. cbn.
        rewrite <- app_assoc. cbn. split; [reflexivity | lia].
      + destruct (IH (apply_write s (Delete k)) HP) as [E1 E2]. rewrite E1, E2. cbn. split; reflexivity.
  Qed.

  Lemma In_numbered n l h : In h (numbered n l) -> exists items, In items l /\ snd h = map row_of items /\ n <= fst h.
  Proof.
    revert n; induction l as [|x t IH]; intros n Hin; cbn in Hin; [contradiction|].
    destruct Hin as [<-|Hin].
    - exists x. cbn. split; [left; reflexivity | split; [reflexivity | lia]].
    - destruct (IH _ Hin) as [items [H1 [H2 H3]]]. exists items. split; [right; exact H1 | split; [exact H2 | lia]].
  Qed.

  Lemma numbered_In n l items : In items l -> exists m, In (m, map row_of items) (numbered n l).
  Proof.
    revert n; induction l as [|x t IH]; intros n Hin; cbn in Hin; [contradiction|].
    destruct Hin as [->|Hin].
    - exists n. left. reflexivity.
    - destruct (IH (n + 1) Hin) as [m Hm]. exists m. right. exact Hm.
  Qed.

  Lemma covered_pruned W : forall up, covered up W -> pruned W = [].
  Proof.
    induction W as [|w W IH]; intros up H; cbn; [reflexivity|].
    destruct w as [items|k|n]; cbn in H.
    - eapply IH; exact H.
    - eapply IH; apply H.
    - contradiction.
  Qed.

  Lemma covered_incl W : forall up up', (forall a, In a up -> In a up') -> covered up W -> covered up' W.
  Proof.
    induction W as [|w W IH]; intros up up' Hi H; cbn in *; [exact I|].
    destruct w as [items|k|n].
    - eapply IH; [|exact H]. intros a Ha. apply in_app_or in Ha. apply in_or_app. destruct Ha; auto.
    - destruct H as [[a [Ha Hk]] H]. split; [exists a; auto | eapply IH; eauto].
    - exact H.
  Qed.

  Lemma covered_firstn W : forall up k, covered up W -> covered up (firstn k W).
  Proof.
    induction W as [|w W IH]; intros up k H; destruct k as [|k]; cbn; try exact I.
    destruct w as [items|k'|n]; cbn in H |- *.
    - apply IH. exact H.
    - destruct H as [H1 H2]. split; [exact H1 | apply IH; exact H2].
    - exact H.
  Qed.

  Lemma covered_deletes l : forall up W, (forall a, In a l -> In a up) -> covered up W ->
    covered up (map (fun a => Delete (key a)) l ++ W).
  Proof.
    induction l as [|x l IH]; intros up W Hi H; cbn; [exact H|].
    split.
    - exists x. split; [apply Hi; left; reflexivity | reflexivity].
    - apply IH; [|exact H]. intros a Ha. apply Hi. right. exact Ha.
  Qed.

  Lemma covered_archive batches : forall up, covered up (archive_writes batches).
  Proof.
    induction batches as [|b bs IH]; intros up; cbn; [exact I|].
    apply covered_deletes.
    - intros a Ha. apply in_or_app. left. exact Ha.
    - apply IH.
  Qed.

  Lemma covered_deleted W : forall up, covered up W -> forall k, In k (deleted W) ->
    exists a, (In a up \/ In a (concat (uploads W))) /\ key a = k.
  Proof.
    induction W as [|w W IH]; intros up H k Hk; cbn in *; [contradiction|].
    destruct w as [items|k'|n]; cbn in *.
    - destruct (IH _ H k Hk) as [a [Ha E]]. exists a. split; [|exact E].
      destruct Ha as [Ha|Ha]; [apply in_app_or in Ha; destruct Ha as [Ha|Ha]|].
      + right. apply in_or_app. left. exact Ha.
      + left. exact Ha.
      + right. apply in_or_app. right. exact Ha.
    - destruct H as [[a [Ha E]] H]. destruct Hk as [<-|Hk].
      + exists a. split; [left; exact Ha | exact E].
      + apply (IH _ H k Hk).
    - contradiction.
  Qed.

  Lemma uploads_archive batches : uploads (archive_writes batches) = batches.
  Proof.
    induction batches as [|b bs IH]; cbn; [reflexivity|]. f_equal.
    induction b as [|x b IHb]; cbn; [exact IH | exact IHb].
  Qed.

  Lemma deleted_archive batches : deleted (archive_writes batches) = map key (concat batches).
  Proof.
    induction batches as [|b bs IH]; cbn; [reflexivity|]. rewrite map_app, <- IH.
    induction b as [|x b IHb]; cbn; [reflexivity | f_equal; exact IHb].
  Qed.

  Lemma pruned_archive batches : pruned (archive_writes batches) = [].
  Proof. eapply covered_pruned. apply (covered_archive batches []). Qed.

  Lemma uploads_firstn W : forall k items, In items (uploads (firstn k W)) -> In items (uploads W).
  Proof.
    induction W as [|w W IH]; intros k items H; destruct k as [|k]; cbn in *; try contradiction.
    destruct w as [it|k'|n]; cbn in *.
    - destruct H as [H|H]; [left; exact H | right; eapply IH; exact H].
    - eapply IH; exact H.
    - eapply IH; exact H.
  Qed.

  Lemma deleted_firstn W : forall k x, In x (deleted (firstn k W)) -> In x (deleted W).
  Proof.
    induction W as [|w W IH]; intros k x H; destruct k as [|k]; cbn in *; try contradiction.
    destruct w as [it|k'|n]; cbn in *.
    - eapply IH; exact H.
    - destruct H as [H|H]; [left; exact H | right; eapply IH; exact H].
    - eapply IH; exact H.
  Qed.

  Lemma pruned_firstn W : forall k, pruned W = [] -> pruned (firstn k W) = [].
  Proof.
    induction W as [|w W IH]; intros k H; destruct k as [|k]; cbn in *; try reflexivity.
    destruct w as [it|k'|n]; cbn in *; try discriminate; apply IH; exact H.
  Qed.

  (** ** Losslessness of any covered write list *)
  Lemma lossless_covered W s :
    NoDup (map key (live s)) -> covered [] W ->
    (forall a, In a (concat (uploads W)) -> In a (live s)) ->
    forall a, In a (live s) -> In a (live (apply_writes s W)) \/ archived (apply_writes s W) a.
  Proof.
    intros Hnd Hc Hup a Ha.
    destruct (in_dec Z.eq_dec (key a) (deleted W)) as [Hd|Hd].
    - right. destruct (covered_deleted W [] Hc _ Hd) as [a' [[[]|Ha'] E]].
      assert (a' = a) by (eapply NoDup_map_inj; eauto). subst a'.
      apply in_concat in Ha' as [items [Hi Hai]].
      destruct (hist_apply W s (covered_pruned W [] Hc)) as [EH _].
      destruct (numbered_In (seq s) _ _ Hi) as [m Hm].
      exists m, (map row_of items). split.
      + rewrite EH. apply in_or_app. right. exact Hm.
      + apply in_map. exact Hai.
    - left. apply In_live_apply. split; assumption.
  Qed.

  (** ** The archiver: batches taken from the live nodes, any cut *)
  Section Batches.
    Variable s : store.
    Variable batches : list (list A).
    Hypothesis Hnd : NoDup (map key (live s)).
    Hypothesis Hin : forall a, In a (concat batches) -> In a (live s).
    Let W := archive_writes batches.

    Lemma archive_lossless k a :
      In a (live s) -> In a (live (cut key row_of s W k)) \/ archived (cut key row_of s W k) a.
    Proof.
      intros Ha. unfold cut. apply lossless_covered; auto.
      - apply covered_firstn. apply covered_archive.
      - intros x Hx. apply Hin. apply in_concat in Hx as [items [Hi Hxi]]. apply in_concat. exists items.
        split; [|exact Hxi]. apply uploads_firstn in Hi. unfold W in Hi. rewrite uploads_archive in Hi. exact Hi.
    Qed.

    Lemma archive_live_subset k a : In a (live (cut key row_of s W k)) -> In a (live s).
    Proof. unfold cut. rewrite In_live_apply. tauto. Qed.

    Lemma archive_untouched k a :
      In a (live s) -> ~ In a (concat batches) -> In a (live (cut key row_of s W k)).
    Proof.
      intros Ha Hn. unfold cut. apply In_live_apply. split; [exact Ha|].
      intros Hd. apply deleted_firstn in Hd. unfold W in Hd. rewrite deleted_archive in Hd.
      apply in_map_iff in Hd as [a' [E Ha']]. apply Hn.
      assert (a' = a) by (eapply NoDup_map_inj; eauto). subst a'. exact Ha'.
    Qed.

    Lemma archive_hist k h :
      In h (hist (cut key row_of s W k)) <->
      In h (hist s) \/ In h (numbered (seq s) (uploads (firstn k W))).
    Proof.
      unfold cut. destruct (hist_apply (firstn k W) s) as [E _].
      - apply pruned_firstn. apply pruned_archive.
      - rewrite E. rewrite in_app_iff. tauto.
    Qed.

    Lemma archive_new_snapshot k h :
      In h (hist (cut key row_of s W k)) ->
      In h (hist s) \/ exists batch, In batch batches /\ snd h = map row_of batch /\ seq s <= fst h.
    Proof.
      intros H. apply archive_hist in H as [H|H]; [left; exact H|]. right.
      destruct (In_numbered _ _ _ H) as [items [Hi [E Hn]]]. exists items. split; [|split; assumption].
      apply uploads_firstn in Hi. unfold W in Hi. rewrite uploads_archive in Hi. exact Hi.
    Qed.

    Lemma archive_old_snapshots k h : In h (hist s) -> In h (hist (cut key row_of s W k)).
    Proof. intros H. apply archive_hist. left. exact H. Qed.

    Lemma archive_complete_live a :
      In a (live (apply_writes s W)) <-> In a (live s) /\ ~ In a (concat batches).
    Proof.
      rewrite In_live_apply. unfold W. rewrite deleted_archive. split; intros [Ha Hn]; split; auto.
      - intros Hc. apply Hn. apply in_map. exact Hc.
      - intros Hd. apply in_map_iff in Hd as [a' [E Ha']]. apply Hn.
        assert (a' = a) by (eapply NoDup_map_inj; eauto). subst a'. exact Ha'.
    Qed.

    Lemma archive_complete_archived a : In a (concat batches) -> archived (apply_writes s W) a.
    Proof.
      intros Ha. apply in_concat in Ha as [items [Hi Hai]].
      destruct (hist_apply W s (pruned_archive batches)) as [EH _].
      unfold W in EH. rewrite uploads_archive in EH.
      destruct (numbered_In (seq s) _ _ Hi) as [m Hm].
      exists m, (map row_of items). split; [|apply in_map; exact Hai].
      fold W in EH. rewrite EH. apply in_or_app. right. exact Hm.
    Qed.
  End Batches.

  (** ** Pruning *)

  Lemma prune_apply L : forall s,
    live (apply_writes s (map Prune L)) = live s /\ seq (apply_writes s (map Prune L)) = seq s /\
    forall h, In h (hist (apply_writes s (map Prune L))) <-> In h (hist s) /\ ~ In (fst h) L.
  Proof.
    induction L as [|n L IH]; intros s.
    - cbn [map]. rewrite apply_writes_nil. repeat split; tauto.
    - cbn [map]. rewrite apply_writes_cons.
      destruct (IH (apply_write s (Prune n))) as [E1 [E2 E3]]. rewrite E1, E2. cbn. repeat split; try reflexivity.
      + apply E3 in H. cbn in H. destruct H as [H _]. apply filter_In in H. tauto.
      + apply E3 in H. cbn in H. destruct H as [H1 H2]. apply filter_In in H1 as [_ H1].
        apply negb_true_iff, Z.eqb_neq in H1. intros [Hc|Hc]; [congruence | contradiction].
      + intros [H1 H2]. apply E3. cbn. split; [|tauto]. apply filter_In. split; [exact H1|].
        apply negb_true_iff, Z.eqb_neq. intros Hc. apply H2. left. congruence.
  Qed.

  Lemma sorted_Z_le l : StronglySorted (le Z.leb) l -> StronglySorted Z.le l.
  Proof.
    induction 1 as [|x l _ IH Hx]; constructor; [exact IH|].
    rewrite Forall_forall in *. intros y Hy. specialize (Hx y Hy). unfold le in Hx. lia.
  Qed.

  Lemma count_gt_app n l1 l2 : count_gt n (l1 ++ l2) = (count_gt n l1 + count_gt n l2)%nat.
  Proof. unfold count_gt. rewrite filter_app, app_length. reflexivity. Qed.

  Lemma count_gt_all n l : (forall m, In m l -> n < m) -> count_gt n l = length l.
  Proof.
    unfold count_gt. induction l as [|x l IH]; cbn; intros H; [reflexivity|].
    assert (n <? x = true) as -> by (specialize (H x (or_introl eq_refl)); lia).
    cbn. f_equal. apply IH. intros m Hm. apply H. right. exact Hm.
  Qed.

  Lemma count_gt_none n l : (forall m, In m l -> m <= n) -> count_gt n l = 0%nat.
  Proof.
    unfold count_gt. induction l as [|x l IH]; cbn; intros H; [reflexivity|].
    assert (n <? x = false) as -> by (specialize (H x (or_introl eq_refl)); lia).
    apply IH. intros m Hm. apply H. right. exact Hm.
  Qed.

  (** in a sorted duplicate-free list the first d names are exactly those with at least len-d greater names *)
  Lemma sorted_firstn_count L d n :
    StronglySorted Z.le L -> NoDup L -> In n (firstn d L) -> (length L - d <= count_gt n L)%nat.
  Proof.
    intros Hs Hnd Hn. rewrite <- (firstn_skipn d L) at 2. rewrite count_gt_app.
    rewrite (count_gt_all n (skipn d L)); [rewrite skipn_length; lia|].
    intros m Hm.
    assert (n <= m).
    { revert d Hn Hm. induction Hs as [|x l Hs IH Hx]; intros d Hn Hm.
      - destruct d; cbn in Hn; contradiction.
      - destruct d as [|d]; cbn in Hn, Hm; [contradiction|]. destruct Hn as [<-|Hn].
        + rewrite Forall_forall in Hx. apply Hx. eapply In_skipn. exact Hm.
        + inversion Hnd; subst. eapply IH; eauto. }
    assert (n <> m); [|lia].
    intros ->. rewrite <- (firstn_skipn d L) in Hnd. eapply NoDup_app_disjoint; eauto.
  Qed.

  Lemma sorted_skipn_count L d n :
    StronglySorted Z.le L -> In n (skipn d L) -> (count_gt n L < length L - d)%nat.
  Proof.
    intros Hs Hn. rewrite <- (firstn_skipn d L) at 1. rewrite count_gt_app.
    rewrite (count_gt_none n (firstn d L)).
    - cbn. unfold count_gt. rewrite <- skipn_length.
      eapply filter_length_lt; [exact Hn | lia].
    - intros m Hm. revert d Hn Hm. induction Hs as [|x l Hs IH Hx]; intros d Hn Hm.
      + destruct d; cbn in Hm; contradiction.
      + destruct d as [|d]; cbn in Hn, Hm; [contradiction|]. destruct Hm as [<-|Hm].
        * rewrite Forall_forall in Hx. apply Hx. eapply In_skipn. exact Hn.
        * eapply IH; eauto.
  Qed.

  Section Prune.
    Variable s : store.
    Variable maxc : Z.
    Let names := map fst (hist s).
    Let W := prune_writes (A:=A) maxc s.

    Lemma count_gt_sorted n : count_gt n (isort Z.leb names) = count_gt n names.
    Proof. unfold count_gt. symmetry. apply Permutation_filter_length. apply isort_perm. Qed.

    Lemma prune_cut k :
      live (cut key row_of s W k) = live s /\ seq (cut key row_of s W k) = seq s /\
      (forall h, In h (hist (cut key row_of s W k)) -> In h (hist s)) /\
      (NoDup names -> forall h, In h (hist s) -> (Z.of_nat (count_gt (fst h) names) < maxc) ->
         In h (hist (cut key row_of s W k))).
    Proof.
      unfold cut, W, prune_writes. fold names. rewrite firstn_map.
      set (L := isort Z.leb names). set (d := Z.to_nat (Z.of_nat (length L) - maxc)).
      destruct (prune_apply (firstn k (firstn d L)) s) as [E1 [E2 E3]].
      split; [exact E1|]. split; [exact E2|]. split.
      - intros h Hh. apply E3 in Hh. tauto.
      - intros Hnd h Hh Hc. apply E3. split; [exact Hh|]. intros Hin. apply In_firstn in Hin.
        assert (Hs : StronglySorted Z.le L).
        { apply sorted_Z_le. apply isort_sorted; intros; lia. }
        assert (HndL : NoDup L) by (apply isort_NoDup; exact Hnd).
        pose proof (sorted_firstn_count L d (fst h) Hs HndL Hin) as Hcnt.
        unfold L in Hcnt at 2. rewrite count_gt_sorted in Hcnt. fold L in Hcnt.
        destruct d as [|d'] eqn:Ed; [cbn in Hin; contradiction|]. unfold d in Ed. lia.
    Qed.

    Lemma prune_complete : NoDup names -> forall h,
      In h (hist (apply_writes s W)) <-> In h (hist s) /\ Z.of_nat (count_gt (fst h) names) < maxc.
    Proof.
      intros Hnd h. unfold W, prune_writes. fold names.
      set (L := isort Z.leb names). set (d := Z.to_nat (Z.of_nat (length L) - maxc)).
      destruct (prune_apply (firstn d L) s) as [_ [_ E3]]. rewrite E3.
      assert (Hs : StronglySorted Z.le L).
      { apply sorted_Z_le. apply isort_sorted; intros; lia. }
      assert (HndL : NoDup L) by (apply isort_NoDup; exact Hnd).
      split; intros [Hh Hx]; split; try exact Hh.
      - assert (HinL : In (fst h) L) by (apply isort_In; apply in_map; exact Hh).
        rewrite <- (firstn_skipn d L) in HinL. apply in_app_or in HinL as [Hc|Hc]; [contradiction|].
        pose proof (sorted_skipn_count L d (fst h) Hs Hc) as Hcnt.
        unfold L in Hcnt at 1. rewrite count_gt_sorted in Hcnt. fold L in Hcnt.
        assert (length L = length names) by apply isort_length. unfold d in Hcnt. lia.
      - intros Hin. pose proof (sorted_firstn_count L d (fst h) Hs HndL Hin) as Hcnt.
        unfold L in Hcnt at 2. rewrite count_gt_sorted in Hcnt. fold L in Hcnt.
        destruct d as [|d'] eqn:Ed; [cbn in Hin; contradiction|]. unfold d in Ed. lia.
    Qed.
  End Prune.
End ArchP.

(** * App trace *)
Lemma ev_leb_total a b : ev_leb a b = true \/ ev_leb b a = true.
Proof.
  unfold ev_leb.
  repeat match goal with |- context [if ?c then _ else _] => destruct c eqn:? end; lia.
Qed.

Lemma ev_leb_trans a b c : ev_leb a b = true -> ev_leb b c = true -> ev_leb a c = true.
Proof.
  unfold ev_leb.
  repeat match goal with |- context [if ?c then _ else _] => destruct c eqn:? end; lia.
Qed.

Lemma keys_unique_NoDup {A R} (key : A -> Z) (s : store A R) :
  keys_unique key s = true -> NoDup (map key (live s)).
Proof. unfold keys_unique. apply nodupb_NoDup. Qed.

Section TraceP.
  Variable s : tstore.
  Variable b : nat.
  Variables now expires : Z.
  Variable sched : list Z.
  Hypothesis Hku : keys_unique e_key s = true.

  Let cands := trace_candidates now expires sched s.
  Let batches := trace_batches b now expires sched s.
  Let W := cleanup_trace_writes b now expires sched s.

  Lemma trace_cands_In e : In e cands <-> In e (live s) /\ trace_candidate now expires sched e = true.
  Proof. unfold cands, trace_candidates. rewrite isort_In, filter_In. tauto. Qed.

  Lemma trace_cands_NoDup : NoDup cands.
  Proof.
    unfold cands, trace_candidates. apply isort_NoDup, NoDup_filter.
    eapply NoDup_map_NoDup. apply keys_unique_NoDup. exact Hku.
  Qed.

  Lemma trace_batches_concat : concat batches = archived_part b cands.
  Proof. apply full_batches_concat. Qed.

  Lemma trace_batches_live a : In a (concat batches) -> In a (live s).
  Proof. rewrite trace_batches_concat. intros H. apply In_firstn in H. apply trace_cands_In in H. tauto. Qed.

  Lemma trace_lossless k e :
    In e (live s) ->
    In e (live (cut e_key trow_of s W k)) \/ archived trow_of (cut e_key trow_of s W k) e.
  Proof.
    apply archive_lossless.
    - apply keys_unique_NoDup. exact Hku.
    - exact trace_batches_live.
  Qed.

  Lemma trace_protected_stay k e :
    In e (live s) -> trace_candidate now expires sched e = false -> In e (live (cut e_key trow_of s W k)).
  Proof.
    intros He Hc. apply archive_untouched.
    - apply keys_unique_NoDup. exact Hku.
    - exact trace_batches_live.
    - exact He.
    - change (~ In e (concat batches)). rewrite trace_batches_concat. intros H. apply In_firstn in H. apply trace_cands_In in H. destruct H. congruence.
  Qed.

  Lemma trace_snapshots k h :
    In h (hist (cut e_key trow_of s W k)) ->
    In h (hist s) \/
    (seq s <= fst h /\ length (snd h) = b /\
     forall r, In r (snd h) -> exists e, In e (live s) /\ r = trow_of e /\
                                         is_scheduled sched e = false /\ e_ts e < now - expires).
  Proof.
    intros H. apply archive_new_snapshot in H as [H|[batch [Hb [E Hn]]]]; [left; exact H|]. right.
    split; [exact Hn|]. split.
    - rewrite E, map_length. eapply full_batches_length. exact Hb.
    - intros r Hr. rewrite E in Hr. apply in_map_iff in Hr as [e [<- He]]. exists e.
      pose proof (in_full_batches _ _ _ _ Hb He) as Hc. apply In_firstn in Hc. apply trace_cands_In in Hc as [Hl Hc].
      unfold trace_candidate, expired in Hc. apply andb_true_iff in Hc as [H1 H2].
      apply negb_true_iff in H1. repeat split; auto. lia.
  Qed.

  Lemma trace_leftover_stay k e : In e (leftover b cands) -> In e (live (cut e_key trow_of s W k)).
  Proof.
    intros He. apply archive_untouched.
    - apply keys_unique_NoDup. exact Hku.
    - exact trace_batches_live.
    - apply In_skipn in He. apply trace_cands_In in He. tauto.
    - change (~ In e (concat batches)). rewrite trace_batches_concat. intros Ha.
      pose proof trace_cands_NoDup as Hnd. rewrite <- (archived_leftover b cands) in Hnd.
      eapply NoDup_app_disjoint; eauto.
  Qed.

  Lemma trace_leftover_newest a c : In a (archived_part b cands) -> In c (leftover b cands) -> ev_leb a c = true.
  Proof.
    intros Ha Hc.
    apply (sorted_firstn_skipn ev_leb cands (length cands / b * b) a c); auto.
    unfold cands, trace_candidates. apply isort_sorted; [apply ev_leb_total | apply ev_leb_trans].
  Qed.

  Lemma trace_complete e :
    (In e (live (apply_writes e_key trow_of s W)) <-> In e (live s) /\ ~ In e (archived_part b cands)) /\
    (In e (archived_part b cands) -> archived trow_of (apply_writes e_key trow_of s W) e).
  Proof.
    rewrite <- trace_batches_concat. split.
    - apply archive_complete_live; [apply keys_unique_NoDup; exact Hku | exact trace_batches_live].
    - apply archive_complete_archived.
  Qed.
End TraceP.

Lemma download_spec rows i k : In k (download rows i) <-> exists r, In r rows /\ r_inst r = i /\ r_key r = k.
Proof.
  unfold download. rewrite in_map_iff. split.
  - intros [r [E H]]. apply filter_In in H as [H1 H2]. exists r. repeat split; auto. lia.
  - intros [r [H1 [H2 H3]]]. exists r. split; [exact H3|]. apply filter_In. split; [exact H1 | lia].
Qed.

Lemma archived_download (s : tstore) e :
  archived trow_of s e -> exists n rows, In (n, rows) (hist s) /\ In (e_key e) (download rows (e_inst e)).
Proof.
  intros [n [rows [H1 H2]]]. exists n, rows. split; [exact H1|]. apply download_spec.
  exists (trow_of e). repeat split. exact H2.
Qed.

(** * Finished records *)
Section FinP.
  Variable s : fstore.
  Variable b : nat.
  Variables now expires : Z.
  Hypothesis Hku : keys_unique f_inst s = true.

  Let cands := fin_candidates now expires s.
  Let batches := fin_batches b now expires s.
  Let W := cleanup_finished_writes b now expires s.
  Let idf := fin_row.

  Lemma fin_cands_In f : In f cands <-> In f (live s) /\ f_mtime f < now - expires.
  Proof. unfold cands, fin_candidates, expired. rewrite filter_In. intuition lia. Qed.

  Lemma fin_batches_concat : concat batches = archived_part b cands.
  Proof. apply full_batches_concat. Qed.

  Lemma fin_batches_live a : In a (concat batches) -> In a (live s).
  Proof. rewrite fin_batches_concat. intros H. apply In_firstn in H. apply fin_cands_In in H. tauto. Qed.

  Lemma fin_lossless k f :
    In f (live s) -> In f (live (cut f_inst idf s W k)) \/ archived idf (cut f_inst idf s W k) f.
  Proof.
    apply archive_lossless; [apply keys_unique_NoDup; exact Hku | exact fin_batches_live].
  Qed.

  Lemma fin_young_stay k f :
    In f (live s) -> now - expires <= f_mtime f -> In f (live (cut f_inst idf s W k)).
  Proof.
    intros Hf Hy. apply archive_untouched.
    - apply keys_unique_NoDup. exact Hku.
    - exact fin_batches_live.
    - exact Hf.
    - change (~ In f (concat batches)). rewrite fin_batches_concat. intros H. apply In_firstn in H. apply fin_cands_In in H. lia.
  Qed.

  Lemma fin_snapshots k h :
    In h (hist (cut f_inst idf s W k)) ->
    In h (hist s) \/
    (seq s <= fst h /\ length (snd h) = b /\
     forall r, In r (snd h) -> In r (live s) /\ f_mtime r < now - expires).
  Proof.
    intros H. apply archive_new_snapshot in H as [H|[batch [Hb [E Hn]]]]; [left; exact H|]. right.
    split; [exact Hn|]. split.
    - rewrite E, map_length. eapply full_batches_length. exact Hb.
    - intros r Hr. rewrite E in Hr. unfold idf in Hr. rewrite map_id in Hr.
      pose proof (in_full_batches _ _ _ _ Hb Hr) as Hc. apply In_firstn in Hc. apply fin_cands_In in Hc. exact Hc.
  Qed.

  Lemma fin_leftover_stay k f : In f (leftover b cands) -> In f (live (cut f_inst idf s W k)).
  Proof.
    intros Hf. apply archive_untouched.
    - apply keys_unique_NoDup. exact Hku.
    - exact fin_batches_live.
    - apply In_skipn in Hf. apply fin_cands_In in Hf. tauto.
    - change (~ In f (concat batches)). rewrite fin_batches_concat. intros Ha.
      assert (Hnd : NoDup cands).
      { unfold cands, fin_candidates. apply NoDup_filter. eapply NoDup_map_NoDup. apply keys_unique_NoDup. exact Hku. }
      rewrite <- (archived_leftover b cands) in Hnd. eapply NoDup_app_disjoint; eauto.
  Qed.
End FinP.

(** * Server trace loop *)
Lemma archive_writes_cons {A} (key : A -> Z) batch rest :
  archive_writes key (batch :: rest) = archive_writes key [batch] ++ archive_writes key rest.
Proof. unfold archive_writes. cbn. rewrite app_nil_r. reflexivity. Qed.

Lemma server_loop_S f b (s : tstore) :
  server_loop (S f) b s =
  if (length (firstn b (isort ev_leb (live s))) <? b)%nat then Some []
  else match server_loop f b (apply_writes e_key trow_of s (archive_writes e_key [firstn b (isort ev_leb (live s))])) with
       | Some rest => Some (archive_writes e_key [firstn b (isort ev_leb (live s))] ++ rest)
       | None => None
       end.
Proof. reflexivity. Qed.

Lemma server_loop_batches fuel b : forall (s : tstore) W,
  server_loop fuel b s = Some W ->
  exists batches, W = archive_writes e_key batches /\
                  (forall a, In a (concat batches) -> In a (live s)) /\
                  (forall batch, In batch batches -> length batch = b).
Proof.
  induction fuel as [|f IH]; intros s W H; [discriminate|]. rewrite server_loop_S in H.
  set (batch := firstn b (isort ev_leb (live s))) in *.
  destruct (length batch <? b)%nat eqn:E.
  - injection H as <-. exists []. cbn. repeat split; intros; contradiction.
  - set (ws := archive_writes e_key [batch]) in *.
    destruct (server_loop f b (apply_writes e_key trow_of s ws)) as [rest|] eqn:ER; [|discriminate].
    injection H as <-. destruct (IH _ _ ER) as [bs [E1 [E2 E3]]].
    exists (batch :: bs). split; [|split].
    + rewrite archive_writes_cons. fold ws. rewrite E1. reflexivity.
    + intros a Ha. cbn in Ha. apply in_app_or in Ha as [Ha|Ha].
      * apply In_firstn in Ha. apply isort_In in Ha. exact Ha.
      * apply E2 in Ha. apply In_live_apply in Ha. tauto.
    + intros x [<-|Hx]; [|apply E3; exact Hx].
      apply Nat.ltb_ge in E. pose proof (firstn_le_length b (isort ev_leb (live s))). fold batch in H. lia.
Qed.

Lemma server_loop_final fuel b : forall (s : tstore) W,
  server_loop fuel b s = Some W -> (length (live (apply_writes e_key trow_of s W)) < b)%nat.
Proof.
  induction fuel as [|f IH]; intros s W H; [discriminate|]. rewrite server_loop_S in H.
  set (batch := firstn b (isort ev_leb (live s))) in *.
  destruct (length batch <? b)%nat eqn:E.
  - injection H as <-. cbn. apply Nat.ltb_lt in E. unfold batch in E.
    rewrite firstn_length, isort_length in E. lia.
  - set (ws := archive_writes e_key [batch]) in *.
    destruct (server_loop f b (apply_writes e_key trow_of s ws)) as [rest|] eqn:ER; [|discriminate].
    assert (EW : W = ws ++ rest) by (injection H; intros <-; reflexivity). rewrite EW, apply_writes_app. apply IH. exact ER.
Qed.

Lemma live_apply_length {A R} (key : A -> Z) (row_of : A -> R) W : forall (s : store A R),
  (length (live (apply_writes key row_of s W)) <= length (live s))%nat.
Proof.
  induction W as [|w W IH]; intros s.
  - rewrite apply_writes_nil. lia.
  - rewrite apply_writes_cons. etransitivity; [apply IH|]. destruct w; cbn; try lia. apply filter_length_le.
Qed.

Lemma server_loop_terminates fuel b : forall (s : tstore),
  (0 < b)%nat -> (length (live s) < fuel)%nat -> server_loop fuel b s <> None.
Proof.
  induction fuel as [|f IH]; intros s Hb Hf; [lia|]. rewrite server_loop_S.
  set (batch := firstn b (isort ev_leb (live s))).
  destruct (length batch <? b)%nat eqn:E; [discriminate|].
  set (ws := archive_writes e_key [batch]).
  assert (Hlt : (length (live (apply_writes e_key trow_of s ws)) < length (live s))%nat).
  { apply Nat.ltb_ge in E. destruct batch as [|a batch'] eqn:EB; [cbn in E; lia|].
    assert (Ha : In a (live s)).
    { apply (isort_In ev_leb). apply (In_firstn b). fold batch. rewrite EB. left. reflexivity. }
    unfold ws, archive_writes. cbn [flat_map map app]. rewrite !apply_writes_cons.
    eapply Nat.le_lt_trans; [apply live_apply_length|]. cbn.
    eapply filter_length_lt; [exact Ha|]. rewrite Z.eqb_refl. reflexivity. }
  specialize (IH (apply_writes e_key trow_of s ws) Hb ltac:(lia)).
  destruct (server_loop f b (apply_writes e_key trow_of s ws)); [discriminate | contradiction].
Qed.

(** * Statements used by Props/C18.v *)
Lemma cut_all {A R} (key : A -> Z) (row_of : A -> R) (s : store A R) W :
  cut key row_of s W (length W) = apply_writes key row_of s W.
Proof. unfold cut. rewrite firstn_all. reflexivity. Qed.

Lemma thm_trace_lossless (s : tstore) b now expires sched k e :
  keys_unique e_key s = true -> In e (live s) ->
  In e (live (trace_cut b now expires sched s k)) \/ archived trow_of (trace_cut b now expires sched s k) e.
Proof. intros Hk He. apply trace_lossless; assumption. Qed.

Lemma thm_trace_retrievable (s : tstore) b now expires sched k e :
  keys_unique e_key s = true -> In e (live s) ->
  In e (live (trace_cut b now expires sched s k)) \/
  exists n rows, In (n, rows) (hist (trace_cut b now expires sched s k)) /\ In (e_key e) (download rows (e_inst e)).
Proof.
  intros Hk He. destruct (thm_trace_lossless s b now expires sched k e Hk He) as [H|H]; [left; exact H|].
  right. apply archived_download. exact H.
Qed.

Lemma thm_trace_selection (s : tstore) b now expires sched k :
  keys_unique e_key s = true ->
  (forall e, In e (live s) -> is_scheduled sched e = true \/ now - expires <= e_ts e ->
             In e (live (trace_cut b now expires sched s k))) /\
  (forall h, In h (hist (trace_cut b now expires sched s k)) ->
     In h (hist s) \/
     (seq s <= fst h /\ length (snd h) = b /\
      forall r, In r (snd h) -> exists e, In e (live s) /\ r = trow_of e /\
                                          is_scheduled sched e = false /\ e_ts e < now - expires)) /\
  (forall h, In h (hist s) -> In h (hist (trace_cut b now expires sched s k))) /\
  (forall e, In e (live (trace_cut b now expires sched s k)) -> In e (live s)).
Proof.
  intros Hk. repeat split.
  - intros e He Hp. apply trace_protected_stay; auto.
    unfold trace_candidate, expired. destruct Hp as [Hp|Hp]; [rewrite Hp; reflexivity|].
    apply andb_false_iff. right. lia.
  - intros h Hh. apply trace_snapshots in Hh; assumption.
  - intros h Hh. apply archive_old_snapshots. exact Hh.
  - intros e He. eapply archive_live_subset. exact He.
Qed.

Lemma thm_trace_partial (s : tstore) b now expires sched :
  (0 < b)%nat -> keys_unique e_key s = true ->
  (length (leftover b (trace_candidates now expires sched s)) < b)%nat /\
  length (archived_part b (trace_candidates now expires sched s))
    = (length (trace_candidates now expires sched s) / b * b)%nat /\
  (forall k e, In e (leftover b (trace_candidates now expires sched s)) ->
               In e (live (trace_cut b now expires sched s k))) /\
  (forall a c, In a (archived_part b (trace_candidates now expires sched s)) ->
               In c (leftover b (trace_candidates now expires sched s)) -> ev_leb a c = true) /\
  (forall e, In e (live (trace_done b now expires sched s)) <->
             In e (live s) /\ ~ In e (archived_part b (trace_candidates now expires sched s))) /\
  (forall e, In e (archived_part b (trace_candidates now expires sched s)) ->
             archived trow_of (trace_done b now expires sched s) e).
Proof.
  intros Hb Hk. split; [apply leftover_length; exact Hb|]. split; [apply archived_part_length|].
  split; [intros k e; apply trace_leftover_stay; exact Hk|].
  split; [intros a c; apply trace_leftover_newest|].
  split; intros e; apply (trace_complete s b now expires sched Hk e).
Qed.

Lemma thm_fin_lossless (s : fstore) b now expires k f :
  keys_unique f_inst s = true -> In f (live s) ->
  In f (live (fin_cut b now expires s k)) \/ archived fin_row (fin_cut b now expires s k) f.
Proof. intros Hk Hf. apply fin_lossless; assumption. Qed.

Lemma thm_fin_selection (s : fstore) b now expires k :
  keys_unique f_inst s = true ->
  (forall f, In f (live s) -> now - expires <= f_mtime f -> In f (live (fin_cut b now expires s k))) /\
  (forall h, In h (hist (fin_cut b now expires s k)) ->
     In h (hist s) \/
     (seq s <= fst h /\ length (snd h) = b /\ forall r, In r (snd h) -> In r (live s) /\ f_mtime r < now - expires)) /\
  (forall h, In h (hist s) -> In h (hist (fin_cut b now expires s k))) /\
  (forall f, In f (leftover b (fin_candidates now expires s)) -> In f (live (fin_cut b now expires s k))) /\
  ((0 < b)%nat -> (length (leftover b (fin_candidates now expires s)) < b)%nat).
Proof.
  intros Hk. repeat split.
  - intros f Hf Hy. apply fin_young_stay; assumption.
  - intros h Hh. apply fin_snapshots in Hh; assumption.
  - intros h Hh. apply archive_old_snapshots. exact Hh.
  - intros f Hf. apply fin_leftover_stay; assumption.
  - apply leftover_length.
Qed.

Lemma thm_prune_cut {A R} (key : A -> Z) (row_of : A -> R) (s : store A R) maxc k :
  live (cut key row_of s (prune_writes maxc s) k) = live s /\
  seq (cut key row_of s (prune_writes maxc s) k) = seq s /\
  (forall h, In h (hist (cut key row_of s (prune_writes maxc s) k)) -> In h (hist s)) /\
  (nodupb (map fst (hist s)) = true -> forall h, In h (hist s) ->
     Z.of_nat (count_gt (fst h) (map fst (hist s))) < maxc ->
     In h (hist (cut key row_of s (prune_writes maxc s) k))).
Proof.
  destruct (prune_cut key row_of s maxc k) as [H1 [H2 [H3 H4]]]. repeat split; auto.
  intros Hnd. apply H4. apply nodupb_NoDup. exact Hnd.
Qed.

Lemma thm_prune_complete {A R} (key : A -> Z) (row_of : A -> R) (s : store A R) maxc h :
  nodupb (map fst (hist s)) = true ->
  (In h (hist (apply_writes key row_of s (prune_writes maxc s))) <->
   In h (hist s) /\ Z.of_nat (count_gt (fst h) (map fst (hist s))) < maxc).
Proof. intros Hnd. apply prune_complete. apply nodupb_NoDup. exact Hnd. Qed.

Lemma thm_download (s : tstore) e :
  archived trow_of s e ->
  exists n rows, In (n, rows) (hist s) /\ In (e_key e) (download rows (e_inst e)) /\
                 forall i k, In k (download rows i) -> exists r, In r rows /\ r_inst r = i /\ r_key r = k.
Proof.
  intros H. destruct (archived_download s e H) as [n [rows [H1 H2]]]. exists n, rows.
  repeat split; auto. intros i k Hk. apply download_spec. exact Hk.
Qed.

Lemma thm_server (s : tstore) b W :
  keys_unique e_key s = true -> cleanup_server_trace_writes b s = Some W ->
  (forall k e, In e (live s) ->
     In e (live (cut e_key trow_of s W k)) \/ archived trow_of (cut e_key trow_of s W k) e) /\
  (forall k h, In h (hist (cut e_key trow_of s W k)) -> In h (hist s) \/ (seq s <= fst h /\ length (snd h) = b)) /\
  (length (live (apply_writes e_key trow_of s W)) < b)%nat.
Proof.
  intros Hk HW. unfold cleanup_server_trace_writes in HW.
  destruct (server_loop_batches _ _ _ _ HW) as [batches [-> [Hin Hlen]]].
  split; [|split].
  - intros k e He. apply archive_lossless; auto. apply keys_unique_NoDup. exact Hk.
  - intros k h Hh. apply archive_new_snapshot in Hh as [Hh|[batch [Hb [E Hn]]]]; [left; exact Hh|].
    right. split; [exact Hn|]. rewrite E, map_length. apply Hlen. exact Hb.
  - eapply server_loop_final. exact HW.
Qed.

Lemma thm_server_terminates (s : tstore) b :
  (0 < b)%nat -> cleanup_server_trace_writes b s <> None.
Proof. intros Hb. apply server_loop_terminates; [exact Hb | lia]. Qed.
